(* Spec/C15Versions.v — what the symbol-version sections MEAN.
   Written from the Oracle "Linker and Libraries Guide" (Versioning sections:
   Elf_Verdef/Verdaux, Elf_Verneed/Vernaux, Elf_Versym) and the LSB "Symbol
   Versioning" chapter (bit 15 of a versym half-word = hidden), NOT from the code.

   Version definitions and requirements are LINKED records: an entry names the
   byte displacement to its first auxiliary (vd_aux / vn_aux, from the entry's own
   offset), to the next entry (vd_next / vn_next, from the entry's own offset) and
   the number of auxiliaries (vd_cnt / vn_cnt); an auxiliary names the displacement
   to the next auxiliary (vda_next / vna_next, from its own offset).  A next link of
   ZERO means "there is no further record" (the versioning chapters give vd_next /
   vn_next / vda_next / vna_next as the offset to the next record, 0 when there is
   none; the dynamic linker and readelf stop there), so in a well-formed chain every record that HAS a successor carries a non-zero link; the
   link of the last record is free (linkers write 0, nothing forces them to).  Nothing
   says the records are adjacent, ordered or unpadded.  So the meaning of a section is
   given by a LAYOUT PREDICATE over arbitrary images: [chain img off recs] holds when
   record i sits at the offset reached by following the displacements of records
   0..i-1 starting at [off].  Every byte of the image that no record covers is
   free.  Names are NUL-terminated strings of the linked string table, addressed by
   byte offset from the start of that table.

   All predicates are bool so the driver can certify generated images and the
   non-vacuity Examples can evaluate them. *)
From PV Require Import Base.Fmt Base.Enum Spec.ElfGabi Spec.PrimSpec.
Open Scope Z_scope.
Open Scope list_scope.

(* ---------- placement of bytes in an image ---------- *)
Fixpoint bytes_eqb (a b : list Z) : bool :=
  match a, b with
  | [], [] => true
  | x :: a', y :: b' => (x =? y) && bytes_eqb a' b'
  | _, _ => false
  end.

(* img[off ..]: the bytes of the image from offset [off] on (nothing beyond the end).  [off] is counted down in Z
   so that the predicate can be EVALUATED on images whose displacements are garbage near 2^32 without building
   a unary number; it is skipn (Z.to_nat off) img (Proofs/C15Proofs.v from_off_eq) *)
Fixpoint from_off (img : list Z) (off : Z) : list Z :=
  if off <=? 0 then img
  else match img with
       | [] => []
       | _ :: r => from_off r (off - 1)
       end.

(* the bytes [bs] occupy img[off, off + |bs|) *)
Definition placed (img : list Z) (off : Z) (bs : list Z) : bool :=
  (0 <=? off) && bytes_eqb (firstn (List.length bs) (from_off img off)) bs.

(* the NUL-terminated string [s] starts at img[off] *)
Definition str_at (img : list Z) (off : Z) (s : list Z) : bool :=
  no_nul s && placed img off (s ++ [0]).

(* ---------- next links ---------- *)
(* a record with a successor must carry a non-zero next link; the last one is free *)
Definition link_ok {A} (next : Z) (rest : list A) : bool :=
  match rest with [] => true | _ :: _ => negb (next =? 0) end.

(* the chain is non-empty and its last record says "no further record" *)
Fixpoint ends_with_zero {A} (next : A -> Z) (l : list A) : bool :=
  match l with
  | [] => false
  | x :: r => match r with [] => next x =? 0 | _ :: _ => ends_with_zero next r end
  end.

(* ---------- section headers: the six fields this property reads (gABI fig. 4-8) ---------- *)
Record shdr := mk_shdr {
  sh_type : Z; sh_offset : Z; sh_size : Z; sh_entsize : Z; sh_link : Z; sh_info : Z }.

Definition SHT_SYMTAB : Z := 2.
Definition SHT_STRTAB : Z := 3.
Definition SHT_DYNSYM : Z := 11.
Definition SHT_GNU_verdef : Z := 0x6ffffffd.
Definition SHT_GNU_verneed : Z := 0x6ffffffe.
Definition SHT_GNU_versym : Z := 0x6fffffff.

(* section [n] of the header table has type [ty]; its sh_link names section [k] of type in [kty] *)
Definition linked (shdrs : list shdr) (n : nat) (ty : Z) (kty : list Z) : option (shdr * shdr) :=
  match nth_error shdrs n with
  | None => None
  | Some h =>
      if negb (sh_type h =? ty) || (sh_link h <? 0) then None
      else match nth_error shdrs (Z.to_nat (sh_link h)) with
           | None => None
           | Some k => if existsb (Z.eqb (sh_type k)) kty then Some (h, k) else None
           end
  end.

(* ---------- version definitions ---------- *)
Record verdaux := mk_verdaux {
  vda_name : Z;              (* string-table offset of the name *)
  vda_next : Z;              (* displacement to the next auxiliary (non-zero); free on the last one *)
  vda_str : list Z }.        (* the name the string table holds there *)

Record verdef := mk_verdef {
  vd_version : Z; vd_flags : Z; vd_ndx : Z; vd_hash : Z;
  vd_aux : Z;                (* displacement from this entry to its first auxiliary *)
  vd_next : Z;               (* displacement from this entry to the next (non-zero); free on the last one *)
  vd_auxs : list verdaux }.  (* vd_cnt = number of auxiliaries *)

Definition verdaux_vals (a : verdaux) : list fval := [VZ (vda_name a); VZ (vda_next a)].
Definition verdef_vals (d : verdef) : list fval :=
  [VZ (vd_version d); VZ (vd_flags d); VZ (vd_ndx d); VZ (zlen (vd_auxs d)); VZ (vd_hash d);
   VZ (vd_aux d); VZ (vd_next d)].

Definition enc_verdaux (le : bool) (a : verdaux) : list Z := encode_layout (spec_Elf_Verdaux le) (verdaux_vals a).
Definition enc_verdef (le : bool) (d : verdef) : list Z := encode_layout (spec_Elf_Verdef le) (verdef_vals d).
Definition verdaux_fits (le : bool) (a : verdaux) : bool := fits_layout (spec_Elf_Verdaux le) (verdaux_vals a).
Definition verdef_fits (le : bool) (d : verdef) : bool := fits_layout (spec_Elf_Verdef le) (verdef_vals d).

Fixpoint verdaux_chain (le : bool) (img : list Z) (stroff off : Z) (auxs : list verdaux) : bool :=
  match auxs with
  | [] => true
  | a :: r =>
      verdaux_fits le a && placed img off (enc_verdaux le a)
      && str_at img (stroff + vda_name a) (vda_str a)
      && link_ok (vda_next a) r
      && verdaux_chain le img stroff (off + vda_next a) r
  end.

Fixpoint verdef_chain (le : bool) (img : list Z) (stroff off : Z) (defs : list verdef) : bool :=
  match defs with
  | [] => true
  | d :: r =>
      verdef_fits le d && (1 <=? zlen (vd_auxs d)) && placed img off (enc_verdef le d)
      && verdaux_chain le img stroff (off + vd_aux d) (vd_auxs d)
      && link_ok (vd_next d) r
      && verdef_chain le img stroff (off + vd_next d) r
  end.

(* what a reader must report: every field as encoded, names resolved *)
Definition record := list (string * fval).
Definition aux_view := (record * list Z)%type.                       (* fields, name *)
Definition ver_view := (record * option (list Z) * list aux_view)%type.  (* fields, file name, auxiliaries *)

Definition verdaux_view (a : verdaux) : aux_view :=
  ([("vda_name", VZ (vda_name a)); ("vda_next", VZ (vda_next a))]%string, vda_str a).
Definition verdef_fields (d : verdef) : record :=
  [("vd_version", VZ (vd_version d)); ("vd_flags", VZ (vd_flags d)); ("vd_ndx", VZ (vd_ndx d));
   ("vd_cnt", VZ (zlen (vd_auxs d))); ("vd_hash", VZ (vd_hash d)); ("vd_aux", VZ (vd_aux d));
   ("vd_next", VZ (vd_next d))]%string.
Definition verdef_view (d : verdef) : ver_view :=
  (verdef_fields d, None, map verdaux_view (vd_auxs d)).

(* section [n] is a version-definition section holding exactly [defs] *)
Definition verdef_section_wf (le : bool) (img : list Z) (shdrs : list shdr) (n : nat) (defs : list verdef) : bool :=
  match linked shdrs n SHT_GNU_verdef [SHT_STRTAB] with
  | None => false
  | Some (h, st) =>
      (sh_info h =? zlen defs)
      && verdef_chain le img (sh_offset st) (sh_offset h) defs
  end.

(* section [n] is a version-definition section whose chain holds exactly [defs] and ENDS there with a zero
   link, while the header's sh_info claims at least that many (a corrupt, too large count): the zero
   link decides *)
Definition verdef_section_ended_wf (le : bool) (img : list Z) (shdrs : list shdr) (n : nat) (defs : list verdef) : bool :=
  match linked shdrs n SHT_GNU_verdef [SHT_STRTAB] with
  | None => false
  | Some (h, st) =>
      (zlen defs <=? sh_info h) && ends_with_zero vd_next defs
      && verdef_chain le img (sh_offset st) (sh_offset h) defs
  end.

(* the definition carrying version index [idx]: the first one in link order *)
Definition verdef_find (idx : Z) (defs : list verdef) : option verdef :=
  find (fun d => vd_ndx d =? idx) defs.

(* ---------- version requirements ---------- *)
Record vernaux := mk_vernaux {
  vna_hash : Z; vna_flags : Z;
  vna_other : Z;             (* the version index symbols refer to (0 = none assigned) *)
  vna_name : Z; vna_next : Z;
  vna_str : list Z }.

Record verneed := mk_verneed {
  vn_version : Z;
  vn_file : Z;               (* string-table offset of the file name *)
  vn_aux : Z; vn_next : Z;
  vn_str : list Z;           (* the file name *)
  vn_auxs : list vernaux }.  (* vn_cnt = number of auxiliaries *)

Definition vernaux_vals (a : vernaux) : list fval :=
  [VZ (vna_hash a); VZ (vna_flags a); VZ (vna_other a); VZ (vna_name a); VZ (vna_next a)].
Definition verneed_vals (d : verneed) : list fval :=
  [VZ (vn_version d); VZ (zlen (vn_auxs d)); VZ (vn_file d); VZ (vn_aux d); VZ (vn_next d)].

Definition enc_vernaux (le : bool) (a : vernaux) : list Z := encode_layout (spec_Elf_Vernaux le) (vernaux_vals a).
Definition enc_verneed (le : bool) (d : verneed) : list Z := encode_layout (spec_Elf_Verneed le) (verneed_vals d).
Definition vernaux_fits (le : bool) (a : vernaux) : bool := fits_layout (spec_Elf_Vernaux le) (vernaux_vals a).
Definition verneed_fits (le : bool) (d : verneed) : bool := fits_layout (spec_Elf_Verneed le) (verneed_vals d).

Fixpoint vernaux_chain (le : bool) (img : list Z) (stroff off : Z) (auxs : list vernaux) : bool :=
  match auxs with
  | [] => true
  | a :: r =>
      vernaux_fits le a && placed img off (enc_vernaux le a)
      && str_at img (stroff + vna_name a) (vna_str a)
      && link_ok (vna_next a) r
      && vernaux_chain le img stroff (off + vna_next a) r
  end.

Fixpoint verneed_chain (le : bool) (img : list Z) (stroff off : Z) (needs : list verneed) : bool :=
  match needs with
  | [] => true
  | d :: r =>
      verneed_fits le d && (1 <=? zlen (vn_auxs d)) && placed img off (enc_verneed le d)
      && str_at img (stroff + vn_file d) (vn_str d)
      && vernaux_chain le img stroff (off + vn_aux d) (vn_auxs d)
      && link_ok (vn_next d) r
      && verneed_chain le img stroff (off + vn_next d) r
  end.

Definition vernaux_view (a : vernaux) : aux_view :=
  ([("vna_hash", VZ (vna_hash a)); ("vna_flags", VZ (vna_flags a)); ("vna_other", VZ (vna_other a));
    ("vna_name", VZ (vna_name a)); ("vna_next", VZ (vna_next a))]%string, vna_str a).
Definition verneed_fields (d : verneed) : record :=
  [("vn_version", VZ (vn_version d)); ("vn_cnt", VZ (zlen (vn_auxs d))); ("vn_file", VZ (vn_file d));
   ("vn_aux", VZ (vn_aux d)); ("vn_next", VZ (vn_next d))]%string.
Definition verneed_view (d : verneed) : ver_view :=
  (verneed_fields d, Some (vn_str d), map vernaux_view (vn_auxs d)).

Definition verneed_section_wf (le : bool) (img : list Z) (shdrs : list shdr) (n : nat) (needs : list verneed) : bool :=
  match linked shdrs n SHT_GNU_verneed [SHT_STRTAB] with
  | None => false
  | Some (h, st) =>
      (sh_info h =? zlen needs)
      && verneed_chain le img (sh_offset st) (sh_offset h) needs
  end.

Definition verneed_section_ended_wf (le : bool) (img : list Z) (shdrs : list shdr) (n : nat) (needs : list verneed) : bool :=
  match linked shdrs n SHT_GNU_verneed [SHT_STRTAB] with
  | None => false
  | Some (h, st) =>
      (zlen needs <=? sh_info h) && ends_with_zero vn_next needs
      && verneed_chain le img (sh_offset st) (sh_offset h) needs
  end.

(* the requirement and auxiliary carrying version index [idx]: first in link order,
   entries outermost, each entry's auxiliaries in chain order *)
Fixpoint verneed_find (idx : Z) (needs : list verneed) : option (verneed * vernaux) :=
  match needs with
  | [] => None
  | d :: r =>
      match find (fun a => vna_other a =? idx) (vn_auxs d) with
      | Some a => Some (d, a)
      | None => verneed_find idx r
      end
  end.

(* what resolving an index through the requirements reports: the entry, its file name, the auxiliary *)
Definition verneed_hit_view (x : verneed * vernaux) : record * list Z * aux_view :=
  (verneed_fields (fst x), vn_str (fst x), vernaux_view (snd x)).

(* some auxiliary has a version index assigned *)
Definition verneed_has_indexes (needs : list verneed) : bool :=
  existsb (fun d => existsb (fun a => negb (vna_other a =? 0)) (vn_auxs d)) needs.

(* ---------- the version-symbol table ---------- *)
(* one half-word per dynamic symbol: bits 0..14 version index, bit 15 hidden *)
Record versym := mk_versym { vs_index : Z; vs_hidden : bool }.
Definition versym_value (v : versym) : Z := vs_index v + (if vs_hidden v then 32768 else 0).
Definition versym_fits (v : versym) : bool := (0 <=? vs_index v) && (vs_index v <? 32768).
Definition enc_versym (le : bool) (v : versym) : list Z := encode_layout (spec_Elf_Versym le) [VZ (versym_value v)].

(* the reserved half-word values that have standard names (sys/link.h, elf.h) *)
Definition spec_versym_names : list (Z * string) :=
  [(0, "VER_NDX_LOCAL"); (1, "VER_NDX_GLOBAL"); (0xff00, "VER_NDX_LORESERVE"); (0xff01, "VER_NDX_ELIMINATE")]%string.
(* a reader reports the standard name of a reserved value, the integer otherwise *)
Definition versym_report (v : Z) : enum_val :=
  match dict_get spec_versym_names v with Some n => Name n | None => Raw v end.

(* a dynamic symbol (gABI fig. 4-15), every field free, and the name its st_name addresses *)
Record dynsym := mk_dynsym {
  st_name : Z; st_bind : Z; st_type : Z; st_local : Z; st_pad : Z; st_visibility : Z;
  st_shndx : Z; st_value : Z; st_size : Z;
  st_str : list Z }.
Definition dynsym_vals (is64 : bool) (s : dynsym) : list fval :=
  let info := [VZ (st_bind s); VZ (st_type s)] in
  let other := [VZ (st_local s); VZ (st_pad s); VZ (st_visibility s)] in
  if is64 then [VZ (st_name s)] ++ info ++ other ++ [VZ (st_shndx s); VZ (st_value s); VZ (st_size s)]
  else [VZ (st_name s); VZ (st_value s); VZ (st_size s)] ++ info ++ other ++ [VZ (st_shndx s)].
Definition enc_dynsym (le is64 : bool) (s : dynsym) : list Z :=
  encode_layout (spec_Elf_Sym le is64) (dynsym_vals is64 s).
Definition dynsym_fits (le is64 : bool) (s : dynsym) : bool :=
  fits_layout (spec_Elf_Sym le is64) (dynsym_vals is64 s).

(* entry i of the version table at vs_off + i*vs_ent, symbol i at sym_off + i*sym_ent *)
Fixpoint versym_table (le is64 : bool) (img : list Z) (vs_off vs_ent sym_off sym_ent str_off : Z)
         (i : Z) (entries : list (versym * dynsym)) : bool :=
  match entries with
  | [] => true
  | (v, s) :: r =>
      versym_fits v && dynsym_fits le is64 s
      && placed img (vs_off + i * vs_ent) (enc_versym le v)
      && placed img (sym_off + i * sym_ent) (enc_dynsym le is64 s)
      && str_at img (str_off + st_name s) (st_str s)
      && versym_table le is64 img vs_off vs_ent sym_off sym_ent str_off (i + 1) r
  end.

Definition versym_view (e : versym * dynsym) : enum_val * list Z :=
  (versym_report (versym_value (fst e)), st_str (snd e)).

(* section [n] is a version-symbol section of exactly [entries] half-words; its symbol table holds a
   whole number of symbols, at least that many (linkers emit exactly that many; symbols beyond the
   version table are unconstrained and simply have no version entry) *)
Definition versym_section_wf (le is64 : bool) (img : list Z) (shdrs : list shdr) (n : nat)
           (entries : list (versym * dynsym)) : bool :=
  match linked shdrs n SHT_GNU_versym [SHT_SYMTAB; SHT_DYNSYM] with
  | None => false
  | Some (h, sy) =>
      match nth_error shdrs (Z.to_nat (sh_link sy)) with
      | None => false
      | Some st =>
          (0 <=? sh_link sy) && (sh_type st =? SHT_STRTAB)
          && (0 <? sh_entsize h) && (sh_size h =? zlen entries * sh_entsize h)
          && (0 <? sh_entsize sy) && (sh_size sy mod sh_entsize sy =? 0)
          && (zlen entries * sh_entsize sy <=? sh_size sy)
          && versym_table le is64 img (sh_offset h) (sh_entsize h) (sh_offset sy) (sh_entsize sy)
                          (sh_offset st) 0 entries
      end
  end.
