(* Spec/C08Spec.v — what relocation bytes MEAN, written from the standards (not from the code):
   * Elf32/Elf64 Rel/Rela entries and the ELF32_R_INFO / ELF64_R_INFO packing (gABI ch. 4
     "Relocation"), the MIPS ELF64 packed r_info (MIPS 64-bit ELF object file spec 2.4, 2.9);
   * RELR (gABI proposal "SHT_RELR", as implemented by glibc elf_dynamic_do_Relr);
   * the processor-supplement relocation table for the (machine, type) pairs of property C08:
     field width and formula over S, A, P and the in-place value V;
   * the reference application of a relocation list to a section image. *)
From PV Require Import Base.Fmt Base.Outcome Spec.ElfGabi.
Open Scope Z_scope.

(* ------------------------------------------------------------------ entries *)
Record rent := mkRent {
  r_off : Z; r_sym : Z; r_typ : Z;
  r_add : Z;                      (* meaningful for RELA only *)
  r_ssym : Z; r_t3 : Z; r_t2 : Z  (* MIPS ELF64 only *)
}.

(* ELF32_R_INFO(s,t) = (s << 8) + (unsigned char) t ;  ELF64_R_INFO(s,t) = (s << 32) + t *)
Definition r_info_of (is64 : bool) (e : rent) : Z :=
  if is64 then r_sym e * 4294967296 + r_typ e else r_sym e * 256 + r_typ e.

(* the synthesized MIPS64 r_info: the five file-order fields read as one big-endian 64-bit word *)
Definition mips64_info (e : rent) : Z :=
  Z.lor (Z.lor (Z.lor (Z.lor (Z.shiftl (r_sym e) 32) (Z.shiftl (r_ssym e) 24))
                      (Z.shiftl (r_t3 e) 16)) (Z.shiftl (r_t2 e) 8)) (r_typ e).

Definition rel_layout (le is64 mips64 rela : bool) : layout :=
  if mips64 then (if rela then spec_Elf_Rela_mips64 le else spec_Elf_Rel_mips64 le)
  else (if rela then spec_Elf_Rela le is64 else spec_Elf_Rel le is64).

Definition rent_vals (is64 mips64 rela : bool) (e : rent) : list fval :=
  ((if mips64
    then [VZ (r_off e); VZ (r_sym e); VZ (r_ssym e); VZ (r_t3 e); VZ (r_t2 e); VZ (r_typ e)]
    else [VZ (r_off e); VZ (r_info_of is64 e)])
   ++ (if rela then [VZ (r_add e)] else []))%list.

Definition encode_rent (le is64 mips64 rela : bool) (e : rent) : list Z :=
  encode_layout (rel_layout le is64 mips64 rela) (rent_vals is64 mips64 rela e).
Definition encode_table (le is64 mips64 rela : bool) (es : list rent) : list Z :=
  List.concat (map (encode_rent le is64 mips64 rela) es).

Definition inr (lo hi x : Z) : bool := (lo <=? x) && (x <? hi).

(* the values an entry may carry: every field in the range of its file representation *)
Definition rent_wf (is64 mips64 rela : bool) (e : rent) : bool :=
  if mips64 then
    inr 0 (2^64) (r_off e) && inr 0 (2^32) (r_sym e) && inr 0 256 (r_ssym e) && inr 0 256 (r_t3 e) &&
    inr 0 256 (r_t2 e) && inr 0 256 (r_typ e) && (negb rela || inr (-2^63) (2^63) (r_add e))
  else if is64 then
    inr 0 (2^64) (r_off e) && inr 0 (2^32) (r_sym e) && inr 0 (2^32) (r_typ e) &&
    (negb rela || inr (-2^63) (2^63) (r_add e))
  else
    inr 0 (2^32) (r_off e) && inr 0 (2^24) (r_sym e) && inr 0 256 (r_typ e) &&
    (negb rela || inr (-2^31) (2^31) (r_add e)).

(* what a reader must report for an entry (field names as pyelftools exposes them) *)
Definition rent_view (is64 mips64 rela : bool) (e : rent) : list (string * fval) :=
  ((if mips64 then
     [("r_offset", VZ (r_off e)); ("r_sym", VZ (r_sym e)); ("r_ssym", VZ (r_ssym e));
      ("r_type3", VZ (r_t3 e)); ("r_type2", VZ (r_t2 e)); ("r_type", VZ (r_typ e));
      ("r_info_sym", VZ (r_sym e)); ("r_info_ssym", VZ (r_ssym e)); ("r_info_type", VZ (r_typ e));
      ("r_info_type2", VZ (r_t2 e)); ("r_info_type3", VZ (r_t3 e)); ("r_info", VZ (mips64_info e))]
   else
     [("r_offset", VZ (r_off e)); ("r_info", VZ (r_info_of is64 e));
      ("r_info_sym", VZ (r_sym e)); ("r_info_type", VZ (r_typ e))])
   ++ (if rela then [("r_addend", VZ (r_add e))] else []))%list%string.

Definition rel_entsize (is64 mips64 rela : bool) : Z :=
  if is64 then (if rela then 24 else 16) else (if rela then 12 else 8).

(* ------------------------------------------------------------------ RELR *)
(* Words are Elf_Relr = Elf32_Word / Elf64_Xword.  An even word is an address: it denotes
   itself and sets where := addr + wordsize.  An odd word is a bitmap: bit (i+1), for
   0 <= i < wordbits-1, denotes where + i*wordsize; afterwards where += (wordbits-1)*wordsize.
   A bitmap before any address has no base: malformed. *)
Definition wordsize (is64 : bool) : Z := if is64 then 8 else 4.
Definition wordbits (is64 : bool) : Z := if is64 then 64 else 32.

Definition bitmap_addrs (is64 : bool) (where_ w : Z) : list Z :=
  map (fun i => where_ + Z.of_nat i * wordsize is64)
      (filter (fun i => Z.testbit w (Z.of_nat i + 1)) (seq 0 (Z.to_nat (wordbits is64 - 1)))).

Fixpoint relr_spec_go (is64 : bool) (where_ : option Z) (ws : list Z) : res (list Z) :=
  match ws with
  | [] => Ok []
  | w :: r =>
      if Z.even w then
        do rest <- relr_spec_go is64 (Some (w + wordsize is64)) r; Ok (w :: rest)
      else
        match where_ with
        | None => Err EElf
        | Some b =>
            do rest <- relr_spec_go is64 (Some (b + (wordbits is64 - 1) * wordsize is64)) r;
            Ok (bitmap_addrs is64 b w ++ rest)%list
        end
  end.
Definition relr_spec (is64 : bool) (ws : list Z) : res (list Z) := relr_spec_go is64 None ws.

Definition encode_relr (le is64 : bool) (ws : list Z) : list Z :=
  List.concat (map (fun w => encode_layout (spec_Elf_Relr le is64) [VZ w]) ws).
Definition relr_words_wf (is64 : bool) (ws : list Z) : bool :=
  forallb (inr 0 (2 ^ wordbits is64)) ws.
(* every denoted address is representable: the property compares address sequences *)
Definition relr_no_overflow (is64 : bool) (ws : list Z) : bool :=
  match relr_spec is64 ws with
  | Ok l => forallb (inr 0 (2 ^ wordbits is64)) l
  | Err _ => true
  end.

(* ------------------------------------------------------------------ psABI table *)
Inductive formula :=
| FNone      (* R_*_NONE: no field, no calculation *)
| FSA        (* S + A *)
| FSAP       (* S + A - P *)
| FAdd       (* V + S + A   (R_LARCH_ADDn: the word at the place is incremented) *)
| FSub.      (* V - S - A   (R_LARCH_SUBn) *)

Definition eval_formula (f : formula) (V S P A : Z) : Z :=
  match f with
  | FNone => V
  | FSA => S + A
  | FSAP => S + A - P
  | FAdd => V + S + A
  | FSub => V - S - A
  end.

(* e_machine numbers (gABI / registry) *)
Definition EM_386 := 3.   Definition EM_MIPS := 8.     Definition EM_PPC64 := 21.  Definition EM_S390 := 22.
Definition EM_ARM := 40.  Definition EM_X86_64 := 62.  Definition EM_AARCH64 := 183. Definition EM_LOONGARCH := 258.
Definition listed_machines : list Z :=
  [EM_386; EM_X86_64; EM_ARM; EM_AARCH64; EM_MIPS; EM_PPC64; EM_S390; EM_LOONGARCH].

(* (machine, is_rela, type number, name, field width in bytes, formula).
   i386 psABI fig. 4-4 (REL); x86-64 psABI table 4.10 (RELA); ELF for the Arm architecture
   (R_ARM_ABS32, REL on Linux); ELF for the Arm 64-bit architecture table 4-6 (RELA);
   MIPS o32 psABI fig. 4-11 (REL) and MIPS64 ELF spec table 32 (RELA); 64-bit PowerPC ELF ABI
   table 3 (RELA); s390x ELF ABI supplement fig. 1-?? "Relocation types" (RELA);
   LoongArch ELF psABI table "Relocation types" (RELA). *)
Definition psabi_table : list (Z * bool * Z * string * nat * formula) := [
  (EM_386, false, 0, "R_386_NONE", 0%nat, FNone);
  (EM_386, false, 1, "R_386_32", 4%nat, FSA);
  (EM_386, false, 2, "R_386_PC32", 4%nat, FSAP);
  (EM_X86_64, true, 0, "R_X86_64_NONE", 0%nat, FNone);
  (EM_X86_64, true, 1, "R_X86_64_64", 8%nat, FSA);
  (EM_X86_64, true, 2, "R_X86_64_PC32", 4%nat, FSAP);
  (EM_X86_64, true, 10, "R_X86_64_32", 4%nat, FSA);
  (EM_X86_64, true, 11, "R_X86_64_32S", 4%nat, FSA);
  (EM_ARM, false, 2, "R_ARM_ABS32", 4%nat, FSA);
  (EM_AARCH64, true, 257, "R_AARCH64_ABS64", 8%nat, FSA);
  (EM_AARCH64, true, 258, "R_AARCH64_ABS32", 4%nat, FSA);
  (EM_AARCH64, true, 261, "R_AARCH64_PREL32", 4%nat, FSAP);
  (EM_MIPS, false, 0, "R_MIPS_NONE", 0%nat, FNone);
  (EM_MIPS, false, 2, "R_MIPS_32", 4%nat, FSA);
  (EM_MIPS, true, 0, "R_MIPS_NONE", 0%nat, FNone);
  (EM_MIPS, true, 2, "R_MIPS_32", 4%nat, FSA);
  (EM_MIPS, true, 18, "R_MIPS_64", 8%nat, FSA);
  (EM_PPC64, true, 1, "R_PPC64_ADDR32", 4%nat, FSA);
  (EM_PPC64, true, 26, "R_PPC64_REL32", 4%nat, FSAP);
  (EM_PPC64, true, 38, "R_PPC64_ADDR64", 8%nat, FSA);
  (EM_S390, true, 4, "R_390_32", 4%nat, FSA);
  (EM_S390, true, 5, "R_390_PC32", 4%nat, FSAP);
  (EM_S390, true, 22, "R_390_64", 8%nat, FSA);
  (EM_LOONGARCH, true, 0, "R_LARCH_NONE", 0%nat, FNone);
  (EM_LOONGARCH, true, 1, "R_LARCH_32", 4%nat, FSA);
  (EM_LOONGARCH, true, 2, "R_LARCH_64", 8%nat, FSA);
  (EM_LOONGARCH, true, 47, "R_LARCH_ADD8", 1%nat, FAdd);
  (EM_LOONGARCH, true, 48, "R_LARCH_ADD16", 2%nat, FAdd);
  (EM_LOONGARCH, true, 50, "R_LARCH_ADD32", 4%nat, FAdd);
  (EM_LOONGARCH, true, 51, "R_LARCH_ADD64", 8%nat, FAdd);
  (EM_LOONGARCH, true, 52, "R_LARCH_SUB8", 1%nat, FSub);
  (EM_LOONGARCH, true, 53, "R_LARCH_SUB16", 2%nat, FSub);
  (EM_LOONGARCH, true, 55, "R_LARCH_SUB32", 4%nat, FSub);
  (EM_LOONGARCH, true, 56, "R_LARCH_SUB64", 8%nat, FSub);
  (EM_LOONGARCH, true, 99, "R_LARCH_32_PCREL", 4%nat, FSAP);
  (EM_LOONGARCH, true, 109, "R_LARCH_64_PCREL", 8%nat, FSAP)
]%string.

Fixpoint psabi_find (t : list (Z * bool * Z * string * nat * formula)) (em : Z) (rela : bool) (typ : Z)
  : option (nat * formula) :=
  match t with
  | [] => None
  | (m, r, ty, _, n, f) :: rest =>
      if (m =? em) && Bool.eqb r rela && (ty =? typ) then Some (n, f) else psabi_find rest em rela typ
  end.
Definition psabi_lookup := psabi_find psabi_table.

(* the entry flavour(s) each machine's supported set uses *)
Definition flavour_ok (em : Z) (rela : bool) : bool :=
  if em =? EM_MIPS then true                                   (* o32: REL, n32/n64: RELA *)
  else if (em =? EM_386) || (em =? EM_ARM) then negb rela
  else if (em =? EM_X86_64) || (em =? EM_AARCH64) || (em =? EM_PPC64) || (em =? EM_S390) || (em =? EM_LOONGARCH)
       then rela
  else true.   (* other machines: no supported type at all, see psabi_lookup *)

(* ------------------------------------------------------------------ reference application *)
Definition splice (s : list Z) (off : nat) (bs : list Z) : list Z :=
  (firstn off s ++ bs ++ skipn (off + length bs) s)%list.

(* gABI: "If the index is STN_UNDEF, the undefined symbol index, the relocation uses 0 as the symbol value" *)
Definition sym_S (symvals : list Z) (sym : Z) : Z :=
  if sym =? 0 then 0 else nth (Z.to_nat sym) symvals 0.

(* compound MIPS64 relocations (a second/third type or a special symbol) are outside the supported set *)
Definition mips64_compound (e : rent) : bool :=
  negb ((r_t2 e =? 0) && (r_t3 e =? 0) && (r_ssym e =? 0)).

Definition spec_apply_one (le is64 : bool) (em : Z) (rela : bool) (symvals : list Z)
           (s : list Z) (e : rent) : res (list Z) :=
  if negb (r_sym e <? zlen symvals) then Err EReloc
  else if negb (flavour_ok em rela) then Err EReloc
  else if (em =? EM_MIPS) && rela && is64 && (r_typ e =? 18) && mips64_compound e then Err EReloc
  else match psabi_lookup em rela (r_typ e) with
  | None => Err EReloc
  | Some (_, FNone) => Ok s
  | Some (n, f) =>
      if (0 <=? r_off e) && (r_off e + Z.of_nat n <=? zlen s) then
        let off := Z.to_nat (r_off e) in
        let V := int_decode le (slice s off n) in
        let A := if rela then r_add e else V in        (* REL: the addend is the in-place value *)
        Ok (splice s off (int_encode le n (wrap n (eval_formula f V (sym_S symvals (r_sym e)) (r_off e) A))))
      else Err EParse
  end.

Fixpoint spec_apply_all (le is64 : bool) (em : Z) (rela : bool) (symvals : list Z)
         (s : list Z) (es : list rent) : res (list Z) :=
  match es with
  | [] => Ok s
  | e :: r => do s1 <- spec_apply_one le is64 em rela symvals s e; spec_apply_all le is64 em rela symvals s1 r
  end.

(* the domain of the application clause: listed machine, a well-formed symbol table (entry 0 is
   the undefined symbol), every relocated field inside the section; R_*_NONE at least one
   doubleword before the end (the psABI gives it no field, hence no offset constraint: we do not
   demand anything there); MIPS64 entries of other types carry no second/third type;
   r_offset below 2^63 (a seekable position) *)
Definition apply_entry_wf (is64 : bool) (em : Z) (rela : bool) (slen : Z) (e : rent) : bool :=
  match psabi_lookup em rela (r_typ e) with
  | Some (_, FNone) => (0 <=? r_off e) && (r_off e + 8 <=? slen)
  | Some (n, _) => (0 <=? r_off e) && (r_off e + Z.of_nat n <=? slen)
  | None => true
  end &&
  (negb ((em =? EM_MIPS) && is64) || (r_typ e =? 18) || negb (mips64_compound e)) &&
  negb ((em =? EM_ARM) && (r_typ e =? 28)).      (* R_ARM_CALL: handled by the library, outside this property *)

Definition apply_wf (is64 : bool) (em : Z) (rela : bool) (symvals : list Z) (s : list Z) (es : list rent) : bool :=
  existsb (Z.eqb em) listed_machines &&
  (nth 0 symvals 0 =? 0) &&
  forallb (apply_entry_wf is64 em rela (zlen s)) es.

(* ------------------------------------------------------------------ symbols and dynamic tags *)
Definition sym_vals_of (is64 : bool) (name value size bind typ other_local other_vis shndx : Z) : list fval :=
  if is64 then [VZ name; VZ bind; VZ typ; VZ other_local; VZ 0; VZ other_vis; VZ shndx; VZ value; VZ size]
  else [VZ name; VZ value; VZ size; VZ bind; VZ typ; VZ other_local; VZ 0; VZ other_vis; VZ shndx].
Definition encode_sym (le is64 : bool) (name value : Z) : list Z :=
  encode_layout (spec_Elf_Sym le is64) (sym_vals_of is64 name value 0 0 0 0 0 0).
Definition encode_dyn (le is64 : bool) (tag val : Z) : list Z :=
  encode_layout (spec_Elf_Dyn le is64) [VZ tag; VZ val].

(* ------------------------------------------------------------------ how many sections a file has *)
(* gABI ch. 4 "ELF header" / "Sections": e_shnum holds the number of section headers; if that number
   is >= SHN_LORESERVE (0xff00), e_shnum is 0 and the number is in sh_size of section header 0
   (otherwise that sh_size is 0).  A relocation section may sit at any index of the table. *)
Definition SHN_LORESERVE := 0xff00.
(* (e_shnum, sh_size of section header 0) of a file with n section headers *)
Definition shnum_fields (n : Z) : Z * Z := if n <? SHN_LORESERVE then (n, 0) else (0, n).
