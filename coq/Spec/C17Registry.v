(* Spec/C17Registry.v — what "the value assigned by the registry" means.
   Gen/Registry.v is the list of (C identifier, value) scraped from the vendored glibc elf.h
   and LLVM 14 BinaryFormat headers (only names on which every defining source agrees;
   counts such as *_NUM excluded; see tools/gen/gen_registry.py).  The registry is read as
   a partial function from names to numbers. *)
From Coq Require Import ZArith List Bool String.
From PV Require Export Base.Enum Gen.Registry.
Import ListNotations.
Open Scope Z_scope.

Definition registry_lookup (n : string) : option Z := tfind registry n.

(* every name of T that the registry defines has the registry's value *)
Definition registry_agrees (T : table) : Prop :=
  forall n v v', In (n, v) T -> registry_lookup n = Some v' -> v = v'.

Definition registry_agreesb (T : table) : bool := agreesb registry_lookup T.

(* executable form of "the registry defines every name at most once" *)
Fixpoint names_distinct (l : list string) : bool :=
  match l with
  | [] => true
  | n :: r => negb (existsb (String.eqb n) r) && names_distinct r
  end.

(* how many pairs of T have a registry counterpart (coverage; reported in the evidence) *)
Definition covered (T : table) : Z :=
  Z.of_nat (List.length (filter (fun nv => match registry_lookup (fst nv) with Some _ => true | None => false end) T)).

Definition table_named (TS : list (string * table)) (t : string) : table :=
  match find (fun x => String.eqb (fst x) t) TS with Some x => snd x | None => [] end.
