(* Spec/PrimSpec.v — what the primitive encodings MEAN (DWARF 5 §7.6, §7.4,
   gABI data representation).  Relations cover every valid encoding, including
   non-minimal LEB128. *)
From Coq Require Import String.
From PV Require Export Base.Bytes.

(* unsigned LEB128: low 7 bits first, high bit = continuation *)
Inductive uleb_valid : list Z -> Z -> Prop :=
| uv_last b : 0 <= b < 128 -> uleb_valid [b] b
| uv_more b r v : 128 <= b < 256 -> uleb_valid r v ->
                  uleb_valid (b :: r) ((b - 128) + 128 * v).

(* signed LEB128: bit 6 of the last byte is the sign *)
Inductive sleb_valid : list Z -> Z -> Prop :=
| sv_pos b : 0 <= b < 64 -> sleb_valid [b] b
| sv_neg b : 64 <= b < 128 -> sleb_valid [b] (b - 128)
| sv_more b r v : 128 <= b < 256 -> sleb_valid r v ->
                  sleb_valid (b :: r) ((b - 128) + 128 * v).

(* canonical (minimal) encoders, used by the correspondence generators and to
   show the relations are inhabited for every value *)
Fixpoint uleb_encode_fuel (fuel : nat) (v : Z) : list Z :=
  match fuel with
  | O => [v mod 128]
  | S f => if v <? 128 then [v] else (128 + v mod 128) :: uleb_encode_fuel f (v / 128)
  end.
Definition uleb_encode (v : Z) : list Z := uleb_encode_fuel (Z.to_nat (Z.log2 v)) v.
(* padded (non-minimal) encoder: exactly [n] extra continuation bytes *)
Fixpoint uleb_pad_zero (k : nat) : list Z :=
  match k with O => [0] | S j => 128 :: uleb_pad_zero j end.
Fixpoint uleb_pad (bs : list Z) (n : nat) : list Z :=
  match bs with
  | [] => []
  | b :: r =>
      match r with
      | [] => match n with O => [b] | S k => (b + 128) :: uleb_pad_zero k end
      | _ => b :: uleb_pad r n
      end
  end.

Fixpoint sleb_encode_fuel (fuel : nat) (v : Z) : list Z :=
  match fuel with
  | O => [v mod 128]
  | S f => if (-64 <=? v) && (v <? 64) then [v mod 128]
           else (128 + v mod 128) :: sleb_encode_fuel f (v / 128)
  end.
Definition sleb_encode (v : Z) : list Z :=
  sleb_encode_fuel (S (Z.to_nat (Z.log2 (Z.abs v)))) v.

Definition no_nul (s : list Z) : bool := forallb (fun b => negb (b =? 0)) s.
Definition cstring_encode (s : list Z) : list Z := s ++ [0].

(* DWARF §7.4: 32-bit length < 0xfffffff0; 0xffffffff escapes to a 64-bit length;
   0xfffffff0 .. 0xfffffffe are reserved *)
Definition initial_length_encode (le : bool) (len : Z) (is64 : bool) : list Z :=
  if is64 then int_encode le 4 0xffffffff ++ int_encode le 8 len
  else int_encode le 4 len.
Definition initial_length_wf (len : Z) (is64 : bool) : bool :=
  if is64 then (0 <=? len) && (len <? 2 ^ 64)
  else (0 <=? len) && (len <? 0xfffffff0).
Definition initial_length_reserved (first : Z) : bool :=
  (0xfffffff0 <=? first) && (first <? 0xffffffff).

(* arithmetic reading of LEB128 (no bit operations): the executable form of the
   relations above, total on byte strings *)
Fixpoint uleb_spec (bs : list Z) : option (Z * list Z) :=
  match bs with
  | [] => None
  | b :: r =>
      if b <? 128 then Some (b, r)
      else match uleb_spec r with
           | Some (v, t) => Some ((b - 128) + 128 * v, t)
           | None => None
           end
  end.
Fixpoint sleb_spec (bs : list Z) : option (Z * list Z) :=
  match bs with
  | [] => None
  | b :: r =>
      if b <? 64 then Some (b, r)
      else if b <? 128 then Some (b - 128, r)
      else match sleb_spec r with
           | Some (v, t) => Some ((b - 128) + 128 * v, t)
           | None => None
           end
  end.

(* ---- the named fixed-width integer fields of the two struct factories, from the standards:
   DWARF: uintN / intN are N-bit unsigned / two's-complement, offset and length are 4 bytes in the
   32-bit format and 8 in the 64-bit format (7.4), target addresses have the unit's address size;
   gABI data representation: Elf32/64_Half = 2, Word = 4, Sword = signed 4, Xword = 4|8,
   Sxword = signed 4|8, Addr and Off = 4|8 by class; all in the file's byte order *)
Definition spec_dwarf_prims (le : bool) (fmt asz : Z) : list (String.string * (bool * Z * bool)) :=
  let off := if Z.eqb fmt 32 then 4 else 8 in
  [("Dwarf_uint8", (false, 1, le)); ("Dwarf_uint16", (false, 2, le)); ("Dwarf_uint24", (false, 3, le));
   ("Dwarf_uint32", (false, 4, le)); ("Dwarf_uint64", (false, 8, le));
   ("Dwarf_int8", (true, 1, le)); ("Dwarf_int16", (true, 2, le)); ("Dwarf_int32", (true, 4, le));
   ("Dwarf_int64", (true, 8, le));
   ("Dwarf_offset", (false, off, le)); ("Dwarf_length", (false, off, le));
   ("Dwarf_target_addr", (false, asz, le))]%string.
Definition spec_elf_prims (le : bool) (cls : Z) : list (String.string * (bool * Z * bool)) :=
  let w := if Z.eqb cls 32 then 4 else 8 in
  [("Elf_byte", (false, 1, le)); ("Elf_half", (false, 2, le)); ("Elf_word", (false, 4, le));
   ("Elf_word64", (false, 8, le)); ("Elf_addr", (false, w, le)); ("Elf_offset", (false, w, le));
   ("Elf_sword", (true, 4, le)); ("Elf_xword", (false, w, le)); ("Elf_sxword", (true, w, le))]%string.
Definition all_dwarf_cfgs : list (bool * Z * Z) :=
  flat_map (fun le => flat_map (fun f => map (fun a => (le, f, a)) [4; 8]) [32; 64]) [true; false].
Definition all_elf_cfgs : list (bool * Z) :=
  flat_map (fun le => map (fun c => (le, c)) [32; 64]) [true; false].

(* DWARF 7.4: the initial length occupies 4 bytes in the 32-bit format and 12 (0xffffffff + 8) in the 64-bit one *)
Definition spec_initlen_field_size (fmt : Z) : Z := if Z.eqb fmt 32 then 4 else 12.

