(* Spec/C20Ehabi.v — what .ARM.exidx / .ARM.extab bytes MEAN.
   Source: "Exception Handling ABI for the Arm Architecture" (IHI 0038):
   section 5 (index table entries), section 6 (handler table entries: generic and
   compact model), section 10.2 (the three personality routines Su16/Lu16/Lu32) and
   section 9.3, Table 4 (frame unwinding instructions).  Mnemonic texts are those of
   llvm-readobj's ARMEHABIPrinter, the notation the library documents as its reference.

   Index entry, two words:
     word0 = prel31 offset of the function (bit 31 clear)
     word1 = 0x1                      EXIDX_CANTUNWIND
           | bit 31 clear             prel31 offset of the handler-table entry
           | bit 31 set               the table entry itself, inline (compact, index 0)
   Table entry, first word:
     bit 31 clear                     generic model: prel31 offset of the personality routine
     bit 31 set, bits 30-28 = 0       compact model, bits 27-24 = personality index:
        0 (Su16)   bits 23-0 = three unwind instruction bytes
        1,2 (Lu16/Lu32) bits 23-16 = N additional words, bits 15-0 = two instruction
                   bytes, then N words of four instruction bytes, most significant first
   prel31: bits 30-0 are a two's complement offset relative to the address of the word. *)
From PV Require Export Base.Bytes Spec.PrimSpec Model.C20Types.
Open Scope string_scope.
Open Scope list_scope.
Open Scope Z_scope.

(* ---------------- prel31 ---------------- *)
Definition sext31 (x : Z) : Z := if x <? 2 ^ 30 then x else x - 2 ^ 31.
(* the code's contract: address uint32, place uint32, result uint64 *)
Definition prel31_spec (w place : Z) : Z := (place + sext31 (w mod 2 ^ 31)) mod 2 ^ 64.
(* the 31-bit field encoding displacement d, -2^30 <= d < 2^30 *)
Definition prel31_encode (d : Z) : Z := d mod 2 ^ 31.
Definition disp_ok (d : Z) : bool := (- 2 ^ 30 <=? d) && (d <? 2 ^ 30).

(* ---------------- index and table entries ---------------- *)
Definition quad : Type := (Z * Z * Z * Z)%type.

Inductive eh_abs : Type :=
| ECantUnwind (fd : Z)
| EInline (fd : Z) (b0 b1 b2 : Z)                        (* inline compact model, index 0 *)
| ETable0 (fd tbl : Z) (b0 b1 b2 : Z)                    (* table entry, Su16 *)
| ETable12 (fd tbl idx : Z) (b0 b1 : Z) (more : list quad) (* table entry, Lu16 / Lu32 *)
| EGeneric (fd tbl pd : Z)                               (* table entry, generic model *)
| ECorruptIndex (w0 w1 : Z)                              (* bit 31 of the first index word set *)
| ECorruptInline (fd w1 : Z)                             (* inline word with a non-zero index field *)
| ECorruptTable (fd tbl tw : Z)                          (* compact table word with bits 30-28 set *)
| ECorruptModel (fd tbl idx low : Z).                    (* compact model index 3..15 *)
(* fd, pd: displacements of the function / personality routine from the word that holds
   them; tbl: file offset of the handler-table entry *)

Definition byteb (b : Z) : bool := (0 <=? b) && (b <? 256).
Definition quadb (q : quad) : bool :=
  let '(a, b, c, d) := q in byteb a && byteb b && byteb c && byteb d.
Definition quad_word (q : quad) : Z :=
  let '(a, b, c, d) := q in a * 2 ^ 24 + b * 2 ^ 16 + c * 2 ^ 8 + d.
Definition quad_bytes (q : quad) : list Z := let '(a, b, c, d) := q in [a; b; c; d].

(* the table displacement is relative to the second index word, at place + 4 *)
Definition tbl_ok (place tbl : Z) : bool :=
  (0 <=? tbl) && disp_ok (tbl - (place + 4)) && negb (prel31_encode (tbl - (place + 4)) =? 1).

Definition wf_entry (place : Z) (a : eh_abs) : bool :=
  match a with
  | ECantUnwind fd => disp_ok fd
  | EInline fd b0 b1 b2 => disp_ok fd && byteb b0 && byteb b1 && byteb b2
  | ETable0 fd tbl b0 b1 b2 => disp_ok fd && tbl_ok place tbl && byteb b0 && byteb b1 && byteb b2
  | ETable12 fd tbl idx b0 b1 more =>
      disp_ok fd && tbl_ok place tbl && ((idx =? 1) || (idx =? 2)) && byteb b0 && byteb b1
      && forallb quadb more && (zlen more <? 256)
  | EGeneric fd tbl pd => disp_ok fd && tbl_ok place tbl && disp_ok pd
  | ECorruptIndex w0 w1 => (2 ^ 31 <=? w0) && (w0 <? 2 ^ 32) && (0 <=? w1) && (w1 <? 2 ^ 32)
  | ECorruptInline fd w1 =>
      disp_ok fd && (2 ^ 31 <=? w1) && (w1 <? 2 ^ 32) && negb ((w1 / 2 ^ 24) mod 128 =? 0)
  | ECorruptTable fd tbl tw =>
      disp_ok fd && tbl_ok place tbl && (2 ^ 31 <=? tw) && (tw <? 2 ^ 32)
      && negb ((tw / 2 ^ 28) mod 8 =? 0)
  | ECorruptModel fd tbl idx low =>
      disp_ok fd && tbl_ok place tbl && (3 <=? idx) && (idx <? 16) && (0 <=? low) && (low <? 2 ^ 24)
  end.

Definition index_words (place : Z) (a : eh_abs) : Z * Z :=
  let t tbl := prel31_encode (tbl - (place + 4)) in
  match a with
  | ECantUnwind fd => (prel31_encode fd, 1)
  | EInline fd b0 b1 b2 => (prel31_encode fd, 2 ^ 31 + b0 * 2 ^ 16 + b1 * 2 ^ 8 + b2)
  | ETable0 fd tbl _ _ _ => (prel31_encode fd, t tbl)
  | ETable12 fd tbl _ _ _ _ => (prel31_encode fd, t tbl)
  | EGeneric fd tbl _ => (prel31_encode fd, t tbl)
  | ECorruptIndex w0 w1 => (w0, w1)
  | ECorruptInline fd w1 => (prel31_encode fd, w1)
  | ECorruptTable fd tbl _ => (prel31_encode fd, t tbl)
  | ECorruptModel fd tbl _ _ => (prel31_encode fd, t tbl)
  end.

Definition enc_index (le : bool) (place : Z) (a : eh_abs) : list Z :=
  let '(w0, w1) := index_words place a in int_encode le 4 w0 ++ int_encode le 4 w1.

(* the words of the handler-table entry (empty when the entry has none) *)
Definition table_words (a : eh_abs) : list Z :=
  match a with
  | ETable0 _ _ b0 b1 b2 => [2 ^ 31 + b0 * 2 ^ 16 + b1 * 2 ^ 8 + b2]
  | ETable12 _ _ idx b0 b1 more =>
      (2 ^ 31 + idx * 2 ^ 24 + zlen more * 2 ^ 16 + b0 * 2 ^ 8 + b1) :: map quad_word more
  | EGeneric _ _ pd => [prel31_encode pd]
  | ECorruptTable _ _ tw => [tw]
  | ECorruptModel _ _ idx low => [2 ^ 31 + idx * 2 ^ 24 + low]
  | _ => []
  end.
Definition table_offset (a : eh_abs) : Z :=
  match a with
  | ETable0 _ tbl _ _ _ | ETable12 _ tbl _ _ _ _ | EGeneric _ tbl _
  | ECorruptTable _ tbl _ | ECorruptModel _ tbl _ _ => tbl
  | _ => 0
  end.
Definition enc_table (le : bool) (a : eh_abs) : list Z :=
  List.concat (map (int_encode le 4) (table_words a)).

Definition corrupt_out : eh_out :=
  {| eo_function_offset := None; eo_personality := None; eo_bytecode := None;
     eo_eh_table_offset := None; eo_unwindable := true; eo_corrupt := true |}.
Definition entry_out (fn : Z) (pers : option Z) (bc : option (list Z)) (tbl : option Z) (unw : bool) :=
  {| eo_function_offset := Some fn; eo_personality := pers; eo_bytecode := bc;
     eo_eh_table_offset := tbl; eo_unwindable := unw; eo_corrupt := false |}.

(* The library documents eh_table_offset as "only entries who point to .ARM.extab
   contain this field, otherwise None".  For the two table kinds that have no words
   after the first one (Su16 and the generic model) the text does not settle whether
   the offset is reported; the specification leaves the field open there. *)
Definition tbl_specified (a : eh_abs) : bool :=
  match a with ETable0 _ _ _ _ _ | EGeneric _ _ _ => false | _ => true end.
Definition erase_tbl (r : eh_out) : eh_out :=
  {| eo_function_offset := eo_function_offset r; eo_personality := eo_personality r;
     eo_bytecode := eo_bytecode r; eo_eh_table_offset := None;
     eo_unwindable := eo_unwindable r; eo_corrupt := eo_corrupt r |}.
Definition mask_tbl (a : eh_abs) (r : eh_out) : eh_out := if tbl_specified a then r else erase_tbl r.

Definition expected_entry (place : Z) (a : eh_abs) : eh_out :=
  let fn fd := (place + fd) mod 2 ^ 64 in
  match a with
  | ECantUnwind fd => entry_out (fn fd) None None None false
  | EInline fd b0 b1 b2 => entry_out (fn fd) (Some 0) (Some [b0; b1; b2]) None true
  | ETable0 fd tbl b0 b1 b2 => entry_out (fn fd) (Some 0) (Some [b0; b1; b2]) None true
  | ETable12 fd tbl idx b0 b1 more =>
      entry_out (fn fd) (Some idx) (Some (b0 :: b1 :: List.concat (map quad_bytes more))) (Some tbl) true
  | EGeneric fd tbl pd => entry_out (fn fd) (Some ((tbl + pd) mod 2 ^ 64)) None None true
  | ECorruptIndex _ _ | ECorruptInline _ _ | ECorruptTable _ _ _ | ECorruptModel _ _ _ _ => corrupt_out
  end.

(* ---------------- section 9.3, Table 4: frame unwinding instructions ---------------- *)
Inductive opshape : Type :=
| Sh1        (* one byte *)
| Sh2        (* one operand byte *)
| ShUleb.    (* uleb128 operand *)

Definition in_range (lo hi b : Z) : bool := (lo <=? b) && (b <=? hi).

Definition op_shape (b : Z) : opshape :=
  if in_range 0x80 0x8f b then Sh2                      (* 1000iiii iiiiiiii *)
  else if b =? 0xb1 then Sh2                            (* 10110001 0000iiii *)
  else if b =? 0xb2 then ShUleb                         (* 10110010 uleb128  *)
  else if b =? 0xb3 then Sh2                            (* 10110011 sssscccc *)
  else if in_range 0xc6 0xc9 b then Sh2                 (* 110001x0/1, 1100100x + operand *)
  else Sh1.

Infix "+++" := String.append (at level 60, right associativity).
Definition gpr_names : list string :=
  ["r0"; "r1"; "r2"; "r3"; "r4"; "r5"; "r6"; "r7"; "r8"; "r9"; "r10"; "fp"; "ip"; "sp"; "lr"; "pc"].
Definition gpr (i : Z) : string := nth (Z.to_nat i) gpr_names "".
Definition braces (l : list string) : string := "{" +++ join ", " l +++ "}".
Definition zseq (start count : Z) : list Z :=
  map (fun i => start + Z.of_nat i) (seq 0 (Z.to_nat count)).
(* registers start .. start+count of a 32-entry register file *)
Definition reg_range (prefix : string) (start count : Z) : string :=
  braces (map (fun i => prefix +++ dec_string i) (filter (fun i => i <? 32) (zseq start (count + 1)))).
(* the registers base+i for the set bits i < width of mask *)
Definition under_mask (width base mask : Z) : list Z :=
  map (fun i => base + i) (filter (fun i => Z.odd (mask / 2 ^ i)) (zseq 0 width)).

Definition text1 (b : Z) : string :=
  if b <? 0x40 then "vsp = vsp + " +++ dec_string (4 * b + 4)                      (* 00xxxxxx *)
  else if b <? 0x80 then "vsp = vsp - " +++ dec_string (4 * (b - 0x40) + 4)        (* 01xxxxxx *)
  else if b =? 0x9d then "reserved (ARM MOVrr)"                                   (* 10011101 *)
  else if b =? 0x9f then "reserved (WiMMX MOVrr)"                                 (* 10011111 *)
  else if in_range 0x90 0x9f b then "vsp = r" +++ dec_string (b - 0x90)            (* 1001nnnn *)
  else if in_range 0xa0 0xa7 b then "pop " +++ braces (map gpr (zseq 4 (b - 0xa0 + 1)))           (* 10100nnn *)
  else if in_range 0xa8 0xaf b then "pop " +++ braces (map gpr (zseq 4 (b - 0xa8 + 1) ++ [14]))   (* 10101nnn *)
  else if b =? 0xb0 then "finish"                                                 (* 10110000 *)
  else if in_range 0xb4 0xb7 b then "spare"                                       (* 101101nn *)
  else if in_range 0xb8 0xbf b then "pop " +++ reg_range "d" 8 (b - 0xb8)          (* 10111nnn *)
  else if in_range 0xc0 0xc5 b then "pop " +++ reg_range "wR" 10 (b - 0xc0)        (* 11000nnn, nnn != 6,7 *)
  else if in_range 0xca 0xcf b then "spare"                                       (* 11001yyy, yyy != 000,001 *)
  else if in_range 0xd0 0xd7 b then "pop " +++ reg_range "d" 8 (b - 0xd0)          (* 11010nnn *)
  else "spare".                                                                   (* 11xxxyyy, xxx != 000,001,010 *)

Definition text2 (b op : Z) : string :=
  if in_range 0x80 0x8f b then                                                    (* 1000iiii iiiiiiii *)
    let m := (b - 0x80) * 256 + op in
    if m =? 0 then "refuse to unwind" else "pop " +++ braces (map gpr (under_mask 12 4 m))
  else if b =? 0xb1 then                                                          (* 10110001 0000iiii *)
    if (op =? 0) || (16 <=? op) then "spare" else "pop " +++ braces (map gpr (under_mask 4 0 op))
  else if b =? 0xb3 then "pop " +++ reg_range "d" (op / 16) (op mod 16)            (* 10110011 sssscccc *)
  else if b =? 0xc6 then "pop " +++ reg_range "wR" (op / 16) (op mod 16)           (* 11000110 sssscccc *)
  else if b =? 0xc7 then                                                          (* 11000111 0000iiii *)
    if (op =? 0) || (16 <=? op) then "spare"
    else "pop " +++ braces (map (fun i => "wCGR" +++ dec_string i) (under_mask 4 0 op))
  else if b =? 0xc8 then "pop " +++ reg_range "d" (16 + op / 16) (op mod 16)       (* 11001000 sssscccc *)
  else "pop " +++ reg_range "d" (op / 16) (op mod 16).                             (* 11001001 sssscccc *)

Definition text_uleb (v : Z) : string := "vsp = vsp + " +++ dec_string (0x204 + 4 * v).  (* 10110010 uleb128 *)

(* instructions: first byte (+ operand); the uleb128 operand in any valid encoding *)
Inductive insn : Type :=
| I1 (b : Z)
| I2 (b op : Z)
| IU (v : Z) (pad : nat).

Definition opshape_eqb (a b : opshape) : bool :=
  match a, b with Sh1, Sh1 | Sh2, Sh2 | ShUleb, ShUleb => true | _, _ => false end.

Definition wf_insn (i : insn) : bool :=
  match i with
  | I1 b => byteb b && opshape_eqb (op_shape b) Sh1
  | I2 b op => byteb b && byteb op && opshape_eqb (op_shape b) Sh2
  | IU v _ => 0 <=? v
  end.
Definition enc_insn (i : insn) : list Z :=
  match i with
  | I1 b => [b]
  | I2 b op => [b; op]
  | IU v pad => 0xb2 :: uleb_pad (uleb_encode v) pad
  end.
Definition text_insn (i : insn) : string :=
  match i with
  | I1 b => text1 b
  | I2 b op => text2 b op
  | IU v _ => text_uleb v
  end.
Definition enc_insns (l : list insn) : list Z := List.concat (map enc_insn l).
(* a MnemonicItem: the bytes of the instruction and its text *)
Definition expected_insns (l : list insn) : list (list Z * string) :=
  map (fun i => (enc_insn i, text_insn i)) l.

(* the reference disassembler on raw bytes: a decision list over the first byte.
   None = an instruction is cut off by the end of the array *)
Fixpoint spec_disasm (fuel : nat) (bs : list Z) : option (list (list Z * string)) :=
  match fuel with
  | O => None
  | S f =>
      match bs with
      | [] => Some []
      | b :: r =>
          match op_shape b with
          | Sh1 => option_map (cons ([b], text1 b)) (spec_disasm f r)
          | Sh2 =>
              match r with
              | [] => None
              | op :: r' => option_map (cons ([b; op], text2 b op)) (spec_disasm f r')
              end
          | ShUleb =>
              match uleb_spec r with
              | None => None
              | Some (v, t) =>
                  let used := firstn (List.length r - List.length t) r in
                  option_map (cons (b :: used, text_uleb v)) (spec_disasm f t)
              end
          end
      end
  end.

(* ---- field layouts: an index entry is two 32-bit words, a table entry starts with one,
        in the byte order of the file; an index entry is 8 bytes ---- *)
Definition u32_kind (le : bool) : string := if le then "u32le" else "u32be".
Definition spec_eh_index_struct (le : bool) : list (string * string) :=
  [("word0", u32_kind le); ("word1", u32_kind le)].
Definition spec_eh_table_struct (le : bool) : list (string * string) := [("word0", u32_kind le)].
Definition spec_ehabi_index_entry_size : Z := 8.
