(* Spec/C05Header.v — the line-number program header, DWARF 2-5 section 6.2.4, and the unit
   (header + program) as it lies in .debug_line.  Written from the standard.

   Every LEB128 number may use any valid encoding (relations of Spec/PrimSpec.v).
   header_length and unit_length are not free: they are the byte counts the standard defines. *)
From PV Require Export Spec.C05Line.

(* ---- version 5 entry formats (6.2.4.1): the forms the property's domain covers *)
Inductive lform : Type :=
| LF_string | LF_line_strp | LF_strp | LF_udata
| LF_data1 | LF_data2 | LF_data4 | LF_data8 | LF_data16 | LF_block
| LF_strp_sup          (* DWARF 5: offset into the .debug_str of the supplementary object file (7.3.6) *)
| LF_GNU_strp_alt.     (* its pre-DWARF 5 vendor spelling (dwz), same meaning *)

(* DWARF 5 Table 7.6 *)
Definition lform_code (f : lform) : Z :=
  match f with
  | LF_string => 0x08 | LF_line_strp => 0x1f | LF_strp => 0x0e | LF_udata => 0x0f
  | LF_data1 => 0x0b | LF_data2 => 0x05 | LF_data4 => 0x06 | LF_data8 => 0x07
  | LF_data16 => 0x1e | LF_block => 0x09
  | LF_strp_sup => 0x1d | LF_GNU_strp_alt => 0x1f21
  end.

(* DWARF 5 Table 7.27 plus the LLVM vendor codes: content type codes with a name *)
Definition DW_LNCT_path : Z := 1.
Definition DW_LNCT_directory_index : Z := 2.
Definition DW_LNCT_timestamp : Z := 3.
Definition DW_LNCT_size : Z := 4.
Definition DW_LNCT_MD5 : Z := 5.
Definition lnct_codes : list Z := [1; 2; 3; 4; 5; 0x2000; 0x2001; 0x2002; 0x3fff].

(* one field of a directory / file-name entry, with everything its encoding needs *)
Inductive fval : Type :=
| FV_string (s : list Z)                 (* inline NUL-terminated string *)
| FV_line_strp (off : Z) (s : list Z)    (* offset into .debug_line_str, where s is found *)
| FV_strp (off : Z) (s : list Z)         (* offset into .debug_str, where s is found *)
| FV_udata (v : Z)
| FV_data1 (v : Z) | FV_data2 (v : Z) | FV_data4 (v : Z) | FV_data8 (v : Z)
| FV_data16 (bs : list Z)
| FV_block (bs : list Z)
| FV_strp_sup (off : Z) (s : list Z)     (* offset into the supplementary file's .debug_str, where s is found *)
| FV_GNU_strp_alt (off : Z) (s : list Z).

Definition form_of (v : fval) : lform :=
  match v with
  | FV_string _ => LF_string | FV_line_strp _ _ => LF_line_strp | FV_strp _ _ => LF_strp
  | FV_udata _ => LF_udata | FV_data1 _ => LF_data1 | FV_data2 _ => LF_data2
  | FV_data4 _ => LF_data4 | FV_data8 _ => LF_data8 | FV_data16 _ => LF_data16
  | FV_block _ => LF_block
  | FV_strp_sup _ _ => LF_strp_sup | FV_GNU_strp_alt _ _ => LF_GNU_strp_alt
  end.

(* what a consumer sees in a field: a string, a number, a byte sequence, or nothing *)
Inductive dval : Type :=
| DBytes (s : list Z) | DInt (v : Z) | DList (l : list Z) | DNone.

Definition meaning (v : fval) : dval :=
  match v with
  | FV_string s | FV_line_strp _ s | FV_strp _ s | FV_strp_sup _ s | FV_GNU_strp_alt _ s => DBytes s
  | FV_udata n | FV_data1 n | FV_data2 n | FV_data4 n | FV_data8 n => DInt n
  | FV_data16 bs | FV_block bs => DList bs
  end.

(* ---- the abstract header *)
Record lheader : Type := {
  h_is64 : bool;                 (* 64-bit DWARF format (7.4) *)
  h_version : Z;                 (* 2..5 *)
  h_address_size : Z;            (* version 5 only *)
  h_seg_sel_size : Z;            (* version 5 only *)
  h_params : lparams;            (* max_ops must be 1 before version 4, where the field is absent *)
  h_std_lengths : list Z;        (* standard_opcode_lengths: opcode_base - 1 ubytes *)
  h_include_dirs : list (list Z);            (* versions 2..4 *)
  h_files : list file_entry;                 (* versions 2..4 *)
  h_dir_format : list (Z * lform);           (* version 5 *)
  h_dirs : list (list fval);
  h_file_format : list (Z * lform);
  h_file_names : list (list fval)
}.

Definition offsz (is64 : bool) : nat := if is64 then 8%nat else 4%nat.

(* ---- encodings *)
Inductive enc_list {A : Type} (R : A -> list Z -> Prop) : list A -> list Z -> Prop :=
| EL_nil : enc_list R [] []
| EL_cons x e xs es : R x e -> enc_list R xs es -> enc_list R (x :: xs) (e ++ es).

(* versions 2..4: a directory is a non-empty string; the list ends with an empty string *)
Definition enc_dirname (s : list Z) (e : list Z) : Prop :=
  no_nul s = true /\ s <> [] /\ e = cstring_encode s.
(* versions 2..4: a file entry is a non-empty name and three unsigned LEB128 numbers *)
Definition enc_file (f : file_entry) (e : list Z) : Prop :=
  exists ed em el, no_nul (fe_name f) = true /\ fe_name f <> [] /\
    uleb_valid ed (fe_dir f) /\ uleb_valid em (fe_mtime f) /\ uleb_valid el (fe_length f) /\
    e = cstring_encode (fe_name f) ++ ed ++ em ++ el.

(* version 5: a format description is a pair of unsigned LEB128 codes *)
Definition enc_format (d : Z * lform) (e : list Z) : Prop :=
  exists e1 e2, uleb_valid e1 (fst d) /\ uleb_valid e2 (lform_code (snd d)) /\ e = e1 ++ e2.

Definition enc_fval (le is64 : bool) (v : fval) (e : list Z) : Prop :=
  match v with
  | FV_string s => no_nul s = true /\ e = cstring_encode s
  | FV_line_strp off _ | FV_strp off _ | FV_strp_sup off _ | FV_GNU_strp_alt off _ =>
      0 <= off < 2 ^ (8 * Z.of_nat (offsz is64)) /\ e = int_encode le (offsz is64) off
  | FV_udata n => uleb_valid e n
  | FV_data1 n => 0 <= n < 2 ^ 8 /\ e = int_encode le 1 n
  | FV_data2 n => 0 <= n < 2 ^ 16 /\ e = int_encode le 2 n
  | FV_data4 n => 0 <= n < 2 ^ 32 /\ e = int_encode le 4 n
  | FV_data8 n => 0 <= n < 2 ^ 64 /\ e = int_encode le 8 n
  | FV_data16 bs => length bs = 16%nat /\ e = bs
  | FV_block bs => exists l, uleb_valid l (zlen bs) /\ e = l ++ bs
  end.

(* an entry follows its format: one value per description, of the described form *)
Definition entry_matches (fmt : list (Z * lform)) (entry : list fval) : Prop :=
  map form_of entry = map snd fmt.

(* "string s lies at offset off of the section": s, then NUL *)
Definition str_at (sec : list Z) (off : Z) (s : list Z) : Prop :=
  0 <= off /\ no_nul s = true /\
  firstn (length s + 1) (skipn (Z.to_nat off) sec) = s ++ [0].

(* the strings referenced by offset are where the header says they are *)
Definition fval_refs_ok (line_str str sup : list Z) (v : fval) : Prop :=
  match v with
  | FV_line_strp off s => str_at line_str off s
  | FV_strp off s => str_at str off s
  | FV_strp_sup off s | FV_GNU_strp_alt off s => str_at sup off s
  | _ => True
  end.

(* the part of the header after header_length *)
Definition enc_tables (le : bool) (h : lheader) (e : list Z) : Prop :=
  if h_version h <? 5 then
    exists ed ef, enc_list enc_dirname (h_include_dirs h) ed /\ enc_list enc_file (h_files h) ef /\
      e = ed ++ [0] ++ ef ++ [0]
  else
    exists edf ednum ed eff efnum ef,
      enc_list enc_format (h_dir_format h) edf /\
      uleb_valid ednum (zlen (h_dirs h)) /\
      enc_list (enc_list (enc_fval le (h_is64 h))) (h_dirs h) ed /\
      enc_list enc_format (h_file_format h) eff /\
      uleb_valid efnum (zlen (h_file_names h)) /\
      enc_list (enc_list (enc_fval le (h_is64 h))) (h_file_names h) ef /\
      e = [zlen (h_dir_format h)] ++ edf ++ ednum ++ ed ++
          [zlen (h_file_format h)] ++ eff ++ efnum ++ ef.

Definition enc_body (le : bool) (h : lheader) (e : list Z) : Prop :=
  exists et, enc_tables le h et /\
    e = [p_min_inst (h_params h)] ++
        (if 4 <=? h_version h then [p_max_ops (h_params h)] else []) ++
        [p_default_is_stmt (h_params h); wrap 1 (p_line_base (h_params h));
         p_line_range (h_params h); p_opcode_base (h_params h)] ++
        h_std_lengths h ++ et.

(* bytes between unit_length and header_length *)
Definition enc_prefix (le : bool) (h : lheader) : list Z :=
  int_encode le 2 (h_version h) ++
  (if 5 <=? h_version h then [h_address_size h; h_seg_sel_size h] else []).

(* the whole unit: header followed by a program of the given bytes.
   header_length = number of bytes after that field up to the first program byte;
   unit_length   = number of bytes after that field up to the end of the program *)
Definition enc_unit (le : bool) (h : lheader) (prog : list Z) (e : list Z) : Prop :=
  exists body, enc_body le h body /\
    let after_len := enc_prefix le h ++ int_encode le (offsz (h_is64 h)) (zlen body) ++ body ++ prog in
    e = initial_length_encode le (zlen after_len) (h_is64 h) ++ after_len.

(* the same, with the header body (everything after header_length) named: by definition
   enc_unit le h prog e  <->  exists body, enc_body le h body /\ e = unit_bytes le h body prog *)
Definition unit_rest (le : bool) (h : lheader) (body prog : list Z) : list Z :=
  enc_prefix le h ++ int_encode le (offsz (h_is64 h)) (zlen body) ++ body ++ prog.
Definition unit_bytes (le : bool) (h : lheader) (body prog : list Z) : list Z :=
  initial_length_encode le (zlen (unit_rest le h body prog)) (h_is64 h) ++ unit_rest le h body prog.
(* the unit without its program: initial length .. last header byte *)
Definition unit_header_bytes (le : bool) (h : lheader) (body prog : list Z) : list Z :=
  initial_length_encode le (zlen (unit_rest le h body prog)) (h_is64 h) ++
  enc_prefix le h ++ int_encode le (offsz (h_is64 h)) (zlen body) ++ body.
(* size of the initial length field (7.4) *)
Definition ilsz (is64 : bool) : Z := if is64 then 12 else 4.
(* unit_length and header_length must be representable in their fields (7.4: a 32-bit unit_length
   is below 0xfffffff0) *)
Definition sizes_ok (is64 : bool) (unit_length header_length : Z) : bool :=
  initial_length_wf unit_length is64 && (header_length <? 2 ^ (8 * Z.of_nat (offsz is64))).

(* the strings a value refers to by offset are present in the string sections of the file
   (None = the file has no such section); sections are shorter than 2^63 bytes *)
Definition refs_present (line_str str sup : option (list Z)) (v : fval) : Prop :=
  match v with
  | FV_line_strp off s => exists sec, line_str = Some sec /\ str_at sec off s /\ zlen sec < 2 ^ 63
  | FV_strp off s => exists sec, str = Some sec /\ str_at sec off s /\ zlen sec < 2 ^ 63
  | FV_strp_sup off s | FV_GNU_strp_alt off s =>
      (* sup = the .debug_str of the supplementary object file the consumer was given *)
      exists sec, sup = Some sec /\ str_at sec off s /\ zlen sec < 2 ^ 63
  | _ => True
  end.

(* ---- well-formedness (boolean; the Prop parts above carry the per-encoding conditions) *)
Fixpoint nodupb (l : list Z) : bool :=
  match l with
  | [] => true
  | x :: r => negb (existsb (Z.eqb x) r) && nodupb r
  end.
Definition format_ok (fmt : list (Z * lform)) : bool :=
  nodupb (map fst fmt) && forallb (fun d => existsb (Z.eqb (fst d)) lnct_codes) fmt &&
  (Z.of_nat (length fmt) <? 256).

Definition lform_eqb (a b : lform) : bool := lform_code a =? lform_code b.
Fixpoint forms_match (fmt : list (Z * lform)) (entry : list fval) : bool :=
  match fmt, entry with
  | [], [] => true
  | d :: fr, v :: er => lform_eqb (snd d) (form_of v) && forms_match fr er
  | _, _ => false
  end.

Definition wf_header (h : lheader) : bool :=
  (2 <=? h_version h) && (h_version h <=? 5) &&
  wf_params (h_params h) &&
  ((4 <=? h_version h) || (p_max_ops (h_params h) =? 1)) &&
  all_bytes (h_std_lengths h) && (zlen (h_std_lengths h) =? p_opcode_base (h_params h) - 1) &&
  is_byte (h_address_size h) && is_byte (h_seg_sel_size h) &&
  (if h_version h <? 5 then true
   else format_ok (h_dir_format h) && format_ok (h_file_format h) &&
        forallb (forms_match (h_dir_format h)) (h_dirs h) &&
        forallb (forms_match (h_file_format h)) (h_file_names h) &&
        (* a directory entry has a path (6.2.4.1: DW_LNCT_path is what an entry is for) *)
        ((Nat.eqb (length (h_dirs h)) 0) || existsb (fun d => fst d =? DW_LNCT_path) (h_dir_format h))).

(* ---- what a consumer must see *)
Record hview : Type := {
  v_unit_length : Z;
  v_version : Z;
  v_address_size : option Z;          (* version 5 *)
  v_seg_sel_size : option Z;          (* version 5 *)
  v_header_length : Z;
  v_params : lparams;
  v_std_lengths : list Z;
  v_dir_format : option (list (Z * Z));            (* version 5: (content type, form) codes *)
  v_directories : option (list (list (Z * dval))); (* version 5: per entry (content type, value) *)
  v_file_format : option (list (Z * Z));
  v_file_names : option (list (list (Z * dval)));
  v_include_directory : list dval;                 (* every version: directory paths *)
  v_file_entry : list (dval * dval * dval * dval)  (* every version: name, dir, mtime, length *)
}.

Fixpoint alist_get (k : Z) (l : list (Z * dval)) : dval :=
  match l with
  | [] => DNone
  | (k', v) :: r => if k' =? k then v else alist_get k r
  end.

Definition entry_view (fmt : list (Z * lform)) (entry : list fval) : list (Z * dval) :=
  combine (map fst fmt) (map meaning entry).
Definition format_view (fmt : list (Z * lform)) : list (Z * Z) :=
  map (fun d => (fst d, lform_code (snd d))) fmt.

Definition legacy_file (e : list (Z * dval)) : dval * dval * dval * dval :=
  (alist_get DW_LNCT_path e, alist_get DW_LNCT_directory_index e,
   alist_get DW_LNCT_timestamp e, alist_get DW_LNCT_size e).

(* header_length and unit_length as the standard defines them, given the encoded sizes *)
Definition expected_view (h : lheader) (unit_length header_length : Z) : hview :=
  let v5 := 5 <=? h_version h in
  let dirs := map (entry_view (h_dir_format h)) (h_dirs h) in
  let files := map (entry_view (h_file_format h)) (h_file_names h) in
  {| v_unit_length := unit_length;
     v_version := h_version h;
     v_address_size := if v5 then Some (h_address_size h) else None;
     v_seg_sel_size := if v5 then Some (h_seg_sel_size h) else None;
     v_header_length := header_length;
     v_params := h_params h;
     v_std_lengths := h_std_lengths h;
     v_dir_format := if v5 then Some (format_view (h_dir_format h)) else None;
     v_directories := if v5 then Some dirs else None;
     v_file_format := if v5 then Some (format_view (h_file_format h)) else None;
     v_file_names := if v5 then Some files else None;
     v_include_directory :=
       if v5 then map (alist_get DW_LNCT_path) dirs else map DBytes (h_include_dirs h);
     v_file_entry :=
       if v5 then map legacy_file files
       else map (fun f => (DBytes (fe_name f), DInt (fe_dir f), DInt (fe_mtime f), DInt (fe_length f)))
                (h_files h) |}.

(* ------------------------------------------------------------------ executable encoder *)
(* for the correspondence generator: every LEB128 number padded with k continuation bytes *)
Definition encode_file (k : nat) (f : file_entry) : list Z :=
  cstring_encode (fe_name f) ++ uleb_enc (fe_dir f) k ++ uleb_enc (fe_mtime f) k ++ uleb_enc (fe_length f) k.
Definition encode_format (k : nat) (d : Z * lform) : list Z :=
  uleb_enc (fst d) k ++ uleb_enc (lform_code (snd d)) k.
Definition encode_fval (le is64 : bool) (k : nat) (v : fval) : list Z :=
  match v with
  | FV_string s => cstring_encode s
  | FV_line_strp off _ | FV_strp off _ | FV_strp_sup off _ | FV_GNU_strp_alt off _ => int_encode le (offsz is64) off
  | FV_udata n => uleb_enc n k
  | FV_data1 n => int_encode le 1 n
  | FV_data2 n => int_encode le 2 n
  | FV_data4 n => int_encode le 4 n
  | FV_data8 n => int_encode le 8 n
  | FV_data16 bs => bs
  | FV_block bs => uleb_enc (zlen bs) k ++ bs
  end.
Definition encode_entries (le is64 : bool) (k : nat) (es : list (list fval)) : list Z :=
  concat (map (fun e => concat (map (encode_fval le is64 k) e)) es).

Definition encode_tables (le : bool) (k : nat) (h : lheader) : list Z :=
  if h_version h <? 5 then
    concat (map cstring_encode (h_include_dirs h)) ++ [0] ++ concat (map (encode_file k) (h_files h)) ++ [0]
  else
    [zlen (h_dir_format h)] ++ concat (map (encode_format k) (h_dir_format h)) ++
    uleb_enc (zlen (h_dirs h)) k ++ encode_entries le (h_is64 h) k (h_dirs h) ++
    [zlen (h_file_format h)] ++ concat (map (encode_format k) (h_file_format h)) ++
    uleb_enc (zlen (h_file_names h)) k ++ encode_entries le (h_is64 h) k (h_file_names h).

Definition encode_body (le : bool) (k : nat) (h : lheader) : list Z :=
  [p_min_inst (h_params h)] ++
  (if 4 <=? h_version h then [p_max_ops (h_params h)] else []) ++
  [p_default_is_stmt (h_params h); wrap 1 (p_line_base (h_params h));
   p_line_range (h_params h); p_opcode_base (h_params h)] ++
  h_std_lengths h ++ encode_tables le k h.

Definition encode_unit (le : bool) (k : nat) (h : lheader) (prog : list Z) : list Z :=
  let body := encode_body le k h in
  let after_len := enc_prefix le h ++ int_encode le (offsz (h_is64 h)) (zlen body) ++ body ++ prog in
  initial_length_encode le (zlen after_len) (h_is64 h) ++ after_len.

(* sizes the expected view needs *)
Definition unit_length_of (le : bool) (k : nat) (h : lheader) (prog : list Z) : Z :=
  zlen (enc_prefix le h) + Z.of_nat (offsz (h_is64 h)) + zlen (encode_body le k h) + zlen prog.
Definition header_length_of (le : bool) (k : nat) (h : lheader) : Z := zlen (encode_body le k h).

(* boolean form of the per-value side conditions of the encoding relations *)
Definition wf_fval (is64 : bool) (v : fval) : bool :=
  match v with
  | FV_string s => no_nul s && all_bytes s
  | FV_line_strp off s | FV_strp off s | FV_strp_sup off s | FV_GNU_strp_alt off s =>
      (0 <=? off) && (off <? 2 ^ (8 * Z.of_nat (offsz is64))) && no_nul s && all_bytes s
  | FV_udata n => 0 <=? n
  | FV_data1 n => (0 <=? n) && (n <? 2 ^ 8)
  | FV_data2 n => (0 <=? n) && (n <? 2 ^ 16)
  | FV_data4 n => (0 <=? n) && (n <? 2 ^ 32)
  | FV_data8 n => (0 <=? n) && (n <? 2 ^ 64)
  | FV_data16 bs => Nat.eqb (length bs) 16 && all_bytes bs
  | FV_block bs => all_bytes bs
  end.
Definition wf_name (s : list Z) : bool := no_nul s && negb (Nat.eqb (length s) 0) && all_bytes s.
Definition wf_file (f : file_entry) : bool :=
  wf_name (fe_name f) && (0 <=? fe_dir f) && (0 <=? fe_mtime f) && (0 <=? fe_length f).
Definition wf_header_values (h : lheader) : bool :=
  forallb wf_name (h_include_dirs h) && forallb wf_file (h_files h) &&
  forallb (forallb (wf_fval (h_is64 h))) (h_dirs h) &&
  forallb (forallb (wf_fval (h_is64 h))) (h_file_names h).

(* boolean str_at, for the driver and the examples *)
Fixpoint list_eqb (a b : list Z) : bool :=
  match a, b with
  | [], [] => true
  | x :: r, y :: s => (x =? y) && list_eqb r s
  | _, _ => false
  end.
Definition str_at_b (sec : list Z) (off : Z) (s : list Z) : bool :=
  (0 <=? off) && no_nul s && list_eqb (firstn (length s + 1) (skipn (Z.to_nat off) sec)) (s ++ [0]).
Definition fval_refs_ok_b (line_str str sup : list Z) (v : fval) : bool :=
  match v with
  | FV_line_strp off s => str_at_b line_str off s
  | FV_strp off s => str_at_b str off s
  | FV_strp_sup off s | FV_GNU_strp_alt off s => str_at_b sup off s
  | _ => true
  end.
Definition header_refs_ok_b (line_str str sup : list Z) (h : lheader) : bool :=
  forallb (forallb (fval_refs_ok_b line_str str sup)) (h_dirs h) &&
  forallb (forallb (fval_refs_ok_b line_str str sup)) (h_file_names h).

(* ------------------------------------------------------------------ the standard's numbering *)
(* DWARF 5 Table 7.27 (line number header entry format names) plus the two LLVM vendor codes *)
Local Open Scope string_scope.
Definition spec_lnct : list (string * Z) := [
  ("DW_LNCT_path", 0x1); ("DW_LNCT_directory_index", 0x2); ("DW_LNCT_timestamp", 0x3);
  ("DW_LNCT_size", 0x4); ("DW_LNCT_MD5", 0x5); ("DW_LNCT_lo_user", 0x2000);
  ("DW_LNCT_LLVM_source", 0x2001); ("DW_LNCT_LLVM_is_MD5", 0x2002); ("DW_LNCT_hi_user", 0x3fff)].
