(* Spec/C12Kinds.v — shared vocabulary of property C12 (DWARF expressions):
   operand kinds, the configuration of a unit, and the shape of a parse result.
   Imported by the generated Gen/C12Tables.v, by the spec and by the model. *)
From Coq Require Export String.
From PV Require Export Base.Bytes.

(* How one operand of an operation is laid out (DWARF 5 section 2.5 and 7.7.1).
   U<n>/S<n>  unsigned/signed n-byte integer in the unit's byte order
   ULEB/SLEB  LEB128
   ADDR       unsigned integer of the unit's address size
   OFFSET     unsigned integer of 4 (32-bit DWARF) or 8 (64-bit DWARF) bytes
   BLOCK      ULEB128 length, then that many bytes          (DW_OP_implicit_value)
   TYPEDBLOCK ULEB128 type offset, 1-byte length, bytes     (DW_OP_const_type)
   NESTED     ULEB128 length, then an expression that long  (DW_OP_entry_value)
   WASM       1-byte tag; tag 0..2: ULEB128, tag 3: 4-byte unsigned  (DW_OP_WASM_location) *)
Inductive opkind : Type :=
| U1 | S1 | U2 | S2 | U4 | S4 | U8 | S8 | ULEB | SLEB | ADDR | OFFSET
| BLOCK | TYPEDBLOCK | NESTED | WASM.

Definition opkind_tag (k : opkind) : Z :=
  match k with
  | U1 => 0 | S1 => 1 | U2 => 2 | S2 => 3 | U4 => 4 | S4 => 5 | U8 => 6 | S8 => 7
  | ULEB => 8 | SLEB => 9 | ADDR => 10 | OFFSET => 11
  | BLOCK => 12 | TYPEDBLOCK => 13 | NESTED => 14 | WASM => 15
  end.
Definition opkind_name (k : opkind) : string :=
  match k with
  | U1 => "U1" | S1 => "S1" | U2 => "U2" | S2 => "S2" | U4 => "U4" | S4 => "S4"
  | U8 => "U8" | S8 => "S8" | ULEB => "ULEB" | SLEB => "SLEB" | ADDR => "ADDR"
  | OFFSET => "OFFSET" | BLOCK => "BLOCK" | TYPEDBLOCK => "TYPEDBLOCK"
  | NESTED => "NESTED" | WASM => "WASM"
  end%string.

(* (little_endian, address_size in bytes, dwarf_format 32|64): the three
   parameters of DWARFStructs that operand sizes depend on *)
Record cfg : Type := mkCfg { c_le : bool; c_addr : Z; c_fmt : Z }.
(* DWARFStructs.__new__ asserts exactly this *)
Definition cfg_ok (c : cfg) : bool :=
  ((c_addr c =? 4) || (c_addr c =? 8)) && ((c_fmt c =? 32) || (c_fmt c =? 64)).

(* What parse_expr returns, as a tree:
   POp op op_name args offset  = DWARFExprOp(op, op_name, args, offset)
   an element of args is an int (AInt), a list of ints (ABlob: read_blob) or a
   list of DWARFExprOp (AExpr: the nested parse of an entry-value block) *)
Inductive pval : Type :=
| AInt (v : Z)
| ABlob (bs : list Z)
| AExpr (ops : list pval)
| POp (opc : Z) (name : string) (args : list pval) (offset : Z).

(* association-list lookup with Z keys (first match) *)
Fixpoint zlookup {A} (l : list (Z * A)) (k : Z) : option A :=
  match l with
  | [] => None
  | (k', v) :: r => if k' =? k then Some v else zlookup r k
  end.
