(* Spec/C14Notes.v — what a note extent, its known descriptors and a stab table MEAN.
   Written from: System V gABI chapter 5 "Note Section" (header of three words; name
   NUL-terminated and counted in namesz; name and descriptor each padded to a 4-byte
   boundary, padding not counted in the sizes), the Linux gABI extension draft
   (.note.gnu.property: array of {pr_type, pr_datasz, pr_data, padding to 4 bytes in
   ELFCLASS32 / 8 bytes in ELFCLASS64}; .note.ABI-tag: four words; .note.gnu.build-id;
   gold version string), Linux include/linux/elfcore.h (struct elf_prpsinfo) and
   fs/binfmt_elf.c fill_files_note (NT_FILE: count, page_size, count triples, count
   NUL-terminated names), and the stabs documentation (12-byte symbol records).

   Encoders take every free byte as an argument: the padding after the name, after the
   descriptor, after each property, and the alignment hole of elf_prpsinfo.
   Not written from the code: Proofs/C14Proofs.v relates it to Model/C14Notes.v. *)
From Coq Require Import String.
From PV Require Import Base.Bytes Base.Fmt Base.Enum Spec.ElfGabi Spec.PrimSpec.
Import ListNotations.
Open Scope Z_scope.

(* ------------------------------------------------------------------ configuration *)
Record scfg := { s_le : bool;      (* ELFDATA2LSB *)
                 s_is64 : bool;    (* ELFCLASS64 *)
                 s_core : bool;    (* e_type = ET_CORE *)
                 s_half : bool }.  (* struct elf_prpsinfo has 16-bit pr_uid/pr_gid (some 32-bit targets) *)

(* what the ELF header says, as ELFFile reports it: byte order, class, the name of e_type and
   of e_machine ("<raw>" for a value without a name) *)
Record cfg := { c_le : bool; c_is64 : bool; c_etype : string; c_machine : string }.

(* ------------------------------------------------------------------ observation vocabulary *)
Inductive pdata := PInt (v : Z) | PBytes (bs : list Z).
Definition pview := (enum_val * Z * pdata)%type.      (* pr_type, pr_datasz, pr_data *)

Inductive dview :=
| DVBytes (bs : list Z)                                 (* unknown kind: the raw descriptor *)
| DVHex (txt : list Z)                                  (* build id as lower-case hex text (ASCII codes) *)
| DVStr (bs : list Z)                                   (* gold version string *)
| DVAbi (os : enum_val) (major minor tiny : Z)
| DVProps (ps : list pview)
| DVRec (fields : list (string * fval))                 (* elf_prpsinfo, named fields in order *)
| DVFile (num page_size : Z) (entries : list (Z * Z * Z)) (names : list (list Z)).

Record onote := { o_namesz : Z; o_descsz : Z; o_type : enum_val; o_offset : Z;
                  o_name : option (list Z); o_descdata : list Z; o_desc : dview; o_size : Z }.

(* ------------------------------------------------------------------ name tables *)
Definition spec_note_types : list (Z * string) :=
  [ (1, "NT_GNU_ABI_TAG"); (2, "NT_GNU_HWCAP"); (3, "NT_GNU_BUILD_ID");
    (4, "NT_GNU_GOLD_VERSION"); (5, "NT_GNU_PROPERTY_TYPE_0") ]%string.
Definition spec_core_types : list (Z * string) :=
  [ (1, "NT_PRSTATUS"); (2, "NT_FPREGSET"); (3, "NT_PRPSINFO"); (4, "NT_TASKSTRUCT");
    (6, "NT_AUXV"); (0x53494749, "NT_SIGINFO"); (0x46494c45, "NT_FILE") ]%string.
Definition spec_n_types (core : bool) := if core then spec_core_types else spec_note_types.
Definition spec_abi_os : list (Z * string) :=
  [ (0, "ELF_NOTE_OS_LINUX"); (1, "ELF_NOTE_OS_GNU"); (2, "ELF_NOTE_OS_SOLARIS2");
    (3, "ELF_NOTE_OS_FREEBSD"); (4, "ELF_NOTE_OS_NETBSD"); (5, "ELF_NOTE_OS_SYLLABLE") ]%string.
Definition spec_prop_types : list (Z * string) :=
  [ (1, "GNU_PROPERTY_STACK_SIZE"); (2, "GNU_PROPERTY_NO_COPY_ON_PROTECTED");
    (0xc0000002, "GNU_PROPERTY_X86_FEATURE_1_AND"); (0xc0008002, "GNU_PROPERTY_X86_ISA_1_NEEDED");
    (0xc0010001, "GNU_PROPERTY_X86_FEATURE_2_USED"); (0xc0010002, "GNU_PROPERTY_X86_ISA_1_USED");
    (0xc0000000, "GNU_PROPERTY_AARCH64_FEATURE_1_AND") ]%string.
(* Linux: __kernel_uid_t is 16 bits on these 32-bit targets *)
Definition spec_ugid_half_machines : list string :=
  [ "EM_SPARC"; "EM_386"; "EM_68K"; "EM_S390"; "EM_ARM"; "EM_SH"; "EM_CRIS"; "EM_M32R"; "EM_MN10300" ]%string.

Definition scfg_of (c : cfg) : scfg :=
  {| s_le := c_le c; s_is64 := c_is64 c;
     s_core := String.eqb (c_etype c) "ET_CORE";
     s_half := negb (c_is64 c) && existsb (String.eqb (c_machine c)) spec_ugid_half_machines |}.

(* a code with a standard name is reported by name, any other code as the integer *)
Definition name_of (T : list (Z * string)) (v : Z) : enum_val :=
  match dict_get T v with Some n => Name n | None => Raw v end.

(* ------------------------------------------------------------------ abstract notes *)
(* one GNU program property *)
Inductive gprop :=
| GStack (v : Z)                        (* GNU_PROPERTY_STACK_SIZE: one native word *)
| GWord (ty : Z) (v : Z)                (* x86 / AArch64 bit-mask properties: one 4-byte word *)
| GRaw (ty : Z) (data : list Z).        (* any other type or size, e.g. NO_COPY_ON_PROTECTED (empty), or a
                                           bit-mask type that declares a size other than 4: the list is
                                           framed by pr_datasz, the data are the pr_datasz bytes *)

Definition GNU_PROPERTY_STACK_SIZE := 1.
Definition word_prop_types : list Z := [0xc0000002; 0xc0008002; 0xc0010001; 0xc0010002; 0xc0000000].
Definition is_word_prop (ty : Z) : bool := existsb (Z.eqb ty) word_prop_types.

Inductive desc :=
| DRaw (bs : list Z)
| DAbi (os major minor tiny : Z)
| DBuildId (id : list Z)
| DGold (version : list Z)
| DProps (ps : list (gprop * list Z))                 (* each property with its padding bytes *)
| DPrps (vals : list fval)                            (* values of struct elf_prpsinfo, incl. the hole *)
| DFile (page_size : Z) (entries : list (Z * Z * Z)) (names : list (list Z)).

Record note := { n_name : option (list Z);   (* None: namesz = 0; Some s: s NUL [n_nextra], namesz = |s| + 1 + |n_nextra| *)
                 n_nextra : list Z;          (* bytes after the terminating NUL that namesz still counts (the Go
                                                toolchain writes "Go" NUL NUL with namesz 4): any bytes; the owner
                                                is the string up to the FIRST NUL *)
                 n_npad : list Z;            (* padding after the name *)
                 n_type : Z;
                 n_desc : desc;
                 n_dpad : list Z }.          (* padding after the descriptor *)

(* number of bytes needed to reach the next multiple of m *)
Definition pad_to (m n : Z) : Z := (- n) mod m.
Definition pad4 := pad_to 4.

Definition native (c : scfg) : nat := if s_is64 c then 8%nat else 4%nat.
Definition prop_align (c : scfg) : Z := if s_is64 c then 8 else 4.

(* ---- descriptor encoders *)
Definition prop_type (p : gprop) : Z :=
  match p with GStack _ => GNU_PROPERTY_STACK_SIZE | GWord ty _ => ty | GRaw ty _ => ty end.
Definition prop_data (c : scfg) (p : gprop) : list Z :=
  match p with
  | GStack v => int_encode (s_le c) (native c) v
  | GWord _ v => int_encode (s_le c) 4 v
  | GRaw _ d => d
  end.
Definition encode_prop (c : scfg) (pp : gprop * list Z) : list Z :=
  let (p, pad) := pp in
  int_encode (s_le c) 4 (prop_type p) ++ int_encode (s_le c) 4 (zlen (prop_data c p))
  ++ prop_data c p ++ pad.
Definition encode_props (c : scfg) (ps : list (gprop * list Z)) : list Z :=
  concat (map (encode_prop c) ps).

Definition prps_layout (c : scfg) : layout := spec_Elf_Prpsinfo (s_le c) (s_is64 c) (s_half c).

Definition encode_entry (c : scfg) (e : Z * Z * Z) : list Z :=
  let '(a, b, o) := e in
  int_encode (s_le c) (native c) a ++ int_encode (s_le c) (native c) b ++ int_encode (s_le c) (native c) o.
Definition encode_file (c : scfg) (page : Z) (entries : list (Z * Z * Z)) (names : list (list Z)) : list Z :=
  int_encode (s_le c) (native c) (zlen entries) ++ int_encode (s_le c) (native c) page
  ++ concat (map (encode_entry c) entries) ++ concat (map cstring_encode names).

Definition desc_bytes (c : scfg) (d : desc) : list Z :=
  match d with
  | DRaw bs => bs
  | DAbi os ma mi ti => encode_layout (spec_Elf_abi (s_le c)) [VZ os; VZ ma; VZ mi; VZ ti]
  | DBuildId id => id
  | DGold v => v
  | DProps ps => encode_props c ps
  | DPrps vals => encode_layout (prps_layout c) vals
  | DFile page es ns => encode_file c page es ns
  end.

(* ---- the note encoder *)
Definition name_bytes (n : note) : list Z :=
  match n_name n with None => [] | Some s => cstring_encode s ++ n_nextra n end.
Definition namesz (n : note) : Z := zlen (name_bytes n).
Definition descsz (c : scfg) (n : note) : Z := zlen (desc_bytes c (n_desc n)).

Definition encode_note (c : scfg) (n : note) : list Z :=
  encode_layout (spec_Elf_Nhdr (s_le c)) [VZ (namesz n); VZ (descsz c n); VZ (n_type n)]
  ++ name_bytes n ++ n_npad n ++ desc_bytes c (n_desc n) ++ n_dpad n.
Definition encode_notes (c : scfg) (ns : list note) : list Z := concat (map (encode_note c) ns).

Definition note_size (c : scfg) (n : note) : Z :=
  12 + (namesz n + pad4 (namesz n)) + (descsz c n + pad4 (descsz c n)).

(* ------------------------------------------------------------------ which descriptors are known *)
Inductive kind := KNone | KAbi | KBuildId | KGold | KProps | KPrps | KFile.
Definition kind_eqb (a b : kind) : bool :=
  match a, b with
  | KNone, KNone | KAbi, KAbi | KBuildId, KBuildId | KGold, KGold
  | KProps, KProps | KPrps, KPrps | KFile, KFile => true
  | _, _ => false
  end.

Fixpoint bytes_eqb (a b : list Z) : bool :=
  match a, b with
  | [], [] => true
  | x :: a', y :: b' => (x =? y) && bytes_eqb a' b'
  | _, _ => false
  end.
Definition GNU : list Z := [71; 78; 85].     (* "GNU" *)
Definition owner_is_gnu (name : option (list Z)) : bool :=
  match name with Some s => bytes_eqb s GNU | None => false end.

(* object files: the GNU kinds need the owner "GNU"; core files: NT_PRPSINFO and NT_FILE.
   (Linux writes them with owner "CORE"; the kind is taken from the type alone here, a
   foreign owner with one of these two types is therefore expected to carry that layout.) *)
Definition spec_kind (c : scfg) (name : option (list Z)) (ty : Z) : kind :=
  if s_core c then
    (if ty =? 3 then KPrps else if ty =? 0x46494c45 then KFile else KNone)
  else if owner_is_gnu name then
    (if ty =? 1 then KAbi else if ty =? 3 then KBuildId else if ty =? 4 then KGold
     else if ty =? 5 then KProps else KNone)
  else KNone.

Definition desc_kind (d : desc) : kind :=
  match d with
  | DRaw _ => KNone | DAbi _ _ _ _ => KAbi | DBuildId _ => KBuildId | DGold _ => KGold
  | DProps _ => KProps | DPrps _ => KPrps | DFile _ _ _ => KFile
  end.

(* ------------------------------------------------------------------ well-formedness (bool) *)
Definition u32 (v : Z) : bool := (0 <=? v) && (v <? 2 ^ 32).
Definition unative (c : scfg) (v : Z) : bool := in_urange (native c) v.

Definition wf_prop (c : scfg) (pp : gprop * list Z) : bool :=
  let (p, pad) := pp in
  let dsz := zlen (prop_data c p) in
  all_bytes pad && (zlen pad =? pad_to (prop_align c) dsz) && u32 dsz &&
  match p with
  | GStack v => unative c v
  | GWord ty v => is_word_prop ty && u32 v
  | GRaw ty d => u32 ty && all_bytes d &&
                 (* not one of the integer kinds: a stack size of native width is GStack, a bit-mask
                    property of 4 bytes is GWord *)
                 negb ((ty =? GNU_PROPERTY_STACK_SIZE) && (zlen d =? Z.of_nat (native c))) &&
                 negb (is_word_prop ty && (zlen d =? 4))
  end.

Definition wf_entry (c : scfg) (e : Z * Z * Z) : bool :=
  let '(a, b, o) := e in unative c a && unative c b && unative c o.

Definition wf_desc (c : scfg) (d : desc) : bool :=
  match d with
  | DRaw bs => all_bytes bs
  | DAbi os ma mi ti => u32 os && u32 ma && u32 mi && u32 ti
  | DBuildId id => all_bytes id
  | DGold v => all_bytes v
  | DProps ps => forallb (wf_prop c) ps
  | DPrps vals => fits_layout (prps_layout c) vals
  | DFile page es ns =>
      unative c page && unative c (zlen es) && forallb (wf_entry c) es &&
      (length ns =? length es)%nat && forallb no_nul ns && forallb all_bytes ns
  end.

Definition wf_note (c : scfg) (n : note) : bool :=
  match n_name n with None => true | Some s => no_nul s && all_bytes s end &&
  all_bytes (n_nextra n) &&
  all_bytes (n_npad n) && (zlen (n_npad n) =? pad4 (namesz n)) &&
  all_bytes (n_dpad n) && (zlen (n_dpad n) =? pad4 (descsz c n)) &&
  u32 (namesz n) && u32 (descsz c n) && u32 (n_type n) &&
  wf_desc c (n_desc n) &&
  kind_eqb (desc_kind (n_desc n)) (spec_kind c (n_name n) (n_type n)).

Definition wf_notes (c : scfg) (ns : list note) : bool := forallb (wf_note c) ns.

(* ------------------------------------------------------------------ what iteration must yield *)
Definition hex_digit (d : Z) : Z := if d <? 10 then 48 + d else 87 + d.   (* '0'..'9', 'a'..'f' *)
Fixpoint hex_text (bs : list Z) : list Z :=
  match bs with
  | [] => []
  | b :: r => hex_digit (b / 16) :: hex_digit (b mod 16) :: hex_text r
  end.
(* the inverse reading: the meaning of the text *)
Definition unhex_digit (ch : Z) : Z := if ch <? 58 then ch - 48 else ch - 87.
Fixpoint unhex_text (t : list Z) : list Z :=
  match t with
  | h :: l :: r => (16 * unhex_digit h + unhex_digit l) :: unhex_text r
  | _ => []
  end.

Definition prop_view (c : scfg) (pp : gprop * list Z) : pview :=
  let p := fst pp in
  (name_of spec_prop_types (prop_type p), zlen (prop_data c p),
   match p with GStack v => PInt v | GWord _ v => PInt v | GRaw _ d => PBytes d end).

Definition is_named (f : string * fval) : bool := negb (String.eqb (fst f) "<pad>").

Definition desc_view (c : scfg) (d : desc) : dview :=
  match d with
  | DRaw bs => DVBytes bs
  | DAbi os ma mi ti => DVAbi (name_of spec_abi_os os) ma mi ti
  | DBuildId id => DVHex (hex_text id)
  | DGold v => DVStr v
  | DProps ps => DVProps (map (prop_view c) ps)
  | DPrps vals => DVRec (filter is_named (annot_layout (prps_layout c) vals))
  | DFile page es ns => DVFile (zlen es) page es ns
  end.

Definition expected_note (c : scfg) (off : Z) (n : note) : onote :=
  {| o_namesz := namesz n; o_descsz := descsz c n;
     o_type := name_of (spec_n_types (s_core c)) (n_type n);
     o_offset := off; o_name := n_name n;
     o_descdata := desc_bytes c (n_desc n);
     o_desc := desc_view c (n_desc n);
     o_size := note_size c n |}.

Fixpoint expected_notes (c : scfg) (off : Z) (ns : list note) : list onote :=
  match ns with
  | [] => []
  | n :: r => expected_note c off n :: expected_notes c (off + note_size c n) r
  end.

(* ------------------------------------------------------------------ stabs *)
(* one symbol record: n_strx (word), n_type, n_other (bytes), n_desc (half), n_value (word) *)
Definition stab := list fval.
Definition stab_layout (le : bool) : layout := spec_Elf_Stabs le.
Definition wf_stab (le : bool) (s : stab) : bool := fits_layout (stab_layout le) s.
Definition encode_stabs (le : bool) (ss : list stab) : list Z :=
  concat (map (encode_layout (stab_layout le)) ss).
Fixpoint expected_stabs (le : bool) (off : Z) (ss : list stab) : list (list (string * fval) * Z) :=
  match ss with
  | [] => []
  | s :: r => (annot_layout (stab_layout le) s, off) :: expected_stabs le (off + 12) r
  end.

(* ------------------------------------------------------------------ the headers around an extent *)
(* gABI chapter 4 "Section Header" / chapter 5 "Program Header": the ten / eight fields of the
   header that describes a note extent or a stab table.  Only sh_offset + sh_size (p_offset +
   p_filesz) locate the bytes; sh_name, sh_type, sh_flags, sh_addr, sh_link, sh_info,
   sh_addralign, sh_entsize (p_type, p_flags, p_vaddr, p_paddr, p_memsz, p_align) are free:
   a note's fields are padded to 4 bytes whatever sh_addralign / p_align say, and a stab record
   is 12 bytes whatever sh_entsize says (GNU as writes 20 there for x86-64, 12 for i386, other
   producers leave it 0). *)
Record shdr := { sh_name : Z; sh_type : Z; sh_flags : Z; sh_addr : Z; sh_offset : Z; sh_size : Z;
                 sh_link : Z; sh_info : Z; sh_addralign : Z; sh_entsize : Z }.
Record phdr := { p_type : Z; p_flags : Z; p_offset : Z; p_vaddr : Z; p_paddr : Z; p_filesz : Z;
                 p_memsz : Z; p_align : Z }.

Definition shdr_vals (h : shdr) : list fval :=
  [ VZ (sh_name h); VZ (sh_type h); VZ (sh_flags h); VZ (sh_addr h); VZ (sh_offset h); VZ (sh_size h);
    VZ (sh_link h); VZ (sh_info h); VZ (sh_addralign h); VZ (sh_entsize h) ].
(* p_flags sits after p_type in ELFCLASS64 and before p_align in ELFCLASS32 *)
Definition phdr_vals (is64 : bool) (p : phdr) : list fval :=
  if is64 then
    [ VZ (p_type p); VZ (p_flags p); VZ (p_offset p); VZ (p_vaddr p); VZ (p_paddr p); VZ (p_filesz p);
      VZ (p_memsz p); VZ (p_align p) ]
  else
    [ VZ (p_type p); VZ (p_offset p); VZ (p_vaddr p); VZ (p_paddr p); VZ (p_filesz p); VZ (p_memsz p);
      VZ (p_flags p); VZ (p_align p) ].

Definition encode_shdr (le is64 : bool) (h : shdr) : list Z :=
  encode_layout (spec_Elf_Shdr le is64) (shdr_vals h).
Definition encode_phdr (le is64 : bool) (p : phdr) : list Z :=
  encode_layout (spec_Elf_Phdr le is64) (phdr_vals is64 p).
(* every field fits its width (words: 32 bits; addresses, offsets, xwords: the class's width) *)
Definition wf_shdr (le is64 : bool) (h : shdr) : bool := fits_layout (spec_Elf_Shdr le is64) (shdr_vals h).
Definition wf_phdr (le is64 : bool) (p : phdr) : bool := fits_layout (spec_Elf_Phdr le is64) (phdr_vals is64 p).
