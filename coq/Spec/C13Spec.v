(* Spec/C13Spec.v — what the bytes of .debug_aranges, .debug_pubnames/.debug_pubtypes
   and the unit headers of .debug_info MEAN (DWARF v2-v5: 6.1.1 "Lookup by Name",
   6.1.2 "Lookup by Address", 7.5.1 "Unit Headers", 7.4 "32-bit and 64-bit formats").
   Encoders take every byte the format leaves free as an argument (padding content,
   bytes after a terminator that unit_length still covers, unit bodies).
   Well-formedness predicates are bool so that the driver and the non-vacuity
   Examples can evaluate them. *)
From PV Require Export Base.PyData Spec.PrimSpec.
From Coq Require Import ZArith List Bool Lia.
Import ListNotations.
Open Scope Z_scope.

Definition u_ok (n : nat) (v : Z) : bool := (0 <=? v) && (v <? 2 ^ (8 * Z.of_nat n)).

(* ====================================================================== .debug_aranges
   Each set: unit_length(4, 32-bit format) version(2) debug_info_offset(4) address_size(1)
   segment_selector_size(1), padding so that "the first tuple following the header in each
   set begins at an offset that is a multiple of the size of a single tuple", tuples
   (address, length) of address_size bytes each, terminated by (0, 0). *)
Record arange_set := mk_arange_set {
  as_version : Z;
  as_info_offset : Z;
  as_addr_size : Z;              (* 4 or 8 *)
  as_pad : list Z;               (* content of the alignment padding: free *)
  as_tuples : list (Z * Z);      (* (address, length); none is (0, 0) *)
  as_trail : list Z              (* bytes after the terminator still inside unit_length: free *)
}.

Definition ARANGES_HDR_LEN : Z := 12.
Definition as_tuple_size (st : arange_set) : Z := 2 * as_addr_size st.
(* offset counted from the start of the SET (binutils, LLVM, the standard's text) *)
Definition as_pad_len (st : arange_set) : Z := (- ARANGES_HDR_LEN) mod as_tuple_size st.
Definition as_n (st : arange_set) : nat := Z.to_nat (as_addr_size st).

Definition encode_tuple (le : bool) (n : nat) (t : Z * Z) : list Z :=
  int_encode le n (fst t) ++ int_encode le n (snd t).

Definition as_body (le : bool) (st : arange_set) : list Z :=
  int_encode le 2 (as_version st) ++ int_encode le 4 (as_info_offset st) ++
  int_encode le 1 (as_addr_size st) ++ int_encode le 1 0 ++
  as_pad st ++
  concat (map (encode_tuple le (as_n st)) (as_tuples st)) ++
  encode_tuple le (as_n st) (0, 0) ++
  as_trail st.

Definition encode_arange_set (le : bool) (st : arange_set) : list Z :=
  int_encode le 4 (zlen (as_body le st)) ++ as_body le st.
Definition encode_aranges (le : bool) (sets : list arange_set) : list Z :=
  concat (map (encode_arange_set le) sets).

(* the value of the unit_length field, computed without encoding *)
Definition as_unit_length (st : arange_set) : Z :=
  8 + zlen (as_pad st) + as_tuple_size st * (zlen (as_tuples st) + 1) + zlen (as_trail st).

(* only the pair (0, 0) terminates a set: a range beginning at address 0 (0, len > 0) and a
   zero-length tuple with a non-zero address (a, 0) are ordinary tuples, and the tuples that
   follow them belong to the set *)
Definition tuple_ok (n : nat) (t : Z * Z) : bool :=
  u_ok n (fst t) && u_ok n (snd t) && negb ((fst t =? 0) && (snd t =? 0)).

Definition wf_arange_set (st : arange_set) : bool :=
  ((as_addr_size st =? 4) || (as_addr_size st =? 8)) &&
  u_ok 2 (as_version st) && u_ok 4 (as_info_offset st) &&
  (zlen (as_pad st) =? as_pad_len st) && all_bytes (as_pad st) && all_bytes (as_trail st) &&
  forallb (tuple_ok (as_n st)) (as_tuples st) &&
  (as_unit_length st <? 0xfffffff0).

(* A set may start at ANY offset of the section: the padding is counted from the start of
   the set (as_pad_len), so sets of different address sizes can follow each other without
   alignment bytes between them (binutils and LLVM read such tables; DWARF 6.1.2). *)
Definition wf_aranges (sets : list arange_set) : bool := forallb wf_arange_set sets.

(* The narrower domain the library was correct on before the repair (it padded from the
   SECTION start): every set starts at a multiple of its tuple size.  Kept for the
   refutation/agreement theorems about the old code. *)
Fixpoint aranges_aligned_from (off : Z) (sets : list arange_set) : bool :=
  match sets with
  | [] => true
  | st :: r => (off mod as_tuple_size st =? 0) &&
               aranges_aligned_from (off + 4 + as_unit_length st) r
  end.
Definition aranges_aligned (sets : list arange_set) : bool := aranges_aligned_from 0 sets.

(* what a consumer sees: every tuple with the header of its set *)
Record arange_entry := mk_arange_entry {
  ae_begin : Z; ae_length : Z; ae_info_offset : Z;
  ae_unit_length : Z; ae_version : Z; ae_address_size : Z; ae_segment_size : Z
}.
Definition set_entries (st : arange_set) : list arange_entry :=
  map (fun t => mk_arange_entry (fst t) (snd t) (as_info_offset st) (as_unit_length st)
                                (as_version st) (as_addr_size st) 0) (as_tuples st).
Definition aranges_entries (sets : list arange_set) : list arange_entry :=
  concat (map set_entries sets).

(* containment: the tuple describes the addresses [begin, begin + length) *)
Definition ae_contains (e : arange_entry) (a : Z) : bool :=
  (ae_begin e <=? a) && (a <? ae_begin e + ae_length e).
(* two tuples conflict when one begins inside the other.  For non-empty ranges this is
   exactly "the ranges intersect"; adjacent ranges do not conflict; a zero-length tuple
   conflicts with a range it starts in (including at its first byte). *)
Definition ranges_conflict (e1 e2 : arange_entry) : bool :=
  ae_contains e1 (ae_begin e2) || ae_contains e2 (ae_begin e1).
Definition ranges_disjoint (es : list arange_entry) : bool :=
  pairwise (fun a b => negb (ranges_conflict a b)) es.
(* plain set-theoretic disjointness, for the boundary theorem *)
Definition ranges_intersect (e1 e2 : arange_entry) : bool :=
  (Z.max (ae_begin e1) (ae_begin e2) <? Z.min (ae_begin e1 + ae_length e1) (ae_begin e2 + ae_length e2)).
Definition ranges_setwise_disjoint (es : list arange_entry) : bool :=
  pairwise (fun a b => negb (ranges_intersect a b)) es.

Definition lookup_spec (es : list arange_entry) (a : Z) : option Z :=
  option_map ae_info_offset (find (fun e => ae_contains e a) es).

(* ====================================================================== name tables
   Each set: unit_length(4) version(2) debug_info_offset(4) debug_info_length(4), then
   pairs (offset of the entry relative to the unit: 4 bytes, non-zero; NUL-terminated name),
   terminated by a 4-byte zero. *)
Record name_set := mk_name_set {
  ns_version : Z;
  ns_info_offset : Z;
  ns_info_length : Z;
  ns_entries : list (Z * list Z);    (* (relative entry offset, name bytes without NUL) *)
  ns_trail : list Z                  (* bytes after the terminator inside unit_length: free *)
}.

Definition encode_name_entry (le : bool) (e : Z * list Z) : list Z :=
  int_encode le 4 (fst e) ++ cstring_encode (snd e).
Definition ns_body (le : bool) (s : name_set) : list Z :=
  int_encode le 2 (ns_version s) ++ int_encode le 4 (ns_info_offset s) ++
  int_encode le 4 (ns_info_length s) ++
  concat (map (encode_name_entry le) (ns_entries s)) ++
  int_encode le 4 0 ++ ns_trail s.
Definition encode_name_set (le : bool) (s : name_set) : list Z :=
  int_encode le 4 (zlen (ns_body le s)) ++ ns_body le s.
Definition encode_names (le : bool) (sets : list name_set) : list Z :=
  concat (map (encode_name_set le) sets).

Definition ns_entry_len (e : Z * list Z) : Z := 4 + zlen (snd e) + 1.
Definition ns_unit_length (s : name_set) : Z :=
  10 + fold_right (fun e acc => ns_entry_len e + acc) 0 (ns_entries s) + 4 + zlen (ns_trail s).

Definition name_entry_ok (e : Z * list Z) : bool :=
  u_ok 4 (fst e) && negb (fst e =? 0) && no_nul (snd e) && all_bytes (snd e).
Definition wf_name_set (s : name_set) : bool :=
  u_ok 2 (ns_version s) && u_ok 4 (ns_info_offset s) && u_ok 4 (ns_info_length s) &&
  forallb name_entry_ok (ns_entries s) && all_bytes (ns_trail s) &&
  (ns_unit_length s <? 0xfffffff0).
Definition wf_names (sets : list name_set) : bool := forallb wf_name_set sets.

Record name_header := mk_name_header {
  nh_unit_length : Z; nh_version : Z; nh_info_offset : Z; nh_info_length : Z
}.
(* name -> (unit offset, ABSOLUTE entry offset), in encoded order *)
Definition set_items (s : name_set) : list (list Z * (Z * Z)) :=
  map (fun e => (snd e, (ns_info_offset s, ns_info_offset s + fst e))) (ns_entries s).
Definition names_items (sets : list name_set) : list (list Z * (Z * Z)) :=
  concat (map set_items sets).
Definition names_headers (sets : list name_set) : list name_header :=
  map (fun s => mk_name_header (ns_unit_length s) (ns_version s) (ns_info_offset s) (ns_info_length s)) sets.

(* ====================================================================== unit headers
   v2-v4: unit_length version(2) debug_abbrev_offset address_size(1)
   v5:    unit_length version(2) unit_type(1) address_size(1) debug_abbrev_offset
          [skeleton/split_compile: dwo_id(8)] [type/split_type: type_signature(8) type_offset]
   offsets are 4 bytes in the 32-bit format, 8 in the 64-bit format (initial length escape). *)
Record unit_spec := mk_unit_spec {
  us_is64 : bool;
  us_version : Z;
  us_unit_type : Z;       (* v5 only: 1 compile 2 type 3 partial 4 skeleton 5 split_compile 6 split_type *)
  us_abbrev_off : Z;
  us_addr_size : Z;
  us_id : Z;              (* dwo_id or type_signature where the unit type has one *)
  us_type_off : Z;        (* type units only *)
  us_body : list Z        (* everything after the header (the DIEs): free *)
}.

Definition osz (is64 : bool) : nat := if is64 then 8%nat else 4%nat.
Definition ut_has_id (t : Z) : bool := (t =? 4) || (t =? 5) || (t =? 2) || (t =? 6).
Definition ut_has_type_off (t : Z) : bool := (t =? 2) || (t =? 6).

Definition us_header_rest (le : bool) (u : unit_spec) : list Z :=
  int_encode le 2 (us_version u) ++
  (if 5 <=? us_version u then
     int_encode le 1 (us_unit_type u) ++ int_encode le 1 (us_addr_size u) ++
     int_encode le (osz (us_is64 u)) (us_abbrev_off u) ++
     (if ut_has_id (us_unit_type u) then int_encode le 8 (us_id u) else []) ++
     (if ut_has_type_off (us_unit_type u) then int_encode le (osz (us_is64 u)) (us_type_off u) else [])
   else
     int_encode le (osz (us_is64 u)) (us_abbrev_off u) ++ int_encode le 1 (us_addr_size u)).

Definition encode_unit (le : bool) (u : unit_spec) : list Z :=
  initial_length_encode le (zlen (us_header_rest le u ++ us_body u)) (us_is64 u) ++
  us_header_rest le u ++ us_body u.
Definition encode_units (le : bool) (us : list unit_spec) : list Z :=
  concat (map (encode_unit le) us).

Definition us_header_rest_len (u : unit_spec) : Z :=
  2 + (if 5 <=? us_version u then
         2 + Z.of_nat (osz (us_is64 u)) +
         (if ut_has_id (us_unit_type u) then 8 else 0) +
         (if ut_has_type_off (us_unit_type u) then Z.of_nat (osz (us_is64 u)) else 0)
       else Z.of_nat (osz (us_is64 u)) + 1).
Definition us_unit_length (u : unit_spec) : Z := us_header_rest_len u + zlen (us_body u).
Definition us_initlen_size (u : unit_spec) : Z := if us_is64 u then 12 else 4.
Definition us_size (u : unit_spec) : Z := us_initlen_size u + us_unit_length u.

Definition wf_unit (u : unit_spec) : bool :=
  (2 <=? us_version u) && (us_version u <=? 5) &&
  (if 5 <=? us_version u then (1 <=? us_unit_type u) && (us_unit_type u <=? 6) else true) &&
  ((us_addr_size u =? 4) || (us_addr_size u =? 8)) &&
  u_ok (osz (us_is64 u)) (us_abbrev_off u) && u_ok 8 (us_id u) &&
  u_ok (osz (us_is64 u)) (us_type_off u) && all_bytes (us_body u) &&
  initial_length_wf (us_unit_length u) (us_is64 u).
Definition wf_units (us : list unit_spec) : bool := forallb wf_unit us.

(* what a unit object exposes *)
Record cu_header := mk_cu_header {
  ch_unit_length : Z; ch_is64 : bool; ch_version : Z;
  ch_unit_type : Z;        (* 0 below version 5 *)
  ch_abbrev_off : Z; ch_addr_size : Z;
  ch_id : Z;               (* 0 where absent *)
  ch_type_off : Z          (* 0 where absent *)
}.
Record cu := mk_cu { cu_offset : Z; cu_hdr : cu_header; cu_die_offset : Z }.
Definition cu_size (c : cu) : Z :=
  ch_unit_length (cu_hdr c) + (if ch_is64 (cu_hdr c) then 12 else 4).

Definition unit_header_of (u : unit_spec) : cu_header :=
  let v5 := 5 <=? us_version u in
  mk_cu_header (us_unit_length u) (us_is64 u) (us_version u)
    (if v5 then us_unit_type u else 0) (us_abbrev_off u) (us_addr_size u)
    (if v5 && ut_has_id (us_unit_type u) then us_id u else 0)
    (if v5 && ut_has_type_off (us_unit_type u) then us_type_off u else 0).
Definition unit_at (off : Z) (u : unit_spec) : cu :=
  mk_cu off (unit_header_of u) (off + us_initlen_size u + us_header_rest_len u).

(* the units of a section with their offsets: they tile it *)
Fixpoint units_from (off : Z) (us : list unit_spec) : list cu :=
  match us with
  | [] => []
  | u :: r => unit_at off u :: units_from (off + us_size u) r
  end.
Definition section_units (us : list unit_spec) : list cu := units_from 0 us.

Definition cu_contains (c : cu) (r : Z) : bool := (cu_offset c <=? r) && (r <? cu_offset c + cu_size c).
Definition containing_spec (cus : list cu) (r : Z) : option cu := find (fun c => cu_contains c r) cus.
Definition at_spec (cus : list cu) (o : Z) : option cu := find (fun c => cu_offset c =? o) cus.

(* ====================================================================== queries on one
   DWARFInfo object and their stateless answers.  D is the type of DIE objects; DIE
   construction itself is property C04 and enters as the parameter [parse_die]. *)
Inductive di_op := OpContaining (refaddr : Z) | OpAt (offset : Z) | OpDie (cu_ofs die_ofs : Z).
Inductive di_answer (D : Type) := ACU (r : res cu) | ADIE (r : res D).
Arguments ACU {D} r.
Arguments ADIE {D} r.

Definition in_section (size x : Z) : bool := (0 <=? x) && (x <? size).
Definition res_of_opt {A} (e : err) (o : option A) : res A :=
  match o with Some a => Ok a | None => Err e end.

(* the entry at absolute offset die_ofs of the unit starting at cu_ofs; it must lie in the
   unit's DIE area [cu_die_offset, cu_offset + size); the unit's first DIE is built first *)
Definition die_spec {D} (parse_die : cu -> Z -> res D) (cus : list cu) (size cu_ofs die_ofs : Z) : res D :=
  if negb (in_section size cu_ofs) then Err EDwarf else
  match at_spec cus cu_ofs with
  | None => Err EParse          (* not a unit start: outside valid_op, unspecified *)
  | Some u =>
      if (cu_die_offset u <=? die_ofs) && (die_ofs <? cu_offset u + cu_size u) then
        match parse_die u (cu_die_offset u) with
        | Err e => Err e
        | Ok _ => parse_die u die_ofs
        end
      else Err EDwarf
  end.

Definition answer_spec {D} (parse_die : cu -> Z -> res D) (cus : list cu) (size : Z) (o : di_op)
  : di_answer D :=
  match o with
  | OpContaining r =>
      ACU (if negb (in_section size r) then Err EDwarf
           else res_of_opt (EPy "ValueError") (containing_spec cus r))
  | OpAt off =>
      ACU (if negb (in_section size off) then Err EDwarf
           else res_of_opt EParse (at_spec cus off))   (* None: outside valid_op, unspecified *)
  | OpDie cu_ofs die_ofs => ADIE (die_spec parse_die cus size cu_ofs die_ofs)
  end.

(* get_CU_at "does no validation of the offset": offset-exact queries are in the domain
   only at offsets where a unit starts *)
Definition is_unit_start (cus : list cu) (o : Z) : bool := existsb (fun c => cu_offset c =? o) cus.
Definition valid_op (cus : list cu) (o : di_op) : bool :=
  match o with
  | OpContaining _ => true
  | OpAt off => is_unit_start cus off
  | OpDie cu_ofs _ => is_unit_start cus cu_ofs
  end.
