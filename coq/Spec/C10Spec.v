(* Spec/C10Spec.v — the STATELESS meaning of every C10 operation.

   The immutable file is described by what is in it (record [file]): the sequence of units of
   .debug_info, each with its tree of entries, the abbreviation tables, line programs, CFI, and
   the ELF tables.  From that description
     - [parsers_of F]  are the pure relative parse functions the machine of Model/C10Machine.v is
                       instantiated with ("reading X at position p gives v and ends at e");
     - [query_spec F]  is the answer of every query, a function of the file and the query only;
     - generators have, as their only (and legitimate) state, how far they have been consumed:
       [aframe] is that position expressed in file offsets, [aframe_next] the pure successor;
     - [spec_step F]   is the resulting reference machine over iterator positions alone: it has no
                       caches, no cursors and no objects.
   [wf_file] is the executable well-formedness predicate (the hypothesis of the theorems, and the
   in-domain test of the harness). *)
From PV Require Export Model.C10Machine.
From Coq Require Import ZArith List Bool.
Import ListNotations.
Open Scope Z_scope.

(* ------------------------------------------------------------------ association lists on Z *)
Fixpoint zassoc {A} (k : Z) (l : list (Z * A)) : option A :=
  match l with
  | [] => None
  | (k', v) :: r => if k =? k' then Some v else zassoc k r
  end.
Fixpoint znodup (l : list Z) : bool :=
  match l with
  | [] => true
  | x :: r => negb (existsb (Z.eqb x) r) && znodup r
  end.

(* ------------------------------------------------------------------ the tree of entries of a unit *)
(* a non-null entry at [off] with its children and, when it has_children, the null entry that closes
   the list of children at [toff] *)
Inductive node := Node (off : Z) (raw : die_raw) (kids : list node) (toff : Z) (traw : die_raw).
Definition node_off (n : node) : Z := match n with Node off _ _ _ _ => off end.
Definition node_raw (n : node) : die_raw := match n with Node _ raw _ _ _ => raw end.
Definition node_kids (n : node) : list node := match n with Node _ _ kids _ _ => kids end.
(* first offset after the subtree *)
Definition node_end (n : node) : Z :=
  match n with Node off raw _ toff traw => if dr_hc raw then toff + dr_size traw else off + dr_size raw end.

(* what is known about the entry at an offset *)
Record entry := mk_entry {
  en_raw : die_raw;
  en_parent : option Z;          (* offset of the parent entry *)
  en_kids : list Z;              (* offsets of the children (without the closing null entry) *)
  en_term : option Z             (* offset of the closing null entry *)
}.

(* all entries of a subtree, in section order, keyed by offset *)
Fixpoint flat (parent : option Z) (n : node) : list (Z * entry) :=
  match n with
  | Node off raw kids toff traw =>
      (off, mk_entry raw parent (map node_off kids) (if dr_hc raw then Some toff else None))
      :: flat_map (flat (Some off)) kids
      ++ (if dr_hc raw then [(toff, mk_entry traw (Some off) [] None)] else [])
  end.

(* the children occupy consecutive extents from [pos] up to the closing null entry at [toff] *)
Fixpoint chain (pos : Z) (kids : list node) (toff : Z) : bool :=
  match kids with
  | [] => pos =? toff
  | k :: r => (node_off k =? pos) && chain (node_end k) r toff
  end.

(* DW_AT_sibling, where iter_DIE_children consults it (entries with children), is truthful *)
Definition sib_ok (uoff : Z) (n : node) : bool :=
  if dr_hc (node_raw n) then
    match dr_sib (node_raw n) with
    | None => true
    | Some (SibLocal, v) => v + uoff =? node_end n
    | Some (SibAddr, v) => v =? node_end n
    | Some (SibOther, _) => false
    end
  else true.

Fixpoint wf_node (uoff : Z) (n : node) : bool :=
  match n with
  | Node off raw kids toff traw =>
      negb (dr_null raw) && (0 <? dr_size raw) &&
      (if dr_hc raw then chain (off + dr_size raw) kids toff && dr_null traw && negb (dr_hc traw) && (0 <? dr_size traw)
       else match kids with [] => true | _ => false end) &&
      sib_ok uoff n && forallb (wf_node uoff) kids
  end.

(* ------------------------------------------------------------------ the file *)
Record udesc := mk_ud { ud_off : Z; ud_hdr : unit_hdr; ud_die_off : Z; ud_tree : node }.
Definition ud_entries (ud : udesc) : list (Z * entry) := flat None (ud_tree ud).

Record lpdesc := mk_ld {
  ld_raw : lp_raw; ld_start : Z;       (* header, position after it *)
  ld_body : lp_body; ld_body_end : Z   (* decoded program, position after it *)
}.

Record file := mk_file {
  f_info_size : Z;
  f_units : list udesc;                              (* in section order *)
  f_abbrev_size : Z;
  f_abbrevs : list (Z * (Z * Z));                    (* offset -> table, position after *)
  f_lines : list (Z * lpdesc);                       (* offset -> line program *)
  f_cfi : option (Z * Z);                            (* .debug_frame: entries, position after *)
  f_ehcfi : option (Z * Z);                          (* .eh_frame *)
  f_stream_len : Z; f_shoff : Z; f_shnum : Z; f_shentsize : Z; f_shstr_base : Z;
  f_shdrs : list (shdr_raw * Z);                     (* section headers by index, position after *)
  f_strs : list (Z * (Z * Z));                       (* position -> C string there, position after the chunked read *)
  f_phoff : Z; f_phentsize : Z;
  f_phdrs : list (phdr_raw * Z);
  f_sym_base : Z; f_sym_entsize : Z; f_strtab_base : Z;
  f_syms : list (sym_raw * Z);
  f_dyn_base : Z; f_dyn_entsize : Z;
  f_dyns : list (dyn_raw * Z);
  (* the entries of .debug_frame / .eh_frame in order: kind (0 CIE, 1 FDE, 2 ZERO terminator), index of the
     entry's CIE in the same list (FDEs), the decoded table (rows and register order: opaque) *)
  f_cfi_ents : list (Z * Z * Z);
  f_ehcfi_ents : list (Z * Z * Z);
  (* the type units of .debug_types in section order: offset, header, position after the header *)
  f_types_size : Z;
  f_tus : list (Z * tu_raw * Z)
}.

Definition unit_at (F : file) (u : Z) : option udesc := find (fun ud => ud_off ud =? u) (f_units F).
Definition unit_containing (F : file) (a : Z) : option udesc :=
  find (fun ud => (ud_off ud <=? a) && (a <? ud_off ud + uh_size (ud_hdr ud))) (f_units F).
Definition entry_at (F : file) (u o : Z) : option entry :=
  match unit_at F u with Some ud => zassoc o (ud_entries ud) | None => None end.

(* the units tile the section: first at 0, each next one where the previous ends *)
Fixpoint units_chain (pos : Z) (l : list udesc) (size : Z) : bool :=
  match l with
  | [] => pos =? size
  | ud :: r => (ud_off ud =? pos) && (0 <? uh_size (ud_hdr ud)) && units_chain (pos + uh_size (ud_hdr ud)) r size
  end.

Definition wf_unit (F : file) (ud : udesc) : bool :=
  wf_node (ud_off ud) (ud_tree ud) &&
  (node_off (ud_tree ud) =? ud_die_off ud) &&
  (ud_off ud <? ud_die_off ud) && (node_end (ud_tree ud) <=? ud_off ud + uh_size (ud_hdr ud)) &&
  znodup (map fst (ud_entries ud)) &&
  (uh_abbrev (ud_hdr ud) <? f_abbrev_size F) &&
  match zassoc (uh_abbrev (ud_hdr ud)) (f_abbrevs F) with Some _ => true | None => false end &&
  match dr_stmt (node_raw (ud_tree ud)) with
  | None => true
  | Some off => match zassoc off (f_lines F) with Some _ => true | None => false end
  end.

(* indexed tables: entry n at base + n * entsize *)
Definition table_index (base entsize pos : Z) : option nat :=
  let d := pos - base in
  if (0 <? entsize) && (0 <=? d) && (d mod entsize =? 0) then Some (Z.to_nat (d / entsize)) else None.
Definition table_at {A} (base entsize : Z) (l : list (A * Z)) (pos : Z) : res (A * Z) :=
  match table_index base entsize pos with
  | Some n => match nth_error l n with Some v => Ok v | None => Err EParse end
  | None => Err EParse
  end.

Definition f_sym_count (F : file) : Z := zlen (f_syms F).

(* the string the library reads at a position of the ELF stream *)
Definition str_at (F : file) (pos : Z) : option Z :=
  match zassoc pos (f_strs F) with Some (v, _) => Some v | None => None end.

(* index of the first DT_NULL, plus one *)
Fixpoint count_tags (l : list (dyn_raw * Z)) : option Z :=
  match l with
  | [] => None
  | (t, _) :: r => if dy_null t then Some 1 else match count_tags r with Some n => Some (n + 1) | None => None end
  end.

Definition has_dyn (F : file) : bool :=
  (0 <? f_dyn_entsize F) && match count_tags (f_dyns F) with Some _ => true | None => false end.
Definition has_symtab (F : file) : bool := 0 <? f_sym_entsize F.

(* tables that the file does not have are empty *)
Definition wf_elf (F : file) : bool :=
  (0 <? f_shentsize F) && (0 <? f_shoff F) && (f_shnum F =? zlen (f_shdrs F)) && (0 <? f_shnum F) &&
  (f_shoff F + f_shnum F * f_shentsize F <=? f_stream_len F) &&
  forallb (fun h => match str_at F (f_shstr_base F + sh_name (fst h)) with Some _ => true | None => false end) (f_shdrs F) &&
  ((0 <? f_phentsize F) || match f_phdrs F with [] => true | _ => false end) &&
  (has_symtab F || match f_syms F with [] => true | _ => false end) &&
  forallb (fun e => match str_at F (f_strtab_base F + sy_name (fst e)) with Some _ => true | None => false end) (f_syms F) &&
  (has_dyn F || match f_dyns F with [] => true | _ => false end).

(* distinct line programs start at distinct positions; resolving the names of a v5 header reads
   .debug_line_str / .debug_str, never .debug_line itself *)
Definition wf_lines (F : file) : bool :=
  znodup (map (fun kv => ld_start (snd kv)) (f_lines F)) &&
  forallb (fun kv => forallb (fun p => negb (Nat.eqb (fst p) S_LINE)) (lr_eff (ld_raw (snd kv)))) (f_lines F).

(* the type units tile .debug_types *)
Definition tu_off (x : Z * tu_raw * Z) : Z := fst (fst x).
Definition tu_hdr (x : Z * tu_raw * Z) : tu_raw := snd (fst x).
Fixpoint tus_chain (pos : Z) (l : list (Z * tu_raw * Z)) (size : Z) : bool :=
  match l with
  | [] => pos =? size
  | x :: r => (tu_off x =? pos) && (0 <? tu_size (tu_hdr x)) && tus_chain (pos + tu_size (tu_hdr x)) r size
  end.
Definition tu_at (F : file) (pos : Z) : option (Z * tu_raw * Z) := find (fun x => tu_off x =? pos) (f_tus F).

(* DWARFInfo._type_units_by_sig once complete: the units of .debug_types, then the type units of .debug_info,
   a later unit with the same signature replacing an earlier one *)
Definition tumap_list (F : file) : list (Z * (Z * Z * Z)) :=
  map (fun x => (tu_sig (tu_hdr x), (0, tu_off x, tu_pid (tu_hdr x)))) (f_tus F) ++
  flat_map (fun ud => match uh_tsig (ud_hdr ud) with
                      | Some sig => [(sig, (1, ud_off ud, uh_pid (ud_hdr ud)))]
                      | None => [] end) (f_units F).
Definition tumap_spec (F : file) : dict Z (Z * Z * Z) := dict_of_list Z.eqb (tumap_list F).

Definition cfi_ents (F : file) (eh : bool) : list (Z * Z * Z) := if eh then f_ehcfi_ents F else f_cfi_ents F.
Definition ent_kind (e : Z * Z * Z) : Z := fst (fst e).
Definition ent_cie (e : Z * Z * Z) : Z := snd (fst e).
Definition ent_table (e : Z * Z * Z) : Z := snd e.
(* the CIE of an FDE is a CIE of the same list *)
Definition wf_cfi (l : list (Z * Z * Z)) : bool :=
  forallb (fun e => negb (ent_kind e =? 1) ||
                    ((0 <=? ent_cie e) &&
                     match nth_error l (Z.to_nat (ent_cie e)) with Some c => ent_kind c =? 0 | None => false end)) l.

Definition wf_file (F : file) : bool :=
  units_chain 0 (f_units F) (f_info_size F) &&
  forallb (wf_unit F) (f_units F) &&
  wf_lines F &&
  wf_cfi (f_cfi_ents F) && wf_cfi (f_ehcfi_ents F) &&
  tus_chain 0 (f_tus F) (f_types_size F) &&
  wf_elf F.

(* the finding C10/lineprogram-file_entry-grows lives exactly here *)
Definition no_define_file (F : file) : bool :=
  forallb (fun kv => lb_defs (ld_body (snd kv)) =? 0) (f_lines F).

(* ------------------------------------------------------------------ the parse functions of the file *)
Definition parsers_of (F : file) : parsers :=
  mk_parsers
    (f_info_size F)
    (fun pos => match unit_at F pos with Some ud => Ok (ud_hdr ud, ud_die_off ud) | None => Err EParse end)
    (fun u pos => match entry_at F u pos with
                  | Some e => Ok (en_raw e, pos + dr_size (en_raw e))
                  | None => Err EParse end)
    (f_types_size F)
    (fun pos => match tu_at F pos with Some x => Ok (tu_hdr x, snd x) | None => Err EParse end)
    (f_abbrev_size F)
    (fun pos => match zassoc pos (f_abbrevs F) with Some v => Ok v | None => Err EParse end)
    (fun _ pos => match zassoc pos (f_lines F) with Some ld => Ok (ld_raw ld, ld_start ld) | None => Err EParse end)
    (fun _ _ pos => match find (fun kv => ld_start (snd kv) =? pos) (f_lines F) with
                    | Some (_, ld) => Ok (ld_body ld, ld_body_end ld) | None => Err EParse end)
    (fun eh pos => if pos =? 0 then
                     match (if eh then f_ehcfi F else f_cfi F) with Some v => Ok v | None => Err EParse end
                   else Err EParse)
    (fun eh => zlen (cfi_ents F eh))
    (fun eh i => match nth_error (cfi_ents F eh) (Z.to_nat i) with Some e => (ent_kind e, ent_cie e) | None => (2, 0) end)
    (fun eh i ct =>
       match nth_error (cfi_ents F eh) (Z.to_nat i) with
       | Some e =>
           if ent_kind e =? 0 then Ok (ent_table e)
           else match ct, nth_error (cfi_ents F eh) (Z.to_nat (ent_cie e)) with
                | Some c, Some ce => if c =? ent_table ce then Ok (ent_table e) else Err EParse
                | _, _ => Err EParse
                end
       | None => Err EParse
       end)
    (f_stream_len F) (f_shoff F) (f_shnum F) (f_shentsize F) (f_shstr_base F)
    (table_at (f_shoff F) (f_shentsize F) (f_shdrs F))
    (fun pos => match zassoc pos (f_strs F) with Some v => Ok v | None => Err EParse end)
    (f_phoff F) (f_phentsize F)
    (table_at (f_phoff F) (f_phentsize F) (f_phdrs F))
    (f_sym_base F) (f_sym_entsize F) (f_sym_count F) (f_strtab_base F)
    (table_at (f_sym_base F) (f_sym_entsize F) (f_syms F))
    (f_dyn_base F) (f_dyn_entsize F)
    (table_at (f_dyn_base F) (f_dyn_entsize F) (f_dyns F)).

(* ------------------------------------------------------------------ answers of the queries *)
Definition die_ans (F : file) (u o : Z) : answer :=
  match entry_at F u o with
  | Some e => ADie u o (dr_pid (en_raw e))
  | None => AErr EParse
  end.
Definition unit_ans (ud : udesc) : answer := AUnit (ud_off ud) (uh_pid (ud_hdr ud)).

Definition die_global_ans (F : file) (o : Z) : answer :=
  match unit_containing F o with
  | Some ud => die_ans F (ud_off ud) o
  | None => AErr EDwarf
  end.

Definition section_vals (F : file) (n : nat) : option (list Z) :=
  match nth_error (f_shdrs F) n with
  | Some (h, _) => match str_at F (f_shstr_base F + sh_name h) with
                   | Some nm => Some [nm; sh_pid h] | None => None end
  | None => None
  end.
Definition symbol_vals (F : file) (n : nat) : option (list Z) :=
  match nth_error (f_syms F) n with
  | Some (e, _) => match str_at F (f_strtab_base F + sy_name e) with
                   | Some nm => Some [nm; sy_pid e] | None => None end
  | None => None
  end.
Definition opt_ans (o : option (list Z)) : answer := match o with Some l => AVals l | None => AErr EParse end.

(* name -> index of the LAST section with that name (a dict filled in index order) *)
Definition section_names (F : file) : list (Z * Z) :=
  map (fun i => (match section_vals F i with Some (nm :: _) => nm | _ => 0 end, Z.of_nat i))
      (seq 0 (length (f_shdrs F))).
Definition secmap_spec (F : file) : dict Z Z := dict_of_list Z.eqb (section_names F).

(* name -> the indices of the symbols with that name, in order *)
Definition symbol_names (F : file) : list (Z * Z) :=
  map (fun i => (match symbol_vals F i with Some (nm :: _) => nm | _ => 0 end, Z.of_nat i))
      (seq 0 (length (f_syms F))).
Definition symmap_add (m : dict Z (list Z)) (kv : Z * Z) : dict Z (list Z) :=
  dict_set Z.eqb m (fst kv) (match dict_get Z.eqb m (fst kv) with Some l => l | None => [] end ++ [snd kv]).
Definition symmap_spec (F : file) : dict Z (list Z) := fold_left symmap_add (symbol_names F) [].
Fixpoint symbols_vals (F : file) (l : list Z) : option (list Z) :=
  match l with
  | [] => Some []
  | i :: r => match symbol_vals F (Z.to_nat i), symbols_vals F r with
              | Some a, Some b => Some (a ++ b) | _, _ => None end
  end.

Definition in_table {A} (n : Z) (l : list A) : bool := (0 <=? n) && (n <? zlen l).

Definition query_spec (F : file) (o : op) : answer :=
  match o with
  | Disturb _ _ => ADone
  | CUAt u => match unit_at F u with Some ud => unit_ans ud | None => AErr EParse end
  | CUContaining a => match unit_containing F a with Some ud => unit_ans ud | None => AErr EDwarf end
  | TopDIE u => match unit_at F u with Some ud => die_ans F u (ud_die_off ud) | None => AErr EParse end
  | DIEAt u o => die_ans F u o
  | DIEGlobal o => die_global_ans F o
  | Parent u o =>
      match entry_at F u o with
      | Some e => match en_parent e with Some p => die_ans F u p | None => ANone end
      | None => AErr EParse
      end
  | FollowRef u o k =>
      match entry_at F u o with
      | Some e =>
          match nth_error (dr_refs (en_raw e)) k with
          | Some (RefLocal, v) => die_ans F u (u + v)
          | Some (RefAddr, v) => die_global_ans F v
          | Some (RefOther, _) => AErr (EPy "NotImplementedError")
          | None => AErr (EPy "KeyError")
          end
      | None => AErr EParse
      end
  | LineProg u =>
      match unit_at F u with
      | Some ud =>
          match dr_stmt (node_raw (ud_tree ud)) with
          | None => ANone
          | Some off => match zassoc off (f_lines F) with
                        | Some ld => AVals [lr_pid (ld_raw ld); lr_files (ld_raw ld)]
                        | None => AErr EParse end
          end
      | None => AErr EParse
      end
  | LineEntries u =>
      match unit_at F u with
      | Some ud =>
          match dr_stmt (node_raw (ud_tree ud)) with
          | None => ANone
          | Some off => match zassoc off (f_lines F) with
                        | Some ld => AVals [lb_pid (ld_body ld)]
                        | None => AErr EParse end
          end
      | None => AErr EParse
      end
  | CFI eh => match (if eh then f_ehcfi F else f_cfi F) with Some (v, _) => AVals [v] | None => AErr EParse end
  | CFIDecoded eh i => match nth_error (cfi_ents F eh) (Z.to_nat i) with
                       | Some e => AVals [ent_table e] | None => AErr (EPy "IndexError") end
  | TUBySig sig => match dict_get Z.eqb (tumap_spec F) sig with
                   | Some v => AVals [fst (fst v); snd (fst v); snd v]
                   | None => AErr (EPy "KeyError") end
  | NewIterTUs _ | NewIterCUs _ | NewIterDIEs _ _ | NewIterChildren _ _ _ | NewIterSiblings _ _ _
  | NewIterSections _ | NewIterSymbols _ | NewIterTags _ => ADone
  | Next _ => AStop     (* generators: see [spec_step] *)
  | ENumSections => AVals [f_shnum F]
  | ESection n => if in_table n (f_shdrs F) then opt_ans (section_vals F (Z.to_nat n)) else AErr EParse
  | ESectionByName name =>
      match dict_get Z.eqb (secmap_spec F) name with
      | Some i => opt_ans (section_vals F (Z.to_nat i))
      | None => ANone
      end
  | ESegment n => if in_table n (f_phdrs F) then
                    match nth_error (f_phdrs F) (Z.to_nat n) with Some (h, _) => AVals [ph_pid h] | None => AErr EParse end
                  else AErr EParse
  | ESymbol n => if in_table n (f_syms F) then opt_ans (symbol_vals F (Z.to_nat n)) else AErr EParse
  | ESymbolByName name =>
      match dict_get Z.eqb (symmap_spec F) name with
      | None | Some [] => ANone
      | Some l => opt_ans (symbols_vals F l)
      end
  | EString off => match str_at F (f_strtab_base F + off) with Some v => AVals [v] | None => AErr EParse end
  | ENumTags => match count_tags (f_dyns F) with Some n => AVals [n] | None => AErr EParse end
  | EGetTag n =>
      match count_tags (f_dyns F) with
      | Some nt => if nt <=? n then AErr (EPy "IndexError")
                   else match nth_error (f_dyns F) (Z.to_nat n) with
                        | Some (t, _) => AVals [dy_pid t] | None => AErr EParse end
      | None => AErr EParse
      end
  | ESectionTyped n ty =>
      match nth_error (f_shdrs F) (Z.to_nat n) with
      | Some (h, _) => if sh_ty h =? ty then opt_ans (section_vals F (Z.to_nat n)) else AErr EElf
      | None => AErr EParse
      end
  | RefetchDwarf => ADone
  | DIEAtOutside _ _ => AErr EDwarf
  | LineEntriesFailing u e _ =>
      match unit_at F u with
      | Some ud =>
          match dr_stmt (node_raw (ud_tree ud)) with
          | None => ANone
          | Some off => match zassoc off (f_lines F) with Some _ => AErr e | None => AErr EParse end
          end
      | None => AErr EParse
      end
  | CUAtFailing _ e _ => AErr e
  end.

(* ------------------------------------------------------------------ generators: positions and successors *)
(* die.iter_children() in unit u, consumed up to child c of p *)
Inductive acframe := ACStart (p : Z) | ACYield (p c : Z) | ACDone.
Inductive apc := APStart | APDie | APKids (c : acframe) | APTerm.
Inductive aframe :=
| AFEmpty
| AFCUs (offset : Z)
| AFTUs (offset : Z)
| AFChildren (u : Z) (c : acframe)
| AFSiblings (u self : Z) (c : option acframe)
| AFSubtree (u : Z) (stack : list (Z * apc))
| AFSections (i : Z) | AFSymbols (i : Z) | AFTags (n : Z) (fin : bool).

(* the elements of l after the first occurrence of c *)
Fixpoint after (c : Z) (l : list Z) : list Z :=
  match l with
  | [] => []
  | x :: r => if x =? c then r else after c r
  end.

Definition kids_of (E : list (Z * entry)) (p : Z) : list Z :=
  match zassoc p E with Some e => en_kids e | None => [] end.

Definition achildren_next (E : list (Z * entry)) (f : acframe) : acframe * option Z :=
  match f with
  | ACStart p => match kids_of E p with k :: _ => (ACYield p k, Some k) | [] => (ACDone, None) end
  | ACYield p c => match after c (kids_of E p) with k :: _ => (ACYield p k, Some k) | [] => (ACDone, None) end
  | ACDone => (ACDone, None)
  end.

(* iter_siblings: the children of the parent, skipping self *)
Definition asiblings_rest (E : list (Z * entry)) (self : Z) (f : acframe) : list Z :=
  filter (fun k => negb (k =? self))
    (match f with
     | ACStart p => kids_of E p
     | ACYield p c => after c (kids_of E p)
     | ACDone => []
     end).
Definition acframe_parent (f : acframe) : option Z :=
  match f with ACStart p => Some p | ACYield p _ => Some p | ACDone => None end.

Definition asub_kids (E : list (Z * entry)) (die : Z) (cf : acframe) (rest : list (Z * apc))
  : option (list (Z * apc) * option Z) :=
  match achildren_next E cf with
  | (cf', Some c) => Some ((c, APDie) :: (die, APKids cf') :: rest, Some c)
  | (cf', None) => Some ((die, APTerm) :: rest, match zassoc die E with Some e => en_term e | None => None end)
  end.
Fixpoint asubtree_next (E : list (Z * entry)) (stack : list (Z * apc)) : option (list (Z * apc) * option Z) :=
  match stack with
  | [] => None
  | (die, pc) :: rest =>
      match pc with
      | APStart => Some ((die, APDie) :: rest, Some die)
      | APDie =>
          match zassoc die E with
          | Some e => if dr_hc (en_raw e) then asub_kids E die (ACStart die) rest else asubtree_next E rest
          | None => None
          end
      | APKids cf => asub_kids E die cf rest
      | APTerm => asubtree_next E rest
      end
  end.

(* next(generator): None = StopIteration *)
Definition aframe_next (F : file) (f : aframe) : option (aframe * answer) :=
  match f with
  | AFEmpty => None
  | AFCUs offset =>
      if offset <? f_info_size F then
        match unit_at F offset with
        | Some ud => Some (AFCUs (offset + uh_size (ud_hdr ud)), unit_ans ud)
        | None => None
        end
      else None
  | AFTUs offset =>
      if offset <? f_types_size F then
        match tu_at F offset with
        | Some x => Some (AFTUs (offset + tu_size (tu_hdr x)), AVals [0; offset; tu_pid (tu_hdr x)])
        | None => None
        end
      else None
  | AFChildren u cf =>
      match unit_at F u with
      | Some ud =>
          match achildren_next (ud_entries ud) cf with
          | (cf', Some c) => Some (AFChildren u cf', die_ans F u c)
          | (_, None) => None
          end
      | None => None
      end
  | AFSiblings u self c =>
      match unit_at F u with
      | Some ud =>
          let E := ud_entries ud in
          let cf := match c with
                    | Some cf => Some cf
                    | None => match zassoc self E with
                              | Some e => match en_parent e with Some p => Some (ACStart p) | None => None end
                              | None => None end
                    end in
          match cf with
          | Some cf =>
              match asiblings_rest E self cf, acframe_parent cf with
              | k :: _, Some p => Some (AFSiblings u self (Some (ACYield p k)), die_ans F u k)
              | _, _ => None
              end
          | None => None     (* top DIE: the generator raises (see [spec_step]) *)
          end
      | None => None
      end
  | AFSubtree u stack =>
      match unit_at F u with
      | Some ud =>
          match asubtree_next (ud_entries ud) stack with
          | Some (stack', Some d) => Some (AFSubtree u stack', die_ans F u d)
          | Some (stack', None) => Some (AFSubtree u stack', ANone)
          | None => None
          end
      | None => None
      end
  | AFSections i =>
      if in_table i (f_shdrs F) then
        match section_vals F (Z.to_nat i) with Some v => Some (AFSections (i + 1), AVals v) | None => None end
      else None
  | AFSymbols i =>
      if in_table i (f_syms F) then
        match symbol_vals F (Z.to_nat i) with Some v => Some (AFSymbols (i + 1), AVals v) | None => None end
      else None
  | AFTags n fin =>
      if fin then None
      else match nth_error (f_dyns F) (Z.to_nat n) with
           | Some (t, _) => Some (AFTags (n + 1) (dy_null t), AVals [dy_pid t])
           | None => None
           end
  end.

(* iter_siblings of a top DIE: `raise StopIteration()` inside the generator = RuntimeError *)
Definition siblings_of_top (F : file) (f : aframe) : bool :=
  match f with
  | AFSiblings u self None =>
      match entry_at F u self with
      | Some e => match en_parent e with None => true | Some _ => false end
      | None => false
      end
  | _ => false
  end.

Fixpoint upd_slot {A} (n : nat) (x : A) (l : list A) : list A :=
  match l, n with
  | [], _ => []
  | _ :: r, O => x :: r
  | y :: r, S m => y :: upd_slot m x r
  end.

(* the reference machine: iterator positions only *)
Definition spec_step (F : file) (afs : list aframe) (o : op) : list aframe * answer :=
  match o with
  | NewIterTUs slot => (upd_slot slot (AFTUs 0) afs, ADone)
  | NewIterCUs slot => (upd_slot slot (AFCUs 0) afs, ADone)
  | NewIterDIEs slot u =>
      match unit_at F u with
      | Some ud => (upd_slot slot (AFSubtree u [(ud_die_off ud, APStart)]) afs, ADone)
      | None => (afs, AErr EParse)
      end
  | NewIterChildren slot u o => (upd_slot slot (AFChildren u (ACStart o)) afs, ADone)
  | NewIterSiblings slot u o => (upd_slot slot (AFSiblings u o None) afs, ADone)
  | NewIterSections slot => (upd_slot slot (AFSections 0) afs, ADone)
  | NewIterSymbols slot => (upd_slot slot (AFSymbols 0) afs, ADone)
  | NewIterTags slot => (upd_slot slot (AFTags 0 false) afs, ADone)
  | Next slot =>
      let f := nth slot afs AFEmpty in
      match aframe_next F f with
      | Some (f', a) => (upd_slot slot f' afs, a)
      | None => (upd_slot slot AFEmpty afs,
                 if siblings_of_top F f then AErr (EPy "RuntimeError") else AStop)
      end
  | _ => (afs, query_spec F o)
  end.

Definition spec_run (F : file) (afs : list aframe) (h : list op) : list aframe * list answer :=
  fold_left (fun acc o => let '(a', x) := spec_step F (fst acc) o in (a', snd acc ++ [x])) h (afs, []).

(* ------------------------------------------------------------------ which operations are queries of the file *)
(* offset-exact lookups must name an offset where a unit / an entry starts (get_CU_at is documented
   as unvalidated), indices must be inside their tables, streams exist *)
Definition valid_die (F : file) (u o : Z) : bool :=
  match entry_at F u o with Some _ => true | None => false end.
Definition nonnull_die (F : file) (u o : Z) : bool :=
  match entry_at F u o with Some e => negb (dr_null (en_raw e)) | None => false end.
Definition has_unit (F : file) (u : Z) : bool := match unit_at F u with Some _ => true | None => false end.

Definition valid_op (F : file) (o : op) : bool :=
  match o with
  | Disturb sid _ => (sid <? NSTREAMS)%nat
  | CUAt u | TopDIE u | NewIterDIEs _ u => has_unit F u
  | LineProg u | LineEntries u => has_unit F u
  | CUContaining a | DIEGlobal a =>
      (0 <=? a) && (a <? f_info_size F) &&
      match o with DIEGlobal _ => match unit_containing F a with Some ud => valid_die F (ud_off ud) a | None => false end
                 | _ => true end
  | DIEAt u o | Parent u o | NewIterChildren _ u o | NewIterSiblings _ u o => valid_die F u o
  | FollowRef u o k =>
      match entry_at F u o with
      | Some e =>
          match nth_error (dr_refs (en_raw e)) k with
          | Some (RefLocal, v) => valid_die F u (u + v)
          | Some (RefAddr, v) =>
              (0 <=? v) && (v <? f_info_size F) &&
              match unit_containing F v with Some ud => valid_die F (ud_off ud) v | None => false end
          | _ => false
          end
      | None => false
      end
  | CFI eh => match (if eh then f_ehcfi F else f_cfi F) with Some _ => true | None => false end
  | CFIDecoded eh i =>
      match (if eh then f_ehcfi F else f_cfi F) with Some _ => true | None => false end &&
      (0 <=? i) && match nth_error (cfi_ents F eh) (Z.to_nat i) with Some e => (ent_kind e =? 0) || (ent_kind e =? 1) | None => false end
  | TUBySig _ | NewIterTUs _ => true
  | NewIterCUs _ | NewIterSections _ | Next _ => true
  | NewIterSymbols _ | ESymbolByName _ => has_symtab F
  | NewIterTags _ | ENumTags => has_dyn F
  | ENumSections => true
  | ESection n => in_table n (f_shdrs F)
  | ESectionByName _ => true
  | ESegment n => in_table n (f_phdrs F)
  | ESymbol n => in_table n (f_syms F)
  | EString off => match str_at F (f_strtab_base F + off) with Some _ => true | None => false end
  | EGetTag n => has_dyn F && (0 <=? n)
  | ESectionTyped n _ => in_table n (f_shdrs F)
  | RefetchDwarf => true
  | DIEAtOutside u o =>
      match unit_at F u with
      | Some ud => (o <? ud_die_off ud) || (ud_off ud + uh_size (ud_hdr ud) <=? o)
      | None => false
      end
  | LineEntriesFailing u _ _ => has_unit F u
  | CUAtFailing off _ _ => negb (has_unit F off)
  end.

(* ------------------------------------------------------------------ hypotheses of the refinement theorem *)
(* fuel that draining the children generator of a node needs: one per child and two more, plus what the
   deepest child needs (the generator of a child is drained inside one resumption of its parent's) *)
Fixpoint nav_fuel (n : node) : nat :=
  match n with
  | Node _ _ kids _ _ => (S (S (length kids)) + fold_right (fun k acc => Nat.max (nav_fuel k) acc) 0 kids)%nat
  end.

(* the bound that the fuel of the machine's loops must exceed: the number of units, of dynamic tags, of type units,
   and twice the navigation fuel of the largest unit tree (iter_DIEs spends two steps per level of its stack) *)
Definition fuel_bound (F : file) : nat :=
  (length (f_units F) + length (f_dyns F) + length (f_tus F) +
   2 * fold_right (fun ud acc => Nat.max (nav_fuel (ud_tree ud)) acc) 0 (f_units F) + 4)%nat.
Definition fuel_ok (F : file) (fuel : nat) : bool := (fuel_bound F <? fuel)%nat.

(* the finding lineprogram-header-file_entry-grows-after-get_entries concerns exactly the query
   LineProg on a file with a DW_LNE_define_file *)
Definition outside_finding (F : file) (o : op) : bool :=
  match o with LineProg _ => no_define_file F | _ => true end.

Definition ans_of (r : res answer) : answer := match r with Ok a => a | Err e => AErr e end.

(* operations of a history that the refinement theorem speaks about: valid queries of the file, outside the
   known finding *)
Definition op_ok (F : file) (o : op) : bool := valid_op F o && outside_finding F o.

(* a concrete file used by the non-vacuity examples and the witness of the finding: one unit (header of 11
   bytes, entries at 11, 15, 18, 20 and the closing null entries at 22, 23), one abbreviation table, one
   line program with two DW_LNE_define_file, .debug_frame (a CIE and two FDEs), two type units in .debug_types, two sections, one segment, one symbol, two
   dynamic tags *)
Definition ex_raw (size : Z) (null hc : bool) (stmt : option Z) (pid : Z) : die_raw :=
  mk_raw size null hc None [] stmt pid [].
Definition ex_null : die_raw := ex_raw 1 true false None 4.
Definition ex_tree : node :=
  Node 11 (mk_raw 4 false true None [(RefLocal, 20); (RefAddr, 15)] (Some 0) 1 [(6%nat, 77)])
    [Node 15 (ex_raw 3 false false None 2) [] 0 ex_null;
     Node 18 (ex_raw 2 false true None 3) [Node 20 (ex_raw 2 false false None 5) [] 0 ex_null] 22 ex_null]
    23 ex_null.
Definition ex_file_gen (defs : Z) : file :=
  mk_file 24 [mk_ud 0 (mk_hdr 24 0 100 None) 11 ex_tree] 10 [(0, (7, 10))]
          [(0, mk_ld (mk_lpraw 30 1 200 []) 12 (mk_lpbody 201 defs) 30)] (Some (300, 40)) None
          1000 100 2 40 500 [(mk_shdr 0 0 400 [] 0, 140); (mk_shdr 1 0 401 [(0%nat, 9)] 3, 180)]
          [(500, (1, 501)); (501, (2, 506)); (600, (3, 604))]
          50 20 [(mk_phdr 410 [], 70)]
          700 16 600 [(mk_sym 0 420, 716)]
          800 16 [(mk_dyn false 430 [], 816); (mk_dyn true 431 [], 832)]
          [(0, 0, 500); (1, 0, 501); (1, 0, 502)] []
          30 [(0, mk_tu 12 7001 600, 9); (12, mk_tu 18 7002 601, 21)].
Definition ex_file : file := ex_file_gen 2.      (* the line program executes two DW_LNE_define_file *)
Definition ex_file0 : file := ex_file_gen 0.     (* ... none *)

(* operations that are queries in the narrow sense: neither create nor advance a generator *)
Definition is_query (o : op) : bool :=
  match o with
  | NewIterTUs _ | NewIterCUs _ | NewIterDIEs _ _ | NewIterChildren _ _ _ | NewIterSiblings _ _ _
  | NewIterSections _ | NewIterSymbols _ | NewIterTags _ | Next _ => false
  | _ => true
  end.

(* ------------------------------------------------------------------ two file objects alive in one process *)
(* the library keeps no state outside its objects, so two opened files are two independent machines; a history
   over both is a list of (which object, operation) *)
Section Product.
  Variables (P1 P2 : parsers) (fuel1 fuel2 : nat) (F1 F2 : file).
  Definition prod_step (s : state * state) (wo : bool * op) : (state * state) * answer :=
    if fst wo then let '(s', a) := step P2 fuel2 (snd s) (snd wo) in ((fst s, s'), a)
    else let '(s', a) := step P1 fuel1 (fst s) (snd wo) in ((s', snd s), a).
  Fixpoint prod_run (s : state * state) (h : list (bool * op)) : list answer :=
    match h with [] => [] | wo :: r => snd (prod_step s wo) :: prod_run (fst (prod_step s wo)) r end.
  Definition spec_prod_step (a : list aframe * list aframe) (wo : bool * op) : (list aframe * list aframe) * answer :=
    if fst wo then let '(a', x) := spec_step F2 (snd a) (snd wo) in ((fst a, a'), x)
    else let '(a', x) := spec_step F1 (fst a) (snd wo) in ((a', snd a), x).
  Fixpoint spec_prod_run (a : list aframe * list aframe) (h : list (bool * op)) : list answer :=
    match h with [] => [] | wo :: r => snd (spec_prod_step a wo) :: spec_prod_run (fst (spec_prod_step a wo)) r end.
End Product.
