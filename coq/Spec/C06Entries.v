(* Spec/C06Entries.v — the layout of call frame sections, written from the standards.
   Nothing here is derived from pyelftools.

   .debug_frame  DWARF 5 section 6.4.1 and 7.24 (CIE versions 1 [DWARF 2], 3 [DWARF 3], 4
                 [DWARF 4/5]), 32-bit and 64-bit DWARF format (7.4): a sequence of entries, each
                 an initial length, then CIE_id (all ones: CIE) or CIE_pointer (section offset of
                 the FDE's CIE), ...
   .eh_frame     LSB Core "Exception Frames" / the GNU conventions: 32-bit length (0 = the
                 terminator), CIE id 0, the FDE's CIE pointer is the distance from that field
                 back to the CIE, augmentation string "" or "z" followed by any of R L P S
                 (pointer encoding of the FDE addresses; LSDA pointer encoding; personality
                 routine; signal frame), pointer encodings DW_EH_PE_*: a value format (low 4
                 bits) and an application (high bits: 0x00 absolute, 0x10 pc-relative = relative
                 to the address of the encoded value itself).

   Encoders take every choice the formats leave to the producer: the LEB128 paddings (a [lebval]
   is a value with its chosen bytes), the 32/64-bit format per entry, the order of the
   augmentation characters, which CIE an FDE refers to (any entry index, before or after it).
   Fixed by the formats, hence not arguments: the length fields, CIE ids, CIE pointers,
   address_size (= the target's) and segment_size (= 0: flat address space) of a version 4 CIE.
   The instruction area of an entry is exactly its instruction list (padding is DW_CFA_nop, which
   is an instruction). *)
From PV Require Export Spec.C06Instr.

(* ---------------------------------------------------------------- pointer encodings *)
Inductive ptr_format : Type :=
| PAbsptr | PUleb128 | PUdata2 | PUdata4 | PUdata8
| PSleb128 | PSdata2 | PSdata4 | PSdata8.

(* DW_EH_PE value formats *)
Definition format_code (f : ptr_format) : Z :=
  match f with
  | PAbsptr => 0x00 | PUleb128 => 0x01 | PUdata2 => 0x02 | PUdata4 => 0x03 | PUdata8 => 0x04
  | PSleb128 => 0x09 | PSdata2 => 0x0a | PSdata4 => 0x0b | PSdata8 => 0x0c
  end.
Definition all_formats : list ptr_format :=
  [PAbsptr; PUleb128; PUdata2; PUdata4; PUdata8; PSleb128; PSdata2; PSdata4; PSdata8].
(* (signed, width): width 0 = LEB128, -1 = a target address *)
Definition format_kind (f : ptr_format) : bool * Z :=
  match f with
  | PAbsptr => (false, -1) | PUleb128 => (false, 0) | PUdata2 => (false, 2)
  | PUdata4 => (false, 4) | PUdata8 => (false, 8)
  | PSleb128 => (true, 0) | PSdata2 => (true, 2) | PSdata4 => (true, 4) | PSdata8 => (true, 8)
  end.
Definition DW_EH_PE_pcrel_code : Z := 0x10.
Definition DW_EH_PE_omit_code : Z := 0xff.

(* the encoding byte of a format with absolute / pc-relative application *)
Definition enc_byte (f : ptr_format) (pcrel : bool) : Z :=
  format_code f + (if pcrel then DW_EH_PE_pcrel_code else 0).

(* an encoded value: for the LEB formats the chosen bytes, otherwise only the value matters *)
Definition encode_ptr (le : bool) (asize : nat) (f : ptr_format) (v : lebval) : list Z :=
  match f with
  | PAbsptr => int_encode le asize (lv v)
  | PUleb128 | PSleb128 => lb v
  | PUdata2 | PSdata2 => int_encode le 2 (lv v)
  | PUdata4 | PSdata4 => int_encode le 4 (lv v)
  | PUdata8 | PSdata8 => int_encode le 8 (lv v)
  end.
Definition wf_ptr (asize : nat) (f : ptr_format) (v : lebval) : bool :=
  match f with
  | PAbsptr => fits_u asize (lv v)
  | PUleb128 => wf_uleb v
  | PSleb128 => wf_sleb v
  | PUdata2 => fits_u 2 (lv v) | PUdata4 => fits_u 4 (lv v) | PUdata8 => fits_u 8 (lv v)
  | PSdata2 => fits_s 2 (lv v) | PSdata4 => fits_s 4 (lv v) | PSdata8 => fits_s 8 (lv v)
  end.
(* what an encoded value designates: pc-relative = relative to the address of the field,
   i.e. section address + offset of the field in the section *)
Definition ptr_meaning (pcrel : bool) (section_addr field_off raw : Z) : Z :=
  if pcrel then raw + (section_addr + field_off) else raw.

(* ---------------------------------------------------------------- abstract entries *)
Inductive aug_item : Type :=
| AugR (f : ptr_format) (pcrel : bool)           (* 'R' + encoding byte of the FDE addresses *)
| AugL (enc : option (ptr_format * bool))        (* 'L' + LSDA encoding; None = DW_EH_PE_omit *)
| AugP (hi : Z) (f : ptr_format) (v : lebval)       (* 'P' + encoding byte 16*hi + format, pointer *)
| AugS.                                          (* 'S', no data *)

Definition item_char (a : aug_item) : Z :=
  match a with AugR _ _ => 82 | AugL _ => 76 | AugP _ _ _ => 80 | AugS => 83 end.
Definition item_data (le : bool) (asize : nat) (a : aug_item) : list Z :=
  match a with
  | AugR f pc => [enc_byte f pc]
  | AugL (Some (f, pc)) => [enc_byte f pc]
  | AugL None => [DW_EH_PE_omit_code]
  | AugP hi f v => (16 * hi + format_code f) :: encode_ptr le asize f v
  | AugS => []
  end.

Record scie : Type := mkscie {
  c_fmt64 : bool;                          (* 64-bit DWARF format *)
  c_version : Z;
  c_aug : option (lebval * list aug_item);    (* None: ""; Some (len, items): "z" items, len = the
                                              ULEB128 chosen for the augmentation data length *)
  c_caf : lebval;                             (* code_alignment_factor, ULEB128 *)
  c_daf : lebval;                             (* data_alignment_factor, SLEB128 *)
  c_rar : lebval;                             (* return_address_register: ubyte in version 1
                                              (only lv is used), ULEB128 from version 3 *)
  c_instrs : list instr
}.

Record sfde : Type := mksfde {
  f_fmt64 : bool;
  f_cie : nat;                             (* index of its CIE among the section's entries *)
  f_loc : lebval;                             (* initial_location as encoded (before application) *)
  f_range : lebval;                           (* address_range *)
  f_auglen : lebval;                          (* ULEB128 chosen for the augmentation data length
                                              (present iff the CIE's augmentation has 'z') *)
  f_lsda : lebval;                            (* LSDA pointer as encoded (present iff the CIE has
                                              'L' with an encoding other than omit) *)
  f_instrs : list instr
}.

Inductive sentry : Type := SCie (c : scie) | SFde (f : sfde) | SZero.

Record ssection : Type := mkssection {
  s_eh : bool;                             (* .eh_frame (true) or .debug_frame (false) *)
  s_le : bool;                             (* byte order *)
  s_asize : nat;                           (* bytes of a target address: 4 or 8 *)
  s_addr : Z;                              (* address of the section *)
  s_entries : list sentry
}.

(* ---------------------------------------------------------------- derived facts of a CIE *)
Definition aug_items (c : scie) : list aug_item :=
  match c_aug c with Some (_, items) => items | None => [] end.
Definition has_z (c : scie) : bool := match c_aug c with Some _ => true | None => false end.

(* the pointer encoding of the FDEs of this CIE: 'R' if present, else absolute target address *)
Fixpoint find_R (items : list aug_item) : option (ptr_format * bool) :=
  match items with
  | [] => None
  | AugR f pc :: _ => Some (f, pc)
  | _ :: r => find_R r
  end.
Definition fde_enc (c : scie) : ptr_format * bool :=
  match find_R (aug_items c) with Some e => e | None => (PAbsptr, false) end.
(* the LSDA pointer encoding: 'L' with an encoding other than omit *)
Fixpoint find_L (items : list aug_item) : option (ptr_format * bool) :=
  match items with
  | [] => None
  | AugL e :: _ => e
  | _ :: r => find_L r
  end.
Definition lsda_enc (c : scie) : option (ptr_format * bool) := find_L (aug_items c).

Definition aug_string (c : scie) : list Z :=
  match c_aug c with
  | None => []
  | Some (_, items) => 122 :: map item_char items
  end.
Definition aug_data (le : bool) (asize : nat) (c : scie) : list Z :=
  List.concat (map (item_data le asize) (aug_items c)).

(* ---------------------------------------------------------------- encoders *)
Section Enc.
  Variables (eh le : bool) (asize : nat).

  Definition offset_size (fmt64 : bool) : nat := if fmt64 then 8%nat else 4%nat.

  (* CIE_id: all ones in .debug_frame (7.24), 0 in .eh_frame *)
  Definition cie_id (fmt64 : bool) : Z :=
    if eh then 0 else if fmt64 then 0xFFFFFFFFFFFFFFFF else 0xFFFFFFFF.

  (* a CIE from the version byte up to (excluding) the augmentation data *)
  Definition cie_fixed (c : scie) : list Z :=
    [c_version c] ++ aug_string c ++ [0]
    ++ (if 4 <=? c_version c then [Z.of_nat asize; 0] else [])
    ++ lb (c_caf c) ++ lb (c_daf c)
    ++ (if 1 <? c_version c then lb (c_rar c) else [lv (c_rar c)]).
  Definition cie_augpart (c : scie) : list Z :=
    match c_aug c with
    | None => []
    | Some (len, _) => lb len ++ aug_data le asize c
    end.
  Definition cie_body (c : scie) : list Z :=
    int_encode le (offset_size (c_fmt64 c)) (cie_id (c_fmt64 c))
    ++ cie_fixed c ++ cie_augpart c ++ encode_instrs le asize (c_instrs c).

  (* the two addresses of an FDE: target addresses in .debug_frame, the CIE's pointer format in
     .eh_frame *)
  Definition fde_format (c : scie) : ptr_format := if eh then fst (fde_enc c) else PAbsptr.
  Definition fde_pcrel (c : scie) : bool := if eh then snd (fde_enc c) else false.
  Definition fde_lsda_enc (c : scie) : option (ptr_format * bool) :=
    if eh then lsda_enc c else None.
  Definition fde_has_auglen (c : scie) : bool := eh && has_z c.

  Definition fde_lsda_bytes (c : scie) (f : sfde) : list Z :=
    match fde_lsda_enc c with
    | Some (fm, _) => encode_ptr le asize fm (f_lsda f)
    | None => []
    end.
  Definition fde_augpart (c : scie) (f : sfde) : list Z :=
    if fde_has_auglen c then lb (f_auglen f) ++ fde_lsda_bytes c f else [].
  Definition fde_body (c : scie) (cie_pointer : Z) (f : sfde) : list Z :=
    int_encode le (offset_size (f_fmt64 f)) cie_pointer
    ++ encode_ptr le asize (fde_format c) (f_loc f)
    ++ encode_ptr le asize (fde_format c) (f_range f)
    ++ fde_augpart c f ++ encode_instrs le asize (f_instrs f).

  Definition with_length (fmt64 : bool) (body : list Z) : list Z :=
    initial_length_encode le (zlen body) fmt64 ++ body.
End Enc.

(* the CIE an FDE refers to (a default when the index is wrong: excluded by wf) *)
Definition dummy_cie : scie := mkscie false 1 None (mkleb 1 [1]) (mkleb 1 [1]) (mkleb 0 [0]) [].
Definition cie_at (es : list sentry) (i : nat) : scie :=
  match nth_error es i with Some (SCie c) => c | _ => dummy_cie end.

Section Sec.
  Variable s : ssection.
  Let eh := s_eh s.
  Let le := s_le s.
  Let asize := s_asize s.
  Let es := s_entries s.

  (* the bytes of one entry, given the value of its CIE pointer *)
  Definition encode_entry (cie_pointer : Z) (e : sentry) : list Z :=
    match e with
    | SCie c => with_length le (c_fmt64 c) (cie_body eh le asize c)
    | SFde f => with_length le (f_fmt64 f) (fde_body eh le asize (cie_at es (f_cie f)) cie_pointer f)
    | SZero => int_encode le 4 0
    end.
  (* sizes do not depend on the pointer value *)
  Definition entry_size (e : sentry) : Z := zlen (encode_entry 0 e).

  (* section offset of entry number k *)
  Fixpoint offset_in (l : list sentry) (k : nat) : Z :=
    match k, l with
    | O, _ => 0
    | S k', e :: r => entry_size e + offset_in r k'
    | S _, [] => 0
    end.
  Definition entry_offset_of (k : nat) : Z := offset_in es k.

  (* 7.24: CIE_pointer = section offset of the CIE;  .eh_frame: distance from the CIE pointer
     field (4 bytes after the start of the FDE in the 32-bit format) back to the CIE *)
  Definition cie_pointer_of (off : Z) (f : sfde) : Z :=
    let coff := entry_offset_of (f_cie f) in
    if eh then off + 4 - coff else coff.

  Definition entry_pointer (off : Z) (e : sentry) : Z :=
    match e with SFde f => cie_pointer_of off f | _ => 0 end.

  Fixpoint encode_from (off : Z) (l : list sentry) : list Z :=
    match l with
    | [] => []
    | e :: r => encode_entry (entry_pointer off e) e ++ encode_from (off + entry_size e) r
    end.
  Definition encode_section : list Z := encode_from 0 es.

  (* ---------------------------------------------------------------- well-formedness *)
  Definition item_kind (a : aug_item) : Z := item_char a.
  Fixpoint nodup_chars (l : list Z) : bool :=
    match l with
    | [] => true
    | x :: r => negb (existsb (Z.eqb x) r) && nodup_chars r
    end.
  Definition wf_item (a : aug_item) : bool :=
    match a with
    | AugP hi f v => (0 <=? hi) && (hi <? 16) && wf_ptr asize f v
    | _ => true
    end.

  (* the initial length can express the size of the body *)
  Definition wf_length (fmt64 : bool) (body : list Z) : bool :=
    initial_length_wf (zlen body) fmt64.

  (* DW_CFA_set_loc takes a target address; in .eh_frame that is the case only when the CIE's
     pointer encoding is the absolute target address *)
  Definition set_loc_ok (c : scie) (is : list instr) : bool :=
    negb eh || no_set_loc is
    || match fde_enc c with (PAbsptr, false) => true | _ => false end.

  Definition wf_cie (c : scie) : bool :=
    ((c_version c =? 1) || (c_version c =? 3) || (c_version c =? 4))
    && (negb eh || negb (c_fmt64 c))                      (* .eh_frame: 32-bit format only *)
    && (eh || negb (has_z c))                             (* .debug_frame: augmentation "" *)
    && wf_uleb (c_caf c) && wf_sleb (c_daf c)
    && (if 1 <? c_version c then wf_uleb (c_rar c) else fits_u 1 (lv (c_rar c)))
    && match c_aug c with
       | None => true
       | Some (len, items) =>
           wf_uleb len && (lv len =? zlen (aug_data le asize c))
           && nodup_chars (map item_char items) && forallb wf_item items
       end
    && wf_instrs asize (c_instrs c) && set_loc_ok c (c_instrs c)
    && wf_length (c_fmt64 c) (cie_body eh le asize c).

  Definition wf_fde (off : Z) (f : sfde) : bool :=
    match nth_error es (f_cie f) with
    | Some (SCie c) =>
        (negb eh || negb (f_fmt64 f))
        (* the CIE pointer is representable and is not the CIE mark *)
        && (let p := cie_pointer_of off f in
            fits_u (offset_size (f_fmt64 f)) p
            && negb (p =? cie_id eh (f_fmt64 f)))
        && wf_ptr asize (fde_format eh c) (f_loc f)
        && wf_ptr asize (fde_format eh c) (f_range f) && (0 <=? lv (f_range f))
        && match fde_lsda_enc eh c with
           | Some (fm, _) => wf_ptr asize fm (f_lsda f)
           | None => true
           end
        && (negb (fde_has_auglen eh c)
            || (wf_uleb (f_auglen f)
                && (lv (f_auglen f) =? zlen (fde_lsda_bytes eh le asize c f))))
        && wf_instrs asize (f_instrs f) && set_loc_ok c (f_instrs f)
        && wf_length (f_fmt64 f)
                     (fde_body eh le asize c (cie_pointer_of off f) f)
    | _ => false
    end.

  Fixpoint wf_from (off : Z) (l : list sentry) : bool :=
    match l with
    | [] => true
    | e :: r =>
        match e with
        | SCie c => wf_cie c
        | SFde f => wf_fde off f
        | SZero => eh                                       (* only .eh_frame has a terminator *)
        end && wf_from (off + entry_size e) r
    end.

  Definition wf_section : bool :=
    ((asize =? 4)%nat || (asize =? 8)%nat)
    && wf_from 0 es
    && (zlen encode_section <? 2 ^ 63).
End Sec.
