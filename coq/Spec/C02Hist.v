(* Spec/C02Hist.v — C02 observed through ORDERS and HISTORIES of calls.

   Property C02 says what a section's size / alignment / data ARE ("taken from the compression
   header") and which file offsets a virtual address range MAPS TO ("exactly those loadable
   segments that wholly contain it").  Both are functions of the file's bytes alone, so they hold
   * whichever of  compressed / data_size / data_alignment / data()  is asked first of a freshly
     built section object, and however often each is asked;
   * after any history of lookups on one ELFFile object, including address_offsets() and
     iter_segments() generators that were started and abandoned half way.

   This file fixes
   * the vocabulary: the observers of one section object ([sobs], [sans]); the operations a
     client can perform on one ELFFile object as far as the program header walks are concerned
     ([gkind], [eop]) and what it sees of each ([eans]);
   * Python generator objects as seen from the specification: the j-th next() of a generator
     yields the j-th element of the stateless answer, whatever else happened in between;
   * the reference answers [spec_sec_session] and [spec_elf_hist].
   Written from the property statement and the Python language reference (generators), NOT from
   the library code. *)
From Coq Require Import String.
From PV Require Import Base.Bytes Base.Outcome Spec.C02Spec.
Open Scope Z_scope.

(* ================================================================== one section object *)
Inductive sobs : Type :=
| OCompressed         (* bool(section.compressed) *)
| OSize               (* section.data_size *)
| OAlign              (* section.data_alignment *)
| OData.              (* section.data() *)

Inductive sans : Type :=
| SBool (b : bool)
| SInt (v : Z)
| SData (d : res (list Z)).

(* what the property says about a section, as Spec.C02Spec.section_view computes it:
   (compressed?, logical size, logical alignment, data or "rejected") *)
Definition sec_facts : Type := (bool * Z * Z * option (list Z))%type.

Definition spec_observe (f : sec_facts) (o : sobs) : sans :=
  let '(c, sz, al, d) := f in
  match o with
  | OCompressed => SBool c
  | OSize => SInt sz
  | OAlign => SInt al
  | OData => SData (match d with Some b => Ok b | None => Err ECompress end)
  end.

(* any list of observations of one object — any order, any repetition — is answered from the facts *)
Definition spec_sec_session (f : sec_facts) (obs : list sobs) : list sans := map (spec_observe f) obs.

(* ================================================================== one ELFFile object *)
(* the generators over the program header table that the C02 observers create *)
Inductive gkind : Type :=
| KAddr (start size : Z)     (* elf.address_offsets(start, size) *)
| KSegs                      (* elf.iter_segments() *)
| KLoads.                    (* elf.iter_segments(type='PT_LOAD'), the walk address_offsets is built on *)

Inductive eop : Type :=
| EStart (k : gkind)    (* g = elf.<k>: a new generator object; numbered 0,1,.. in creation order *)
| ENext (g : nat)       (* next(g) *)
| EClose (g : nat)      (* g.close(); also: the last reference is dropped, a for loop over g is left by break *)
| EAll (k : gkind)      (* list(elf.<k>): a fresh walk consumed to its end *)
| ENoise (c : Z).       (* any other call on the ELFFile or its stream (num_segments, get_segment, iter_sections
                           consumed or abandoned, get_section_by_name, section data, stream.seek ...): says nothing
                           about the program header walks and must not change them *)

(* an item a walk yields: [offset] for address_offsets; the numeric header fields
   [p_flags; p_offset; p_vaddr; p_paddr; p_filesz; p_memsz; p_align] for iter_segments *)
Definition item : Type := list Z.

Inductive eans : Type :=
| AUnit                 (* nothing to see (start, close, noise) *)
| AItem (a : item)      (* next() yielded it *)
| AStop                 (* StopIteration *)
| AList (l : list item)
| AErr (e : err)        (* the call raised *)
| ANoGen.               (* the history names a generator that was never created: not a behaviour of anything *)

Definition seg_fields (h : phdr) : item :=
  [p_flags h; p_offset h; p_vaddr h; p_paddr h; p_filesz h; p_memsz h; p_align h].

(* the stateless answer of a walk over the program headers [phs] *)
Definition spec_select (k : gkind) (h : phdr) : option item :=
  match k with
  | KAddr start size => if seg_contains h start size then Some [start - p_vaddr h + p_offset h] else None
  | KSegs => Some (seg_fields h)
  | KLoads => if p_type h =? PT_LOAD then Some (seg_fields h) else None
  end.
Fixpoint select_all {A B} (f : A -> option B) (l : list A) : list B :=
  match l with
  | [] => []
  | a :: r => match f a with Some b => b :: select_all f r | None => select_all f r end
  end.
Definition spec_items (phs : list phdr) (k : gkind) : list item := select_all (spec_select k) phs.

(* a generator object as the specification sees it: what it was created for, how many items it
   has yielded, whether it is finished (ran to its end or was closed) *)
Record sgen := mkSgen { sg_kind : gkind; sg_count : nat; sg_done : bool }.

Definition set_nth {A} (l : list A) (i : nat) (x : A) : list A := (firstn i l ++ x :: skipn (S i) l)%list.

Definition spec_estep (phs : list phdr) (gs : list sgen) (o : eop) : list sgen * eans :=
  match o with
  | EStart k => ((gs ++ [mkSgen k 0 false])%list, AUnit)
  | ENext g =>
      match nth_error gs g with
      | None => (gs, ANoGen)
      | Some s =>
          if sg_done s then (gs, AStop)          (* a finished generator keeps raising StopIteration *)
          else match nth_error (spec_items phs (sg_kind s)) (sg_count s) with
               | Some a => (set_nth gs g (mkSgen (sg_kind s) (S (sg_count s)) false), AItem a)
               | None => (set_nth gs g (mkSgen (sg_kind s) (sg_count s) true), AStop)
               end
      end
  | EClose g =>
      match nth_error gs g with
      | None => (gs, ANoGen)
      | Some s => (set_nth gs g (mkSgen (sg_kind s) (sg_count s) true), AUnit)
      end
  | EAll k => (gs, AList (spec_items phs k))
  | ENoise _ => (gs, AUnit)
  end.

Fixpoint spec_erun (phs : list phdr) (gs : list sgen) (h : list eop) : list eans :=
  match h with
  | [] => []
  | o :: r => let (gs', a) := spec_estep phs gs o in a :: spec_erun phs gs' r
  end.
(* a freshly opened ELFFile put through the history h *)
Definition spec_elf_hist (phs : list phdr) (h : list eop) : list eans := spec_erun phs [] h.

(* the address clause of the property, read off a history: every complete lookup answers addr_map *)
Definition addr_items (phs : list phdr) (start size : Z) : list item := map (fun o => [o]) (addr_map phs start size).

(* ================================================================== sparse program header tables *)
(* a table given as runs (count, header): count copies of the header in a row.  Used to describe
   tables with 0xffff and more entries (PN_XNUM) without listing them *)
Definition expand_runs (runs : list (Z * phdr)) : list phdr :=
  concat (map (fun r => repeat (snd r) (Z.to_nat (fst r))) runs).
