(* Spec/C07Sections.v — whole list sections (property C07): lists, location-view pairs and gaps
   laid out one after the other, for v5 inside unit blocks with offset tables whose entries
   designate lists of the block; and which lists the debugging entries reference.
   (.debug_loc/.debug_ranges: DWARF 2-4 §7.7.3/§7.23; .debug_loclists/.debug_rnglists: DWARF 5
   §7.28/§7.29; DW_AT_GNU_locviews: binutils/GCC layout, the pairs immediately before their list.) *)
From Coq Require Import String.
From PV Require Import Base.Bytes Base.PyData Spec.PrimSpec Model.C07Kinds Spec.C07Lists.
From Coq Require Import ZArith List Bool.
Import ListNotations.
Open Scope string_scope.
Open Scope list_scope.
Open Scope Z_scope.

Inductive item (A : Type) : Type :=
| IGap (g : list Z)                               (* bytes no debugging entry refers to *)
| IList (views : list viewpair) (l : list A).     (* optional view pairs, then a list of entries *)
Arguments IGap {A} g.
Arguments IList {A} views l.

Definition enc_views (vs : list viewpair) : list Z := concat (map enc_viewpair vs).

Section Items.
  Context {A : Type}.
  Variable enc_list : list A -> list Z.           (* entries ++ terminator *)
  Variable mean : Z -> list A -> list tup.        (* the list placed at an offset *)

  Definition enc_item (it : item A) : list Z :=
    match it with
    | IGap g => g
    | IList vs l => enc_views vs ++ enc_list l
    end.
  Definition enc_items (its : list (item A)) : list Z := concat (map enc_item its).

  (* for every list item: (offset of its first byte, offset of the list proper, what an
     enumeration yields for it: the view pairs, then the entries) *)
  Fixpoint items_expect (pos : Z) (its : list (item A)) : list (Z * Z * list tup) :=
    match its with
    | [] => []
    | it :: r =>
        let rest := items_expect (pos + zlen (enc_item it)) r in
        match it with
        | IGap _ => rest
        | IList vs l =>
            let lo := pos + zlen (enc_views vs) in
            (pos, lo, views_meaning pos vs ++ mean lo l) :: rest
        end
    end.

  (* the same without the meanings: (offset of the first byte, offset of the list proper) *)
  Fixpoint items_pos (pos : Z) (its : list (item A)) : list (Z * Z) :=
    match its with
    | [] => []
    | it :: r =>
        let rest := items_pos (pos + zlen (enc_item it)) r in
        match it with
        | IGap _ => rest
        | IList vs l => (pos, pos + zlen (enc_views vs)) :: rest
        end
    end.

  (* ---- v5: unit blocks *)
  Record lunit : Type := {
    lu_is64 : bool; lu_version : Z; lu_asz : Z; lu_seg : Z;
    lu_index : list (nat * nat);
        (* offset-table entry k = (i, j) designates the i-th list of the block from its j-th entry on
           (j = 0: the whole list; j > 0: a list sharing the tail of another one) *)
    lu_items : list (item A) }.

  Definition lu_count (u : lunit) : Z := zlen (lu_index u).
  Definition lu_table_size (u : lunit) : Z := Z.of_nat (offset_size (lu_is64 u)) * lu_count u.
  (* offsets relative to the first byte of the offset table (DWARF 5 §7.28: "relative to the
     first offset entry") *)
  (* the entries of the list items, in order *)
  Definition items_lists (its : list (item A)) : list (list A) :=
    flat_map (fun it => match it with IGap _ => [] | IList _ l => [l] end) its.
  (* bytes between the first byte of a list and its j-th entry (enc_list appends the terminator) *)
  Definition entry_skip (l : list A) (j : nat) : Z := zlen (enc_list (firstn j l)) - zlen (enc_list []).
  Definition lu_offsets (u : lunit) : list Z :=
    let ps := items_pos (lu_table_size u) (lu_items u) in
    map (fun k => snd (nth (fst k) ps (0, 0)) + entry_skip (nth (fst k) (items_lists (lu_items u)) []) (snd k))
        (lu_index u).
  Definition lunit_blk (u : lunit) : unit_blk :=
    {| ub_is64 := lu_is64 u; ub_version := lu_version u; ub_asz := lu_asz u; ub_seg := lu_seg u;
       ub_offsets := lu_offsets u; ub_body := enc_items (lu_items u) |}.

  Definition enc_units (le : bool) (us : list lunit) : list Z :=
    concat (map (fun u => enc_unit le (lunit_blk u)) us).

  (* per unit: (offset of the block, offset of its offset table, items_expect of its body) *)
  Fixpoint units_expect (pos : Z) (us : list lunit) : list (Z * Z * list (Z * Z * list tup)) :=
    match us with
    | [] => []
    | u :: r =>
        let b := lunit_blk u in
        (pos, unit_table_offset pos b, items_expect (unit_body_offset pos b) (lu_items u))
        :: units_expect (pos + unit_size b) r
    end.

  Definition wf_lunit (wf_list : list A -> bool) (u : lunit) : bool :=
    wf_unit (lunit_blk u)
    && forallb (fun k => (fst k <? length (items_pos 0 (lu_items u)))%nat
                         && (snd k <=? length (nth (fst k) (items_lists (lu_items u)) []))%nat) (lu_index u)
    && forallb (fun it => match it with
                          | IGap g => all_bytes g
                          | IList vs l => forallb wf_viewpair vs && wf_list l
                          end) (lu_items u).
End Items.

Arguments lu_is64 {A} l.
Arguments lu_version {A} l.
Arguments lu_asz {A} l.
Arguments lu_seg {A} l.
Arguments lu_index {A} l.
Arguments lu_items {A} l.

(* what an enumeration driven by the debugging entries must yield: the lists whose first byte is
   referenced, each once, in section order *)
Definition enum_expected (refs : list Z) (ex : list (Z * Z * list tup)) : list (list tup) :=
  map snd (filter (fun e => existsb (Z.eqb (fst (fst e))) refs) ex).

(* ---- designations that share a tail.  A debugging entry (or an offset-table slot) may designate the
   first byte of an ENTRY of a list: that is the list made of this entry and the following ones up to the
   same terminator.  Every tuple carries its entry offset first. *)
Definition tup_offset (t : tup) : Z := match snd t with FInt o :: _ => o | _ => -1 end.
Fixpoint suffix_from (o : Z) (ts : list tup) : option (list tup) :=
  match ts with
  | [] => None
  | t :: r => if tup_offset t =? o then Some ts else suffix_from o r
  end.
Fixpoint first_some {A B} (f : A -> option B) (l : list A) : option B :=
  match l with
  | [] => None
  | x :: r => match f x with Some y => Some y | None => first_some f r end
  end.
(* what offset o designates: the item that starts there, else the tail of the item that has an entry there *)
Definition designated (ex : list (Z * Z * list tup)) (o : Z) : option (list tup) :=
  match find (fun e => fst (fst e) =? o) ex with
  | Some e => Some (snd e)
  | None => first_some (fun e => suffix_from o (snd e)) ex
  end.
(* the enumeration: every designated list once, in offset order *)
Definition enum_designated (refs : list Z) (ex : list (Z * Z * list tup)) : list (list tup) :=
  flat_map (fun o => match designated ex o with Some l => [l] | None => [] end)
           (PyData.sorted_by (fun x => x) (PyData.dedup Z.eqb refs)).
