(* Spec/C04Desc.v — the vocabulary shared by the generated tables of C04
   (Gen/C04Forms.v), the specification and the model: operand-encoding
   descriptors, decoded enum values, raw attribute values.  Data only. *)
From Coq Require Import String.
From PV Require Export Base.Bytes.
From Coq Require Import ZArith List Bool.
Import ListNotations.
Open Scope Z_scope.

(* What a construct parser object of dwarf/structs.py reads.  One constructor per
   construct class that occurs in Dwarf_dw_form and in the unit/abbrev headers. *)
Inductive fdesc : Type :=
| DInt (le : bool) (n : nat) (signed : bool)   (* FormatField: struct format "<L", ">q", ... *)
| DU24 (le : bool)                             (* ULInt24 / UBInt24 *)
| DUleb                                        (* ULEB128 *)
| DSleb                                        (* SLEB128 *)
| DCStr                                        (* CString: bytes up to and excluding a NUL *)
| DBlock (len : fdesc)                         (* PrefixedArray(UBInt8 elem, length_field) *)
| DArr (n : nat) (elem : fdesc)                (* Array(n, elem) with constant n *)
| DStatic (n : nat)                            (* StaticField(n): n raw bytes *)
| DNone.                                       (* None: the dict entry is not a parser *)

Fixpoint fdesc_eqb (a b : fdesc) : bool :=
  match a, b with
  | DInt l1 n1 s1, DInt l2 n2 s2 => Bool.eqb l1 l2 && Nat.eqb n1 n2 && Bool.eqb s1 s2
  | DU24 l1, DU24 l2 => Bool.eqb l1 l2
  | DUleb, DUleb | DSleb, DSleb | DCStr, DCStr | DNone, DNone => true
  | DBlock x, DBlock y => fdesc_eqb x y
  | DArr n1 x, DArr n2 y => Nat.eqb n1 n2 && fdesc_eqb x y
  | DStatic n1, DStatic n2 => Nat.eqb n1 n2
  | _, _ => false
  end.

Lemma fdesc_eqb_eq a : forall b, fdesc_eqb a b = true -> a = b.
Proof.
  induction a as [l n s|l| | | |x IH|n x IH|n|]; intros b H; destruct b; cbn in H; try discriminate;
    try reflexivity.
  - apply andb_prop in H. destruct H as [H Hs]. apply andb_prop in H. destruct H as [Hl Hn].
    apply Bool.eqb_prop in Hl, Hs. apply Nat.eqb_eq in Hn. subst. reflexivity.
  - apply Bool.eqb_prop in H. subst. reflexivity.
  - f_equal. apply IH. exact H.
  - apply andb_prop in H. destruct H as [Hn Hx]. apply Nat.eqb_eq in Hn. subst.
    f_equal. apply IH. exact Hx.
  - apply Nat.eqb_eq in H. subst. reflexivity.
Qed.

(* What construct's Enum (MappingAdapter with default Pass) returns: the name the
   table gives, or the integer itself. *)
Inductive ename : Type :=
| EName (s : string)
| ERaw (v : Z).

Definition ename_eqb (a b : ename) : bool :=
  match a, b with
  | EName x, EName y => String.eqb x y
  | ERaw x, ERaw y => x =? y
  | _, _ => false
  end.

Lemma ename_eqb_eq a b : ename_eqb a b = true -> a = b.
Proof.
  destruct a, b; cbn; intros H; try discriminate.
  - apply String.eqb_eq in H. subst. reflexivity.
  - apply Z.eqb_eq in H. subst. reflexivity.
Qed.
Lemma ename_eqb_refl a : ename_eqb a a = true.
Proof. destruct a; cbn; [apply String.eqb_refl | apply Z.eqb_refl]. Qed.

(* dict with integer keys (MappingAdapter.decoding, DW_FORM_raw2name) *)
Fixpoint zfind {A} (d : list (Z * A)) (k : Z) : option A :=
  match d with
  | [] => None
  | (k', x) :: r => if k' =? k then Some x else zfind r k
  end.

(* dict with string keys (Dwarf_dw_form) *)
Fixpoint sfind {A} (d : list (string * A)) (k : string) : option A :=
  match d with
  | [] => None
  | (k', x) :: r => if String.eqb k' k then Some x else sfind r k
  end.

(* Enum(...)._decode with _default_ = Pass *)
Definition enum_pass (d : list (Z * string)) (v : Z) : ename :=
  match zfind d v with Some n => EName n | None => ERaw v end.

(* An attribute's raw value as the library hands it out:
   int | bytes (CString, StaticField) | list of ints (blocks, data16) *)
Inductive rawval : Type :=
| RInt (v : Z)
| RBytes (b : list Z)
| RList (l : list Z).

(* A translated attribute value: what AttributeValue.value can hold. *)
Inductive value : Type :=
| VInt (v : Z)
| VBytes (b : list Z)
| VList (l : list Z)
| VBool (b : bool)
| VNone.                 (* Python None: string offset without terminator *)

Definition value_of_raw (r : rawval) : value :=
  match r with RInt v => VInt v | RBytes b => VBytes b | RList l => VList l end.

(* One decoded attribute / entry, as observed through DIE.attributes, DIE.offset, ... *)
Record xattr : Type := mkxattr {
  xa_name : ename; xa_form : ename; xa_raw : rawval; xa_off : Z; xa_ind : Z
}.
Record xdie : Type := mkxdie {
  x_off : Z; x_size : Z; x_code : Z;
  x_tag : option ename;          (* None: null entry *)
  x_kids : option bool;          (* None: null entry *)
  x_attrs : list xattr
}.
Definition x_is_null (d : xdie) : bool := match x_tag d with None => true | Some _ => false end.
Definition x_end (d : xdie) : Z := x_off d + x_size d.
