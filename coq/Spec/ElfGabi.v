(* Spec/ElfGabi.v — the record tables of the System V gABI (chapter 4/5), the
   Oracle Linker and Libraries Guide (versioning, syminfo, compression) and the
   MIPS 64-bit ELF supplement, written as Base/Fmt.v layouts.  Written from the
   specifications, NOT from the code: Proofs/ElfLayoutFacts.v proves that the
   layouts regenerated from the live code (Gen/ElfLayouts.v) equal these. *)
From PV Require Import Base.Fmt.
Open Scope string_scope.

Section cfg.
Variable le : bool.      (* ELFDATA2LSB *)
Variable is64 : bool.    (* ELFCLASS64 *)

Let half (n : string) : field := (n, KU le 2).
Let word (n : string) : field := (n, KU le 4).
Let byte (n : string) : field := (n, KU le 1).
Let sword (n : string) : field := (n, KS le 4).
Let addr (n : string) : field := (n, KU le (if is64 then 8 else 4)).   (* Elf_Addr / Elf_Off / Elf_Xword(native) *)
Let xword : string -> field := addr.
Let sxword (n : string) : field := (n, KS le (if is64 then 8 else 4)).

Definition spec_Elf_Ehdr : layout :=
  [ ("e_ident.EI_MAG", KBytes 4); byte "e_ident.EI_CLASS"; byte "e_ident.EI_DATA";
    byte "e_ident.EI_VERSION"; byte "e_ident.EI_OSABI"; byte "e_ident.EI_ABIVERSION";
    ("e_ident.<pad>", KPad 7);
    half "e_type"; half "e_machine"; word "e_version"; addr "e_entry"; addr "e_phoff";
    addr "e_shoff"; word "e_flags"; half "e_ehsize"; half "e_phentsize"; half "e_phnum";
    half "e_shentsize"; half "e_shnum"; half "e_shstrndx" ].

Definition spec_Elf_Phdr : layout :=
  if is64 then
    [ word "p_type"; word "p_flags"; addr "p_offset"; addr "p_vaddr"; addr "p_paddr";
      xword "p_filesz"; xword "p_memsz"; xword "p_align" ]
  else
    [ word "p_type"; addr "p_offset"; addr "p_vaddr"; addr "p_paddr";
      word "p_filesz"; word "p_memsz"; word "p_flags"; word "p_align" ].

Definition spec_Elf_Shdr : layout :=
  [ word "sh_name"; word "sh_type"; xword "sh_flags"; addr "sh_addr"; addr "sh_offset";
    xword "sh_size"; word "sh_link"; word "sh_info"; xword "sh_addralign"; xword "sh_entsize" ].

Definition spec_Elf_Chdr : layout :=
  if is64 then [ word "ch_type"; word "ch_reserved"; xword "ch_size"; xword "ch_addralign" ]
  else [ word "ch_type"; xword "ch_size"; xword "ch_addralign" ].

Definition st_info_bits := ("st_info", KBits 1 [("st_info.bind", 4%nat); ("st_info.type", 4%nat)]).
(* st_other: low 2 bits (here 3, as the PPC64 ELFv2 ABI uses bit 2..) visibility, bits 5-7 PPC64 local entry *)
Definition st_other_bits :=
  ("st_other", KBits 1 [("st_other.local", 3%nat); ("", 2%nat); ("st_other.visibility", 3%nat)]).

Definition spec_Elf_Sym : layout :=
  if is64 then
    [ word "st_name"; st_info_bits; st_other_bits; half "st_shndx"; addr "st_value"; xword "st_size" ]
  else
    [ word "st_name"; addr "st_value"; word "st_size"; st_info_bits; st_other_bits; half "st_shndx" ].

(* r_info split: ELF32  sym = info >> 8, type = info & 0xff ; ELF64 sym = info >> 32, type = info & 0xffffffff *)
Definition r_info_fields : layout :=
  if is64 then
    [ xword "r_info";
      ("r_info_sym", KCalc (CBin OAnd (CBin OShr (CField "r_info") (CConst 32)) (CConst 0xFFFFFFFF)));
      ("r_info_type", KCalc (CBin OAnd (CField "r_info") (CConst 0xFFFFFFFF))) ]
  else
    [ xword "r_info";
      ("r_info_sym", KCalc (CBin OAnd (CBin OShr (CField "r_info") (CConst 8)) (CConst 0xFFFFFF)));
      ("r_info_type", KCalc (CBin OAnd (CField "r_info") (CConst 0xFF))) ].

Definition spec_Elf_Rel : layout := addr "r_offset" :: r_info_fields.
Definition spec_Elf_Rela : layout := (addr "r_offset" :: r_info_fields ++ [ sxword "r_addend" ])%list.
Definition spec_Elf_Relr : layout := [ addr "r_offset" ].

(* MIPS ELF64: r_info is r_sym:32, r_ssym:8, r_type3:8, r_type2:8, r_type:8 in FILE order
   (so on little-endian files it is not a 64-bit integer split).  The synthesized r_info
   is (sym << 32) | (ssym << 24) | (type3 << 16) | (type2 << 8) | type. *)
Definition mips64_info_fields : layout :=
  [ word "r_sym"; byte "r_ssym"; byte "r_type3"; byte "r_type2"; byte "r_type";
    ("r_info_sym", KCalc (CField "r_sym"));
    ("r_info_ssym", KCalc (CField "r_ssym"));
    ("r_info_type", KCalc (CField "r_type"));
    ("r_info_type2", KCalc (CField "r_type2"));
    ("r_info_type3", KCalc (CField "r_type3"));
    ("r_info", KCalc
       (CBin OOr (CBin OOr (CBin OOr (CBin OOr
          (CBin OShl (CField "r_sym") (CConst 32))
          (CBin OShl (CField "r_ssym") (CConst 24)))
          (CBin OShl (CField "r_type3") (CConst 16)))
          (CBin OShl (CField "r_type2") (CConst 8)))
          (CField "r_type"))) ].
Definition spec_Elf_Rel_mips64 : layout := ("r_offset", KU le 8) :: mips64_info_fields.
Definition spec_Elf_Rela_mips64 : layout :=
  (("r_offset", KU le 8) :: mips64_info_fields ++ [ ("r_addend", KS le 8) ])%list.

Definition spec_Elf_Dyn : layout :=
  [ sxword "d_tag"; xword "d_val"; ("d_ptr", KCalc (CField "d_val")) ].

Definition spec_Elf_Sunw_Syminfo : layout := [ half "si_boundto"; half "si_flags" ].

Definition spec_Elf_Verneed : layout :=
  [ half "vn_version"; half "vn_cnt"; word "vn_file"; word "vn_aux"; word "vn_next" ].
Definition spec_Elf_Vernaux : layout :=
  [ word "vna_hash"; half "vna_flags"; half "vna_other"; word "vna_name"; word "vna_next" ].
Definition spec_Elf_Verdef : layout :=
  [ half "vd_version"; half "vd_flags"; half "vd_ndx"; half "vd_cnt"; word "vd_hash";
    word "vd_aux"; word "vd_next" ].
Definition spec_Elf_Verdaux : layout := [ word "vda_name"; word "vda_next" ].
Definition spec_Elf_Versym : layout := [ half "ndx" ].

Definition spec_Elf_Nhdr : layout := [ word "n_namesz"; word "n_descsz"; word "n_type" ].
Definition spec_Elf_abi : layout := [ word "abi_os"; word "abi_major"; word "abi_minor"; word "abi_tiny" ].
Definition spec_Elf_Stabs : layout :=
  [ word "n_strx"; byte "n_type"; byte "n_other"; half "n_desc"; word "n_value" ].

(* SysV hash: nbucket, nchain, bucket[nbucket], chain[nchain], all 32-bit words *)
Definition spec_Elf_Hash : layout :=
  [ word "nbuckets"; word "nchains";
    ("buckets", KArr (CField "nbuckets") le 4); ("chains", KArr (CField "nchains") le 4) ].
(* GNU hash header: nbuckets, symoffset, bloom_size, bloom_shift, bloom[bloom_size] (native words),
   buckets[nbuckets] (32-bit); the chain words follow *)
Definition spec_Gnu_Hash : layout :=
  [ word "nbuckets"; word "symoffset"; word "bloom_size"; word "bloom_shift";
    ("bloom", KArr (CField "bloom_size") le (if is64 then 8 else 4));
    ("buckets", KArr (CField "nbuckets") le 4) ].

(* Linux struct elf_prpsinfo; uid/gid are 16-bit on a few 32-bit targets *)
Definition spec_Elf_Prpsinfo (ugid_half : bool) : layout :=
  let ugid (n : string) : field := (n, KU le (if ugid_half then 2 else 4)) in
  ([ byte "pr_state"; ("pr_sname", KBytes 1); byte "pr_zomb"; byte "pr_nice" ] ++
   (if is64 then [ ("<pad>", KPad 4) ] else []) ++
   [ xword "pr_flag"; ugid "pr_uid"; ugid "pr_gid"; word "pr_pid"; word "pr_ppid";
     word "pr_pgrp"; word "pr_sid"; ("pr_fname", KBytes 16); ("pr_psargs", KBytes 80) ])%list.
End cfg.
