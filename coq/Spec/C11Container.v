(* Spec/C11Container.v — property C11: what a file MEANS as a container of debug
   data, written from the formats, not from the code:
     * System V gABI, "Section compression" (SHF_COMPRESSED, Elf_Chdr, ELFCOMPRESS_ZLIB);
     * the legacy GNU convention (binutils <= 2.26 default, still produced by
       objcopy --compress-debug-sections=zlib-gnu): a compressed .debug_X is RENAMED
       .zdebug_X and holds "ZLIB", the 8-byte big-endian inflated size, a zlib stream;
       binutils decides PER SECTION (a section that would not shrink keeps its name);
     * GDB manual, "Debugging Information in Separate Files": .gnu_debuglink = file
       name, NUL, 0-3 bytes of padding to a 4-byte boundary, CRC-32 of the debug
       file in the byte order of the file;
     * .gnu_debugaltlink (file name, NUL, 20-byte build id) and DWARF 5 section 7.3.6
       .debug_sup (version:2, is_supplementary:1, file name, NUL, checksum...).
   zlib is NOT specified here: it is a Section variable [inflate] (DESIGN 2.4).
   CRC-32 is specified as polynomial long division over GF(2) (no table).
   The abstract file is a list of sections, each carrying the bytes of the file
   from its sh_offset to the end (so "placed anywhere, followed by anything"). *)
From Coq Require Export String.
From PV Require Export Base.Bytes Base.Fmt Base.Prim Spec.ElfGabi.
Open Scope Z_scope.

(* ---------- names ---------- *)
Fixpoint ascii_bytes (s : string) : list Z :=
  match s with
  | EmptyString => []
  | String c r => Z.of_nat (Ascii.nat_of_ascii c) :: ascii_bytes r
  end.

Fixpoint bytes_eqb (a b : list Z) : bool :=
  match a, b with
  | [], [] => true
  | x :: a', y :: b' => (x =? y) && bytes_eqb a' b'
  | _, _ => false
  end.

Fixpoint is_prefix (p bs : list Z) : bool :=
  match p, bs with
  | [], _ => true
  | x :: p', y :: b' => (x =? y) && is_prefix p' b'
  | _, [] => false
  end.

(* ---------- constants of the formats ---------- *)
Definition SHT_RELA : Z := 4.
Definition SHT_NOBITS : Z := 8.
Definition SHT_REL : Z := 9.
Definition SHF_COMPRESSED : Z := 0x800.
Definition ELFCOMPRESS_ZLIB : Z := 1.
Definition EM_DSPIC30F : Z := 118.
Definition EF_PIC30_NO_PHANTOM_BYTE : Z := 0x80000000.

(* ---------- the abstract file ---------- *)
Record sec := mkSec {
  s_name : list Z;        (* name bytes from the section-header string table *)
  s_type : Z; s_flags : Z; s_addr : Z; s_offset : Z; s_size : Z; s_link : Z; s_info : Z;
  s_stream : list Z       (* the file from sh_offset on (NOT cut at sh_size) *)
}.
Record elf := mkElf {
  e_le : bool; e_is64 : bool; e_machine : Z; e_flags : Z;
  e_secs : list sec
}.

Definition is_compressed (s : sec) : bool := negb (Z.land (s_flags s) SHF_COMPRESSED =? 0).
Definition is_nobits (s : sec) : bool := s_type s =? SHT_NOBITS.
Definition is_reloc_sec (s : sec) : bool := (s_type s =? SHT_REL) || (s_type s =? SHT_RELA).
Definition chdr_size (is64 : bool) : nat := if is64 then 24%nat else 12%nat.

(* XC16 "phantom bytes": every odd byte of a DWARF section is discarded *)
Definition has_phantom (e : elf) : bool :=
  (e_machine e =? EM_DSPIC30F) && (Z.land (e_flags e) EF_PIC30_NO_PHANTOM_BYTE =? 0).
Fixpoint evens (l : list Z) : list Z :=
  match l with
  | [] => []
  | x :: r => x :: match r with [] => [] | _ :: r' => evens r' end
  end.

(* the last section with a given name (a later section header shadows an earlier one) *)
Fixpoint find_last_from (i : nat) (n : list Z) (l : list sec) : option (nat * sec) :=
  match l with
  | [] => None
  | s :: r =>
      match find_last_from (S i) n r with
      | Some x => Some x
      | None => if bytes_eqb (s_name s) n then Some (i, s) else None
      end
  end.
Definition sec_named (e : elf) (n : list Z) : option sec :=
  option_map snd (find_last_from 0 n (e_secs e)).
Definition has_named (e : elf) (n : list Z) : bool :=
  existsb (fun s => bytes_eqb (s_name s) n) (e_secs e).

(* ---------- the logical slots handed to the DWARF reader ---------- *)
Definition n_debug_info := ascii_bytes ".debug_info".
Definition n_zdebug_info := ascii_bytes ".zdebug_info".
Definition n_eh_frame := ascii_bytes ".eh_frame".
Definition n_debuglink := ascii_bytes ".gnu_debuglink".
Definition n_debug_sup := ascii_bytes ".debug_sup".
Definition n_debugaltlink := ascii_bytes ".gnu_debugaltlink".
Definition p_debug := ascii_bytes ".debug_".
Definition p_zdebug := ascii_bytes ".zdebug_".
Definition p_rel := ascii_bytes ".rel".
Definition p_rela := ascii_bytes ".rela".

Definition spec_slot_names : list string :=
  [".debug_info"; ".debug_aranges"; ".debug_abbrev"; ".debug_str"; ".debug_line";
   ".debug_frame"; ".debug_loc"; ".debug_ranges"; ".debug_pubtypes"; ".debug_pubnames";
   ".debug_addr"; ".debug_str_offsets"; ".debug_line_str"; ".debug_loclists";
   ".debug_rnglists"; ".debug_sup"; ".gnu_debugaltlink"; ".debug_types"; ".eh_frame"]%string.

(* ".debug_X" -> ".zdebug_X" *)
Definition zname (n : list Z) : list Z :=
  match n with
  | d :: r => d :: 122 :: r       (* '.' 'z' ... *)
  | [] => []
  end.

(* ---------- presence (the boolean formula of the property) ---------- *)
Definition presence (e : elf) (strict : bool) : bool :=
  has_named e n_debug_info || has_named e n_zdebug_info ||
  (negb strict && has_named e n_eh_frame).

(* ====================================================================== CRC-32
   CRC-32/ISO-HDLC (ITU-T V.42, zlib, binascii.crc32, GDB's gnu_debuglink_crc32):
   generator G = x^32+x^26+x^23+x^22+x^16+x^12+x^11+x^10+x^8+x^7+x^5+x^4+x^2+x+1,
   register preset to all ones, bits of each byte taken least significant first,
   result complemented and bit-reflected.
   A polynomial over GF(2) of degree < L is written as the integer whose bit j is
   the coefficient of x^(L-1-j) (the "reflected" writing, in which the message
   polynomial of a byte string, LSB-first, is simply its little-endian integer and
   appending 32 zero coefficients changes nothing).  One step of schoolbook long
   division by G looks at the leading coefficient (bit 0): if it is 1 subtract
   (= xor) G aligned at that position, then move on to the next coefficient
   (shift right by one).  After 8*n steps all n*8 message coefficients have been
   cancelled and what is left is the remainder of  M(x)*x^32 + ones(x)*x^(8n)
   modulo G, a polynomial of degree < 32. *)
Definition G_exponents : list Z := [32; 26; 23; 22; 16; 12; 11; 10; 8; 7; 5; 4; 2; 1; 0].
(* G in the reflected writing with L = 33: coefficient of x^k at bit 32-k *)
Definition G_refl : Z := fold_right (fun k acc => acc + 2 ^ (32 - k)) 0 G_exponents.

Definition div_step (p : Z) : Z := Z.shiftr (if Z.odd p then Z.lxor p G_refl else p) 1.
Definition ONES32 : Z := 0xFFFFFFFF.

Definition crc32_poly (bs : list Z) : Z :=
  Z.lxor (Nat.iter (8 * length bs) div_step (Z.lxor (le_decode bs) ONES32)) ONES32.

(* ====================================================================== framings *)
(* --- gABI: Elf_Chdr followed by the zlib stream; every field is an argument --- *)
Definition chdr_vals (is64 : bool) (ch_type ch_reserved ch_size ch_addralign : Z) : list fval :=
  if is64 then [VZ ch_type; VZ ch_reserved; VZ ch_size; VZ ch_addralign]
  else [VZ ch_type; VZ ch_size; VZ ch_addralign].
Definition chdr_bytes (le is64 : bool) (ch_type ch_reserved ch_size ch_addralign : Z) : list Z :=
  encode_layout (spec_Elf_Chdr le is64) (chdr_vals is64 ch_type ch_reserved ch_size ch_addralign).
Definition gabi_body (le is64 : bool) (ch_reserved ch_size ch_addralign : Z) (blob : list Z) : list Z :=
  chdr_bytes le is64 ELFCOMPRESS_ZLIB ch_reserved ch_size ch_addralign ++ blob.

(* --- legacy GNU: "ZLIB", size as 8 bytes big-endian, the zlib stream --- *)
Definition ZLIB_MAGIC : list Z := [90; 76; 73; 66].
Definition zdebug_body (size : Z) (blob : list Z) : list Z :=
  ZLIB_MAGIC ++ be_encode 8 size ++ blob.

(* --- .gnu_debuglink: padding content is an argument (the format asks for the
       length only); crc in the byte order of the file --- *)
Definition debuglink_padlen (name : list Z) : nat := (3 - (length name mod 4))%nat.
Definition debuglink_body (le : bool) (name pad : list Z) (crc : Z) : list Z :=
  name ++ [0] ++ pad ++ int_encode le 4 crc.

(* --- .gnu_debugaltlink: name, NUL, build id --- *)
Definition altlink_body (name id : list Z) : list Z := name ++ [0] ++ id.

(* --- .debug_sup (DWARF 5, 7.3.6) --- *)
Definition debugsup_body (le : bool) (version is_sup : Z) (name rest : list Z) : list Z :=
  int_encode le 2 version ++ [is_sup] ++ name ++ [0] ++ rest.

(* ====================================================================== the view *)
Record desc := mkDesc {
  d_data : list Z;          (* the logical content of the debug section *)
  d_size : Z;               (* its logical size *)
  d_addr : Z;               (* sh_addr (needed for .eh_frame) *)
  d_reloc : option nat      (* index of the relocation section to be applied to d_data
                               AFTER all container decoding (relocation itself is C08) *)
}.
Definition slots := list (option desc).           (* in the order of spec_slot_names *)
Record config := mkConfig { c_le : bool; c_addr_size : Z; c_machine : Z }.
Record view := mkView {
  v_cfg : config;
  v_slots : slots;
  v_sup : option (config * slots)                 (* DWARFInfo.supplementary_dwarfinfo *)
}.

Definition config_of (e : elf) : config :=
  mkConfig (e_le e) (if e_is64 e then 8 else 4) (e_machine e).

(* stream.read(n): everything for negative n *)
Definition py_read (n : Z) (bs : list Z) : list Z :=
  if n <? 0 then bs else firstn (Z.to_nat n) bs.

Section WithOracles.
(* zlib.decompressobj().decompress(data, max_length) (max_length 0 = unlimited):
   Some (output, eof) or None for zlib.error *)
Variable inflate : list Z -> Z -> option (list Z * bool).
(* the reader of a linked file (bytes -> abstract file); the model supplies its own *)
Variable parse : list Z -> option elf.

(* [blob] is a complete zlib stream of [p] (any compression level, any flush pattern).
   max_length is a C ssize_t: nothing is said about max_length >= 2^63 (CPython refuses it) *)
Definition deflated (blob p : list Z) : Prop :=
  inflate blob 0 = Some (p, true) /\
  forall n, 0 < n < 2 ^ 63 -> inflate blob n = Some (firstn (Z.to_nat n) p, zlen p <=? n).

(* --- what a section holds: (content, logical size); None = rejected --- *)
Definition gabi_payload (le is64 : bool) (s : sec) : option (list Z * Z) :=
  match decode_layout (spec_Elf_Chdr le is64) (s_stream s) with
  | None => None
  | Some (h, _) =>
      let dsize := rec_z h "ch_size" in
      if is_nobits s then Some (repeat 0 (Z.to_nat dsize), dsize)
      else if rec_z h "ch_type" =? ELFCOMPRESS_ZLIB then
        let hs := Z.of_nat (chdr_size is64) in
        let blob := py_read (s_size s - hs) (skipn (chdr_size is64) (s_stream s)) in
        match inflate blob dsize with
        | Some (p, eof) => if eof && (zlen p =? dsize) then Some (p, dsize) else None
        | None => None
        end
      else None
  end.

Definition stored_payload (le is64 : bool) (s : sec) : option (list Z * Z) :=
  if is_compressed s then gabi_payload le is64 s
  else if is_nobits s then Some (repeat 0 (Z.to_nat (s_size s)), s_size s)
  else Some (firstn (Z.to_nat (s_size s)) (s_stream s), s_size s).

Definition zdebug_payload (raw : list Z) (size : Z) : option (list Z * Z) :=
  if size <=? 12 then None
  else if bytes_eqb (firstn 4 raw) ZLIB_MAGIC then
    if (length (firstn 8 (skipn 4 raw)) =? 8)%nat then
      match inflate (skipn 12 raw) 0 with
      | Some (p, _) =>
          if zlen p =? be_decode (firstn 8 (skipn 4 raw)) then Some (p, zlen p) else None
      | None => None
      end
    else None
  else None.

(* the relocation section of a section: the first SHT_REL/SHT_RELA section called
   ".rel<name>" or ".rela<name>" *)
Fixpoint reloc_index_from (i : nat) (name : list Z) (l : list sec) : option nat :=
  match l with
  | [] => None
  | s :: r =>
      if is_reloc_sec s && (bytes_eqb (s_name s) (p_rel ++ name) || bytes_eqb (s_name s) (p_rela ++ name))
      then Some i else reloc_index_from (S i) name r
  end.
Definition reloc_index (e : elf) (name : list Z) : option nat := reloc_index_from 0 name (e_secs e).

(* one container section -> descriptor.  Order: stored form, phantom bytes,
   legacy framing, then (symbolically) relocation. *)
Definition read_container (e : elf) (relocate legacy : bool) (s : sec) : option desc :=
  match stored_payload (e_le e) (e_is64 e) s with
  | None => None
  | Some (raw, size) =>
      let ph := has_phantom e in
      let raw1 := if ph then evens raw else raw in
      let size1 := if ph then size / 2 else size in
      match (if legacy then zdebug_payload raw1 size1 else Some (raw1, size1)) with
      | None => None
      | Some (data, dsize) =>
          let rel := if relocate then reloc_index e (s_name s) else None in
          match rel with
          | Some _ => if ph then None else Some (mkDesc data dsize (s_addr s) rel)
          | None => Some (mkDesc data dsize (s_addr s) None)
          end
      end
  end.

(* one logical slot: the section of that name, else (for .debug_X) the legacy .zdebug_X *)
Definition read_slot (e : elf) (relocate : bool) (n : list Z) : option (option desc) :=
  match sec_named e n with
  | Some s => option_map Some (read_container e relocate false s)
  | None =>
      if is_prefix p_debug n then
        match sec_named e (zname n) with
        | Some s => option_map Some (read_container e relocate true s)
        | None => Some None
        end
      else Some None
  end.

Fixpoint read_slots (e : elf) (relocate : bool) (ns : list (list Z)) : option slots :=
  match ns with
  | [] => Some []
  | n :: r =>
      match read_slot e relocate n with
      | None => None
      | Some d => match read_slots e relocate r with
                  | Some ds => Some (d :: ds)
                  | None => None
                  end
      end
  end.
Definition slot_names : list (list Z) := map ascii_bytes spec_slot_names.
Definition own_slots (e : elf) (relocate : bool) : option slots := read_slots e relocate slot_names.

(* --- link payloads --- *)
Definition debuglink_parse (le : bool) (bs : list Z) : option (list Z * Z) :=
  match cstring_decode bs with
  | None => None
  | Some (name, r) =>
      match take (debuglink_padlen name) r with
      | None => None
      | Some (pad, r') =>
          if forallb (Z.eqb 0) pad then
            match uint_decode le 4 r' with
            | Some (crc, _) => Some (name, crc)
            | None => None
            end
          else None
      end
  end.

Definition SLOT_SUP : nat := 15.
Definition SLOT_ALTLINK : nat := 16.
Definition slot_data (sl : slots) (i : nat) : option (list Z) :=
  match nth i sl None with Some d => Some (d_data d) | None => None end.

Definition altlink_parse (bs : list Z) : option (list Z) :=
  match cstring_decode bs with
  | Some (name, r) => match take 20 r with Some _ => Some name | None => None end
  | None => None
  end.
Definition debugsup_parse (le : bool) (bs : list Z) : option (Z * list Z) :=
  match take 3 bs with
  | Some (h, r) =>
      match cstring_decode r with
      | Some (name, _) => Some (nth 2 h 0, name)
      | None => None
      end
  | None => None
  end.

(* the path of the supplementary file: Some None = no link, None = malformed link *)
Definition sup_path (le : bool) (sl : slots) : option (option (list Z)) :=
  let alt := match slot_data sl SLOT_ALTLINK with
             | None => Some None
             | Some bs => match altlink_parse bs with Some n => Some (Some n) | None => None end
             end in
  match slot_data sl SLOT_SUP with
  | None => alt
  | Some bs =>
      match debugsup_parse le bs with
      | None => None
      | Some (is_sup, name) => if is_sup =? 0 then Some (Some name) else alt
      end
  end.

Definition own_view (fs : option (list Z -> option (list Z))) (e : elf) (relocate follow : bool)
  : option view :=
  match own_slots e relocate with
  | None => None
  | Some sl =>
      let plain := Some (mkView (config_of e) sl None) in
      if follow then
        match sup_path (e_le e) sl with
        | None => None
        | Some None => plain
        | Some (Some path) =>
            match fs with
            | None => plain
            | Some load =>
                match load path with
                | None => None
                | Some b =>
                    match parse b with
                    | None => None
                    | Some e' =>
                        (* the supplementary file is read on its own, without a loader *)
                        match own_slots e' true with
                        | Some sl' =>
                            match sup_path (e_le e') sl' with
                            | Some _ => Some (mkView (config_of e) sl (Some (config_of e', sl')))
                            | None => None
                            end
                        | None => None
                        end
                    end
                end
            end
        end
      else plain
  end.

(* what is handed to the DWARF reader.  fuel bounds the length of a chain of debug links *)
Fixpoint debug_view (fuel : nat) (fs : option (list Z -> option (list Z))) (e : elf)
         (relocate follow : bool) : option view :=
  match fuel with
  | O => None
  | S f =>
      match sec_named e n_debuglink, fs with
      | Some dl, Some load =>
          if negb (presence e true) && follow then
            match debuglink_parse (e_le e) (s_stream dl) with
            | None => None
            | Some (name, crc) =>
                match load name with
                | None => None
                | Some b =>
                    if crc32_poly b =? crc then
                      match parse b with
                      | Some e' => debug_view f fs e' relocate true
                      | None => None
                      end
                    else None
                end
            end
          else own_view fs e relocate follow
      | _, _ => own_view fs e relocate follow
      end
  end.

End WithOracles.

(* ====================================================================== transforms
   Re-encodings of a file.  Each takes the deflated blobs (and every free byte:
   reserved field, alignment, new offset, what follows the section) as arguments. *)

(* --- gABI --- *)
Record gabi_args := mkGabi { g_reserved : Z; g_align : Z; g_offset : Z; g_blob : list Z; g_tail : list Z }.
Definition gabi_compress (le is64 : bool) (a : gabi_args) (s : sec) : sec :=
  mkSec (s_name s) (s_type s) (Z.lor (s_flags s) SHF_COMPRESSED) (s_addr s) (g_offset a)
        (Z.of_nat (chdr_size is64) + zlen (g_blob a)) (s_link s) (s_info s)
        (gabi_body le is64 (g_reserved a) (s_size s) (g_align a) (g_blob a) ++ g_tail a).

(* choice per section index *)
Fixpoint map_idx {A B} (f : nat -> A -> B) (i : nat) (l : list A) : list B :=
  match l with [] => [] | x :: r => f i x :: map_idx f (S i) r end.
Definition T_gabi (choice : nat -> option gabi_args) (e : elf) : elf :=
  mkElf (e_le e) (e_is64 e) (e_machine e) (e_flags e)
        (map_idx (fun i s => match choice i with
                             | Some a => gabi_compress (e_le e) (e_is64 e) a s
                             | None => s end) 0 (e_secs e)).

(* --- legacy GNU: a chosen ".debug_X" becomes ".zdebug_X"; objcopy renames its
       relocation section ".rel[a].debug_X" to ".rel[a].zdebug_X" along with it --- *)
Record zgnu_args := mkZgnu { z_offset : Z; z_blob : list Z; z_tail : list Z }.
Definition zgnu_compress (a : zgnu_args) (s : sec) : sec :=
  mkSec (zname (s_name s)) (s_type s) (s_flags s) (s_addr s) (z_offset a)
        (12 + zlen (z_blob a)) (s_link s) (s_info s)
        (zdebug_body (s_size s) (z_blob a) ++ z_tail a).
Definition rename (n : list Z) (s : sec) : sec :=
  mkSec n (s_type s) (s_flags s) (s_addr s) (s_offset s) (s_size s) (s_link s) (s_info s) (s_stream s).

Definition strip_prefix (p bs : list Z) : option (list Z) :=
  if is_prefix p bs then Some (skipn (length p) bs) else None.
(* target name of a relocation section name: ".rela<N>" / ".rel<N>" *)
Definition reloc_target (n : list Z) : option (list Z * list Z) :=
  match strip_prefix p_rela n with
  | Some t => Some (p_rela, t)
  | None => match strip_prefix p_rel n with Some t => Some (p_rel, t) | None => None end
  end.

Fixpoint chosen_names_from {A} (choice : nat -> option A) (i : nat) (l : list sec) : list (list Z) :=
  match l with
  | [] => []
  | s :: r => (match choice i with Some _ => [s_name s] | None => [] end)
              ++ chosen_names_from choice (S i) r
  end.
Definition name_in (n : list Z) (l : list (list Z)) : bool := existsb (bytes_eqb n) l.

Definition zgnu_sec (choice : nat -> option zgnu_args) (zn : list (list Z)) (i : nat) (s : sec) : sec :=
  match choice i with
  | Some a => zgnu_compress a s
  | None =>
      if is_reloc_sec s then
        match reloc_target (s_name s) with
        | Some (pre, t) => if name_in t zn then rename (pre ++ zname t) s else s
        | None => s
        end
      else s
  end.
Definition T_zgnu (choice : nat -> option zgnu_args) (e : elf) : elf :=
  mkElf (e_le e) (e_is64 e) (e_machine e) (e_flags e)
        (map_idx (zgnu_sec choice (chosen_names_from choice 0 (e_secs e))) 0 (e_secs e)).

(* --- separate debug file: a section carrying the link is appended --- *)
Definition link_section (name body : list Z) (off : Z) (tail : list Z) : sec :=
  mkSec name 1 0 0 off (zlen body) 0 0 (body ++ tail).
Definition add_section (s : sec) (e : elf) : elf :=
  mkElf (e_le e) (e_is64 e) (e_machine e) (e_flags e) (e_secs e ++ [s]).

(* --- keep-debug (objcopy --only-keep-debug): the contents of sections the DWARF reader
       never asks for are dropped — the section becomes SHT_NOBITS and what lies at its
       offset is arbitrary.  A name the reader asks for: one of the slot names or its legacy
       spelling; the link carrier, relocation sections, symbol and string tables are kept as well.  (objcopy also
       empties .eh_frame, which IS a slot: that part of its output is not an invariance.) --- *)
Definition observed (n : list Z) : bool :=
  name_in n slot_names || name_in n (map zname slot_names).
(* symbol and string tables stay too: applying a relocation section (C08) reads them *)
Definition is_symstr (s : sec) : bool := (s_type s =? 2) || (s_type s =? 3) || (s_type s =? 11).
Definition kept (s : sec) : bool :=
  observed (s_name s) || bytes_eqb (s_name s) n_debuglink || is_reloc_sec s || is_symstr s.
Definition keep_debug_sec (fill : nat -> list Z) (i : nat) (s : sec) : sec :=
  if kept s then s
  else mkSec (s_name s) SHT_NOBITS (s_flags s) (s_addr s) (s_offset s) (s_size s) (s_link s) (s_info s) (fill i).
Definition T_keep_debug (fill : nat -> list Z) (e : elf) : elf :=
  mkElf (e_le e) (e_is64 e) (e_machine e) (e_flags e) (map_idx (keep_debug_sec fill) 0 (e_secs e)).

(* ====================================================================== well-formedness (bool) *)
Definition no_phantom (e : elf) : bool := negb (has_phantom e).
(* a file in the plain naming: nothing is called .zdebug_* or .rel[a].zdebug_* *)
Definition plain_names (e : elf) : bool :=
  forallb (fun s => negb (is_prefix p_zdebug (s_name s)) &&
                    negb (is_prefix (p_rel ++ p_zdebug) (s_name s)) &&
                    negb (is_prefix (p_rela ++ p_zdebug) (s_name s))) (e_secs e).
(* a section stored plainly and completely *)
Definition plain_complete (s : sec) : bool :=
  negb (is_compressed s) && negb (is_nobits s) && (0 <=? s_size s) &&
  (s_size s <=? zlen (s_stream s)).

(* ====================================================================== domains of the
   invariance theorems, as executable predicates *)
(* --- gABI: a re-encoded section is stored plainly and completely, is smaller than 2^63
       bytes (its size becomes zlib's max_length), is not the carrier
       of the debug link (whose payload the reader takes from the file, not from the
       section contents), and the header values fit their fields --- *)
Definition gabi_ok (le is64 : bool) (a : gabi_args) (s : sec) : bool :=
  plain_complete s && (s_size s <? 2 ^ 63) && negb (bytes_eqb (s_name s) n_debuglink) &&
  fits_layout (spec_Elf_Chdr le is64)
              (chdr_vals is64 ELFCOMPRESS_ZLIB (g_reserved a) (s_size s) (g_align a)).

Fixpoint all_idx {A} (p : nat -> A -> bool) (i : nat) (l : list A) : bool :=
  match l with [] => true | x :: r => p i x && all_idx p (S i) r end.

Definition gabi_choice_ok (choice : nat -> option gabi_args) (e : elf) : bool :=
  all_idx (fun i s => match choice i with
                      | Some a => gabi_ok (e_le e) (e_is64 e) a s
                      | None => true end) 0 (e_secs e).

(* --- legacy GNU: ".debug_X" sections only, stored plainly and completely, size fits the
       8-byte field, the zlib stream is not empty; the choice is per NAME (sections that
       share a name are re-encoded together: renaming one of two would change which one
       the name denotes) --- *)
Definition zgnu_ok (a : zgnu_args) (s : sec) : bool :=
  plain_complete s && is_prefix p_debug (s_name s) && (s_size s <? 2 ^ 64) &&
  negb (zlen (z_blob a) =? 0).
Definition zgnu_choice_ok (choice : nat -> option zgnu_args) (e : elf) : bool :=
  let zn := chosen_names_from choice 0 (e_secs e) in
  all_idx (fun i s => match choice i with
                      | Some a => zgnu_ok a s
                      | None => negb (name_in (s_name s) zn) end) 0 (e_secs e).

(* --- a well-formed .gnu_debuglink payload --- *)
Definition debuglink_ok (name pad : list Z) (crc : Z) : bool :=
  forallb (fun b => negb (b =? 0)) name && forallb (Z.eqb 0) pad &&
  (length pad =? debuglink_padlen name)%nat && (0 <=? crc) && (crc <? 2 ^ 32).

(* replace slot k *)
Fixpoint set_nth {A} (k : nat) (x : A) (l : list A) : list A :=
  match l, k with
  | [], _ => []
  | _ :: r, O => x :: r
  | y :: r, S k' => y :: set_nth k' x r
  end.

(* ====================================================================== non-vacuity:
   the "stored" codec (a stream IS its content) satisfies the zlib law [deflated],
   so the hypotheses of the invariance theorems are satisfiable *)
Definition inflate_stored (blob : list Z) (n : Z) : option (list Z * bool) :=
  if n =? 0 then Some (blob, true)
  else if 2 ^ 63 <=? n then None                      (* OverflowError *)
  else Some (firstn (Z.to_nat n) blob, zlen blob <=? n).
