(* Spec/C02Spec.v — what section/segment contents, string tables, the address
   mapping and section-in-segment containment MEAN.  Written from the gABI
   (chapters 4 "Sections", "String Table", 5 "Program Header"), the Oracle Linker
   and Libraries Guide ("Section Compression") and binutils 2.40
   include/elf/internal.h (ELF_SECTION_IN_SEGMENT_1), NOT from the Python code.
   zlib is not specified here: it enters the theorems as a Section variable
   (Proofs/C02Proofs.v). *)
From Coq Require Import String.
From PV Require Import Base.Bytes Base.Fmt Base.Enum Spec.ElfGabi Spec.PrimSpec.
Open Scope Z_scope.

(* ---- constants (gABI figures 4-9, 4-11, 5-? and binutils include/elf/common.h) ---- *)
Definition SHT_NOBITS : Z := 8.
Definition SHF_ALLOC : Z := 0x2.
Definition SHF_TLS : Z := 0x400.
Definition SHF_COMPRESSED : Z := 0x800.
Definition ELFCOMPRESS_ZLIB : Z := 1.
Definition PT_LOAD : Z := 1.
Definition PT_DYNAMIC : Z := 2.
Definition PT_NOTE : Z := 4.
Definition PT_PHDR : Z := 6.
Definition PT_TLS : Z := 7.
Definition PT_GNU_EH_FRAME : Z := 0x6474e550.
Definition PT_GNU_STACK : Z := 0x6474e551.
Definition PT_GNU_RELRO : Z := 0x6474e552.
Definition PT_GNU_SFRAME : Z := 0x6474e554.
Definition PT_GNU_MBIND_NUM : Z := 4096.
Definition PT_GNU_MBIND_LO : Z := 0x6474e555.
Definition PT_GNU_MBIND_HI : Z := PT_GNU_MBIND_LO + PT_GNU_MBIND_NUM - 1.

(* ---- contents: the bytes of an extent [off, off+size) of the file ---- *)
Definition extent (img : list Z) (off size : Z) : list Z :=
  slice img (Z.to_nat off) (Z.to_nat size).
Definition extent_in_file (img : list Z) (off size : Z) : bool :=
  (0 <=? off) && (0 <=? size) && (off + size <=? zlen img).

(* SHT_NOBITS: occupies no file space; its contents are sh_size zero bytes *)
Definition nobits_data (size : Z) : list Z := repeat 0 (Z.to_nat size).

(* ---- SHF_COMPRESSED: the section's file bytes are an Elf32_Chdr / Elf64_Chdr
        followed by the compressed stream; ch_size / ch_addralign are the size and
        alignment of the uncompressed data.  [res] is the free ch_reserved word of the
        ELF64 header. ---- *)
Definition chdr_vals (is64 : bool) (ty res sz al : Z) : list fval :=
  if is64 then [VZ ty; VZ res; VZ sz; VZ al] else [VZ ty; VZ sz; VZ al].
Definition enc_chdr (le is64 : bool) (ty res sz al : Z) : list Z :=
  encode_layout (spec_Elf_Chdr le is64) (chdr_vals is64 ty res sz al).
Definition chdr_fits (le is64 : bool) (ty res sz al : Z) : bool :=
  fits_layout (spec_Elf_Chdr le is64) (chdr_vals is64 ty res sz al).
Definition chdr_size (is64 : bool) : Z := if is64 then 24 else 12.

(* file bytes of a compressed section declaring [declared] bytes, carrying stream z *)
Definition compressed_section (le is64 : bool) (res declared al : Z) (z : list Z) : list Z :=
  (enc_chdr le is64 ELFCOMPRESS_ZLIB res declared al ++ z)%list.

(* ---- string table: the NUL-terminated string starting at a byte offset of the table.
        [strtab_at tbl off s]: the table holds s followed by NUL at offset off ---- *)
Definition strtab_at (tbl : list Z) (off : Z) (s : list Z) : Prop :=
  exists before after, tbl = (before ++ s ++ 0 :: after)%list /\ zlen before = off /\ no_nul s = true.
(* executable reading: bytes from off up to the first NUL *)
Fixpoint upto_nul (bs : list Z) : option (list Z) :=
  match bs with
  | [] => None
  | b :: r => if b =? 0 then Some []
              else match upto_nul r with Some s => Some (b :: s) | None => None end
  end.
Definition string_at (img : list Z) (pos : Z) : option (list Z) :=
  if (0 <=? pos) && (pos <? zlen img) then upto_nul (skipn (Z.to_nat pos) img) else None.

(* ---- program headers and the address mapping ---- *)
Record phdr := mk_phdr {
  p_type : Z; p_flags : Z; p_offset : Z; p_vaddr : Z; p_paddr : Z;
  p_filesz : Z; p_memsz : Z; p_align : Z }.

(* field order of Elf32_Phdr / Elf64_Phdr (gABI figure 5-1): p_flags moves *)
Definition phdr_vals (is64 : bool) (h : phdr) : list fval :=
  if is64 then [VZ (p_type h); VZ (p_flags h); VZ (p_offset h); VZ (p_vaddr h); VZ (p_paddr h);
                VZ (p_filesz h); VZ (p_memsz h); VZ (p_align h)]
  else [VZ (p_type h); VZ (p_offset h); VZ (p_vaddr h); VZ (p_paddr h);
        VZ (p_filesz h); VZ (p_memsz h); VZ (p_flags h); VZ (p_align h)].
Definition enc_phdr (le is64 : bool) (h : phdr) : list Z :=
  encode_layout (spec_Elf_Phdr le is64) (phdr_vals is64 h).
Definition phdr_fits (le is64 : bool) (h : phdr) : bool :=
  fits_layout (spec_Elf_Phdr le is64) (phdr_vals is64 h).

(* the program header table: entry i at phoff + i * phentsize (gABI: e_phoff, e_phentsize);
   boolean so that the driver and the non-vacuity examples can evaluate it *)
Definition bytes_eqb (a b : list Z) : bool := if list_eq_dec Z.eq_dec a b then true else false.
Fixpoint phdrs_at (le is64 : bool) (img : list Z) (phoff phentsize : Z) (phs : list phdr) : bool :=
  match phs with
  | [] => true
  | h :: r =>
      let e := enc_phdr le is64 h in
      (0 <=? phoff) && (phoff <? zlen img) &&
      bytes_eqb (firstn (length e) (skipn (Z.to_nat phoff) img)) e &&
      phdrs_at le is64 img (phoff + phentsize) phentsize r
  end.

(* a loadable segment wholly contains the memory range [start, start+size) when the range
   lies in the part of the segment that is backed by the file *)
Definition seg_contains (h : phdr) (start size : Z) : bool :=
  (p_type h =? PT_LOAD) && (p_vaddr h <=? start) && (start + size <=? p_vaddr h + p_filesz h).
(* the file offsets of the range, one per containing PT_LOAD segment, in program-header order *)
Definition addr_map (phs : list phdr) (start size : Z) : list Z :=
  map (fun h => start - p_vaddr h + p_offset h) (filter (fun h => seg_contains h start size) phs).

(* ---- binutils 2.40 include/elf/internal.h, transliterated.  bfd_vma is an unsigned
        64-bit type in readelf: + and - are modulo 2^64.

   #define ELF_TBSS_SPECIAL(sec_hdr, segment)
     (((sec_hdr)->sh_flags & SHF_TLS) != 0 && (sec_hdr)->sh_type == SHT_NOBITS
      && (segment)->p_type != PT_TLS)
   #define ELF_SECTION_SIZE(sec_hdr, segment)
     (ELF_TBSS_SPECIAL(sec_hdr, segment) ? 0 : (sec_hdr)->sh_size)                     ---- *)
Definition M64 : Z := 2 ^ 64.
Definition add64 (a b : Z) : Z := (a + b) mod M64.
Definition sub64 (a b : Z) : Z := (a - b) mod M64.

Record shdr := mk_shdr {
  sh_type : Z; sh_flags : Z; sh_addr : Z; sh_offset : Z; sh_size : Z }.

Definition has_flag (flags f : Z) : bool := negb (Z.land flags f =? 0).

Definition tbss_special (s : shdr) (g : phdr) : bool :=
  has_flag (sh_flags s) SHF_TLS && (sh_type s =? SHT_NOBITS) && negb (p_type g =? PT_TLS).
Definition section_size (s : shdr) (g : phdr) : Z :=
  if tbss_special s g then 0 else sh_size s.

(* #define ELF_SECTION_IN_SEGMENT_1(sec_hdr, segment, check_vma, strict) *)
Definition section_in_segment_1 (s : shdr) (g : phdr) (check_vma strict : bool) : bool :=
  let pt := p_type g in
  let tls := has_flag (sh_flags s) SHF_TLS in
  let alloc := has_flag (sh_flags s) SHF_ALLOC in
  (* Only PT_LOAD, PT_GNU_RELRO and PT_TLS segments can contain SHF_TLS sections. *)
  ((tls && ((pt =? PT_TLS) || (pt =? PT_GNU_RELRO) || (pt =? PT_LOAD)))
   (* PT_TLS segment contains only SHF_TLS sections, PT_PHDR no sections at all. *)
   || (negb tls && negb (pt =? PT_TLS) && negb (pt =? PT_PHDR)))
  (* PT_LOAD and similar segments only have SHF_ALLOC sections. *)
  && negb (negb alloc
           && ((pt =? PT_LOAD) || (pt =? PT_DYNAMIC) || (pt =? PT_GNU_EH_FRAME)
               || (pt =? PT_GNU_STACK) || (pt =? PT_GNU_RELRO) || (pt =? PT_GNU_SFRAME)
               || ((PT_GNU_MBIND_LO <=? pt) && (pt <=? PT_GNU_MBIND_HI))))
  (* Any section besides one of type SHT_NOBITS must have file offsets within the segment. *)
  && ((sh_type s =? SHT_NOBITS)
      || ((p_offset g <=? sh_offset s)
          && (negb strict || (sub64 (sh_offset s) (p_offset g) <=? sub64 (p_filesz g) 1))
          && (add64 (sub64 (sh_offset s) (p_offset g)) (section_size s g) <=? p_filesz g)))
  (* SHF_ALLOC sections must have VMAs within the segment. *)
  && (negb check_vma || negb alloc
      || ((p_vaddr g <=? sh_addr s)
          && (negb strict || (sub64 (sh_addr s) (p_vaddr g) <=? sub64 (p_memsz g) 1))
          && (add64 (sub64 (sh_addr s) (p_vaddr g)) (section_size s g) <=? p_memsz g)))
  (* No zero size sections at start or end of PT_DYNAMIC nor PT_NOTE. *)
  && ((negb (pt =? PT_DYNAMIC) && negb (pt =? PT_NOTE))
      || negb (sh_size s =? 0)
      || (p_memsz g =? 0)
      || (((sh_type s =? SHT_NOBITS)
           || ((p_offset g <? sh_offset s) && (sub64 (sh_offset s) (p_offset g) <? p_filesz g)))
          && (negb alloc
              || ((p_vaddr g <? sh_addr s) && (sub64 (sh_addr s) (p_vaddr g) <? p_memsz g))))).

(* #define ELF_SECTION_IN_SEGMENT_STRICT(sec_hdr, segment) ELF_SECTION_IN_SEGMENT_1 (sec_hdr, segment, 1, 1) *)
Definition section_in_segment_strict (s : shdr) (g : phdr) : bool := section_in_segment_1 s g true true.

(* readelf's "Section to Segment mapping" (process_program_headers): a section is listed
   under a segment iff  !ELF_TBSS_SPECIAL && ELF_SECTION_IN_SEGMENT_STRICT *)
Definition readelf_lists (s : shdr) (g : phdr) : bool :=
  negb (tbss_special s g) && section_in_segment_strict s g.

(* ---- the domain of the containment theorem ---- *)
Definition u64 (v : Z) : bool := (0 <=? v) && (v <? M64).
Definition headers_u64 (s : shdr) (g : phdr) : bool :=
  u64 (sh_type s) && u64 (sh_flags s) && u64 (sh_addr s) && u64 (sh_offset s) && u64 (sh_size s) &&
  u64 (p_type g) && u64 (p_offset g) && u64 (p_vaddr g) && u64 (p_filesz g) && u64 (p_memsz g).
(* a well-formed section's file and address extents do not wrap around 2^64 *)
Definition extents_no_wrap (s : shdr) : bool :=
  (sh_offset s + sh_size s <? M64) && (sh_addr s + sh_size s <? M64).
Definition sis_domain (s : shdr) (g : phdr) : bool :=
  headers_u64 s g && extents_no_wrap s && negb (tbss_special s g).

(* ---- executable reading of the contents clause, used by the correspondence driver.
        The zlib facts come with the input: [zs] is a complete zlib stream and [zp] its
        payload (None: no such fact, the case is outside the property).  Result:
        (compressed?, logical size, logical alignment, data), data = None when the property
        says the section is rejected; the whole result None when the property does not speak
        (extent outside the file, SHT_NOBITS flagged compressed, unknown ch_type, bytes after
        the header that are not the given stream). ---- *)
Definition decode_chdr (le is64 : bool) (bs : list Z) : option (Z * Z * Z * list Z) :=
  match decode_layout (spec_Elf_Chdr le is64) bs with
  | Some (r, rest) => Some (rec_z r "ch_type", rec_z r "ch_size", rec_z r "ch_addralign", rest)
  | None => None
  end.

Definition section_view (img : list Z) (le is64 : bool) (sht flags off size align : Z)
           (zs : list Z) (zp : option (list Z)) : option (bool * Z * Z * option (list Z)) :=
  if Z.land flags SHF_COMPRESSED =? 0 then
    if sht =? SHT_NOBITS then Some (false, size, align, Some (nobits_data size))
    else if extent_in_file img off size then Some (false, size, align, Some (extent img off size))
    else None
  else if sht =? SHT_NOBITS then None
  else if extent_in_file img off size then
    match decode_chdr le is64 (extent img off size) with
    | Some (ty, sz, al, rest) =>
        if (ty =? ELFCOMPRESS_ZLIB) && bytes_eqb rest zs then
          match zp with
          | Some p => Some (true, sz, al, if sz =? zlen p then Some p else None)
          | None => None
          end
        else None
    | None => None
    end
  else None.

(* ---- what the theorems need from an enum decoding table (value -> name, the dict construct's
        MappingAdapter consults; regenerated in Gen/ElfLayouts.v).  Boolean, so that they are
        decided by computation for every table the code can select. ---- *)
(* [name_code_ok T n c]: in decoding table T, exactly the value c is reported under name n *)
Definition name_code_ok (T : list (Z * string)) (n : string) (c : Z) : bool :=
  (match dict_get T c with Some m => String.eqb m n | None => false end)
  && forallb (fun kv => implb (String.eqb (snd kv) n) (fst kv =? c)) T.

(* no key of T lies in [lo, hi]: such values stay raw integers *)
Definition no_key_between (T : list (Z * string)) (lo hi : Z) : bool :=
  forallb (fun kv => negb ((lo <=? fst kv) && (fst kv <=? hi))) T.

(* the sh_type facts Section.data relies on, for a decoding table *)
Definition sh_type_table_ok (T : list (Z * string)) : bool := name_code_ok T "SHT_NOBITS" SHT_NOBITS.
(* the p_type facts address_offsets and section_in_segment rely on *)
Definition p_type_table_ok (T : list (Z * string)) : bool :=
  name_code_ok T "PT_LOAD" PT_LOAD && name_code_ok T "PT_DYNAMIC" PT_DYNAMIC &&
  name_code_ok T "PT_NOTE" PT_NOTE && name_code_ok T "PT_PHDR" PT_PHDR &&
  name_code_ok T "PT_TLS" PT_TLS && name_code_ok T "PT_GNU_EH_FRAME" PT_GNU_EH_FRAME &&
  name_code_ok T "PT_GNU_STACK" PT_GNU_STACK && name_code_ok T "PT_GNU_RELRO" PT_GNU_RELRO &&
  no_key_between T PT_GNU_SFRAME PT_GNU_MBIND_HI.

