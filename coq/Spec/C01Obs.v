(* Spec/C01Obs.v — the vocabulary in which C01 states what the library reports:
   parsed records (field -> integer | bytes | standard name), and what "a code
   with a standard name is reported by that name, every other code as the raw
   integer" means relative to a value->name dictionary.  Shared by the
   specification (Spec/C01Image.v) and the model (Model/C01ElfFile.v).  The
   dictionaries themselves are the ones the live code hands to construct's Enum
   (Gen/ElfLayouts.v gen_enum_tables; C17 ties them to the registries). *)
From Coq Require Import String.
From PV Require Import Base.Bytes Base.Fmt Base.Enum Base.PyData.
From PV Require Import Gen.ElfLayouts.
Open Scope string_scope.
Open Scope Z_scope.

(* ------------------------------------------------------------------ stream positions *)
(* the bytes from absolute position [off] on (seek + read to the end): the same list as
   [skipn (Z.to_nat off) l] (Proofs/C01Lemmas.v drop_skipn), computed on the binary number so that
   it costs O(min(off, |l|)) — no unary number is built for a position far beyond the end, and
   the length of the list is never computed *)
Fixpoint dropP {A} (p : positive) (l : list A) {struct p} : list A :=
  match l with
  | [] => []
  | _ :: t =>
      match p with
      | xH => t
      | xO q => dropP q (dropP q l)
      | xI q => match dropP q (dropP q l) with [] => [] | _ :: t' => t' end
      end
  end.
Definition drop (off : Z) (l : list Z) : list Z :=
  match off with Zpos p => dropP p l | _ => l end.

(* the length of the stream, counted in binary by a tail-recursive loop (= Bytes.zlen,
   Proofs/C01Lemmas.v zlenT_eq): streams of several MB are measured without a deep recursion *)
Fixpoint zlen_from {A} (acc : Z) (l : list A) : Z :=
  match l with [] => acc | _ :: t => zlen_from (acc + 1) t end.
Definition zlenT {A} (l : list A) : Z := zlen_from 0 l.

(* the bytes a record of layout L is decoded from: a statically sized record only needs its
   first sizeof(L) bytes (construct reads exactly those); a layout with arrays gets the rest of
   the stream.  (Keeps the cost of one read independent of the stream length.) *)
Definition window (L : layout) (bs : list Z) : list Z :=
  match layout_size L with Some n => firstn n bs | None => bs end.

(* decoding one record from the bytes at a position.  A statically sized record is decoded from
   its window.  A layout with arrays (the hash tables) first has its leading static fields decoded
   — they hold the array counts — and is rejected at once when a count exceeds the number of bytes
   left (each element takes at least one byte, so construct would run off the end of the stream:
   same verdict), before the arrays are decoded; no file-controlled count is ever turned into a
   unary number larger than the stream *)
Fixpoint static_prefix (L : layout) : layout :=
  match L with
  | [] => []
  | (_, KArr _ _ _) :: _ => []
  | f :: t => f :: static_prefix t
  end.
Fixpoint arr_counts (L : layout) : list cexpr :=
  match L with
  | [] => []
  | (_, KArr c _ _) :: t => c :: arr_counts t
  | _ :: t => arr_counts t
  end.
Definition decode_rec (L : layout) (bs : list Z) : option (list (string * fval) * list Z) :=
  match layout_size L with
  | Some n => decode_layout L (firstn n bs)
  | None =>
      let H := static_prefix L in
      match decode_layout H (window H bs) with
      | Some (h, _) =>
          if forallb (fun c => eval (rev h) c <=? zlenT bs) (arr_counts L) then decode_layout L bs else None
      | None => None
      end
  end.

(* the SysV hash table of the 64-bit Alpha and s390x psABIs has 64-bit entries (everywhere else
   32-bit words: Spec/ElfGabi.v spec_Elf_Hash); structs.py _create_elf_hash.  Gen/ElfLayouts.v
   carries the common layout only, so this one is written here, for the specification and the
   model alike *)
Definition wide_hash_machines : list string := ["EM_ALPHA"; "EM_S390"].
Definition Elf_Hash_wide (le : bool) : layout :=
  [ ("nbuckets", KU le 8); ("nchains", KU le 8);
    ("buckets", KArr (CField "nbuckets") le 8); ("chains", KArr (CField "nchains") le 8) ].

(* ------------------------------------------------------------------ containers *)
(* a field of a parsed construct Container: int, bytes (Array of bytes / padding),
   list of ints, or the name an Enum adapter substituted *)
Inductive hval :=
| HZ (z : Z)
| HB (bs : list Z)
| HL (zs : list Z)
| HName (s : string).
Definition hrec := list (string * hval).

Fixpoint hget (r : hrec) (f : string) : option hval :=
  match r with
  | [] => None
  | (k, v) :: t => if (k =? f)%string then Some v else hget t f
  end.
(* header['field'] for an integer field *)
Definition hz (r : hrec) (f : string) : Z :=
  match hget r f with Some (HZ z) => z | _ => 0 end.
(* header['field'] for an Enum field: the name, or the raw integer *)
Definition hty (r : hrec) (f : string) : hval :=
  match hget r f with Some v => v | None => HZ 0 end.

Definition hval_eqb (a b : hval) : bool :=
  match a, b with
  | HZ x, HZ y => x =? y
  | HName x, HName y => (x =? y)%string
  | HB x, HB y => bytes_eqb x y
  | HL x, HL y => bytes_eqb x y
  | _, _ => false
  end.
(* sectype == 'SHT_X' *)
Definition is_name (v : hval) (n : string) : bool :=
  match v with HName s => (s =? n)%string | _ => false end.

(* ------------------------------------------------------------------ Enum bindings and dictionaries *)
Definition binds := list (string * string * bool).    (* field, dictionary id, strict *)

Fixpoint bind_of (b : binds) (f : string) : option (string * bool) :=
  match b with
  | [] => None
  | (k, id, strict) :: t => if (k =? f)%string then Some (id, strict) else bind_of t f
  end.

Fixpoint assoc_str {A} (l : list (string * A)) (k : string) : option A :=
  match l with
  | [] => None
  | (k', v) :: t => if (k' =? k)%string then Some v else assoc_str t k
  end.

(* the decoding dict (value -> name) with that id *)
Definition table_of_id (id : string) : list (Z * string) :=
  match assoc_str gen_enum_tables id with Some t => t | None => [] end.

(* "standard name, else the raw integer" *)
Definition named (tbl : list (Z * string)) (z : Z) : hval :=
  match Enum.dict_get tbl z with Some n => HName n | None => HZ z end.

(* the dictionary a record field is bound to *)
Definition field_table (b : binds) (f : string) : list (Z * string) :=
  match bind_of b f with Some (id, _) => table_of_id id | None => [] end.

(* the machine -> dictionary maps are keyed by the decoded e_machine: its name, or
   "<raw>" for every number without a name *)
Definition machine_key (m : hval) : string :=
  match m with HName s => s | _ => "<raw>" end.

Definition hash_is_wide (is64 : bool) (machine : hval) : bool :=
  is64 && existsb (String.eqb (machine_key machine)) wide_hash_machines.

Definition table_id_for (tbl : list (string * string)) (key : string) : string :=
  match assoc_str tbl key with
  | Some id => id
  | None => match assoc_str tbl "<raw>" with Some id => id | None => "" end
  end.
