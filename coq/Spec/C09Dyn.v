(* Spec/C09Dyn.v — what dynamic linking information MEANS (System V gABI chapter 5
   "Dynamic Section", "Hash Table", "Program Header"; the GNU hash table format
   of glibc/binutils; Oracle Linker and Libraries Guide for the Solaris tags).
   Written from the standards, with numeric constants, not from the code.

     * the dynamic array is the sequence of Elf_Dyn entries up to and including
       the first DT_NULL; what follows the terminator is not part of it;
     * a string-valued tag denotes the NUL-terminated string at index d_val of
       the dynamic string table;
     * a dynamic pointer is a virtual address; its file offset is found through
       the PT_LOAD segment whose file image contains the table;
     * SysV hash: nchain = number of symbol table entries; GNU hash: symbols
       symoffset.. are partitioned into chains, each chain ended by a word with
       bit 0 set; every chain starts at a bucket value;
     * [consistent_b img]: every dynamic pointer lies in a PT_LOAD whose file
       image contains the table and the section headers describe the same bytes.
   No proofs here: see Proofs/C09*.v. *)
From Coq Require Export String.
From PV Require Export Base.Bytes Base.Fmt Spec.ElfGabi.
Open Scope Z_scope.

(* ---------- gABI constants ---------- *)
Definition DT_NULL := 0.      Definition DT_NEEDED := 1.    Definition DT_PLTRELSZ := 2.
Definition DT_HASH := 4.      Definition DT_STRTAB := 5.    Definition DT_SYMTAB := 6.
Definition DT_RELA := 7.      Definition DT_RELASZ := 8.    Definition DT_RELAENT := 9.
Definition DT_SYMENT := 11.   Definition DT_SONAME := 14.   Definition DT_RPATH := 15.
Definition DT_REL := 17.      Definition DT_RELSZ := 18.    Definition DT_RELENT := 19.
Definition DT_PLTREL := 20.   Definition DT_JMPREL := 23.   Definition DT_RUNPATH := 29.
Definition DT_RELRSZ := 35.   Definition DT_RELR := 36.     Definition DT_RELRENT := 37.
Definition DT_GNU_HASH := 0x6ffffef5.
Definition DT_SUNW_FILTER := 0x6000000f.       (* ELFOSABI_SOLARIS only *)
Definition PT_LOAD := 1.      Definition PT_DYNAMIC := 2.
Definition SHT_STRTAB := 3.   Definition SHT_DYNAMIC := 6.  Definition SHT_NOBITS := 8.
Definition SHT_DYNSYM := 11.

(* the names the library interprets, with their standard values *)
Definition spec_dt_names : list (Z * string) :=
  [ (DT_NULL, "DT_NULL"); (DT_NEEDED, "DT_NEEDED"); (DT_PLTRELSZ, "DT_PLTRELSZ"); (DT_HASH, "DT_HASH");
    (DT_STRTAB, "DT_STRTAB"); (DT_SYMTAB, "DT_SYMTAB"); (DT_RELA, "DT_RELA"); (DT_RELASZ, "DT_RELASZ");
    (DT_RELAENT, "DT_RELAENT"); (DT_SYMENT, "DT_SYMENT"); (DT_SONAME, "DT_SONAME"); (DT_RPATH, "DT_RPATH");
    (DT_REL, "DT_REL"); (DT_RELSZ, "DT_RELSZ"); (DT_RELENT, "DT_RELENT"); (DT_PLTREL, "DT_PLTREL");
    (DT_JMPREL, "DT_JMPREL"); (DT_RUNPATH, "DT_RUNPATH"); (DT_RELRSZ, "DT_RELRSZ"); (DT_RELR, "DT_RELR");
    (DT_RELRENT, "DT_RELRENT"); (DT_GNU_HASH, "DT_GNU_HASH") ]%string.
Definition spec_pt_names : list (Z * string) := [ (PT_LOAD, "PT_LOAD"); (PT_DYNAMIC, "PT_DYNAMIC") ]%string.
Definition spec_sht_names : list (Z * string) :=
  [ (SHT_STRTAB, "SHT_STRTAB"); (SHT_DYNAMIC, "SHT_DYNAMIC"); (SHT_NOBITS, "SHT_NOBITS");
    (SHT_DYNSYM, "SHT_DYNSYM") ]%string.

(* processor-specific tags (DT_LOPROC..DT_HIPROC) belong to the machine, the OS-specific
   range (DT_LOOS..DT_HIOS) to the OS ABI.  The library knows the MIPS, AArch64 and
   Solaris sets; no platform combines two of them, a machine set takes precedence. *)
Inductive dtab_kind := KCommon | KMips | KAarch64 | KSolaris.
Definition spec_dtab_kind (machine osabi : Z) : dtab_kind :=
  if (machine =? 8) || (machine =? 10) then KMips        (* EM_MIPS, EM_MIPS_RS3_LE *)
  else if machine =? 183 then KAarch64                   (* EM_AARCH64 *)
  else if osabi =? 6 then KSolaris                       (* ELFOSABI_SOLARIS *)
  else KCommon.
Definition spec_is_solaris (machine osabi : Z) : bool :=
  match spec_dtab_kind machine osabi with KSolaris => true | _ => false end.

(* the tags whose value is an index into the dynamic string table *)
Definition string_tag (solaris : bool) (tag : Z) : bool :=
  (tag =? DT_NEEDED) || (tag =? DT_SONAME) || (tag =? DT_RPATH) || (tag =? DT_RUNPATH) ||
  (solaris && (tag =? DT_SUNW_FILTER)).

(* ---------- decoded headers (only the members this property speaks about) ---------- *)
Record ehdr := mkEhdr { e_osabi : Z; e_machine : Z; e_phoff : Z; e_shoff : Z; e_phentsize : Z;
                        e_phnum : Z; e_shentsize : Z; e_shnum : Z; e_shstrndx : Z }.
Record phdr := mkPhdr { p_type : Z; p_offset : Z; p_vaddr : Z; p_filesz : Z }.
Record shdr := mkShdr { sh_name : Z; sh_type : Z; sh_offset : Z; sh_size : Z;
                        sh_link : Z; sh_entsize : Z }.

Definition ehdr_of (r : list (string * fval)) : ehdr :=
  mkEhdr (rec_z r "e_ident.EI_OSABI") (rec_z r "e_machine") (rec_z r "e_phoff") (rec_z r "e_shoff")
         (rec_z r "e_phentsize") (rec_z r "e_phnum") (rec_z r "e_shentsize") (rec_z r "e_shnum")
         (rec_z r "e_shstrndx").
Definition phdr_of (r : list (string * fval)) : phdr :=
  mkPhdr (rec_z r "p_type") (rec_z r "p_offset") (rec_z r "p_vaddr") (rec_z r "p_filesz").
Definition shdr_of (r : list (string * fval)) : shdr :=
  mkShdr (rec_z r "sh_name") (rec_z r "sh_type") (rec_z r "sh_offset")
         (rec_z r "sh_size") (rec_z r "sh_link") (rec_z r "sh_entsize").

Definition dent := (Z * Z)%type.          (* (d_tag, d_val); d_ptr is the same member of the union *)

(* the bytes from file offset pos on (nothing beyond the end); the i-th element; both total on Z *)
Fixpoint seekz {A} (l : list A) (pos : Z) : list A :=
  match l with
  | [] => []
  | _ :: r => if pos <=? 0 then l else seekz r (pos - 1)
  end.
Definition nthz {A} (l : list A) (i : Z) : option A :=
  if i <? 0 then None else hd_error (seekz l i).
(* a record count, cut at one more than the bytes available *)
Definition clampn (img : list Z) (n : Z) : nat := Z.to_nat (Z.min n (zlen img + 1)).

(* decode_layout for the two hash headers: the array counts are the 32-bit words number
   [counts]; an array longer than the bytes at hand cannot be there (this is the same
   partial function as decode_layout, evaluated without building an astronomic count) *)
Definition word_at (le : bool) (bs : list Z) (i : nat) : Z := int_decode le (firstn 4 (skipn (4 * i) bs)).
Definition decode_counted (L : layout) (le : bool) (counts : list nat) (bs : list Z) :=
  if forallb (fun i => word_at le bs i <=? zlen bs) counts then decode_layout L bs else None.
(* the same with words of wb bytes *)
Definition word_at_w (wb : nat) (le : bool) (bs : list Z) (i : nat) : Z :=
  int_decode le (firstn wb (skipn (wb * i) bs)).
Definition decode_counted_w (wb : nat) (L : layout) (le : bool) (counts : list nat) (bs : list Z) :=
  if forallb (fun i => word_at_w wb le bs i <=? zlen bs) counts then decode_layout L bs else None.

(* SysV hash table entries are 32-bit words (gABI), except in the 64-bit Alpha and s390x psABIs,
   which define them as 64-bit (binutils: hash entry size 8 for ELFCLASS64 EM_ALPHA / EM_S390) *)
Definition EM_S390 := 22.     Definition EM_ALPHA := 41.
Definition spec_hash_wide (machine : Z) (is64 : bool) : bool :=
  is64 && ((machine =? EM_ALPHA) || (machine =? EM_S390)).
Definition spec_Elf_Hash_w (le wide : bool) : layout :=
  if wide then [ ("nbuckets", KU le 8); ("nchains", KU le 8);
                 ("buckets", KArr (CField "nbuckets") le 8); ("chains", KArr (CField "nchains") le 8) ]%string
  else spec_Elf_Hash le.
Definition hash_wb (wide : bool) : nat := if wide then 8%nat else 4%nat.

(* n records of layout L at off, off+stride, ... *)
Fixpoint read_recs (L : layout) (img : list Z) (off stride : Z) (n : nat)
  : option (list (list (string * fval))) :=
  match n with
  | O => Some []
  | S k =>
      match decode_layout L (seekz img off) with
      | None => None
      | Some (r, _) =>
          match read_recs L img (off + stride) stride k with
          | Some rs => Some (r :: rs)
          | None => None
          end
      end
  end.

Definition ehdr_size (is64 : bool) : Z := if is64 then 64 else 52.
Definition phdr_size (is64 : bool) : Z := if is64 then 56 else 32.
Definition shdr_size (is64 : bool) : Z := if is64 then 64 else 40.
Definition dyn_size (is64 : bool) : Z := if is64 then 16 else 8.
Definition sym_size (is64 : bool) : Z := if is64 then 24 else 16.

(* e_ident: magic, EI_CLASS, EI_DATA select the configuration; then the header *)
Definition spec_open (img : list Z) : option (bool * bool * ehdr) :=
  match img with
  | m0 :: m1 :: m2 :: m3 :: c :: d :: _ =>
      if (m0 =? 127) && (m1 =? 69) && (m2 =? 76) && (m3 =? 70) &&
         ((c =? 1) || (c =? 2)) && ((d =? 1) || (d =? 2)) then
        let is64 := c =? 2 in let le := d =? 1 in
        match decode_layout (spec_Elf_Ehdr le is64) img with
        | Some (r, _) => Some (le, is64, ehdr_of r)
        | None => None
        end
      else None
  | _ => None
  end.

Section cfg.
Variable le : bool.
Variable is64 : bool.

Definition wbytes : nat := if is64 then 8%nat else 4%nat.

(* ---------- the dynamic array ---------- *)
Definition dyn_vals (e : dent) : list fval := [VZ (fst e); VZ (snd e)].
Definition dyn_fits (e : dent) : bool := fits_layout (spec_Elf_Dyn le is64) (dyn_vals e).
Definition encode_dyn (e : dent) : list Z := encode_layout (spec_Elf_Dyn le is64) (dyn_vals e).
Definition encode_dyns (es : list dent) : list Z := List.concat (map encode_dyn es).

(* the entries up to and including the first DT_NULL; None when there is no terminator *)
Fixpoint cut_at_null (es : list dent) : option (list dent) :=
  match es with
  | [] => None
  | e :: r =>
      if fst e =? DT_NULL then Some [e]
      else match cut_at_null r with Some l => Some (e :: l) | None => None end
  end.

(* reading the array from raw bytes: d_tag is a signed (s)xword, d_val an unsigned one *)
Fixpoint dyn_read (fuel : nat) (bs : list Z) : option (list dent) :=
  match fuel with
  | O => None
  | S k =>
      match take wbytes bs with
      | None => None
      | Some (t, r1) =>
          match take wbytes r1 with
          | None => None
          | Some (v, r2) =>
              let e := (sint_decode le t, int_decode le v) in
              if fst e =? DT_NULL then Some [e]
              else match dyn_read k r2 with Some l => Some (e :: l) | None => None end
          end
      end
  end.
Definition dyn_table (bs : list Z) : option (list dent) := dyn_read (S (length bs)) bs.

(* value of the first entry carrying a tag *)
Fixpoint first_val (tag : Z) (es : list dent) : option Z :=
  match es with
  | [] => None
  | e :: r => if fst e =? tag then Some (snd e) else first_val tag r
  end.

(* ---------- the dynamic string table ---------- *)
Fixpoint upto_nul (bs : list Z) : option (list Z) :=
  match bs with
  | [] => None
  | b :: r => if b =? 0 then Some []
              else match upto_nul r with Some s => Some (b :: s) | None => None end
  end.
(* the string at index i of the table: defined when i is inside the table and a
   terminator follows inside the table *)
Definition str_at (tab : list Z) (i : Z) : option (list Z) :=
  if (0 <=? i) && (i <? zlen tab) then upto_nul (skipn (Z.to_nat i) tab) else None.

(* what a library must report for one entry: the entry and, for string-valued tags, the string *)
Definition spec_entry (solaris : bool) (tab : list Z) (e : dent) : dent * option (option (list Z)) :=
  (e, if string_tag solaris (fst e) then Some (str_at tab (snd e)) else None).

(* ---------- virtual address -> file offset ---------- *)
Definition in_load (p : phdr) (addr len : Z) : bool :=
  (p_type p =? PT_LOAD) && (p_vaddr p <=? addr) && (addr + len <=? p_vaddr p + p_filesz p).
Definition load_off (p : phdr) (addr : Z) : Z := addr - p_vaddr p + p_offset p.
(* defined when a PT_LOAD file image contains [addr, addr+len) and all the PT_LOAD
   images containing the first byte place it at the same file offset *)
Definition addr_to_off (ps : list phdr) (addr len : Z) : option Z :=
  match filter (fun p => in_load p addr 1) ps with
  | [] => None
  | p :: r =>
      if existsb (fun q => in_load q addr len) (p :: r) &&
         forallb (fun q => load_off q addr =? load_off p addr) r
      then Some (load_off p addr) else None
  end.

(* ---------- hash tables ---------- *)
(* SysV: "the number of symbol table entries should equal nchain" *)
Definition sysv_valid (wide : bool) (bs : list Z) (N : Z) : bool :=
  match decode_counted_w (hash_wb wide) (spec_Elf_Hash_w le wide) le [0; 1]%nat bs with
  | Some (r, _) => rec_z r "nchains" =? N
  | None => false
  end.

(* GNU: header, bloom words, buckets, then one 32-bit word per symbol symoffset..N-1.
   A bucket below symoffset is empty; otherwise it is the index of the first symbol
   of its chain; bit 0 of a chain word marks the last symbol of a chain.  The chains
   partition [symoffset, N). *)
Definition gnu_valid (bs : list Z) (N : Z) : bool :=
  match decode_counted (spec_Gnu_Hash le is64) le [0; 2]%nat bs with
  | None => false
  | Some (r, rest) =>
      let so := rec_z r "symoffset" in
      match rec_get r "buckets" with
      | Some (VL bk) =>
          match decode_arr le 4 (Z.to_nat (N - so)) rest with
          | None => false
          | Some (ch, _) =>
              let starts := filter (fun b => so <=? b) bk in
              let chw := fun i => nth (Z.to_nat i) ch 0 in
              (1 <=? so) && (so <=? N) && negb (length bk =? 0)%nat &&
              forallb (fun b => b <? N) starts &&
              (* a chain starts at symoffset or right after the end of another chain *)
              forallb (fun b => (b =? so) || Z.odd (chw (b - so - 1))) starts &&
              (* symbols exist beyond symoffset only inside chains; the last one ends its chain *)
              ((N =? so) || (negb (length starts =? 0)%nat && Z.odd (chw (N - so - 1)))) &&
              (* every end of chain except the last is followed by the start of a chain *)
              forallb (fun i => negb (Z.odd (chw i)) || existsb (fun b => b =? so + i + 1) starts)
                      (map Z.of_nat (seq 0 (Z.to_nat (N - so - 1))))
          end
      | _ => false
      end
  end.

(* ---------- symbols and relocation entries as the tables hold them ---------- *)
Definition read_syms (img : list Z) (off stride : Z) (n : Z) :=
  read_recs (spec_Elf_Sym le is64) img off stride (Z.to_nat n).

End cfg.

(* ---------- consistent images ---------- *)
Definition first_where {A} (f : A -> bool) (l : list A) : option A :=
  match filter f l with x :: _ => Some x | [] => None end.

Definition dents_eqb (a b : list dent) : bool :=
  (length a =? length b)%nat &&
  forallb (fun p => (fst (fst p) =? fst (snd p)) && (snd (fst p) =? snd (snd p))) (combine a b).

(* a pointer-valued tag (when present) is non-null and maps, with its whole table (of
   non-negative size), to a file offset behind the ELF header and inside the file *)
Definition ptr_ok (is64 : bool) (img : list Z) (ps : list phdr) (ptr len : Z) : option Z :=
  match addr_to_off ps ptr len with
  | Some off => if negb (ptr =? 0) && (0 <=? len) && (ehdr_size is64 <=? off) && (off + len <=? zlen img)
                then Some off else None
  | None => None
  end.

(* a relocation table named by the array: its size tag is present, its entry-size tag
   (for DT_JMPREL: DT_PLTREL) is present and holds [ent], and the table is mapped *)
Definition reloc_ok (is64 : bool) (img : list Z) (ps : list phdr) (es : list dent)
           (tptr tsz tent : Z) (ent : list Z) : bool :=
  match first_val tptr es with
  | None => true
  | Some ptr =>
      match first_val tsz es, first_val tent es with
      | Some sz, Some en =>
          existsb (Z.eqb en) ent &&
          match ptr_ok is64 img ps ptr sz with Some _ => true | None => false end
      | _, _ => false
      end
  end.

(* the data common to both views, read through the section headers *)
Record dyninfo := mkDyninfo {
  di_le : bool; di_is64 : bool; di_eh : ehdr;
  di_phdrs : list phdr; di_shdrs : list shdr;
  di_seg : phdr;            (* the PT_DYNAMIC segment *)
  di_sec : shdr;            (* the SHT_DYNAMIC section *)
  di_str : shdr;            (* its sh_link: the dynamic string table *)
  di_entries : list dent    (* the dynamic array up to and including DT_NULL *)
}.

Definition describe (img : list Z) : option dyninfo :=
  match spec_open img with
  | None => None
  | Some (le, is64, h) =>
      if (ehdr_size is64 <=? e_phoff h) && (phdr_size is64 <=? e_phentsize h) && (e_phnum h <? 0xffff) &&
         (ehdr_size is64 <=? e_shoff h) && (shdr_size is64 <=? e_shentsize h) && (0 <? e_shnum h)
      then
        match read_recs (spec_Elf_Phdr le is64) img (e_phoff h) (e_phentsize h) (Z.to_nat (e_phnum h)),
              read_recs (spec_Elf_Shdr le is64) img (e_shoff h) (e_shentsize h) (Z.to_nat (e_shnum h)) with
        | Some prs, Some srs =>
            let ps := map phdr_of prs in let ss := map shdr_of srs in
            match first_where (fun p => p_type p =? PT_DYNAMIC) ps,
                  filter (fun s => sh_type s =? SHT_DYNAMIC) ss with
            | Some seg, [sec] =>
                match nthz ss (sh_link sec),
                      dyn_table le is64 (seekz img (p_offset seg)) with
                | Some st, Some es => Some (mkDyninfo le is64 h ps ss seg sec st es)
                | _, _ => None
                end
            | _, _ => None
            end
        | _, _ => None
        end
      else None
  end.

Definition strtab_bytes (d : dyninfo) (img : list Z) : list Z :=
  firstn (Z.to_nat (sh_size (di_str d))) (seekz img (sh_offset (di_str d))).

(* every dynamic pointer lies in a PT_LOAD whose file image contains the table, and the
   section headers describe the same bytes (tags, strings, relocation tables) *)
Definition consistent_b (img : list Z) : bool :=
  match describe img with
  | None => false
  | Some d =>
      let is64 := di_is64 d in let ps := di_phdrs d in let es := di_entries d in
      (0 <? p_filesz (di_seg d)) && (ehdr_size is64 <=? p_offset (di_seg d)) &&
      (ehdr_size is64 <=? sh_offset (di_sec d)) &&
      (* the terminator lies inside the segment and inside the section *)
      (zlen es * dyn_size is64 <=? p_filesz (di_seg d)) && (zlen es * dyn_size is64 <=? sh_size (di_sec d)) &&
      (* the section holds the same array as the segment (same offset, or a copy elsewhere) *)
      match dyn_table (di_le d) is64 (seekz img (sh_offset (di_sec d))) with
      | Some es2 => dents_eqb es es2
      | None => false
      end &&
      (* the section link and DT_STRTAB designate the same table *)
      (sh_type (di_str d) =? SHT_STRTAB) &&
      match first_val DT_STRTAB es with
      | Some sp => match ptr_ok is64 img ps sp (sh_size (di_str d)) with
                   | Some off => off =? sh_offset (di_str d)
                   | None => false
                   end
      | None => false
      end &&
      (* every string-valued entry indexes a terminated string inside the table *)
      forallb (fun e => negb (string_tag (spec_is_solaris (e_machine (di_eh d)) (e_osabi (di_eh d))) (fst e)) ||
                        match str_at (strtab_bytes d img) (snd e) with Some _ => true | None => false end) es &&
      (* the other interpreted pointers, when present, lie in a PT_LOAD file image *)
      forallb (fun tag => match first_val tag es with
                          | Some ptr => match ptr_ok is64 img ps ptr 1 with Some _ => true | None => false end
                          | None => true
                          end) [DT_SYMTAB; DT_HASH; DT_GNU_HASH] &&
      reloc_ok is64 img ps es DT_REL DT_RELSZ DT_RELENT [if is64 then 16 else 8] &&
      reloc_ok is64 img ps es DT_RELA DT_RELASZ DT_RELAENT [if is64 then 24 else 12] &&
      reloc_ok is64 img ps es DT_RELR DT_RELRSZ DT_RELRENT [if is64 then 8 else 4] &&
      reloc_ok is64 img ps es DT_JMPREL DT_PLTRELSZ DT_PLTREL [DT_REL; DT_RELA]
  end.

(* the symbol part: a SHT_DYNSYM section with standard entry size whose sh_link is the same
   string table, DT_SYMTAB maps to it, and a GNU or SysV hash table valid for its entry count *)
Definition dynsym_of (d : dyninfo) : option shdr :=
  first_where (fun s => sh_type s =? SHT_DYNSYM) (di_shdrs d).

Definition hash_ok (d : dyninfo) (img : list Z) (N : Z) : bool :=
  let is64 := di_is64 d in let ps := di_phdrs d in let es := di_entries d in
  match first_val DT_GNU_HASH es with
  | Some gp =>
      match ptr_ok is64 img ps gp 16 with
      | Some off => gnu_valid (di_le d) is64 (seekz img off) N
      | None => false
      end
  | None =>
      match first_val DT_HASH es with
      | Some hp =>
          match ptr_ok is64 img ps hp 8 with
          | Some off => sysv_valid (di_le d) (spec_hash_wide (e_machine (di_eh d)) is64) (seekz img off) N
          | None => false
          end
      | None => false
      end
  end.

Definition sym_consistent_b (img : list Z) : bool :=
  consistent_b img &&
  match describe img with
  | None => false
  | Some d =>
      let is64 := di_is64 d in
      match dynsym_of d with
      | None => false
      | Some ds =>
          let N := sh_size ds / sym_size is64 in
          (sh_entsize ds =? sym_size is64) && (sh_size ds mod sym_size is64 =? 0) &&
          match nthz (di_shdrs d) (sh_link ds) with
          | Some st => (sh_type st =? SHT_STRTAB) && (sh_offset st =? sh_offset (di_str d))
          | None => false
          end &&
          match first_val DT_SYMTAB (di_entries d) with
          | Some tp => match ptr_ok is64 img (di_phdrs d) tp (sh_size ds) with
                       | Some off => off =? sh_offset ds
                       | None => false
                       end
          | None => false
          end &&
          (* every symbol name indexes a terminated string inside the table *)
          match read_syms (di_le d) is64 img (sh_offset ds) (sym_size is64) N with
          | Some rs => forallb (fun r => match str_at (strtab_bytes d img) (rec_z r "st_name") with
                                         | Some _ => true | None => false end) rs
          | None => false
          end &&
          hash_ok d img N
      end
  end.

(* img' is img with its section header table removed: e_shoff = e_shnum = e_shstrndx = 0,
   every other header member and every byte behind the ELF header unchanged *)
Definition stripped_of_b (img img' : list Z) : bool :=
  match spec_open img, spec_open img' with
  | Some (le, is64, h), Some (le', is64', h') =>
      Bool.eqb le le' && Bool.eqb is64 is64' &&
      (e_osabi h =? e_osabi h') && (e_machine h =? e_machine h') && (e_phoff h =? e_phoff h') &&
      (e_phentsize h =? e_phentsize h') && (e_phnum h =? e_phnum h') &&
      (e_shoff h' =? 0) && (e_shnum h' =? 0) && (e_shstrndx h' =? 0) &&
      (length img =? length img')%nat &&
      forallb (fun p => fst p =? snd p)
              (combine (skipn (Z.to_nat (ehdr_size is64)) img) (skipn (Z.to_nat (ehdr_size is64)) img'))
  | _, _ => false
  end.

(* ---------- the segment view alone ----------
   What PT_DYNAMIC and the PT_LOAD map say, whatever the section headers (if any) say about
   OTHER places of the file: no SHT_DYNAMIC section lies at the segment's offset (there may
   be none at all, the section header table may be absent, or a .dynamic section elsewhere
   may hold another array linked to another string table).  The string table of the
   segment's array is then the one its own DT_STRTAB / DT_STRSZ designate. *)
Definition DT_STRSZ := 10.

Record seginfo := mkSeginfo {
  si_le : bool; si_is64 : bool; si_eh : ehdr;
  si_phdrs : list phdr; si_shdrs : list shdr;
  si_seg : phdr; si_entries : list dent;
  si_stroff : Z; si_strsz : Z
}.

Definition read_shdrs (le is64 : bool) (h : ehdr) (img : list Z) : option (list shdr) :=
  if e_shoff h =? 0 then Some []
  else if (ehdr_size is64 <=? e_shoff h) && (shdr_size is64 <=? e_shentsize h) && (0 <? e_shnum h) then
    match read_recs (spec_Elf_Shdr le is64) img (e_shoff h) (e_shentsize h) (Z.to_nat (e_shnum h)) with
    | Some srs => Some (map shdr_of srs)
    | None => None
    end
  else None.

Definition describe_seg (img : list Z) : option seginfo :=
  match spec_open img with
  | None => None
  | Some (le, is64, h) =>
      if (ehdr_size is64 <=? e_phoff h) && (phdr_size is64 <=? e_phentsize h) && (e_phnum h <? 0xffff) then
        match read_recs (spec_Elf_Phdr le is64) img (e_phoff h) (e_phentsize h) (Z.to_nat (e_phnum h)),
              read_shdrs le is64 h img with
        | Some prs, Some ss =>
            let ps := map phdr_of prs in
            match first_where (fun p => p_type p =? PT_DYNAMIC) ps with
            | Some seg =>
                match dyn_table le is64 (seekz img (p_offset seg)) with
                | Some es =>
                    match first_val DT_STRTAB es, first_val DT_STRSZ es with
                    | Some sp, Some sz =>
                        match ptr_ok is64 img ps sp sz with
                        | Some off => Some (mkSeginfo le is64 h ps ss seg es off sz)
                        | None => None
                        end
                    | _, _ => None
                    end
                | None => None
                end
            | None => None
            end
        | _, _ => None
        end
      else None
  end.

Definition seg_strtab (s : seginfo) (img : list Z) : list Z :=
  firstn (Z.to_nat (si_strsz s)) (seekz img (si_stroff s)).

(* a SHT_DYNAMIC section elsewhere: well formed by itself (its link is a string table) and not at
   the offset of any PT_DYNAMIC segment *)
Definition foreign_dynsec_ok (ps : list phdr) (ss : list shdr) (s : shdr) : bool :=
  negb (sh_type s =? SHT_DYNAMIC) ||
  (match nthz ss (sh_link s) with
   | Some st => (sh_type st =? SHT_STRTAB) || (sh_type st =? SHT_NOBITS)
   | None => false
   end &&
   forallb (fun p => negb (p_type p =? PT_DYNAMIC) || negb (sh_offset s =? p_offset p)) ps).

Definition seg_consistent_b (img : list Z) : bool :=
  match describe_seg img with
  | None => false
  | Some s =>
      (0 <? p_filesz (si_seg s)) && (ehdr_size (si_is64 s) <=? p_offset (si_seg s)) &&
      forallb (foreign_dynsec_ok (si_phdrs s) (si_shdrs s)) (si_shdrs s) &&
      forallb (fun e => negb (string_tag (spec_is_solaris (e_machine (si_eh s)) (e_osabi (si_eh s))) (fst e)) ||
                        match str_at (seg_strtab s img) (snd e) with Some _ => true | None => false end)
              (si_entries s)
  end.

(* ---------- one object under a history of calls: the reference ----------
   The dynamic array is a fixed list; a tag walk is a cursor into it, every other question
   is a function of the list.  Nothing a caller does in between changes any answer. *)
From PV Require Import Base.Outcome.
Inductive hop := HStart (ty : option string) | HNext (i : nat) | HNumTags | HGetTag (n : Z).
Inductive hans (A : Type) :=
| AStarted | ATag (t : A) | AStop | ANum (n : Z) | AErr (e : err) | ANoWalk.
Arguments AStarted {A}. Arguments ATag {A} t. Arguments AStop {A}. Arguments ANum {A} n.
Arguments AErr {A} e. Arguments ANoWalk {A}.

Fixpoint set_nth {A} (l : list A) (i : nat) (x : A) : list A :=
  match l, i with
  | [], _ => []
  | _ :: r, O => x :: r
  | y :: r, S k => y :: set_nth r k x
  end.

Section ref.
Variable A : Type.
Variable tmatch : option string -> A -> bool.      (* tag['d_tag'] == type, or no filter *)
Variable ts : list A.                              (* the entries up to and including DT_NULL *)

Fixpoint first_match (ty : option string) (l : list A) : option (A * list A) :=
  match l with
  | [] => None
  | x :: r => if tmatch ty x then Some (x, r) else first_match ty r
  end.

Definition rstep (ws : list (option string * list A)) (op : hop) : list (option string * list A) * hans A :=
  match op with
  | HStart ty => (ws ++ [(ty, ts)], AStarted)
  | HNext i =>
      match nth_error ws i with
      | None => (ws, ANoWalk)
      | Some (ty, rest) =>
          match first_match ty rest with
          | Some (x, r) => (set_nth ws i (ty, r), ATag x)
          | None => (set_nth ws i (ty, []), AStop)
          end
      end
  | HNumTags => (ws, ANum (zlen ts))
  | HGetTag n =>
      (ws, match nthz ts n with Some t => ATag t | None => AErr (EPy "IndexError") end)
  end.
Fixpoint rrun (ws : list (option string * list A)) (ops : list hop) : list (hans A) :=
  match ops with
  | [] => []
  | op :: r => let (ws', a) := rstep ws op in a :: rrun ws' r
  end.
End ref.
