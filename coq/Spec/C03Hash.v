(* Spec/C03Hash.v — the two symbol hash sections.

   SysV (gABI chapter 5, "Hash Table"): words nbucket, nchain, bucket[nbucket],
   chain[nchain]; nchain equals the number of symbol table entries; symbol i is
   found by following bucket[hash(name) % nbucket], chain[..], ... up to STN_UNDEF (0).
   The hash function is the gABI's elf_hash on unsigned 32-bit words:
       h = (h << 4) + c;  if (g = h & 0xf0000000) h ^= g >> 24;  h &= ~g;

   GNU (binutils/glibc DT_GNU_HASH): words nbuckets, symoffset, bloom_size,
   bloom_shift, then bloom_size words of the class's native size, nbuckets
   32-bit buckets and one 32-bit chain word per symbol from symoffset on.
   Symbols from symoffset are grouped by hash % nbuckets; bucket[b] is the first
   index of group b (or an index below symoffset when the group is empty);
   the chain word of a symbol is its hash with bit 0 replaced by "last of its
   group"; for every hashed symbol the bits (h % C) and ((h >> shift) % C) of
   bloom word (h / C) % bloom_size are set (C = 32 or 64).
   The hash function is   h = 5381;  h = h * 33 + c   on unsigned 32-bit words.

   The tables are specified by boolean well-formedness predicates over an
   arbitrary table and the list of symbol names — not by a builder. *)
From PV Require Import Base.Fmt Spec.C03Sym.

(* ------------------------------------------------------------ hash functions *)
Definition sysv_hash_step (h c : Z) : Z :=
  let h := (16 * h + c) mod 2 ^ 32 in                          (* h = (h << 4) + c *)
  let g := Z.land h 0xf0000000 in                              (* g = h & 0xf0000000 *)
  let h := if g =? 0 then h else Z.lxor h (Z.shiftr g 24) in   (* if (g) h ^= g >> 24 *)
  Z.ldiff h g.                                                 (* h &= ~g *)
Definition sysv_hash (name : list Z) : Z := fold_left sysv_hash_step name 0.

Definition gnu_hash_step (h c : Z) : Z := (33 * h + c) mod 2 ^ 32.
Definition gnu_hash (name : list Z) : Z := fold_left gnu_hash_step name 5381.

Definition zrange (a b : Z) : list Z := map (fun k => a + Z.of_nat k) (seq 0 (Z.to_nat (b - a))).
Definition zth (l : list Z) (i : Z) : Z := nth (Z.to_nat i) l 0.
Definition words_ok (n : nat) (l : list Z) : bool := forallb (in_urange n) l.

(* ------------------------------------------------------------ SysV table *)
Record sysv_table := mkSysv { sv_buckets : list Z; sv_chains : list Z }.

(* Every entry (nbucket, nchain, buckets, chains) is a 32-bit word, except in the two 64-bit psABIs
   that define the hash table entry as 64 bits wide: Alpha and s390x (binutils elf64-alpha.c,
   elf64-s390.c: hash entry size 8).  The GNU hash section below has 32-bit words on EVERY machine. *)
Definition EM_S390 : Z := 22.
Definition EM_ALPHA : Z := 41.
Definition sysv_entry_bytes (is64 : bool) (machine : Z) : nat :=
  if is64 && ((machine =? EM_ALPHA) || (machine =? EM_S390)) then 8%nat else 4%nat.

Definition encode_sysv_hash_w (w : nat) (le : bool) (T : sysv_table) : list Z :=
  int_encode le w (zlen (sv_buckets T)) ++ int_encode le w (zlen (sv_chains T)) ++
  encode_arr le w (sv_buckets T) ++ encode_arr le w (sv_chains T).
Definition encode_sysv_hash (le : bool) (T : sysv_table) : list Z := encode_sysv_hash_w 4 le T.

(* the indices met from i on, following chain[] up to STN_UNDEF; None when the walk leaves
   the table or does not end within [fuel] steps *)
Fixpoint chain_from (chains : list Z) (fuel : nat) (i : Z) : option (list Z) :=
  match fuel with
  | O => if i =? 0 then Some [] else None
  | S f =>
      if i =? 0 then Some []
      else if below i (zlen chains) then
        match chain_from chains f (zth chains i) with Some l => Some (i :: l) | None => None end
      else None
  end.

Definition memz (i : Z) (l : list Z) : bool := existsb (Z.eqb i) l.

(* nbucket >= 1; nchain = number of symbols; every bucket's chain ends in 0 inside the table;
   every symbol 1 <= i < nchain is on the chain of bucket hash(name_i) % nbucket *)
Definition wf_sysv_hash (T : sysv_table) (names : list (list Z)) : bool :=
  let nb := zlen (sv_buckets T) in
  let chains := sv_chains T in
  let cls := map (chain_from chains (length chains)) (sv_buckets T) in
  (1 <=? nb) && (nb <? 2 ^ 32) && (zlen chains =? zlen names) && (zlen chains <? 2 ^ 32) &&
  words_ok 4 (sv_buckets T) && words_ok 4 chains &&
  forallb (fun c => match c with Some _ => true | None => false end) cls &&
  forallb (fun i => match nth (Z.to_nat (sysv_hash (nth (Z.to_nat i) names []) mod nb)) cls None with
                    | Some l => memz i l
                    | None => false
                    end) (zrange 1 (zlen names)).

(* ------------------------------------------------------------ GNU table *)
Record gnu_table := mkGnu {
  gt_symoffset : Z; gt_shift : Z;
  gt_bloom : list Z; gt_buckets : list Z; gt_chain : list Z }.

Definition encode_gnu_hash (le is64 : bool) (T : gnu_table) : list Z :=
  int_encode le 4 (zlen (gt_buckets T)) ++ int_encode le 4 (gt_symoffset T) ++
  int_encode le 4 (zlen (gt_bloom T)) ++ int_encode le 4 (gt_shift T) ++
  encode_arr le (addr_bytes is64) (gt_bloom T) ++ encode_arr le 4 (gt_buckets T) ++
  encode_arr le 4 (gt_chain T).

Definition class_bits (is64 : bool) : Z := if is64 then 64 else 32.

Definition bloom_ok (is64 : bool) (T : gnu_table) (h : Z) : bool :=
  let C := class_bits is64 in
  let w := zth (gt_bloom T) ((h / C) mod zlen (gt_bloom T)) in
  Z.testbit w (h mod C) && Z.testbit w (Z.shiftr h (gt_shift T) mod C).

Definition wf_gnu_hash (is64 : bool) (T : gnu_table) (names : list (list Z)) : bool :=
  let nb := zlen (gt_buckets T) in
  let so := gt_symoffset T in
  let n := zlen names in
  let hs := map gnu_hash names in
  let bat i := zth hs i mod nb in                      (* bucket of symbol i *)
  let cat i := zth (gt_chain T) (i - so) in            (* chain word of symbol i *)
  (1 <=? nb) && (nb <? 2 ^ 32) && (1 <=? zlen (gt_bloom T)) && (zlen (gt_bloom T) <? 2 ^ 32) &&
  below (gt_shift T) (2 ^ 32) && (0 <=? so) && (so <=? n) && (so <? 2 ^ 32) &&
  (zlen (gt_chain T) =? n - so) &&
  words_ok (addr_bytes is64) (gt_bloom T) && words_ok 4 (gt_buckets T) && words_ok 4 (gt_chain T) &&
  forallb (fun i =>
     (Z.lor (cat i) 1 =? Z.lor (zth hs i) 1) &&                          (* chain word = hash, bit 0 aside *)
     bloom_ok is64 T (zth hs i) &&                                       (* both bloom bits set *)
     Bool.eqb (Z.odd (cat i)) ((i =? n - 1) || negb (bat (i + 1) =? bat i)) &&   (* bit 0 = last of group *)
     (if (i =? so) || negb (bat (i - 1) =? bat i)                        (* first of group: bucket points here *)
      then zth (gt_buckets T) (bat i) =? i else true)) (zrange so n) &&
  forallb (fun b => let s := zth (gt_buckets T) b in                     (* other buckets are empty *)
                    (s <? so) || ((s <? n) && (bat s =? b))) (zrange 0 nb).
