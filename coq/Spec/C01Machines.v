(* Spec/C01Machines.v — which e_machine values change the meaning of section / segment type
   codes.  gABI: the codes SHT_LOPROC..SHT_HIPROC and PT_LOPROC..PT_HIPROC (0x70000000 ..
   0x7fffffff) are reserved for processor-specific semantics; every other code means the same
   for all machines.  The processor supplements (ARM IHI 0044, AArch64 IHI 0056, x86-64 psABI,
   MIPS, RISC-V psABI) define names in that range, each carrying the machine's prefix.
   [machine_tables_ok] is the executable statement that a machine -> dictionary map respects
   this: outside the processor range every machine's dictionary equals the generic one; inside
   it a machine's dictionary only holds names with that machine's prefix (so a machine without
   a supplement has none); and the codes the supplements fix are present. *)
From Coq Require Import String.
From PV Require Import Base.Bytes Base.Fmt Base.Enum Spec.C01Obs.
Open Scope string_scope.
Open Scope Z_scope.

Definition PROC_LO : Z := 0x70000000.
Definition PROC_HI : Z := 0x7fffffff.
Definition in_proc (z : Z) : bool := (PROC_LO <=? z) && (z <=? PROC_HI).

(* decoded e_machine -> prefixes of its processor-specific names *)
Definition sh_proc_prefixes : list (string * list string) :=
  [ ("EM_ARM", ["SHT_ARM_"]); ("EM_AARCH64", ["SHT_AARCH64_"]);
    ("EM_X86_64", ["SHT_X86_64_"; "SHT_AMD64_"]); ("EM_MIPS", ["SHT_MIPS_"]);
    ("EM_RISCV", ["SHT_RISCV_"]) ].
Definition p_proc_prefixes : list (string * list string) :=
  [ ("EM_ARM", ["PT_ARM_"]); ("EM_AARCH64", ["PT_AARCH64_"]); ("EM_MIPS", ["PT_MIPS_"]);
    ("EM_RISCV", ["PT_RISCV_"]) ].
Definition prefixes_of (P : list (string * list string)) (k : string) : list string :=
  match assoc_str P k with Some l => l | None => [] end.

(* codes fixed by the supplements (the ones the section/segment class dispatch and the
   exception-table / attribute readers rely on) *)
Definition sh_anchors : list (string * Z * string) :=
  [ ("EM_ARM", 0x70000001, "SHT_ARM_EXIDX"); ("EM_ARM", 0x70000002, "SHT_ARM_PREEMPTMAP");
    ("EM_ARM", 0x70000003, "SHT_ARM_ATTRIBUTES");
    ("EM_AARCH64", 0x70000003, "SHT_AARCH64_ATTRIBUTES");
    ("EM_X86_64", 0x70000001, "SHT_AMD64_UNWIND");
    ("EM_MIPS", 0x70000000, "SHT_MIPS_LIBLIST"); ("EM_MIPS", 0x70000006, "SHT_MIPS_REGINFO");
    ("EM_MIPS", 0x7000000d, "SHT_MIPS_OPTIONS"); ("EM_MIPS", 0x7000001e, "SHT_MIPS_DWARF");
    ("EM_MIPS", 0x7000002a, "SHT_MIPS_ABIFLAGS");
    ("EM_RISCV", 0x70000003, "SHT_RISCV_ATTRIBUTES") ].
Definition p_anchors : list (string * Z * string) :=
  [ ("EM_ARM", 0x70000000, "PT_ARM_ARCHEXT"); ("EM_ARM", 0x70000001, "PT_ARM_EXIDX");
    ("EM_AARCH64", 0x70000000, "PT_AARCH64_ARCHEXT"); ("EM_AARCH64", 0x70000001, "PT_AARCH64_UNWIND");
    ("EM_MIPS", 0x70000003, "PT_MIPS_ABIFLAGS"); ("EM_RISCV", 0x70000003, "PT_RISCV_ATTRIBUTES") ].

Definition entry_eqb (a b : Z * string) : bool := (fst a =? fst b) && (snd a =? snd b)%string.
Fixpoint tbl_eqb (a b : list (Z * string)) : bool :=
  match a, b with
  | [], [] => true
  | x :: a', y :: b' => entry_eqb x y && tbl_eqb a' b'
  | _, _ => false
  end.
Definition generic_part (t : list (Z * string)) : list (Z * string) :=
  filter (fun e => negb (in_proc (fst e))) t.

(* the dictionary [t] selected for machine key [k] respects the rule, [base] being the generic one *)
Definition machine_table_ok (P : list (string * list string)) (base : list (Z * string))
                            (k : string) (t : list (Z * string)) : bool :=
  tbl_eqb (generic_part t) (generic_part base) &&
  forallb (fun e => implb (in_proc (fst e))
                          (existsb (fun pfx => String.prefix pfx (snd e)) (prefixes_of P k))) t.

(* [M] : machine key -> dictionary id (keys: every known machine name, "<raw>" for numbers
   without a name); [tbl] resolves ids *)
Definition machine_tables_ok (P : list (string * list string)) (A : list (string * Z * string))
                             (M : list (string * string)) : bool :=
  let sel k := table_of_id (table_id_for M k) in
  forallb (fun ki => machine_table_ok P (sel "<raw>") (fst ki) (table_of_id (snd ki))) M &&
  machine_table_ok P (sel "<raw>") "<raw>" (sel "<raw>") &&
  forallb (fun a => match a with (k, z, n) =>
             match Enum.dict_get (sel k) z with Some m => (m =? n)%string | None => false end end) A.
