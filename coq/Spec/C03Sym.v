(* Spec/C03Sym.v — what the bytes of a symbol table MEAN (System V gABI chapter 4,
   "Symbol Table" and "String Table"; SHT_SYMTAB_SHNDX; Oracle Linker and Libraries
   Guide, "Syminfo Table").  Written from the standards, not from the code.

   A symbol table is an array of fixed-size entries of sh_entsize bytes each; the
   gABI entry occupies the first 16 (ELF32) / 24 (ELF64) bytes, bytes beyond it
   up to sh_entsize are free (they are an explicit argument of the encoder).
     st_info  = (bind << 4) + (type & 0xf)
     st_other = visibility in the low bits (3 bits as the Solaris ABI uses them),
                2 unassigned bits, 3 high bits (PPC64 ELFv2 local entry)
   The name of a symbol is the NUL-terminated string at offset st_name of the
   string table the section links to.  A symbol whose st_shndx is SHN_XINDEX
   (0xffff) has its section index in the entry with the same number of the
   SHT_SYMTAB_SHNDX table that links to the symbol table. *)
From PV Require Import Base.Fmt.

Record sym := mkSym {
  st_name : Z; st_value : Z; st_size : Z;
  st_bind : Z; st_type : Z;                     (* the two halves of st_info *)
  st_local : Z; st_opad : Z; st_vis : Z;        (* the three parts of st_other, high to low *)
  st_shndx : Z }.

Definition addr_bytes (is64 : bool) : nat := if is64 then 8%nat else 4%nat.
Definition sym_size (is64 : bool) : Z := if is64 then 24 else 16.

Definition st_info_byte (s : sym) : Z := st_bind s * 16 + st_type s.
Definition st_other_byte (s : sym) : Z := st_local s * 32 + st_opad s * 8 + st_vis s.

(* Elf32_Sym: name value size info other shndx ; Elf64_Sym: name info other shndx value size *)
Definition encode_sym (le is64 : bool) (s : sym) : list Z :=
  if is64 then
    int_encode le 4 (st_name s) ++ [st_info_byte s] ++ [st_other_byte s] ++
    int_encode le 2 (st_shndx s) ++ int_encode le 8 (st_value s) ++ int_encode le 8 (st_size s)
  else
    int_encode le 4 (st_name s) ++ int_encode le 4 (st_value s) ++ int_encode le 4 (st_size s) ++
    [st_info_byte s] ++ [st_other_byte s] ++ int_encode le 2 (st_shndx s).

Definition below (z hi : Z) : bool := (0 <=? z) && (z <? hi).

Definition sym_ok (is64 : bool) (s : sym) : bool :=
  below (st_name s) (2 ^ 32) &&
  below (st_value s) (2 ^ (8 * Z.of_nat (addr_bytes is64))) &&
  below (st_size s) (2 ^ (8 * Z.of_nat (addr_bytes is64))) &&
  below (st_bind s) 16 && below (st_type s) 16 &&
  below (st_local s) 8 && below (st_opad s) 4 && below (st_vis s) 8 &&
  below (st_shndx s) (2 ^ 16).

(* a table row: the entry and the free bytes that pad it to sh_entsize *)
Definition row := (sym * list Z)%type.
Definition encode_row (le is64 : bool) (r : row) : list Z := encode_sym le is64 (fst r) ++ snd r.
Definition encode_symtab (le is64 : bool) (rows : list row) : list Z :=
  concat (map (encode_row le is64) rows).

Definition symtab_ok (is64 : bool) (entsize : Z) (rows : list row) : bool :=
  (sym_size is64 <=? entsize) &&
  forallb (fun r => sym_ok is64 (fst r) && (zlen (snd r) =? entsize - sym_size is64)) rows.

(* ---- string table: the bytes from an offset up to (excluding) the first NUL *)
Fixpoint cstr_prefix (bs : list Z) : option (list Z) :=
  match bs with
  | [] => None
  | b :: r => if b =? 0 then Some []
              else match cstr_prefix r with Some s => Some (b :: s) | None => None end
  end.
Definition name_at (strtab : list Z) (off : Z) : option (list Z) :=
  if below off (zlen strtab) then cstr_prefix (skipn (Z.to_nat off) strtab) else None.

Definition sym_name (strtab : list Z) (s : sym) : list Z :=
  match name_at strtab (st_name s) with Some n => n | None => [] end.
(* every st_name designates a terminated string inside the table *)
Definition names_ok (strtab : list Z) (rows : list row) : bool :=
  forallb (fun r => match name_at strtab (st_name (fst r)) with Some _ => true | None => false end) rows.

(* ---- what an observer of a symbol sees: its name and the fields
        st_name value size bind type local visibility shndx (the 2 unassigned bits are not data) *)
Definition symview := (list Z * list Z)%type.
Definition sym_fields (s : sym) : list Z :=
  [st_name s; st_value s; st_size s; st_bind s; st_type s; st_local s; st_vis s; st_shndx s].
Definition view_of (strtab : list Z) (s : sym) : symview := (sym_name strtab s, sym_fields s).
Definition views (strtab : list Z) (rows : list row) : list symview :=
  map (fun r => view_of strtab (fst r)) rows.
Definition names_of (strtab : list Z) (rows : list row) : list (list Z) :=
  map (fun r => sym_name strtab (fst r)) rows.

Definition beqb (a b : list Z) : bool := if list_eq_dec Z.eq_dec a b then true else false.

(* the indices (in table order) of the symbols bearing a name *)
Fixpoint indices_from (i : Z) (names : list (list Z)) (q : list Z) : list Z :=
  match names with
  | [] => []
  | n :: r => if beqb n q then i :: indices_from (i + 1) r q else indices_from (i + 1) r q
  end.
Definition indices_named (names : list (list Z)) (q : list Z) : list Z := indices_from 0 names q.

(* lookup by name: all the symbols bearing it, in table order, or nothing *)
Definition by_name_views (vs : list symview) (q : list Z) : option (list symview) :=
  match filter (fun v => beqb (fst v) q) vs with
  | [] => None
  | l => Some l
  end.
Definition by_name_spec (strtab : list Z) (rows : list row) (q : list Z) : option (list symview) :=
  by_name_views (views strtab rows) q.

(* ---- SHT_SYMTAB_SHNDX: an array of 32-bit words, entry i belongs to symbol i *)
Definition xrow := (Z * list Z)%type.
Definition encode_xrow (le : bool) (r : xrow) : list Z := int_encode le 4 (fst r) ++ snd r.
Definition encode_shndx (le : bool) (rows : list xrow) : list Z := concat (map (encode_xrow le) rows).
Definition shndx_ok (entsize : Z) (rows : list xrow) : bool :=
  (4 <=? entsize) && forallb (fun r => below (fst r) (2 ^ 32) && (zlen (snd r) =? entsize - 4)) rows.
Definition SHN_XINDEX : Z := 0xffff.
(* the section a symbol is defined in *)
Definition section_index (s : sym) (x : Z) : Z := if st_shndx s =? SHN_XINDEX then x else st_shndx s.

(* ---- Solaris syminfo: entries of two halves (si_boundto, si_flags); entry i describes
        symbol i of the linked symbol table, entry 0 holds the table version *)
Definition irow := ((Z * Z) * list Z)%type.
Definition encode_irow (le : bool) (r : irow) : list Z :=
  int_encode le 2 (fst (fst r)) ++ int_encode le 2 (snd (fst r)) ++ snd r.
Definition encode_syminfo (le : bool) (rows : list irow) : list Z := concat (map (encode_irow le) rows).
Definition syminfo_ok (entsize : Z) (rows : list irow) : bool :=
  (4 <=? entsize) &&
  forallb (fun r => below (fst (fst r)) (2 ^ 16) && below (snd (fst r)) (2 ^ 16) &&
                    (zlen (snd r) =? entsize - 4)) rows.
(* what iterating the syminfo section yields: (name of symbol i, [si_boundto; si_flags]) for i >= 1 *)
Definition syminfo_views (names : list (list Z)) (rows : list irow) : list symview :=
  tl (map (fun p => (fst p, [fst (fst (snd p)); snd (fst (snd p))])) (combine names rows)).

(* ---- the names of the enumerated field values (gABI figures 4-16..4-19 and the special section
        indices; STB_NUM/STT_NUM from glibc's elf.h; STT_RELC/STT_SRELC from binutils; STV_EXPORTED,
        STV_SINGLETON, STV_ELIMINATE and the SYMINFO_BT_* bindings from the Solaris ABI).  A value
        without a name is reported as the integer. *)
Definition spec_st_bind : list (Z * string) :=
  [(0, "STB_LOCAL"); (1, "STB_GLOBAL"); (2, "STB_WEAK"); (3, "STB_NUM"); (10, "STB_LOOS");
   (12, "STB_HIOS"); (13, "STB_LOPROC"); (15, "STB_HIPROC")]%string.
Definition spec_st_type : list (Z * string) :=
  [(0, "STT_NOTYPE"); (1, "STT_OBJECT"); (2, "STT_FUNC"); (3, "STT_SECTION"); (4, "STT_FILE");
   (5, "STT_COMMON"); (6, "STT_TLS"); (7, "STT_NUM"); (8, "STT_RELC"); (9, "STT_SRELC");
   (10, "STT_LOOS"); (12, "STT_HIOS"); (13, "STT_LOPROC"); (15, "STT_HIPROC")]%string.
Definition spec_st_local : list (Z * string) := [].
Definition spec_st_visibility : list (Z * string) :=
  [(0, "STV_DEFAULT"); (1, "STV_INTERNAL"); (2, "STV_HIDDEN"); (3, "STV_PROTECTED");
   (4, "STV_EXPORTED"); (5, "STV_SINGLETON"); (6, "STV_ELIMINATE")]%string.
Definition spec_st_shndx : list (Z * string) :=
  [(0, "SHN_UNDEF"); (0xfff1, "SHN_ABS"); (0xfff2, "SHN_COMMON")]%string.
Definition spec_si_boundto : list (Z * string) :=
  [(0xfffc, "SYMINFO_BT_EXTERN"); (0xfffd, "SYMINFO_BT_NONE"); (0xfffe, "SYMINFO_BT_PARENT");
   (0xffff, "SYMINFO_BT_SELF")]%string.

Fixpoint enum_lookup (t : list (Z * string)) (v : Z) : option string :=
  match t with
  | [] => None
  | (k, n) :: r => if k =? v then Some n else enum_lookup r v
  end.
Definition opt_string_eqb (a b : option string) : bool :=
  match a, b with
  | Some x, Some y => String.eqb x y
  | None, None => true
  | _, _ => false
  end.
(* every entry of either table is what the other one answers for its value *)
Definition table_eqv (a b : list (Z * string)) : bool :=
  forallb (fun kv => opt_string_eqb (enum_lookup b (fst kv)) (Some (snd kv))) a &&
  forallb (fun kv => opt_string_eqb (enum_lookup a (fst kv)) (Some (snd kv))) b.
(* which table decodes which field of Elf_Sym / Elf_Sunw_Syminfo (no field is strict: unknown values pass) *)
Definition spec_sym_binds : list (string * list (Z * string)) :=
  [("st_info.bind", spec_st_bind); ("st_info.type", spec_st_type); ("st_other.local", spec_st_local);
   ("st_other.visibility", spec_st_visibility); ("st_shndx", spec_st_shndx)]%string.
Definition spec_syminfo_binds : list (string * list (Z * string)) :=
  [("si_boundto", spec_si_boundto)]%string.

(* ---- placement: the bytes [bs] occupy the file image from offset [off] on (whatever
        precedes and follows them).  Image-level statements quantify over ALL images
        satisfying such facts, not over images made by a builder. *)
Definition placed (img : list Z) (off : Z) (bs : list Z) : Prop :=
  exists pre post, img = (pre ++ bs ++ post)%list /\ zlen pre = off.

(* the i-th symbol of an enumeration (table index i) *)
Definition dview : symview := ([], []).
Definition vth (vs : list symview) (i : Z) : symview := nth (Z.to_nat i) vs dview.

(* ---- the table as an object: what each call answers, whatever was called before and whatever
        happened to the file in between (there is no state in the meaning of a symbol table).
        Calls: number of symbols, symbol n, the first k symbols of an enumeration that is then
        abandoned, lookup by name, and one step of enumeration number g — an enumeration is the
        only thing with a position: its j-th step yields entry j, then it is exhausted. *)
Inductive scall := CNum | CGet (n : Z) | CIter (k : Z) | CByName (q : list Z) | CNext (g : Z).
Inductive sanswer :=
| ANum (z : Z) | ASym (v : symview) | ASyms (l : list symview) | AByName (o : option (list symview)) | AStop.
Definition enums := list (Z * Z).             (* enumeration id -> number of steps taken *)
Fixpoint epos (es : enums) (g : Z) : Z :=
  match es with [] => 0 | (k, j) :: r => if k =? g then j else epos r g end.
Definition answer (strtab : list Z) (rows : list row) (es : enums) (c : scall) : sanswer :=
  match c with
  | CNum => ANum (zlen rows)
  | CGet n => ASym (vth (views strtab rows) n)
  | CIter k => ASyms (firstn (Z.to_nat k) (views strtab rows))
  | CByName q => AByName (by_name_spec strtab rows q)
  | CNext g => if epos es g <? zlen rows then ASym (vth (views strtab rows) (epos es g)) else AStop
  end.
Definition advance (rows : list row) (es : enums) (c : scall) : enums :=
  match c with
  | CNext g => if epos es g <? zlen rows then (g, epos es g + 1) :: es else es
  | _ => es
  end.
Fixpoint answers (strtab : list Z) (rows : list row) (es : enums) (calls : list scall) : list sanswer :=
  match calls with
  | [] => []
  | c :: r => answer strtab rows es c :: answers strtab rows (advance rows es c) r
  end.
(* calls that are meaningful on a table of this length *)
Definition call_ok (rows : list row) (c : scall) : bool :=
  match c with
  | CGet n => below n (zlen rows)
  | CIter k => 0 <=? k
  | _ => true
  end.
