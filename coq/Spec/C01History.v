(* Spec/C01History.v — what C01 expects of calls made on one ELFFile object, whatever was called
   before: the object expected for an entry of the abstract image, the history-free answer to an
   enumeration (complete, or abandoned after k items) and to the three lookups by name, and the
   complete name -> index map.  (Vocabulary: the observation records of Model/C01ElfFile.v and the
   calls of Model/C01History.v.) *)
From Coq Require Import String.
From PV Require Import Base.Bytes Base.Outcome Base.Fmt Base.PyData.
From PV Require Import Spec.C01Obs Spec.C01Image Model.C01ElfFile Model.C01History.
Open Scope string_scope.
Open Scope Z_scope.

(* the Section object the property expects for entry x of the abstract image *)
Definition sec_of (s : image_spec) (x : list Z * shdr_spec) : sect :=
  {| s_name := fst x; s_hdr := exp_shdr s (snd x);
     s_kind := spec_kind (sh_tyname s (snd x)) (fst x) |}.

(* the Segment object the property expects for entry p of the abstract image *)
Definition seg_of (s : image_spec) (p : phdr_spec) : segm :=
  {| g_hdr := exp_phdr s p; g_kind := spec_segment_kind (p_tyname s p) |}.

(* the sections an enumeration with type filter [ty] yields *)
Definition filtered (s : image_spec) (ty : option hval) : list (list Z * shdr_spec) :=
  match ty with
  | None => i_sections s
  | Some t => filter (fun x => hval_eqb (sh_tyname s (snd x)) t) (i_sections s)
  end.

(* the history-free answer to one call *)
Definition exp_hans (s : image_spec) (op : hop) : hans :=
  match op with
  | HTake ty k => ASects (map (sec_of s) (firstn (Z.to_nat k) (filtered s ty)))
  | HIter ty => ASects (map (sec_of s) (filtered s ty))
  | HSegs ty => ASegs (map (seg_of s) (match ty with
                                      | None => i_segments s
                                      | Some t => filter (fun p => hval_eqb (p_tyname s p) t) (i_segments s)
                                      end))
  | HHas name => ABool (match exp_index_by_name s name with Some _ => true | None => false end)
  | HIndex name => AIndex (exp_index_by_name s name)
  | HByName name =>
      ASect (match exp_index_by_name s name with
             | Some j => match nth_sec s j with Some x => Some (sec_of s x) | None => None end
             | None => None
             end)
  end.

(* the complete name -> index map of the image *)
Definition full_map (s : image_spec) : dict (list Z) Z :=
  dict_of_list bytes_eqb
    (map (fun p => (s_name (snd p), fst p)) (enumerate_from 0 (map (sec_of s) (i_sections s)))).

