(* Spec/C07Lists.v — what location and range list sections MEAN (property C07), written from the
   DWARF standards: .debug_loc / .debug_ranges (DWARF 2-4 §2.6.2, §2.17.3, §7.7.3, §7.23),
   .debug_loclists / .debug_rnglists / .debug_addr (DWARF 5 §2.6.2, §2.17.3, §7.7.3, §7.25, §7.27-7.29),
   attribute classes (DWARF 2 Fig. 14, DWARF 3/4 Fig. 20, DWARF 5 Table 7.5, form classes §7.5.4-7.5.6).

   Encoders take every byte the format leaves free as an argument: a ULEB128 operand is a value
   together with the number of redundant continuation bytes of its encoding, so the encoders range
   over ALL valid encodings.  Well-formedness predicates are bool.  The "meaning" of a list is the
   sequence of namedtuples / containers the library's API promises for it (class name + positional
   values), with entry offsets and lengths, indexed addresses looked up in the unit's address table,
   and start/length converted to [start, start+length). *)
From Coq Require Import String.
From PV Require Import Base.Bytes Spec.PrimSpec Model.C07Kinds.
From Coq Require Import ZArith List Bool.
Import ListNotations.
Open Scope string_scope.
Open Scope list_scope.
Open Scope Z_scope.

Definition addr_bound (asz : nat) : Z := 2 ^ (8 * Z.of_nat asz).
Definition in_addr (asz : nat) (a : Z) : bool := (0 <=? a) && (a <? addr_bound asz).
(* the base-address-selection marker: the largest representable address, "all ones" *)
Definition all_ones (asz : nat) : Z := addr_bound asz - 1.

(* ================================================================== pre-v5 sections *)
(* ---- .debug_loc *)
Inductive v4loc : Type :=
| V4Base (a : Z)                          (* base address selection entry *)
| V4Loc (b e : Z) (expr : list Z).        (* location list entry, offsets relative to the base *)

Definition enc_v4loc (le : bool) (asz : nat) (x : v4loc) : list Z :=
  match x with
  | V4Base a => int_encode le asz (all_ones asz) ++ int_encode le asz a
  | V4Loc b e expr => int_encode le asz b ++ int_encode le asz e ++ int_encode le 2 (zlen expr) ++ expr
  end.
Definition enc_v4_end (le : bool) (asz : nat) : list Z := int_encode le asz 0 ++ int_encode le asz 0.
Definition enc_v4loc_list (le : bool) (asz : nat) (l : list v4loc) : list Z :=
  concat (map (enc_v4loc le asz) l) ++ enc_v4_end le asz.

Definition wf_v4loc (asz : nat) (x : v4loc) : bool :=
  match x with
  | V4Base a => in_addr asz a
  | V4Loc b e expr =>
      in_addr asz b && in_addr asz e && negb ((b =? 0) && (e =? 0)) && negb (b =? all_ones asz)
      && (zlen expr <? 65536) && all_bytes expr
  end.

Definition v4loc_tup (off len : Z) (x : v4loc) : tup :=
  match x with
  | V4Base a => ("BaseAddressEntry", [FInt off; FInt len; FInt a])
  | V4Loc b e expr => ("LocationEntry", [FInt off; FInt len; FInt b; FInt e; FBytes expr; FBool false])
  end.

(* ---- .debug_ranges *)
Inductive v4rng : Type :=
| R4Base (a : Z)
| R4Range (b e : Z).

Definition enc_v4rng (le : bool) (asz : nat) (x : v4rng) : list Z :=
  match x with
  | R4Base a => int_encode le asz (all_ones asz) ++ int_encode le asz a
  | R4Range b e => int_encode le asz b ++ int_encode le asz e
  end.
Definition enc_v4rng_list (le : bool) (asz : nat) (l : list v4rng) : list Z :=
  concat (map (enc_v4rng le asz) l) ++ enc_v4_end le asz.

Definition wf_v4rng (asz : nat) (x : v4rng) : bool :=
  match x with
  | R4Base a => in_addr asz a
  | R4Range b e => in_addr asz b && in_addr asz e && negb ((b =? 0) && (e =? 0)) && negb (b =? all_ones asz)
  end.

(* the library's range BaseAddressEntry carries no entry_length *)
Definition v4rng_tup (off len : Z) (x : v4rng) : tup :=
  match x with
  | R4Base a => ("BaseAddressEntry", [FInt off; FInt a])
  | R4Range b e => ("RangeEntry", [FInt off; FInt len; FInt b; FInt e; FBool false])
  end.

(* a list laid out from offset pos: every entry with its own offset and encoded length *)
Section Layout.
  Context {A : Type} (enc : A -> list Z) (mean : Z -> Z -> A -> tup).
  Fixpoint layout_tups (pos : Z) (l : list A) : list tup :=
    match l with
    | [] => []
    | x :: r => mean pos (zlen (enc x)) x :: layout_tups (pos + zlen (enc x)) r
    end.
End Layout.

Definition v4loc_meaning (le : bool) (asz : nat) (pos : Z) (l : list v4loc) : list tup :=
  layout_tups (enc_v4loc le asz) v4loc_tup pos l.
Definition v4rng_meaning (le : bool) (asz : nat) (pos : Z) (l : list v4rng) : list tup :=
  layout_tups (enc_v4rng le asz) v4rng_tup pos l.

(* ================================================================== v5 sections *)
(* a ULEB128 operand: its value and the number of redundant continuation bytes *)
Definition ulebv := (Z * nat)%type.
Definition enc_uleb (u : ulebv) : list Z := uleb_pad (uleb_encode (fst u)) (snd u).
Definition wf_uleb (u : ulebv) : bool := 0 <=? fst u.

(* counted location description: ULEB128 length, then that many bytes *)
Definition counted := (nat * list Z)%type.
Definition enc_counted (c : counted) : list Z := enc_uleb (zlen (snd c), fst c) ++ snd c.
Definition wf_counted (c : counted) : bool := all_bytes (snd c).

(* the .debug_addr table of a unit: entry i is at addr_base + i * address_size *)
Definition addr_at (tbl : list Z) (i : Z) : Z := nth (Z.to_nat i) tbl 0.
Definition enc_addr_table (le : bool) (asz : nat) (tbl : list Z) : list Z :=
  concat (map (int_encode le asz) tbl).
Definition wf_addr_table (asz : nat) (tbl : list Z) : bool := forallb (in_addr asz) tbl.
Definition wf_index (ntbl : Z) (u : ulebv) : bool := (0 <=? fst u) && (fst u <? ntbl).

(* an operand of a v5 entry: kind and value; the name is the one under which the library's
   untranslated ("_ex") view reports it *)
Inductive opval : Type :=
| VUleb (u : ulebv)          (* unsigned LEB128 *)
| VAddr (a : Z)              (* target address, address_size bytes *)
| VCounted (c : counted).    (* counted location description *)
Definition enc_opval (le : bool) (asz : nat) (v : opval) : list Z :=
  match v with
  | VUleb u => enc_uleb u
  | VAddr a => int_encode le asz a
  | VCounted c => enc_counted c
  end.
Definition wf_opval (asz : nat) (v : opval) : bool :=
  match v with
  | VUleb u => wf_uleb u
  | VAddr a => in_addr asz a
  | VCounted c => wf_counted c
  end.
Definition opval_kind (v : opval) : opkind :=
  match v with VUleb _ => OUleb | VAddr _ => OAddr | VCounted _ => OCounted end.
Definition opval_fval (v : opval) : fval :=
  match v with VUleb u => FInt (fst u) | VAddr a => FInt a | VCounted c => FBytes (snd c) end.
Definition named_ops := list (string * opval).

(* kind code, then the operands in order *)
Definition enc_entry (le : bool) (asz : nat) (code : Z) (ops : named_ops) : list Z :=
  code :: concat (map (fun o => enc_opval le asz (snd o)) ops).
(* the untranslated view of an entry placed at off and len bytes long *)
Definition raw_entry (off len : Z) (name : string) (ops : named_ops) : container :=
  (("entry_offset", FInt off) :: ("entry_type", FStr name)
   :: map (fun o => (fst o, opval_fval (snd o))) ops)
  ++ [("entry_end_offset", FInt (off + len)); ("entry_length", FInt len)].

(* ---- DW_LLE_* (DWARF 5 §7.7.3, Table 7.10) *)
Inductive lle : Type :=
| LBaseAddressx (i : ulebv)
| LStartxEndx (i j : ulebv) (x : counted)
| LStartxLength (i n : ulebv) (x : counted)
| LOffsetPair (b e : ulebv) (x : counted)
| LDefaultLocation (x : counted)
| LBaseAddress (a : Z)
| LStartEnd (s e : Z) (x : counted)
| LStartLength (s : Z) (n : ulebv) (x : counted).

Definition DW_LLE_end_of_list : Z := 0.
Definition lle_code (x : lle) : Z :=
  match x with
  | LBaseAddressx _ => 1 | LStartxEndx _ _ _ => 2 | LStartxLength _ _ _ => 3 | LOffsetPair _ _ _ => 4
  | LDefaultLocation _ => 5 | LBaseAddress _ => 6 | LStartEnd _ _ _ => 7 | LStartLength _ _ _ => 8
  end.
Definition lle_name (x : lle) : string :=
  match x with
  | LBaseAddressx _ => "DW_LLE_base_addressx" | LStartxEndx _ _ _ => "DW_LLE_startx_endx"
  | LStartxLength _ _ _ => "DW_LLE_startx_length" | LOffsetPair _ _ _ => "DW_LLE_offset_pair"
  | LDefaultLocation _ => "DW_LLE_default_location" | LBaseAddress _ => "DW_LLE_base_address"
  | LStartEnd _ _ _ => "DW_LLE_start_end" | LStartLength _ _ _ => "DW_LLE_start_length"
  end.

Definition lle_ops (x : lle) : named_ops :=
  match x with
  | LBaseAddressx i => [("index", VUleb i)]
  | LStartxEndx i j c => [("start_index", VUleb i); ("end_index", VUleb j); ("loc_expr", VCounted c)]
  | LStartxLength i n c => [("start_index", VUleb i); ("length", VUleb n); ("loc_expr", VCounted c)]
  | LOffsetPair b e c => [("start_offset", VUleb b); ("end_offset", VUleb e); ("loc_expr", VCounted c)]
  | LDefaultLocation c => [("loc_expr", VCounted c)]
  | LBaseAddress a => [("address", VAddr a)]
  | LStartEnd s e c => [("start_address", VAddr s); ("end_address", VAddr e); ("loc_expr", VCounted c)]
  | LStartLength s n c => [("start_address", VAddr s); ("length", VUleb n); ("loc_expr", VCounted c)]
  end.
Definition enc_lle (le : bool) (asz : nat) (x : lle) : list Z := enc_entry le asz (lle_code x) (lle_ops x).
Definition enc_lle_list (le : bool) (asz : nat) (l : list lle) : list Z :=
  concat (map (enc_lle le asz) l) ++ [DW_LLE_end_of_list].

Definition wf_lle (asz : nat) (ntbl : Z) (x : lle) : bool :=
  match x with
  | LBaseAddressx i => wf_index ntbl i
  | LStartxEndx i j c => wf_index ntbl i && wf_index ntbl j && wf_counted c
  | LStartxLength i n c => wf_index ntbl i && wf_uleb n && wf_counted c
  | LOffsetPair b e c => wf_uleb b && wf_uleb e && wf_counted c
  | LDefaultLocation c => wf_counted c
  | LBaseAddress a => in_addr asz a
  | LStartEnd s e c => in_addr asz s && in_addr asz e && wf_counted c
  | LStartLength s n c => in_addr asz s && wf_uleb n && wf_counted c
  end.

Definition loc_entry (off len b e : Z) (c : counted) (absolute : bool) : tup :=
  ("LocationEntry", [FInt off; FInt len; FInt b; FInt e; FBytes (snd c); FBool absolute]).
Definition loc_base (off len a : Z) : tup := ("BaseAddressEntry", [FInt off; FInt len; FInt a]).

(* the default location entry is reported with begin = end = -1 (LocationLists docstring) *)
Definition lle_tup (tbl : list Z) (off len : Z) (x : lle) : tup :=
  match x with
  | LBaseAddressx i => loc_base off len (addr_at tbl (fst i))
  | LStartxEndx i j c => loc_entry off len (addr_at tbl (fst i)) (addr_at tbl (fst j)) c true
  | LStartxLength i n c => loc_entry off len (addr_at tbl (fst i)) (addr_at tbl (fst i) + fst n) c true
  | LOffsetPair b e c => loc_entry off len (fst b) (fst e) c false
  | LDefaultLocation c => loc_entry off len (-1) (-1) c true
  | LBaseAddress a => loc_base off len a
  | LStartEnd s e c => loc_entry off len s e c true
  | LStartLength s n c => loc_entry off len s (s + fst n) c true
  end.

Definition lle_meaning (le : bool) (asz : nat) (tbl : list Z) (pos : Z) (l : list lle) : list tup :=
  layout_tups (enc_lle le asz) (lle_tup tbl) pos l.

(* ---- DW_RLE_* (DWARF 5 §7.25, Table 7.30) *)
Inductive rle : Type :=
| RBaseAddressx (i : ulebv)
| RStartxEndx (i j : ulebv)
| RStartxLength (i n : ulebv)
| ROffsetPair (b e : ulebv)
| RBaseAddress (a : Z)
| RStartEnd (s e : Z)
| RStartLength (s : Z) (n : ulebv).

Definition DW_RLE_end_of_list : Z := 0.
Definition rle_code (x : rle) : Z :=
  match x with
  | RBaseAddressx _ => 1 | RStartxEndx _ _ => 2 | RStartxLength _ _ => 3 | ROffsetPair _ _ => 4
  | RBaseAddress _ => 5 | RStartEnd _ _ => 6 | RStartLength _ _ => 7
  end.
Definition rle_name (x : rle) : string :=
  match x with
  | RBaseAddressx _ => "DW_RLE_base_addressx" | RStartxEndx _ _ => "DW_RLE_startx_endx"
  | RStartxLength _ _ => "DW_RLE_startx_length" | ROffsetPair _ _ => "DW_RLE_offset_pair"
  | RBaseAddress _ => "DW_RLE_base_address" | RStartEnd _ _ => "DW_RLE_start_end"
  | RStartLength _ _ => "DW_RLE_start_length"
  end.

Definition rle_ops (x : rle) : named_ops :=
  match x with
  | RBaseAddressx i => [("index", VUleb i)]
  | RStartxEndx i j => [("start_index", VUleb i); ("end_index", VUleb j)]
  | RStartxLength i n => [("start_index", VUleb i); ("length", VUleb n)]
  | ROffsetPair b e => [("start_offset", VUleb b); ("end_offset", VUleb e)]
  | RBaseAddress a => [("address", VAddr a)]
  | RStartEnd s e => [("start_address", VAddr s); ("end_address", VAddr e)]
  | RStartLength s n => [("start_address", VAddr s); ("length", VUleb n)]
  end.
Definition enc_rle (le : bool) (asz : nat) (x : rle) : list Z := enc_entry le asz (rle_code x) (rle_ops x).
Definition enc_rle_list (le : bool) (asz : nat) (l : list rle) : list Z :=
  concat (map (enc_rle le asz) l) ++ [DW_RLE_end_of_list].

Definition wf_rle (asz : nat) (ntbl : Z) (x : rle) : bool :=
  match x with
  | RBaseAddressx i => wf_index ntbl i
  | RStartxEndx i j => wf_index ntbl i && wf_index ntbl j
  | RStartxLength i n => wf_index ntbl i && wf_uleb n
  | ROffsetPair b e => wf_uleb b && wf_uleb e
  | RBaseAddress a => in_addr asz a
  | RStartEnd s e => in_addr asz s && in_addr asz e
  | RStartLength s n => in_addr asz s && wf_uleb n
  end.

Definition rng_entry (off len b e : Z) (absolute : bool) : tup :=
  ("RangeEntry", [FInt off; FInt len; FInt b; FInt e; FBool absolute]).
Definition rng_base (off a : Z) : tup := ("BaseAddressEntry", [FInt off; FInt a]).

Definition rle_tup (tbl : list Z) (off len : Z) (x : rle) : tup :=
  match x with
  | RBaseAddressx i => rng_base off (addr_at tbl (fst i))
  | RStartxEndx i j => rng_entry off len (addr_at tbl (fst i)) (addr_at tbl (fst j)) true
  | RStartxLength i n => rng_entry off len (addr_at tbl (fst i)) (addr_at tbl (fst i) + fst n) true
  | ROffsetPair b e => rng_entry off len (fst b) (fst e) false
  | RBaseAddress a => rng_base off a
  | RStartEnd s e => rng_entry off len s e true
  | RStartLength s n => rng_entry off len s (s + fst n) true
  end.

Definition rle_meaning (le : bool) (asz : nat) (tbl : list Z) (pos : Z) (l : list rle) : list tup :=
  layout_tups (enc_rle le asz) (rle_tup tbl) pos l.

(* ---- the untranslated ("_ex") view of a range list entry: kind name and raw operands *)
Definition rle_raw (off len : Z) (x : rle) : container := raw_entry off len (rle_name x) (rle_ops x).
Definition lle_raw (off len : Z) (x : lle) : container := raw_entry off len (lle_name x) (lle_ops x).

Section RawLayout.
  Context {A : Type} (enc : A -> list Z) (mean : Z -> Z -> A -> container).
  Fixpoint layout_raw (pos : Z) (l : list A) : list container :=
    match l with
    | [] => []
    | x :: r => mean pos (zlen (enc x)) x :: layout_raw (pos + zlen (enc x)) r
    end.
End RawLayout.
Definition rle_raw_meaning (le : bool) (asz : nat) (pos : Z) (l : list rle) : list container :=
  layout_raw (enc_rle le asz) rle_raw pos l.
Definition lle_raw_meaning (le : bool) (asz : nat) (pos : Z) (l : list lle) : list container :=
  layout_raw (enc_lle le asz) lle_raw pos l.

(* ---- location view pairs (GNU extension, binutils layout: the pairs immediately precede their list) *)
Definition viewpair := (ulebv * ulebv)%type.
Definition enc_viewpair (p : viewpair) : list Z := enc_uleb (fst p) ++ enc_uleb (snd p).
Definition wf_viewpair (p : viewpair) : bool := wf_uleb (fst p) && wf_uleb (snd p).
Definition viewpair_tup (off len : Z) (p : viewpair) : tup :=
  ("LocationViewPair", [FInt off; FInt (fst (fst p)); FInt (fst (snd p))]).
Definition views_meaning (pos : Z) (l : list viewpair) : list tup :=
  layout_tups enc_viewpair viewpair_tup pos l.

(* ================================================================== unit blocks (§7.28, §7.29) *)
Record unit_blk : Type := {
  ub_is64 : bool;              (* 64-bit DWARF format *)
  ub_version : Z;
  ub_asz : Z;                  (* address_size *)
  ub_seg : Z;                  (* segment_selector_size *)
  ub_offsets : list Z;         (* the offset table (offset_entry_count entries) *)
  ub_body : list Z }.          (* everything after the offset table *)

Definition offset_size (is64 : bool) : nat := if is64 then 8%nat else 4%nat.
Definition initlen_size (is64 : bool) : Z := if is64 then 12 else 4.
Definition ub_count (u : unit_blk) : Z := zlen (ub_offsets u).
Definition ub_unit_length (u : unit_blk) : Z :=
  8 + Z.of_nat (offset_size (ub_is64 u)) * ub_count u + zlen (ub_body u).
Definition enc_offsets (le : bool) (is64 : bool) (offs : list Z) : list Z :=
  concat (map (int_encode le (offset_size is64)) offs).
Definition enc_unit (le : bool) (u : unit_blk) : list Z :=
  initial_length_encode le (ub_unit_length u) (ub_is64 u)
  ++ int_encode le 2 (ub_version u) ++ int_encode le 1 (ub_asz u) ++ int_encode le 1 (ub_seg u)
  ++ int_encode le 4 (ub_count u)
  ++ enc_offsets le (ub_is64 u) (ub_offsets u) ++ ub_body u.

Definition in_uint (n : nat) (v : Z) : bool := (0 <=? v) && (v <? 2 ^ (8 * Z.of_nat n)).
Definition wf_unit (u : unit_blk) : bool :=
  initial_length_wf (ub_unit_length u) (ub_is64 u)
  && in_uint 2 (ub_version u) && in_uint 1 (ub_asz u) && in_uint 1 (ub_seg u) && in_uint 4 (ub_count u)
  && forallb (in_uint (offset_size (ub_is64 u))) (ub_offsets u) && all_bytes (ub_body u).

Definition unit_size (u : unit_blk) : Z := initlen_size (ub_is64 u) + ub_unit_length u.
Definition unit_table_offset (pos : Z) (u : unit_blk) : Z := pos + initlen_size (ub_is64 u) + 8.
Definition unit_body_offset (pos : Z) (u : unit_blk) : Z :=
  unit_table_offset pos u + Z.of_nat (offset_size (ub_is64 u)) * ub_count u.

(* the header the API reports for a unit block placed at pos
   (API convention: an empty offset table is reported as False) *)
Definition unit_header (pos : Z) (u : unit_blk) : container :=
  [("cu_offset", FInt pos); ("unit_length", FInt (ub_unit_length u)); ("is64", FBool (ub_is64 u));
   ("offset_after_length", FInt (pos + initlen_size (ub_is64 u)));
   ("version", FInt (ub_version u)); ("address_size", FInt (ub_asz u));
   ("segment_selector_size", FInt (ub_seg u)); ("offset_count", FInt (ub_count u));
   ("offset_table_offset", FInt (unit_table_offset pos u));
   ("offsets", if 0 <? ub_count u then FInts (ub_offsets u) else FBool false)].

Fixpoint unit_headers (pos : Z) (us : list unit_blk) : list container :=
  match us with
  | [] => []
  | u :: r => unit_header pos u :: unit_headers (pos + unit_size u) r
  end.

(* a .debug_rnglists unit block whose body is its range lists, back to back *)
Definition rng_body (le : bool) (asz : nat) (lists : list (list rle)) : list Z :=
  concat (map (enc_rle_list le asz) lists).
Fixpoint rng_lists_raw (le : bool) (asz : nat) (pos : Z) (lists : list (list rle)) : list (list container) :=
  match lists with
  | [] => []
  | l :: r => rle_raw_meaning le asz pos l :: rng_lists_raw le asz (pos + zlen (enc_rle_list le asz l)) r
  end.
(* the offset-table entry of list k of the body: relative to the start of the offset table *)
Definition list_rel_offset (le : bool) (asz : nat) (is64 : bool) (count : Z) (lists : list (list rle)) (k : nat) : Z :=
  Z.of_nat (offset_size is64) * count + zlen (rng_body le asz (firstn k lists)).

(* ================================================================== attribute classification *)
Inductive lclass : Type := LExpr | LList | LNeither.
Definition lclass_code (c : lclass) : Z := match c with LExpr => 1 | LList => 2 | LNeither => 0 end.

Definition mem (s : string) (l : list string) : bool := existsb (String.eqb s) l.

Definition BLOCK_FORMS := ["DW_FORM_block1"; "DW_FORM_block2"; "DW_FORM_block4"; "DW_FORM_block"].
Definition CONST_FORMS_V2 :=
  ["DW_FORM_data1"; "DW_FORM_data2"; "DW_FORM_data4"; "DW_FORM_data8"; "DW_FORM_sdata"; "DW_FORM_udata"].
Definition CONST_FORMS_V5 := CONST_FORMS_V2 ++ ["DW_FORM_data16"; "DW_FORM_implicit_const"].
Definition REF_FORMS_V2 :=
  ["DW_FORM_ref1"; "DW_FORM_ref2"; "DW_FORM_ref4"; "DW_FORM_ref8"; "DW_FORM_ref_udata"; "DW_FORM_ref_addr"].
Definition REF_FORMS_V4 := REF_FORMS_V2 ++ ["DW_FORM_ref_sig8"].
Definition REF_FORMS_V5 := REF_FORMS_V4 ++ ["DW_FORM_ref_sup4"; "DW_FORM_ref_sup8"].
Definition STRING_FORMS_V2 := ["DW_FORM_string"; "DW_FORM_strp"].
Definition STRING_FORMS_V5 :=
  STRING_FORMS_V2 ++ ["DW_FORM_line_strp"; "DW_FORM_strp_sup"; "DW_FORM_strx"; "DW_FORM_strx1";
                      "DW_FORM_strx2"; "DW_FORM_strx3"; "DW_FORM_strx4"].
Definition const_forms (v : Z) := if v <? 5 then CONST_FORMS_V2 else CONST_FORMS_V5.
Definition ref_forms (v : Z) := if v <? 4 then REF_FORMS_V2 else if v <? 5 then REF_FORMS_V4 else REF_FORMS_V5.
Definition string_forms (v : Z) := if v <? 5 then STRING_FORMS_V2 else STRING_FORMS_V5.

(* attributes whose value is a location description: block | loclistptr (v2: block | constant),
   from v4 exprloc | loclistptr, in v5 exprloc | loclist *)
Definition LOCATION_ATTRS :=
  ["DW_AT_location"; "DW_AT_string_length"; "DW_AT_return_addr"; "DW_AT_frame_base"; "DW_AT_segment";
   "DW_AT_static_link"; "DW_AT_use_location"].
(* v2: block | reference; v3: block | loclistptr; then as above *)
Definition VTABLE_ATTR := "DW_AT_vtable_elem_location".
(* v2: block | reference; v3: block | constant | loclistptr; v4/v5: constant | exprloc | loclist(ptr) *)
Definition MEMBER_ATTR := "DW_AT_data_member_location".
(* v2: constant | reference; v3: block | constant | reference; v4/v5: constant | exprloc | reference *)
Definition BOUND_ATTRS := ["DW_AT_upper_bound"; "DW_AT_count"].
(* block | constant | string in every version: never a location *)
Definition CONST_VALUE_ATTR := "DW_AT_const_value".
(* v5 call-site attributes: exprloc *)
Definition CALL_ATTRS :=
  ["DW_AT_call_value"; "DW_AT_call_target"; "DW_AT_call_target_clobbered"; "DW_AT_call_data_location";
   "DW_AT_call_data_value"].
(* their GNU predecessors (vendor extension): a DWARF expression, block before v4, exprloc from v4 *)
Definition GNU_CALL_ATTRS :=
  ["DW_AT_GNU_call_site_value"; "DW_AT_GNU_call_site_data_value"; "DW_AT_GNU_call_site_target"].

(* Some c: the standard allows this form for this attribute in this version and gives it exactly
   one reading; None: the combination is not defined (or, for DW_AT_data_member_location with
   data4/data8 in DWARF 3, has two readings) and the property demands nothing. *)
Definition std_classify (v : Z) (name form : string) : option lclass :=
  let loclist_forms :=
    if v <? 4 then ["DW_FORM_data4"; "DW_FORM_data8"]
    else if v <? 5 then ["DW_FORM_sec_offset"] else ["DW_FORM_sec_offset"; "DW_FORM_loclistx"] in
  let expr_forms := if v <? 4 then BLOCK_FORMS else ["DW_FORM_exprloc"] in
  if mem name LOCATION_ATTRS then
    if mem form expr_forms then Some LExpr
    else if mem form loclist_forms then Some LList
    else if (5 <=? v) && String.eqb name "DW_AT_string_length" && mem form (ref_forms v) then Some LNeither
    else None
  else if String.eqb name VTABLE_ATTR then
    if mem form expr_forms then Some LExpr
    else if v =? 2 then (if mem form (ref_forms v) then Some LNeither else None)
    else if mem form loclist_forms then Some LList
    else None
  else if String.eqb name MEMBER_ATTR then
    if mem form expr_forms then Some LExpr
    else if v =? 2 then (if mem form (ref_forms v) then Some LNeither else None)
    else if v =? 3 then
      (if mem form ["DW_FORM_data4"; "DW_FORM_data8"] then None
       else if mem form (const_forms v) then Some LNeither else None)
    else if mem form loclist_forms then Some LList
    else if mem form (const_forms v) then Some LNeither
    else None
  else if mem name BOUND_ATTRS then
    if (3 <=? v) && mem form expr_forms then Some LExpr
    else if mem form (const_forms v) || mem form (ref_forms v) then Some LNeither
    else None
  else if String.eqb name CONST_VALUE_ATTR then
    if mem form BLOCK_FORMS || mem form (const_forms v) || mem form (string_forms v) then Some LNeither
    else None
  else if mem name CALL_ATTRS then
    if (5 <=? v) && String.eqb form "DW_FORM_exprloc" then Some LExpr else None
  else if mem name GNU_CALL_ATTRS then
    if mem form expr_forms then Some LExpr else None
  else None.

Definition VERSIONS : list Z := [2; 3; 4; 5].

(* ================================================================== the standard's tables as data,
   in the vocabulary of Model/C07Kinds.v (compared with the regenerated Gen/C07Tables.v) *)
(* DWARF 5 Table 7.10 *)
Definition spec_ENUM_DW_LLE : list (string * Z) :=
  [("DW_LLE_end_of_list", 0x00); ("DW_LLE_base_addressx", 0x01); ("DW_LLE_startx_endx", 0x02);
   ("DW_LLE_startx_length", 0x03); ("DW_LLE_offset_pair", 0x04); ("DW_LLE_default_location", 0x05);
   ("DW_LLE_base_address", 0x06); ("DW_LLE_start_end", 0x07); ("DW_LLE_start_length", 0x08)].
(* DWARF 5 Table 7.30 *)
Definition spec_ENUM_DW_RLE : list (string * Z) :=
  [("DW_RLE_end_of_list", 0x00); ("DW_RLE_base_addressx", 0x01); ("DW_RLE_startx_endx", 0x02);
   ("DW_RLE_startx_length", 0x03); ("DW_RLE_offset_pair", 0x04); ("DW_RLE_base_address", 0x05);
   ("DW_RLE_start_end", 0x06); ("DW_RLE_start_length", 0x07)].
(* DWARF 5 §7.28 / §7.29: unit_length, version (2), address_size (1), segment_selector_size (1),
   offset_entry_count (4); the library also records the offsets at which the fields start *)
Definition spec_list_header : hlayout :=
  [("cu_offset", HStreamOffset); ("unit_length", HInitialLength); ("is64", HIs64);
   ("offset_after_length", HStreamOffset); ("version", HUInt 2); ("address_size", HUInt 1);
   ("segment_selector_size", HUInt 1); ("offset_count", HUInt 4); ("offset_table_offset", HStreamOffset)].
