(* Spec/C20Hist.v — a build-attributes section OBJECT, and an ARM exception-index OBJECT,
   observed through a history of API calls.

   Property C20 says what the section yields: "exactly its encoded subsections, scoped
   sub-subsections and attributes in order, whatever their number", observed at
   iter_subsections -> iter_subsubsections -> iter_attributes (and num_* / the list properties
   built on them); and what each index entry decodes to, observed at num_entry / get_entry /
   mnmemonic_array.  A file is immutable data: what an observation answers is a function of
   the bytes alone, whatever was asked of the same objects before — including walks that were
   started and abandoned half way, walks in flight while other questions are asked, questions
   repeated in any order.

   This file fixes
   * the vocabulary: the operations a client can perform ([hop], [eop]) and what it sees of
     each ([hans], [eans]);
   * Python generator objects (language semantics): a suspended walk; next() resumes it for one
     item, close() / dropping the last reference / leaving a for loop by break ends it;
   * the reference answers: every question is answered from the STATELESS decoding ([exp], the
     expected value of Spec/C20Attr.v; [num]/[entry]/[disasm] for the index) — the j-th item of
     any walk is the j-th item of the decoding, no matter what else happened in between.
   Objects are named by creation order: the section is #0, every subsection / sub-subsection
   object handed out by a next() or by a list is numbered as it appears. *)
From PV Require Import Base.Bytes Base.Outcome Model.C20Types.
From Coq Require Import Ascii.
Open Scope list_scope.
Open Scope Z_scope.

(* ================================================================== build attributes *)

(* ------------------------------------------------------------------ vocabulary *)
Inductive hop : Type :=
| OStart (o : nat) (f : option (list Z))
    (* g = objs[o].iter_subsections(f) / .iter_subsubsections(f) / .iter_attributes(f): a new
       generator object; generators are numbered 0,1,.. in creation order.  f: the vendor name /
       scope tag / attribute tag to limit the walk to (UTF-8 bytes of the Python string) *)
| ONext (g : nat)       (* next(g) *)
| OClose (g : nat)      (* g.close(); also: the last reference dropped, a for loop over g left by break *)
| ONum (o : nat)        (* objs[o].num_subsections / .num_subsubsections / .num_attributes *)
| OList (o : nat)       (* objs[o].subsections / .subsubsections / .attributes *)
| OIter (o : nat) (f : option (list Z))   (* list(objs[o].iter_...(f)) *)
| ODisturb (pos : Z)    (* the client reads something else of the same file: stream.seek(pos) *)
| OCopy (o : nat).      (* objs[o] = pickle.loads(pickle.dumps(objs[o])) / copy.deepcopy / copy.copy: the client goes on
                           with the copy (walks in flight keep the original alive) *)

(* what a client sees of one yielded thing *)
Inductive view : Type :=
| VSubsec (length : Z) (vendor : list Z)   (* AttributesSubsection: header['length'], header['vendor_name'] *)
| VSubsub (header : oattr)                 (* AttributesSubsubsection: header (tag, value = size, extra = numbers) *)
| VAttr (a : oattr).                       (* Attribute: (tag, value, extra) *)

Inductive hans : Type :=
| HUnit                                    (* nothing to see (start, close, disturb) *)
| HItem (id : option nat) (v : view)       (* next() yielded v; if it is an object it is now #id *)
| HStop                                    (* StopIteration *)
| HInt (n : Z)
| HItems (first : nat) (l : list view)     (* a list; the objects in it are #first, #first+1, .. *)
| HErr (e : err)                           (* the call raised *)
| HBad.                                    (* the history names an object / generator that was never created,
                                              or asks an Attribute for sub-items: not a behaviour of anything *)

(* what one resumption of a walk does *)
Inductive wstep (A : Type) : Type := WYield (a : A) | WStop | WRaise (e : err).
Arguments WYield {A} a.  Arguments WStop {A}.  Arguments WRaise {A} e.

Definition set_nth {A} (l : list A) (i : nat) (x : A) : list A := firstn i l ++ x :: skipn (S i) l.

(* ------------------------------------------------------------------ limiting a walk *)
Fixpoint str_bytes (s : string) : list Z :=
  match s with
  | EmptyString => []
  | String c r => Z.of_N (N_of_ascii c) :: str_bytes r
  end.

(* the string the filter argument is compared with *)
Definition vkey (v : view) : list Z :=
  match v with
  | VSubsec _ vendor => vendor                     (* subsec['vendor_name'] == vendor_name *)
  | VSubsub (tag, _, _) => str_bytes tag           (* subsubsec.header.tag == scope *)
  | VAttr (tag, _, _) => str_bytes tag             (* attribute.tag == tag *)
  end.
Definition fmatch (f : option (list Z)) (v : view) : bool :=
  match f with
  | None => true
  | Some k => if list_eq_dec Z.eq_dec k (vkey v) then true else false
  end.

(* an item of a walk: the object it hands out (if it is one) and what is seen of it *)
Definition item (O : Type) : Type := (option O * view)%type.
Definition children {O} (l : list (item O)) : list O :=
  flat_map (fun it => match fst it with Some o => [o] | None => [] end) l.
Definition keep {O} (f : option (list Z)) (l : list (item O)) : list (item O) :=
  filter (fun it => fmatch f (snd it)) l.

(* ------------------------------------------------------------------ reference: paths into the decoding *)
Inductive sobj : Type :=
| SSec                      (* the section *)
| SSubsec (i : nat)         (* its i-th subsection *)
| SSubsub (i j : nat).      (* the j-th sub-subsection of the i-th subsection *)

Fixpoint mapi_from {A B} (k : nat) (f : nat -> A -> B) (l : list A) : list B :=
  match l with
  | [] => []
  | x :: r => f k x :: mapi_from (S k) f r
  end.

Definition ssub_at (exp : list osubsec) (i j : nat) : option osub :=
  match nth_error exp i with
  | Some (_, _, subs) => nth_error subs j
  | None => None
  end.

(* everything a complete, unlimited walk over an object yields, in order *)
Definition sitems (exp : list osubsec) (o : sobj) : list (item sobj) :=
  match o with
  | SSec => mapi_from 0 (fun i (s : osubsec) => let '(len, vendor, _) := s in (Some (SSubsec i), VSubsec len vendor)) exp
  | SSubsec i =>
      match nth_error exp i with
      | Some (_, _, subs) => mapi_from 0 (fun j (ss : osub) => (Some (SSubsub i j), VSubsub (fst ss))) subs
      | None => []
      end
  | SSubsub i j =>
      match ssub_at exp i j with
      | Some (_, attrs) => map (fun a => (None, VAttr a)) attrs
      | None => []
      end
  end.
(* .attributes and .num_attributes count the header of the sub-subsection as the first attribute *)
Definition shead (exp : list osubsec) (o : sobj) : list view :=
  match o with
  | SSubsub i j => match ssub_at exp i j with Some (h, _) => [VAttr h] | None => [] end
  | _ => []
  end.

(* a generator object: whose items, limited to what, how far into the unlimited item list it
   has got, and whether it is finished (returned, raised or closed) *)
Record sgen := mkSGen { sg_owner : sobj; sg_filter : option (list Z); sg_pos : nat; sg_done : bool }.
Record sstate := mkSState { s_objs : list sobj; s_gens : list sgen }.

(* the first item at index >= k (the list starts at index k) that passes the filter *)
Fixpoint find_match {O} (f : option (list Z)) (l : list (item O)) (k : nat) : option (nat * item O) :=
  match l with
  | [] => None
  | it :: r => if fmatch f (snd it) then Some (k, it) else find_match f r (S k)
  end.

Definition reg {O} (objs : list O) (c : option O) : list O :=
  match c with Some o => objs ++ [o] | None => objs end.
Definition reg_id {O} (objs : list O) (c : option O) : option nat :=
  match c with Some _ => Some (List.length objs) | None => None end.

Definition sstep (exp : list osubsec) (st : sstate) (op : hop) : sstate * hans :=
  match op with
  | OStart o f =>
      match nth_error (s_objs st) o with
      | None => (st, HBad)
      | Some ow => (mkSState (s_objs st) (s_gens st ++ [mkSGen ow f 0 false]), HUnit)
      end
  | ONext g =>
      match nth_error (s_gens st) g with
      | None => (st, HBad)
      | Some s =>
          if sg_done s then (st, HStop)       (* a finished generator keeps raising StopIteration *)
          else match find_match (sg_filter s) (skipn (sg_pos s) (sitems exp (sg_owner s))) (sg_pos s) with
               | Some (k, (c, v)) =>
                   (mkSState (reg (s_objs st) c) (set_nth (s_gens st) g (mkSGen (sg_owner s) (sg_filter s) (S k) false)),
                    HItem (reg_id (s_objs st) c) v)
               | None =>
                   (mkSState (s_objs st) (set_nth (s_gens st) g (mkSGen (sg_owner s) (sg_filter s) (sg_pos s) true)), HStop)
               end
      end
  | OClose g =>
      match nth_error (s_gens st) g with
      | None => (st, HBad)
      | Some s => (mkSState (s_objs st) (set_nth (s_gens st) g (mkSGen (sg_owner s) (sg_filter s) (sg_pos s) true)), HUnit)
      end
  | ONum o =>
      match nth_error (s_objs st) o with
      | None => (st, HBad)
      | Some ow => (st, HInt (zlen (shead exp ow) + zlen (sitems exp ow)))
      end
  | OList o =>
      match nth_error (s_objs st) o with
      | None => (st, HBad)
      | Some ow =>
          let its := sitems exp ow in
          (mkSState (s_objs st ++ children its) (s_gens st),
           HItems (List.length (s_objs st)) (shead exp ow ++ map snd its))
      end
  | OIter o f =>
      match nth_error (s_objs st) o with
      | None => (st, HBad)
      | Some ow =>
          let its := keep f (sitems exp ow) in
          (mkSState (s_objs st ++ children its) (s_gens st), HItems (List.length (s_objs st)) (map snd its))
      end
  | ODisturb _ => (st, HUnit)
  | OCopy o =>
      match nth_error (s_objs st) o with
      | None => (st, HBad)
      | Some _ => (st, HUnit)
      end
  end.

Fixpoint srun (exp : list osubsec) (st : sstate) (h : list hop) : list hans :=
  match h with
  | [] => []
  | op :: r => let (st', a) := sstep exp st op in a :: srun exp st' r
  end.
(* the section object is #0; no generator exists *)
Definition spec_hist (exp : list osubsec) (h : list hop) : list hans := srun exp (mkSState [SSec] []) h.

(* ================================================================== ARM exception index *)
(* one EHABIInfo object; the EHABIEntry objects it hands out (numbered in creation order) and
   EHABIBytecodeDecoder objects built over their byte-code (numbered likewise) *)
Inductive eop : Type :=
| ENum                 (* info.num_entry() *)
| EGet (n : Z)         (* e = info.get_entry(n): a new entry object; its fields are read *)
| EFields (e : nat)    (* the fields of entry #e are read again *)
| EMnem (e : nat)      (* entries[e].mnmemonic_array() *)
| EDecoder (e : nat)   (* d = EHABIBytecodeDecoder(entries[e].bytecode_array): a new decoder object; d.mnemonic_array *)
| ERedecode (d : nat)  (* decoders[d]._decode(); decoders[d].mnemonic_array *)
| ERead (d : nat)      (* decoders[d].mnemonic_array *)
| ECopyInfo            (* info = pickle round trip / copy.deepcopy / copy.copy of info (or of its structs object) *)
| EReopen              (* info = a NEW EHABIInfo: get_ehabi_infos()[0] of the ELFFile or of a pickled / deep-copied ELFFile *)
| EMutate (e : nat).   (* the caller edits ITS entry object #e in place: entries[e].function_offset += 0x1000,
                          entries[e].bytecode_array.append(0xb0); what the file decodes to is untouched *)

Definition mnitems : Type := list (list Z * string).
Inductive eans : Type :=
| EAInt (n : Z)
| EAEntry (r : eh_out)
| EAMnem (m : option mnitems)    (* None: mnmemonic_array() returned None *)
| EAErr (e : err)
| EAUnit                          (* nothing to see (copy, reopen) *)
| EABad.                         (* names an entry / decoder that was never created, or a decoder over no byte-code *)

(* the edit of EMutate, on what the caller holds *)
Definition mutate_entry (r : eh_out) : eh_out :=
  {| eo_function_offset := option_map (fun v => v + 0x1000) (eo_function_offset r);
     eo_personality := eo_personality r;
     eo_bytecode := option_map (fun b => b ++ [0xb0]) (eo_bytecode r);
     eo_eh_table_offset := eo_eh_table_offset r;
     eo_unwindable := eo_unwindable r; eo_corrupt := eo_corrupt r |}.

Record espec := mkESpec { es_entries : list eh_out; es_decoders : list (list Z) }.

(* the stateless oracle: [num] entries, [entry n] what index entry n decodes to, [disasm bc]
   the disassembly of a byte-code array *)
Definition estep_spec (num : Z) (entry : Z -> res eh_out) (disasm : list Z -> res mnitems)
           (st : espec) (op : eop) : espec * eans :=
  match op with
  | ENum => (st, EAInt num)
  | EGet n =>
      match entry n with
      | Ok r => (mkESpec (es_entries st ++ [r]) (es_decoders st), EAEntry r)
      | Err e => (st, EAErr e)
      end
  | EFields e =>
      match nth_error (es_entries st) e with
      | Some r => (st, EAEntry r)
      | None => (st, EABad)
      end
  | EMnem e =>
      match nth_error (es_entries st) e with
      | Some r =>
          match eo_bytecode r with
          | None | Some [] => (st, EAMnem None)
          | Some bc => (st, match disasm bc with Ok l => EAMnem (Some l) | Err x => EAErr x end)
          end
      | None => (st, EABad)
      end
  | EDecoder e =>
      match nth_error (es_entries st) e with
      | Some r =>
          match eo_bytecode r with
          | None => (st, EABad)
          | Some bc =>
              match disasm bc with
              | Ok l => (mkESpec (es_entries st) (es_decoders st ++ [bc]), EAMnem (Some l))
              | Err x => (st, EAErr x)        (* the constructor raised: no object *)
              end
          end
      | None => (st, EABad)
      end
  | ERedecode d | ERead d =>
      match nth_error (es_decoders st) d with
      | Some bc => (st, match disasm bc with Ok l => EAMnem (Some l) | Err x => EAErr x end)
      | None => (st, EABad)
      end
  | ECopyInfo | EReopen => (st, EAUnit)
  | EMutate e =>
      match nth_error (es_entries st) e with
      | Some r => (mkESpec (set_nth (es_entries st) e (mutate_entry r)) (es_decoders st), EAUnit)
      | None => (st, EABad)
      end
  end.

Fixpoint erun_spec (num : Z) (entry : Z -> res eh_out) (disasm : list Z -> res mnitems)
         (st : espec) (h : list eop) : list eans :=
  match h with
  | [] => []
  | op :: r => let (st', a) := estep_spec num entry disasm st op in a :: erun_spec num entry disasm st' r
  end.
Definition eh_spec_hist (num : Z) (entry : Z -> res eh_out) (disasm : list Z -> res mnitems) (h : list eop) : list eans :=
  erun_spec num entry disasm (mkESpec [] []) h.
