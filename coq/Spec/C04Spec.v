(* Spec/C04Spec.v — what the bytes of .debug_info / .debug_abbrev / .debug_types MEAN,
   written from the DWARF standards (v2 §7.5, v3 §7.5, v4 §7.5, v5 §7.5; form classes
   v5 §7.5.6 and Table 7.6; unit headers v5 §7.5.1.1-3, v4 §7.5.1.1-2).
   Nothing here refers to the library.  Every byte the format leaves free is an
   argument: each LEB128 number carries the encoding actually used (any valid one,
   minimal or not), including the zero codes of null entries and table terminators.
   Name tables (number -> display name) are parameters of the expected results. *)
From Coq Require Import String.
From PV Require Export Spec.C04Desc Spec.PrimSpec.
From Coq Require Import ZArith List Bool Lia.
Import ListNotations.
Open Scope Z_scope.

(* ------------------------------------------------------------------ configurations *)
Record cfg : Type := mkcfg { c_le : bool; c_is64 : bool; c_asz8 : bool; c_ver : Z }.
Definition off_size (c : cfg) : nat := if c_is64 c then 8%nat else 4%nat.
Definition addr_size (c : cfg) : nat := if c_asz8 c then 8%nat else 4%nat.
Definition initlen_size (c : cfg) : Z := if c_is64 c then 12 else 4.

Definition bools : list bool := [true; false].
Definition versions : list Z := [2; 3; 4; 5].
Definition all_cfgs : list cfg :=
  flat_map (fun le => flat_map (fun f => flat_map (fun a => map (fun v => mkcfg le f a v) versions) bools) bools) bools.
Definition cfg_ok (c : cfg) : bool := (2 <=? c_ver c) && (c_ver c <=? 5).

(* ------------------------------------------------------------------ the form table of the standard *)
Inductive oclass : Type :=
| CFixed (n : nat)     (* n-byte unsigned integer in the byte order of the file *)
| CUleb
| CSleb
| CStr                 (* inline NUL-terminated string *)
| CBlockN (n : nat)    (* n-byte length, then that many bytes *)
| CBlockU              (* ULEB128 length, then that many bytes (block, exprloc) *)
| CBytes (n : nat)     (* n uninterpreted bytes (data16) *)
| CNone                (* no bytes at all (flag_present) *)
| CImplicit            (* no bytes in the entry: the value is in the abbreviation (implicit_const) *)
| CIndirect.           (* ULEB128 form code, then the operand in that form *)

(* form code -> operand encoding, as a function of version, format and address size *)
Definition std_form_class (c : cfg) (code : Z) : option oclass :=
  let off := CFixed (off_size c) in
  let addr := CFixed (addr_size c) in
  if code =? 0x01 then Some addr                          (* DW_FORM_addr *)
  else if code =? 0x02 then Some (CFixed 4)               (* DW_FORM_ref: the 4-byte unit-relative reference of DWARF 1;
                                                             not assigned by DWARF 2-5, still accepted by consumers
                                                             (and by this library) with that meaning: a supported form *)
  else if code =? 0x03 then Some (CBlockN 2)              (* block2 *)
  else if code =? 0x04 then Some (CBlockN 4)              (* block4 *)
  else if code =? 0x05 then Some (CFixed 2)               (* data2 *)
  else if code =? 0x06 then Some (CFixed 4)               (* data4 *)
  else if code =? 0x07 then Some (CFixed 8)               (* data8 *)
  else if code =? 0x08 then Some CStr                     (* string *)
  else if code =? 0x09 then Some CBlockU                  (* block *)
  else if code =? 0x0a then Some (CBlockN 1)              (* block1 *)
  else if code =? 0x0b then Some (CFixed 1)               (* data1 *)
  else if code =? 0x0c then Some (CFixed 1)               (* flag *)
  else if code =? 0x0d then Some CSleb                    (* sdata *)
  else if code =? 0x0e then Some off                      (* strp *)
  else if code =? 0x0f then Some CUleb                    (* udata *)
  else if code =? 0x10 then Some (if c_ver c =? 2 then addr else off)   (* ref_addr: v2 address, v3+ offset *)
  else if code =? 0x11 then Some (CFixed 1)               (* ref1 *)
  else if code =? 0x12 then Some (CFixed 2)               (* ref2 *)
  else if code =? 0x13 then Some (CFixed 4)               (* ref4 *)
  else if code =? 0x14 then Some (CFixed 8)               (* ref8 *)
  else if code =? 0x15 then Some CUleb                    (* ref_udata *)
  else if code =? 0x16 then Some CIndirect                (* indirect *)
  else if code =? 0x17 then Some off                      (* sec_offset *)
  else if code =? 0x18 then Some CBlockU                  (* exprloc *)
  else if code =? 0x19 then Some CNone                    (* flag_present *)
  else if code =? 0x1a then Some CUleb                    (* strx *)
  else if code =? 0x1b then Some CUleb                    (* addrx *)
  else if code =? 0x1c then Some (CFixed 4)               (* ref_sup4 *)
  else if code =? 0x1d then Some off                      (* strp_sup *)
  else if code =? 0x1e then Some (CBytes 16)              (* data16 *)
  else if code =? 0x1f then Some off                      (* line_strp *)
  else if code =? 0x20 then Some (CFixed 8)               (* ref_sig8 *)
  else if code =? 0x21 then Some CImplicit                (* implicit_const *)
  else if code =? 0x22 then Some CUleb                    (* loclistx *)
  else if code =? 0x23 then Some CUleb                    (* rnglistx *)
  else if code =? 0x24 then Some (CFixed 8)               (* ref_sup8 *)
  else if code =? 0x25 then Some (CFixed 1)               (* strx1 *)
  else if code =? 0x26 then Some (CFixed 2)               (* strx2 *)
  else if code =? 0x27 then Some (CFixed 3)               (* strx3 *)
  else if code =? 0x28 then Some (CFixed 4)               (* strx4 *)
  else if code =? 0x29 then Some (CFixed 1)               (* addrx1 *)
  else if code =? 0x2a then Some (CFixed 2)               (* addrx2 *)
  else if code =? 0x2b then Some (CFixed 3)               (* addrx3 *)
  else if code =? 0x2c then Some (CFixed 4)               (* addrx4 *)
  else if code =? 0x1f20 then Some off                    (* GNU_ref_alt (dwz) *)
  else if code =? 0x1f21 then Some off                    (* GNU_strp_alt (dwz) *)
  else None.

(* DWARF 5 Table 7.6 (+ DW_FORM_ref of DWARF 1 and the two dwz forms): code -> name *)
Definition std_form_names : list (Z * string) := [
  (0x01, "DW_FORM_addr"); (0x02, "DW_FORM_ref"); (0x03, "DW_FORM_block2"); (0x04, "DW_FORM_block4"); (0x05, "DW_FORM_data2");
  (0x06, "DW_FORM_data4"); (0x07, "DW_FORM_data8"); (0x08, "DW_FORM_string"); (0x09, "DW_FORM_block");
  (0x0a, "DW_FORM_block1"); (0x0b, "DW_FORM_data1"); (0x0c, "DW_FORM_flag"); (0x0d, "DW_FORM_sdata");
  (0x0e, "DW_FORM_strp"); (0x0f, "DW_FORM_udata"); (0x10, "DW_FORM_ref_addr"); (0x11, "DW_FORM_ref1");
  (0x12, "DW_FORM_ref2"); (0x13, "DW_FORM_ref4"); (0x14, "DW_FORM_ref8"); (0x15, "DW_FORM_ref_udata");
  (0x16, "DW_FORM_indirect"); (0x17, "DW_FORM_sec_offset"); (0x18, "DW_FORM_exprloc");
  (0x19, "DW_FORM_flag_present"); (0x1a, "DW_FORM_strx"); (0x1b, "DW_FORM_addrx"); (0x1c, "DW_FORM_ref_sup4");
  (0x1d, "DW_FORM_strp_sup"); (0x1e, "DW_FORM_data16"); (0x1f, "DW_FORM_line_strp"); (0x20, "DW_FORM_ref_sig8");
  (0x21, "DW_FORM_implicit_const"); (0x22, "DW_FORM_loclistx"); (0x23, "DW_FORM_rnglistx");
  (0x24, "DW_FORM_ref_sup8"); (0x25, "DW_FORM_strx1"); (0x26, "DW_FORM_strx2"); (0x27, "DW_FORM_strx3");
  (0x28, "DW_FORM_strx4"); (0x29, "DW_FORM_addrx1"); (0x2a, "DW_FORM_addrx2"); (0x2b, "DW_FORM_addrx3");
  (0x2c, "DW_FORM_addrx4"); (0x1f20, "DW_FORM_GNU_ref_alt"); (0x1f21, "DW_FORM_GNU_strp_alt")
]%string.

(* how a reader of that class must consume bytes *)
Definition class_desc (le : bool) (k : oclass) : fdesc :=
  match k with
  | CFixed 3 => DU24 le
  | CFixed 1 => DInt true 1 false          (* one byte has no byte order *)
  | CFixed n => DInt le n false
  | CUleb => DUleb
  | CSleb => DSleb
  | CStr => DCStr
  | CBlockN 1 => DBlock (DInt true 1 false)
  | CBlockN n => DBlock (DInt le n false)
  | CBlockU => DBlock DUleb
  | CBytes n => DArr n (DInt true 1 false)
  | CNone => DStatic 0
  | CImplicit => DNone                     (* nothing to read *)
  | CIndirect => DUleb                     (* the form code; the operand follows in that form *)
  end.

(* ------------------------------------------------------------------ LEB128 numbers with their encoding *)
Record lebn : Type := mklebn { lv : Z; lenc : list Z }.

Definition uleb_ok (v : Z) (enc : list Z) : bool :=
  all_bytes enc && match uleb_spec enc with Some (v', []) => v' =? v | _ => false end.
Definition sleb_ok (v : Z) (enc : list Z) : bool :=
  all_bytes enc && match sleb_spec enc with Some (v', []) => v' =? v | _ => false end.
Definition uleb_wf (l : lebn) : bool := uleb_ok (lv l) (lenc l).
Definition sleb_wf (l : lebn) : bool := sleb_ok (lv l) (lenc l).

(* ------------------------------------------------------------------ attribute operands *)
Inductive operand : Type :=
| OpU (v : Z)                                   (* CFixed *)
| OpLeb (l : lebn)                               (* CUleb, CSleb *)
| OpStr (s : list Z)                            (* CStr *)
| OpBlockN (payload : list Z)                   (* CBlockN *)
| OpBlockU (lenenc : list Z) (payload : list Z) (* CBlockU: the length's encoding is free *)
| OpBytes (b : list Z)                          (* CBytes *)
| OpNone                                        (* CNone *)
| OpImplicit                                    (* CImplicit *)
| OpIndirect (f : lebn) (inner : operand).       (* CIndirect: actual form, operand in that form *)

Fixpoint encode_operand (c : cfg) (k : oclass) (op : operand) : list Z :=
  match k, op with
  | CFixed n, OpU v => int_encode (c_le c) n v
  | CUleb, OpLeb l => lenc l
  | CSleb, OpLeb l => lenc l
  | CStr, OpStr s => s ++ [0]
  | CBlockN n, OpBlockN p => int_encode (c_le c) n (zlen p) ++ p
  | CBlockU, OpBlockU e p => e ++ p
  | CBytes _, OpBytes b => b
  | CNone, OpNone => []
  | CImplicit, OpImplicit => []
  | CIndirect, OpIndirect f inner =>
      lenc f ++ match std_form_class c (lv f) with
                | Some k' => encode_operand c k' inner
                | None => []
                end
  | _, _ => []
  end.

Fixpoint operand_wf (c : cfg) (k : oclass) (op : operand) : bool :=
  match k, op with
  | CFixed n, OpU v => (0 <=? v) && (v <? 2 ^ (8 * Z.of_nat n))
  | CUleb, OpLeb l => uleb_wf l
  | CSleb, OpLeb l => sleb_wf l
  | CStr, OpStr s => all_bytes s && no_nul s
  | CBlockN n, OpBlockN p => all_bytes p && (zlen p <? 2 ^ (8 * Z.of_nat n))
  | CBlockU, OpBlockU e p => all_bytes p && uleb_ok (zlen p) e
  | CBytes n, OpBytes b => all_bytes b && Nat.eqb (length b) n
  | CNone, OpNone => true
  | CImplicit, OpImplicit => true
  | CIndirect, OpIndirect f inner =>
      uleb_wf f &&
      match std_form_class c (lv f) with
      | Some CImplicit => false            (* §7.5.3: indirect never designates implicit_const *)
      | Some k' => operand_wf c k' inner
      | None => false
      end
  | _, _ => false
  end.

(* the final form, the raw value and the length of the indirection chain *)
Fixpoint final_form (form : Z) (op : operand) : Z :=
  match op with OpIndirect f inner => final_form (lv f) inner | _ => form end.
Fixpoint chain_length (op : operand) : Z :=
  match op with OpIndirect _ inner => 1 + chain_length inner | _ => 0 end.
Fixpoint raw_of (op : operand) : rawval :=
  match op with
  | OpU v => RInt v
  | OpLeb l => RInt (lv l)
  | OpStr s => RBytes s
  | OpBlockN p => RList p
  | OpBlockU _ p => RList p
  | OpBytes b => RList b
  | OpNone => RBytes []
  | OpImplicit => RInt 0        (* replaced by the abbreviation's constant, see expect_attrs *)
  | OpIndirect _ inner => raw_of inner
  end.

(* ------------------------------------------------------------------ abbreviation tables (§7.5.3) *)
Record aspec : Type := mkaspec { a_name : lebn; a_form : lebn; a_const : option lebn }.
Record adecl : Type := mkadecl {
  d_code : lebn; d_tag : lebn; d_kids : bool; d_attrs : list aspec;
  d_end_name : list Z; d_end_form : list Z      (* encodings of the closing (0, 0) pair *)
}.
Record atable : Type := mkatable { t_decls : list adecl; t_end : list Z (* encoding of the closing 0 code *) }.

Definition FORM_implicit_const : Z := 0x21.

Definition encode_aspec (a : aspec) : list Z :=
  lenc (a_name a) ++ lenc (a_form a) ++ match a_const a with Some l => lenc l | None => [] end.
Definition encode_adecl_body (d : adecl) : list Z :=
  lenc (d_tag d) ++ [if d_kids d then 1 else 0] ++
  concat (map encode_aspec (d_attrs d)) ++ d_end_name d ++ d_end_form d.
Definition encode_adecl (d : adecl) : list Z := lenc (d_code d) ++ encode_adecl_body d.
Definition encode_atable (t : atable) : list Z := concat (map encode_adecl (t_decls t)) ++ t_end t.

Definition aspec_wf (a : aspec) : bool :=
  uleb_wf (a_name a) && uleb_wf (a_form a) &&
  negb ((lv (a_name a) =? 0) && (lv (a_form a) =? 0)) &&
  match a_const a with
  | Some l => (lv (a_form a) =? FORM_implicit_const) && sleb_wf l
  | None => negb (lv (a_form a) =? FORM_implicit_const)
  end.
Definition adecl_wf (d : adecl) : bool :=
  uleb_wf (d_code d) && negb (lv (d_code d) =? 0) && uleb_wf (d_tag d) &&
  forallb aspec_wf (d_attrs d) && uleb_ok 0 (d_end_name d) && uleb_ok 0 (d_end_form d).

Fixpoint zmem (x : Z) (l : list Z) : bool :=
  match l with [] => false | y :: r => (y =? x) || zmem x r end.
Fixpoint znodup (l : list Z) : bool :=
  match l with [] => true | x :: r => negb (zmem x r) && znodup r end.

Definition atable_wf (t : atable) : bool :=
  forallb adecl_wf (t_decls t) && uleb_ok 0 (t_end t) &&
  znodup (map (fun d => lv (d_code d)) (t_decls t)).

Fixpoint find_decl (ds : list adecl) (code : Z) : option adecl :=
  match ds with
  | [] => None
  | d :: r => if lv (d_code d) =? code then Some d else find_decl r code
  end.

(* ------------------------------------------------------------------ entries and trees (§2.3, §7.5.2) *)
Inductive die : Type :=
| Node (code : lebn) (vals : list operand) (kids : list die) (term : list Z).
   (* term: encoding of the null entry that closes the sibling list of the children;
      present in the bytes iff the abbreviation says DW_CHILDREN_yes *)

Inductive fentry : Type :=
| FEntry (code : lebn) (vals : list operand)
| FNull (enc : list Z).

Definition has_kids (ds : list adecl) (code : Z) : bool :=
  match find_decl ds code with Some d => d_kids d | None => false end.

(* pre-order flattening; one null entry closes each sibling list *)
Fixpoint flatten (ds : list adecl) (d : die) : list fentry :=
  match d with
  | Node c vs ks tm =>
      FEntry c vs :: (if has_kids ds (lv c) then flat_map (flatten ds) ks ++ [FNull tm] else [])
  end.

Definition form_class (c : cfg) (a : aspec) : option oclass := std_form_class c (lv (a_form a)).

Fixpoint encode_vals (c : cfg) (specs : list aspec) (vals : list operand) : list Z :=
  match specs, vals with
  | a :: sr, v :: vr =>
      match form_class c a with
      | Some k => encode_operand c k v ++ encode_vals c sr vr
      | None => []
      end
  | _, _ => []
  end.

Definition encode_entry (c : cfg) (ds : list adecl) (e : fentry) : list Z :=
  match e with
  | FEntry code vals =>
      lenc code ++ match find_decl ds (lv code) with
                   | Some d => encode_vals c (d_attrs d) vals
                   | None => []
                   end
  | FNull enc => enc
  end.
Definition encode_entries (c : cfg) (ds : list adecl) (es : list fentry) : list Z :=
  concat (map (encode_entry c ds) es).

Fixpoint vals_wf (c : cfg) (specs : list aspec) (vals : list operand) : bool :=
  match specs, vals with
  | [], [] => true
  | a :: sr, v :: vr =>
      match form_class c a with
      | Some k => operand_wf c k v && vals_wf c sr vr
      | None => false
      end
  | _, _ => false
  end.

(* an entry has at most one attribute with a given name (§2.2) *)
Definition names_distinct (d : adecl) : bool := znodup (map (fun a => lv (a_name a)) (d_attrs d)).

Definition entry_wf (c : cfg) (ds : list adecl) (e : fentry) : bool :=
  match e with
  | FEntry code vals =>
      uleb_wf code && negb (lv code =? 0) &&
      match find_decl ds (lv code) with
      | Some d => vals_wf c (d_attrs d) vals && names_distinct d
      | None => false
      end
  | FNull enc => uleb_ok 0 enc
  end.

(* childless abbreviation => no children in the tree *)
Fixpoint tree_wf (ds : list adecl) (d : die) : bool :=
  match d with
  | Node c vs ks tm =>
      (has_kids ds (lv c) || match ks with [] => true | _ => false end) &&
      forallb (tree_wf ds) ks
  end.

(* ------------------------------------------------------------------ unit headers *)
Inductive ukind : Type :=
| UKlegacy                                  (* v2-v4 compilation unit header in .debug_info *)
| UKcompile | UKpartial                     (* v5 §7.5.1.1 *)
| UKskeleton (dwo_id : Z) | UKsplit_compile (dwo_id : Z)       (* v5 §7.5.1.2 *)
| UKtype (sig : Z) (type_off : Z) | UKsplit_type (sig : Z) (type_off : Z)   (* v5 §7.5.1.3 *)
| UKtypes4 (sig : Z) (type_off : Z).        (* v4 §7.5.1.2 type unit header in .debug_types *)

Definition unit_type_code (k : ukind) : Z :=
  match k with
  | UKcompile => 1 | UKtype _ _ => 2 | UKpartial => 3 | UKskeleton _ => 4
  | UKsplit_compile _ => 5 | UKsplit_type _ _ => 6 | _ => 0
  end.

Definition kind_ok (c : cfg) (k : ukind) : bool :=
  match k with
  | UKlegacy => c_ver c <? 5
  | UKtypes4 _ _ => c_ver c =? 4
  | _ => c_ver c =? 5
  end.

Definition enc_off (c : cfg) (v : Z) : list Z := int_encode (c_le c) (off_size c) v.
Definition addr_size_z (c : cfg) : Z := if c_asz8 c then 8 else 4.

(* the header after the initial length *)
Definition encode_header_rest (c : cfg) (k : ukind) (abbrev_off : Z) : list Z :=
  let le := c_le c in
  int_encode le 2 (c_ver c) ++
  match k with
  | UKlegacy => enc_off c abbrev_off ++ [addr_size_z c]
  | UKtypes4 sig toff => enc_off c abbrev_off ++ [addr_size_z c] ++ int_encode le 8 sig ++ enc_off c toff
  | UKcompile | UKpartial => [unit_type_code k; addr_size_z c] ++ enc_off c abbrev_off
  | UKskeleton id | UKsplit_compile id =>
      [unit_type_code k; addr_size_z c] ++ enc_off c abbrev_off ++ int_encode le 8 id
  | UKtype sig toff | UKsplit_type sig toff =>
      [unit_type_code k; addr_size_z c] ++ enc_off c abbrev_off ++ int_encode le 8 sig ++ enc_off c toff
  end.

Definition off_ok (c : cfg) (v : Z) : bool := (0 <=? v) && (v <? 2 ^ (8 * Z.of_nat (off_size c))).
Definition u64_ok (v : Z) : bool := (0 <=? v) && (v <? 2 ^ 64).

Definition header_wf (c : cfg) (k : ukind) (abbrev_off : Z) : bool :=
  cfg_ok c && kind_ok c k && off_ok c abbrev_off &&
  match k with
  | UKskeleton id | UKsplit_compile id => u64_ok id
  | UKtype s t | UKsplit_type s t | UKtypes4 s t => u64_ok s && off_ok c t
  | _ => true
  end.

Record unit : Type := mkunit {
  u_cfg : cfg; u_kind : ukind; u_abbrev_off : Z; u_table : atable; u_root : die
}.

Definition unit_entries (u : unit) : list fentry := flatten (t_decls (u_table u)) (u_root u).
Definition unit_body (u : unit) : list Z :=
  encode_header_rest (u_cfg u) (u_kind u) (u_abbrev_off u) ++
  encode_entries (u_cfg u) (t_decls (u_table u)) (unit_entries u).
Definition unit_length (u : unit) : Z := zlen (unit_body u).
Definition encode_unit (u : unit) : list Z :=
  initial_length_encode (c_le (u_cfg u)) (unit_length u) (c_is64 (u_cfg u)) ++ unit_body u.
Definition header_size (u : unit) : Z :=
  initlen_size (u_cfg u) + zlen (encode_header_rest (u_cfg u) (u_kind u) (u_abbrev_off u)).

Definition unit_wf (u : unit) : bool :=
  header_wf (u_cfg u) (u_kind u) (u_abbrev_off u) &&
  atable_wf (u_table u) &&
  tree_wf (t_decls (u_table u)) (u_root u) &&
  forallb (entry_wf (u_cfg u) (t_decls (u_table u))) (unit_entries u) &&
  initial_length_wf (unit_length u) (c_is64 (u_cfg u)).

(* the abbreviation table of the unit sits at its offset in .debug_abbrev; the
   rest of that section is arbitrary *)
Definition table_at (abbrev_sec : list Z) (u : unit) : Prop :=
  exists tail, skipn (Z.to_nat (u_abbrev_off u)) abbrev_sec = encode_atable (u_table u) ++ tail
               /\ (Z.to_nat (u_abbrev_off u) < length abbrev_sec)%nat.

Fixpoint is_prefix (p l : list Z) : bool :=
  match p, l with
  | [], _ => true
  | x :: pr, y :: lr => (x =? y) && is_prefix pr lr
  | _ :: _, [] => false
  end.
Definition table_at_b (abbrev_sec : list Z) (u : unit) : bool :=
  (0 <=? u_abbrev_off u) && (u_abbrev_off u <? zlen abbrev_sec) &&
  is_prefix (encode_atable (u_table u)) (skipn (Z.to_nat (u_abbrev_off u)) abbrev_sec).

(* ------------------------------------------------------------------ expected results *)
Section Expect.
  Variables (name_tag name_at name_form : Z -> ename).   (* display names of numbers *)
  Variable c : cfg.

  Definition operand_size (k : oclass) (op : operand) : Z := zlen (encode_operand c k op).

  Fixpoint expect_attrs (specs : list aspec) (vals : list operand) (off : Z) : list xattr :=
    match specs, vals with
    | a :: sr, v :: vr =>
        match form_class c a with
        | Some k =>
            let raw := match a_const a with
                       | Some l => RInt (lv l)
                       | None => raw_of v
                       end in
            mkxattr (name_at (lv (a_name a))) (name_form (final_form (lv (a_form a)) v)) raw off (chain_length v)
            :: expect_attrs sr vr (off + operand_size k v)
        | None => []
        end
    | _, _ => []
    end.

  Definition expect_entry (ds : list adecl) (e : fentry) (off : Z) : xdie :=
    let size := zlen (encode_entry c ds e) in
    match e with
    | FEntry code vals =>
        match find_decl ds (lv code) with
        | Some d => mkxdie off size (lv code) (Some (name_tag (lv (d_tag d)))) (Some (d_kids d))
                           (expect_attrs (d_attrs d) vals (off + zlen (lenc code)))
        | None => mkxdie off size (lv code) None None []
        end
    | FNull enc => mkxdie off size 0 None None []
    end.

  (* offsets are the running sums of the sizes *)
  Fixpoint expect_entries (ds : list adecl) (es : list fentry) (off : Z) : list xdie :=
    match es with
    | [] => []
    | e :: r => expect_entry ds e off :: expect_entries ds r (off + zlen (encode_entry c ds e))
    end.
End Expect.

(* expected header observations *)
Record xheader : Type := mkxheader {
  xh_length : Z; xh_is64 : bool; xh_version : Z; xh_unit_type : option Z;
  xh_abbrev_off : Z; xh_addr_size : Z; xh_extra : list Z;   (* dwo_id | signature, type_offset *)
  xh_die_off : Z                                            (* offset of the first entry, relative to the unit *)
}.
Definition kind_extra (k : ukind) : list Z :=
  match k with
  | UKskeleton id | UKsplit_compile id => [id]
  | UKtype s t | UKsplit_type s t | UKtypes4 s t => [s; t]
  | _ => []
  end.
Definition expect_header (u : unit) : xheader :=
  mkxheader (unit_length u) (c_is64 (u_cfg u)) (c_ver (u_cfg u))
            (match u_kind u with UKlegacy | UKtypes4 _ _ => None | k => Some (unit_type_code k) end)
            (u_abbrev_off u) (addr_size_z (u_cfg u)) (kind_extra (u_kind u)) (header_size u).
