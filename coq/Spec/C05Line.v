(* Spec/C05Line.v — the DWARF line-number state machine, written from the standard
   (DWARF 5 section 6.2; identical in DWARF 2-4 except that op_index and
   maximum_operations_per_instruction appear in version 4 and the discriminator
   in version 4).  Nothing here is derived from pyelftools.

   6.2.2  state machine registers and their initial values
   6.2.5.1 special opcodes (operation advance, VLIW op_index arithmetic)
   6.2.5.2 standard opcodes 1..12
   6.2.5.3 extended opcodes 1..4; any other extended opcode is skipped by its length *)
From Coq Require Export String.
From PV Require Export Base.Bytes Spec.PrimSpec.

(* the header fields the machine reads (6.2.4) *)
Record lparams : Type := {
  p_min_inst : Z;          (* minimum_instruction_length            ubyte *)
  p_max_ops : Z;           (* maximum_operations_per_instruction    ubyte, 1 before version 4 *)
  p_default_is_stmt : Z;   (* default_is_stmt                       ubyte, a boolean *)
  p_line_base : Z;         (* line_base                             sbyte *)
  p_line_range : Z;        (* line_range                            ubyte *)
  p_opcode_base : Z        (* opcode_base                           ubyte *)
}.

(* the domain of the property: opcode_base 1..255, line_range 1..255, line_base -128..127,
   any minimum instruction length, at least one operation per instruction *)
Definition wf_params (p : lparams) : bool :=
  (0 <=? p_min_inst p) && (p_min_inst p <? 256) &&
  (1 <=? p_max_ops p) && (p_max_ops p <? 256) &&
  (0 <=? p_default_is_stmt p) && (p_default_is_stmt p <? 256) &&
  (-128 <=? p_line_base p) && (p_line_base p <? 128) &&
  (1 <=? p_line_range p) && (p_line_range p <? 256) &&
  (1 <=? p_opcode_base p) && (p_opcode_base p <? 256).

(* 6.2.2: the registers.  A row of the line-number matrix is a snapshot of them. *)
Record regs : Type := {
  r_address : Z;
  r_op_index : Z;
  r_file : Z;
  r_line : Z;
  r_column : Z;
  r_is_stmt : bool;
  r_basic_block : bool;
  r_end_sequence : bool;
  r_prologue_end : bool;
  r_epilogue_begin : bool;
  r_isa : Z;
  r_discriminator : Z
}.
Definition row : Type := regs.

(* Table 6.4: initial register values *)
Definition init_regs (p : lparams) : regs := {|
  r_address := 0; r_op_index := 0; r_file := 1; r_line := 1; r_column := 0;
  r_is_stmt := negb (p_default_is_stmt p =? 0);
  r_basic_block := false; r_end_sequence := false; r_prologue_end := false;
  r_epilogue_begin := false; r_isa := 0; r_discriminator := 0 |}.

(* abstract instructions *)
Inductive instr : Type :=
(* standard opcodes, 6.2.5.2 *)
| ICopy                           (* DW_LNS_copy 1 *)
| IAdvancePc (adv : Z)            (* DW_LNS_advance_pc 2, unsigned LEB128 operation advance *)
| IAdvanceLine (d : Z)            (* DW_LNS_advance_line 3, signed LEB128 *)
| ISetFile (n : Z)                (* DW_LNS_set_file 4 *)
| ISetColumn (n : Z)              (* DW_LNS_set_column 5 *)
| INegateStmt                     (* DW_LNS_negate_stmt 6 *)
| ISetBasicBlock                  (* DW_LNS_set_basic_block 7 *)
| IConstAddPc                     (* DW_LNS_const_add_pc 8 *)
| IFixedAdvancePc (n : Z)         (* DW_LNS_fixed_advance_pc 9, uhalf *)
| ISetPrologueEnd                 (* DW_LNS_set_prologue_end 10 *)
| ISetEpilogueBegin               (* DW_LNS_set_epilogue_begin 11 *)
| ISetIsa (n : Z)                 (* DW_LNS_set_isa 12 *)
(* extended opcodes, 6.2.5.3 *)
| IEndSequence                    (* DW_LNE_end_sequence 1 *)
| ISetAddress (a : Z)             (* DW_LNE_set_address 2, target address *)
| IDefineFile (name : list Z) (dir mtime len : Z)   (* DW_LNE_define_file 3 *)
| ISetDiscriminator (d : Z)       (* DW_LNE_set_discriminator 4 *)
| IExtUnknown (op : Z) (payload : list Z)   (* any other extended opcode: skipped by its length *)
(* special opcodes, 6.2.5.1: the opcode byte itself, opcode_base <= op <= 255 *)
| ISpecial (op : Z).

(* register updates *)
Definition set_addr_op (r : regs) (a o : Z) : regs := {|
  r_address := a; r_op_index := o; r_file := r_file r; r_line := r_line r; r_column := r_column r;
  r_is_stmt := r_is_stmt r; r_basic_block := r_basic_block r; r_end_sequence := r_end_sequence r;
  r_prologue_end := r_prologue_end r; r_epilogue_begin := r_epilogue_begin r; r_isa := r_isa r;
  r_discriminator := r_discriminator r |}.
Definition set_file (r : regs) (v : Z) : regs := {|
  r_address := r_address r; r_op_index := r_op_index r; r_file := v; r_line := r_line r; r_column := r_column r;
  r_is_stmt := r_is_stmt r; r_basic_block := r_basic_block r; r_end_sequence := r_end_sequence r;
  r_prologue_end := r_prologue_end r; r_epilogue_begin := r_epilogue_begin r; r_isa := r_isa r;
  r_discriminator := r_discriminator r |}.
Definition set_line (r : regs) (v : Z) : regs := {|
  r_address := r_address r; r_op_index := r_op_index r; r_file := r_file r; r_line := v; r_column := r_column r;
  r_is_stmt := r_is_stmt r; r_basic_block := r_basic_block r; r_end_sequence := r_end_sequence r;
  r_prologue_end := r_prologue_end r; r_epilogue_begin := r_epilogue_begin r; r_isa := r_isa r;
  r_discriminator := r_discriminator r |}.
Definition set_column (r : regs) (v : Z) : regs := {|
  r_address := r_address r; r_op_index := r_op_index r; r_file := r_file r; r_line := r_line r; r_column := v;
  r_is_stmt := r_is_stmt r; r_basic_block := r_basic_block r; r_end_sequence := r_end_sequence r;
  r_prologue_end := r_prologue_end r; r_epilogue_begin := r_epilogue_begin r; r_isa := r_isa r;
  r_discriminator := r_discriminator r |}.
Definition set_is_stmt (r : regs) (v : bool) : regs := {|
  r_address := r_address r; r_op_index := r_op_index r; r_file := r_file r; r_line := r_line r; r_column := r_column r;
  r_is_stmt := v; r_basic_block := r_basic_block r; r_end_sequence := r_end_sequence r;
  r_prologue_end := r_prologue_end r; r_epilogue_begin := r_epilogue_begin r; r_isa := r_isa r;
  r_discriminator := r_discriminator r |}.
Definition set_basic_block (r : regs) (v : bool) : regs := {|
  r_address := r_address r; r_op_index := r_op_index r; r_file := r_file r; r_line := r_line r; r_column := r_column r;
  r_is_stmt := r_is_stmt r; r_basic_block := v; r_end_sequence := r_end_sequence r;
  r_prologue_end := r_prologue_end r; r_epilogue_begin := r_epilogue_begin r; r_isa := r_isa r;
  r_discriminator := r_discriminator r |}.
Definition set_end_sequence (r : regs) (v : bool) : regs := {|
  r_address := r_address r; r_op_index := r_op_index r; r_file := r_file r; r_line := r_line r; r_column := r_column r;
  r_is_stmt := r_is_stmt r; r_basic_block := r_basic_block r; r_end_sequence := v;
  r_prologue_end := r_prologue_end r; r_epilogue_begin := r_epilogue_begin r; r_isa := r_isa r;
  r_discriminator := r_discriminator r |}.
Definition set_prologue_end (r : regs) (v : bool) : regs := {|
  r_address := r_address r; r_op_index := r_op_index r; r_file := r_file r; r_line := r_line r; r_column := r_column r;
  r_is_stmt := r_is_stmt r; r_basic_block := r_basic_block r; r_end_sequence := r_end_sequence r;
  r_prologue_end := v; r_epilogue_begin := r_epilogue_begin r; r_isa := r_isa r;
  r_discriminator := r_discriminator r |}.
Definition set_epilogue_begin (r : regs) (v : bool) : regs := {|
  r_address := r_address r; r_op_index := r_op_index r; r_file := r_file r; r_line := r_line r; r_column := r_column r;
  r_is_stmt := r_is_stmt r; r_basic_block := r_basic_block r; r_end_sequence := r_end_sequence r;
  r_prologue_end := r_prologue_end r; r_epilogue_begin := v; r_isa := r_isa r;
  r_discriminator := r_discriminator r |}.
Definition set_isa (r : regs) (v : Z) : regs := {|
  r_address := r_address r; r_op_index := r_op_index r; r_file := r_file r; r_line := r_line r; r_column := r_column r;
  r_is_stmt := r_is_stmt r; r_basic_block := r_basic_block r; r_end_sequence := r_end_sequence r;
  r_prologue_end := r_prologue_end r; r_epilogue_begin := r_epilogue_begin r; r_isa := v;
  r_discriminator := r_discriminator r |}.
Definition set_discriminator (r : regs) (v : Z) : regs := {|
  r_address := r_address r; r_op_index := r_op_index r; r_file := r_file r; r_line := r_line r; r_column := r_column r;
  r_is_stmt := r_is_stmt r; r_basic_block := r_basic_block r; r_end_sequence := r_end_sequence r;
  r_prologue_end := r_prologue_end r; r_epilogue_begin := r_epilogue_begin r; r_isa := r_isa r;
  r_discriminator := v |}.

(* 6.2.5.1: advancing by an "operation advance":
     new address  = address + minimum_instruction_length *
                              ((op_index + operation advance) / maximum_operations_per_instruction)
     new op_index = (op_index + operation advance) % maximum_operations_per_instruction *)
Definition advance (p : lparams) (r : regs) (operation_advance : Z) : regs :=
  let t := r_op_index r + operation_advance in
  set_addr_op r (r_address r + p_min_inst p * (t / p_max_ops p)) (t mod p_max_ops p).

(* what every row-appending instruction does afterwards (6.2.5.1 steps 4-7, DW_LNS_copy) *)
Definition after_row (r : regs) : regs :=
  set_epilogue_begin (set_prologue_end (set_basic_block (set_discriminator r 0) false) false) false.

(* one instruction: new registers, and the row appended to the matrix if any *)
Definition step_spec (p : lparams) (r : regs) (i : instr) : regs * option row :=
  match i with
  | ISpecial op =>
      let adjusted := op - p_opcode_base p in
      let r1 := advance p r (adjusted / p_line_range p) in
      let r2 := set_line r1 (r_line r1 + (p_line_base p + adjusted mod p_line_range p)) in
      (after_row r2, Some r2)
  | ICopy => (after_row r, Some r)
  | IAdvancePc adv => (advance p r adv, None)
  | IAdvanceLine d => (set_line r (r_line r + d), None)
  | ISetFile n => (set_file r n, None)
  | ISetColumn n => (set_column r n, None)
  | INegateStmt => (set_is_stmt r (negb (r_is_stmt r)), None)
  | ISetBasicBlock => (set_basic_block r true, None)
  | IConstAddPc => (advance p r ((255 - p_opcode_base p) / p_line_range p), None)
  | IFixedAdvancePc n => (set_addr_op r (r_address r + n) 0, None)
  | ISetPrologueEnd => (set_prologue_end r true, None)
  | ISetEpilogueBegin => (set_epilogue_begin r true, None)
  | ISetIsa n => (set_isa r n, None)
  | IEndSequence => (init_regs p, Some (set_end_sequence r true))
  | ISetAddress a => (set_addr_op r a 0, None)
  | IDefineFile _ _ _ _ => (r, None)
  | ISetDiscriminator d => (set_discriminator r d, None)
  | IExtUnknown _ _ => (r, None)
  end.

Definition opt_list {A} (o : option A) : list A := match o with Some x => [x] | None => [] end.

Fixpoint rows_from (p : lparams) (r : regs) (prog : list instr) : list row :=
  match prog with
  | [] => []
  | i :: rest => let '(r', o) := step_spec p r i in opt_list o ++ rows_from p r' rest
  end.
(* the line-number matrix of a program *)
Definition rows_spec (p : lparams) (prog : list instr) : list row := rows_from p (init_regs p) prog.

(* file entries a program adds to the header's file table (DW_LNE_define_file), in order *)
Record file_entry : Type := { fe_name : list Z; fe_dir : Z; fe_mtime : Z; fe_length : Z }.
Fixpoint defined_files (prog : list instr) : list file_entry :=
  match prog with
  | [] => []
  | IDefineFile n d m l :: rest => {| fe_name := n; fe_dir := d; fe_mtime := m; fe_length := l |} :: defined_files rest
  | _ :: rest => defined_files rest
  end.

(* ------------------------------------------------------------------ encoding *)
(* what the encoding of operands depends on besides the header *)
Record lcfg : Type := { c_le : bool; c_addr_size : nat }.
Definition wf_cfg (c : lcfg) : bool := (Nat.eqb (c_addr_size c) 4) || (Nat.eqb (c_addr_size c) 8).

(* every valid encoding of an instruction.  LEB128 operands and the length of an extended
   instruction may use any valid (also non-minimal) encoding.  The side conditions say when the
   instruction exists at all under this header: a standard opcode n is available only when
   n < opcode_base (otherwise that byte is a special opcode). *)
Inductive enc_instr (c : lcfg) (p : lparams) : instr -> list Z -> Prop :=
| E_copy : 1 < p_opcode_base p -> enc_instr c p ICopy [1]
| E_advance_pc n e : 2 < p_opcode_base p -> uleb_valid e n -> enc_instr c p (IAdvancePc n) (2 :: e)
| E_advance_line d e : 3 < p_opcode_base p -> sleb_valid e d -> enc_instr c p (IAdvanceLine d) (3 :: e)
| E_set_file n e : 4 < p_opcode_base p -> uleb_valid e n -> enc_instr c p (ISetFile n) (4 :: e)
| E_set_column n e : 5 < p_opcode_base p -> uleb_valid e n -> enc_instr c p (ISetColumn n) (5 :: e)
| E_negate_stmt : 6 < p_opcode_base p -> enc_instr c p INegateStmt [6]
| E_set_basic_block : 7 < p_opcode_base p -> enc_instr c p ISetBasicBlock [7]
| E_const_add_pc : 8 < p_opcode_base p -> enc_instr c p IConstAddPc [8]
| E_fixed_advance_pc n : 9 < p_opcode_base p -> 0 <= n < 65536 ->
    enc_instr c p (IFixedAdvancePc n) (9 :: int_encode (c_le c) 2 n)
| E_set_prologue_end : 10 < p_opcode_base p -> enc_instr c p ISetPrologueEnd [10]
| E_set_epilogue_begin : 11 < p_opcode_base p -> enc_instr c p ISetEpilogueBegin [11]
| E_set_isa n e : 12 < p_opcode_base p -> uleb_valid e n -> enc_instr c p (ISetIsa n) (12 :: e)
| E_end_sequence l : uleb_valid l 1 -> enc_instr c p IEndSequence (0 :: l ++ [1])
| E_set_address a l :
    uleb_valid l (1 + Z.of_nat (c_addr_size c)) -> 0 <= a < 2 ^ (8 * Z.of_nat (c_addr_size c)) ->
    enc_instr c p (ISetAddress a) (0 :: l ++ 2 :: int_encode (c_le c) (c_addr_size c) a)
| E_define_file name d m len l ed em el :
    no_nul name = true -> name <> [] ->
    uleb_valid ed d -> uleb_valid em m -> uleb_valid el len ->
    uleb_valid l (1 + (zlen name + 1) + zlen ed + zlen em + zlen el) ->
    enc_instr c p (IDefineFile name d m len) (0 :: l ++ 3 :: cstring_encode name ++ ed ++ em ++ el)
| E_set_discriminator d e l :
    uleb_valid e d -> uleb_valid l (1 + zlen e) ->
    enc_instr c p (ISetDiscriminator d) (0 :: l ++ 4 :: e)
| E_ext_unknown op payload l :
    0 <= op < 256 -> op <> 1 -> op <> 2 -> op <> 3 -> op <> 4 ->
    uleb_valid l (1 + zlen payload) ->
    enc_instr c p (IExtUnknown op payload) (0 :: l ++ op :: payload)
| E_special op : p_opcode_base p <= op <= 255 -> enc_instr c p (ISpecial op) [op].

(* a program is the concatenation of encodings of its instructions *)
Inductive enc_prog (c : lcfg) (p : lparams) : list instr -> list Z -> Prop :=
| EP_nil : enc_prog c p [] []
| EP_cons i e rest erest : enc_instr c p i e -> enc_prog c p rest erest ->
    enc_prog c p (i :: rest) (e ++ erest).

(* ------------------------------------------------------------------ executable encoder *)
(* used by the correspondence generator and the non-vacuity examples.  [k] extra continuation
   bytes on every LEB128 operand, [kl] on the length of an extended instruction. *)
Fixpoint sleb_pad_tail (neg : bool) (k : nat) : list Z :=
  match k with
  | O => [if neg then 127 else 0]
  | S j => (if neg then 255 else 128) :: sleb_pad_tail neg j
  end.
Fixpoint sleb_pad (bs : list Z) (neg : bool) (n : nat) : list Z :=
  match bs with
  | [] => []
  | b :: r =>
      match r with
      | [] => match n with O => [b] | S k => (b + 128) :: sleb_pad_tail neg k end
      | _ => b :: sleb_pad r neg n
      end
  end.
Definition uleb_enc (v : Z) (k : nat) : list Z := uleb_pad (uleb_encode v) k.
Definition sleb_enc (v : Z) (k : nat) : list Z := sleb_pad (sleb_encode v) (v <? 0) k.

Definition encode_ext (kl : nat) (body : list Z) : list Z := 0 :: uleb_enc (zlen body) kl ++ body.

Definition encode_instr (c : lcfg) (i : instr) (k kl : nat) : list Z :=
  match i with
  | ICopy => [1]
  | IAdvancePc n => 2 :: uleb_enc n k
  | IAdvanceLine d => 3 :: sleb_enc d k
  | ISetFile n => 4 :: uleb_enc n k
  | ISetColumn n => 5 :: uleb_enc n k
  | INegateStmt => [6]
  | ISetBasicBlock => [7]
  | IConstAddPc => [8]
  | IFixedAdvancePc n => 9 :: int_encode (c_le c) 2 n
  | ISetPrologueEnd => [10]
  | ISetEpilogueBegin => [11]
  | ISetIsa n => 12 :: uleb_enc n k
  | IEndSequence => encode_ext kl [1]
  | ISetAddress a => encode_ext kl (2 :: int_encode (c_le c) (c_addr_size c) a)
  | IDefineFile name d m len =>
      encode_ext kl (3 :: cstring_encode name ++ uleb_enc d k ++ uleb_enc m k ++ uleb_enc len k)
  | ISetDiscriminator d => encode_ext kl (4 :: uleb_enc d k)
  | IExtUnknown op payload => encode_ext kl (op :: payload)
  | ISpecial op => [op]
  end.

(* boolean form of the side conditions of enc_instr *)
Definition wf_instr (c : lcfg) (p : lparams) (i : instr) : bool :=
  match i with
  | ICopy => 1 <? p_opcode_base p
  | IAdvancePc n => (2 <? p_opcode_base p) && (0 <=? n)
  | IAdvanceLine _ => 3 <? p_opcode_base p
  | ISetFile n => (4 <? p_opcode_base p) && (0 <=? n)
  | ISetColumn n => (5 <? p_opcode_base p) && (0 <=? n)
  | INegateStmt => 6 <? p_opcode_base p
  | ISetBasicBlock => 7 <? p_opcode_base p
  | IConstAddPc => 8 <? p_opcode_base p
  | IFixedAdvancePc n => (9 <? p_opcode_base p) && (0 <=? n) && (n <? 65536)
  | ISetPrologueEnd => 10 <? p_opcode_base p
  | ISetEpilogueBegin => 11 <? p_opcode_base p
  | ISetIsa n => (12 <? p_opcode_base p) && (0 <=? n)
  | IEndSequence => true
  | ISetAddress a => (0 <=? a) && (a <? 2 ^ (8 * Z.of_nat (c_addr_size c)))
  | IDefineFile name d m len =>
      no_nul name && negb (Nat.eqb (length name) 0) && all_bytes name &&
      (0 <=? d) && (0 <=? m) && (0 <=? len)
  | ISetDiscriminator d => 0 <=? d
  | IExtUnknown op payload =>
      (0 <=? op) && (op <? 256) && negb (op =? 1) && negb (op =? 2) && negb (op =? 3) && negb (op =? 4) &&
      all_bytes payload
  | ISpecial op => (p_opcode_base p <=? op) && (op <=? 255)
  end.

(* a program with its per-instruction encoding choices *)
Definition encode_prog (c : lcfg) (prog : list (instr * nat * nat)) : list Z :=
  concat (map (fun '(i, k, kl) => encode_instr c i k kl) prog).
Definition wf_prog (c : lcfg) (p : lparams) (prog : list instr) : bool := forallb (wf_instr c p) prog.

(* ------------------------------------------------------------------ the standard's numbering *)
(* DWARF 5 Table 7.25 (standard opcodes) and Table 7.26 (extended opcodes; 0x03 is the
   DW_LNE_define_file of DWARF 2-4, reserved in DWARF 5) *)
Local Open Scope string_scope.
Definition spec_lns : list (string * Z) := [
  ("DW_LNS_copy", 0x01); ("DW_LNS_advance_pc", 0x02); ("DW_LNS_advance_line", 0x03);
  ("DW_LNS_set_file", 0x04); ("DW_LNS_set_column", 0x05); ("DW_LNS_negate_stmt", 0x06);
  ("DW_LNS_set_basic_block", 0x07); ("DW_LNS_const_add_pc", 0x08); ("DW_LNS_fixed_advance_pc", 0x09);
  ("DW_LNS_set_prologue_end", 0x0a); ("DW_LNS_set_epilogue_begin", 0x0b); ("DW_LNS_set_isa", 0x0c)].
Definition spec_lne : list (string * Z) := [
  ("DW_LNE_end_sequence", 0x01); ("DW_LNE_set_address", 0x02); ("DW_LNE_define_file", 0x03);
  ("DW_LNE_set_discriminator", 0x04); ("DW_LNE_lo_user", 0x80); ("DW_LNE_hi_user", 0xff)].
