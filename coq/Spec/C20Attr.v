(* Spec/C20Attr.v — what the bytes of a build-attributes section MEAN.
   Sources: "Addenda to, and Errata in, the ABI for the Arm Architecture" (IHI 0045),
   section "Build attributes" (formal syntax of a public attributes section, the tag
   table, Tag_compatibility, Tag_also_compatible_with) and the RISC-V psABI
   (chapter "Attributes").

     section        ::= 'A' subsection*
     subsection     ::= uint32:length  NTBS:vendor-name  sub-subsection*
                        (length counts itself, the name and the data)
     sub-subsection ::= Tag_File(1)    uint32:size  attribute*
                      | Tag_Section(2) uint32:size  uleb128:section-number* 0  attribute*
                      | Tag_Symbol(3)  uint32:size  uleb128:symbol-number*  0  attribute*
                        (size counts the tag, itself and everything that follows)
     attribute      ::= uleb128:tag value          value kind fixed by the tag
   uint32 are in the byte order of the file; every uleb128 may be any valid
   (also non-minimal) encoding, which is why every number carries a padding count. *)
From PV Require Export Base.Bytes Spec.PrimSpec Model.C20Types.
Open Scope string_scope.
Open Scope list_scope.
Open Scope Z_scope.

(* all valid ULEB128 encodings of v: the minimal one followed by [pad] redundant groups *)
Definition upad (v : Z) (pad : nat) : list Z := uleb_pad (uleb_encode v) pad.

(* ---- the tag tables, names in the spelling of the library (TAG_ + upper case) ---- *)
(* IHI 0045, table "Summary of public tags" *)
Definition spec_attr_tag_arm : list (string * Z) := [
  ("TAG_FILE", 1); ("TAG_SECTION", 2); ("TAG_SYMBOL", 3);
  ("TAG_CPU_RAW_NAME", 4); ("TAG_CPU_NAME", 5); ("TAG_CPU_ARCH", 6); ("TAG_CPU_ARCH_PROFILE", 7);
  ("TAG_ARM_ISA_USE", 8); ("TAG_THUMB_ISA_USE", 9); ("TAG_FP_ARCH", 10); ("TAG_WMMX_ARCH", 11);
  ("TAG_ADVANCED_SIMD_ARCH", 12); ("TAG_PCS_CONFIG", 13); ("TAG_ABI_PCS_R9_USE", 14);
  ("TAG_ABI_PCS_RW_DATA", 15); ("TAG_ABI_PCS_RO_DATA", 16); ("TAG_ABI_PCS_GOT_USE", 17);
  ("TAG_ABI_PCS_WCHAR_T", 18); ("TAG_ABI_FP_ROUNDING", 19); ("TAG_ABI_FP_DENORMAL", 20);
  ("TAG_ABI_FP_EXCEPTIONS", 21); ("TAG_ABI_FP_USER_EXCEPTIONS", 22); ("TAG_ABI_FP_NUMBER_MODEL", 23);
  ("TAG_ABI_ALIGN_NEEDED", 24); ("TAG_ABI_ALIGN_PRESERVED", 25); ("TAG_ABI_ENUM_SIZE", 26);
  ("TAG_ABI_HARDFP_USE", 27); ("TAG_ABI_VFP_ARGS", 28); ("TAG_ABI_WMMX_ARGS", 29);
  ("TAG_ABI_OPTIMIZATION_GOALS", 30); ("TAG_ABI_FP_OPTIMIZATION_GOALS", 31);
  ("TAG_COMPATIBILITY", 32); ("TAG_CPU_UNALIGNED_ACCESS", 34); ("TAG_FP_HP_EXTENSION", 36);
  ("TAG_ABI_FP_16BIT_FORMAT", 38); ("TAG_MPEXTENSION_USE", 42); ("TAG_DIV_USE", 44);
  ("TAG_DSP_EXTENSION", 46); ("TAG_MVE_ARCH", 48); ("TAG_PAC_EXTENSION", 50); ("TAG_BTI_EXTENSION", 52);
  ("TAG_NODEFAULTS", 64); ("TAG_ALSO_COMPATIBLE_WITH", 65); ("TAG_T2EE_USE", 66);
  ("TAG_CONFORMANCE", 67); ("TAG_VIRTUALIZATION_USE", 68); ("TAG_MPEXTENSION_USE_OLD", 70);
  ("TAG_FRAMEPOINTER_USE", 72); ("TAG_BTI_USE", 74); ("TAG_PACRET_USE", 76) ].

(* RISC-V psABI, "List of attributes" *)
Definition spec_attr_tag_riscv : list (string * Z) := [
  ("TAG_FILE", 1); ("TAG_SECTION", 2); ("TAG_SYMBOL", 3);
  ("TAG_STACK_ALIGN", 4); ("TAG_ARCH", 5); ("TAG_UNALIGNED_ACCESS", 6);
  ("TAG_PRIV_SPEC", 8); ("TAG_PRIV_SPEC_MINOR", 10); ("TAG_PRIV_SPEC_REVISION", 12);
  ("TAG_ATOMIC_ABI", 14); ("TAG_X3_REG_USAGE", 16) ].

(* ---- value kind by tag ---- *)
Inductive vkind : Type :=
| KFile      (* Tag_File: uint32 size *)
| KScoped    (* Tag_Section / Tag_Symbol: uint32 size + number list *)
| KUleb      (* uleb128 *)
| KNtbs      (* NUL-terminated byte string *)
| KCompat    (* Tag_compatibility: uleb128 flag + NTBS vendor name *)
| KNested.   (* Tag_also_compatible_with: an NTBS holding one (tag, value) pair *)

(* IHI 0045: CPU_raw_name, CPU_name and conformance are NTBS; compatibility is
   uleb128 + NTBS; also_compatible_with is the nested pair; every other tag of the
   table is a uleb128 *)
Definition arm_kind (t : Z) : vkind :=
  if t =? 1 then KFile
  else if (t =? 2) || (t =? 3) then KScoped
  else if (t =? 4) || (t =? 5) || (t =? 67) then KNtbs
  else if t =? 32 then KCompat
  else if t =? 65 then KNested
  else KUleb.
(* psABI: Tag_RISCV_arch is an NTBS, all other tags are uleb128 *)
Definition riscv_kind (t : Z) : vkind :=
  if t =? 1 then KFile
  else if (t =? 2) || (t =? 3) then KScoped
  else if t =? 5 then KNtbs
  else KUleb.

Inductive flavour : Type := ARM | RISCV.
Definition tag_table (fl : flavour) : list (string * Z) :=
  match fl with ARM => spec_attr_tag_arm | RISCV => spec_attr_tag_riscv end.
Definition tag_kind (fl : flavour) : Z -> vkind :=
  match fl with ARM => arm_kind | RISCV => riscv_kind end.

Fixpoint name_of_tag (tbl : list (string * Z)) (t : Z) : option string :=
  match tbl with
  | [] => None
  | (n, v) :: r => if v =? t then Some n else name_of_tag r t
  end.
Definition tag_name (fl : flavour) (t : Z) : string :=
  match name_of_tag (tag_table fl) t with Some n => n | None => "" end.
Definition tag_known (fl : flavour) (t : Z) : bool :=
  match name_of_tag (tag_table fl) t with Some _ => true | None => false end.

Definition vkind_eqb (a b : vkind) : bool :=
  match a, b with
  | KFile, KFile | KScoped, KScoped | KUleb, KUleb | KNtbs, KNtbs
  | KCompat, KCompat | KNested, KNested => true
  | _, _ => false
  end.
Definition has_kind (fl : flavour) (t : Z) (k : vkind) : bool :=
  tag_known fl t && vkind_eqb (tag_kind fl t) k.

(* ---- attributes (everything but the three scope tags) ---- *)
Inductive sattr : Type :=
| AUleb (tag : Z) (tp : nat) (v : Z) (vp : nat)
| ANtbs (tag : Z) (tp : nat) (s : list Z)
| ACompat (tag : Z) (tp : nat) (v : Z) (vp : nat) (s : list Z)
  (* also_compatible_with: tag, then "uleb128 tag, uleb128 value, 0" or "uleb128 tag, NTBS" *)
| ANestUleb (tag : Z) (tp : nat) (itag : Z) (itp : nat) (v : Z) (vp : nat)
| ANestNtbs (tag : Z) (tp : nat) (itag : Z) (itp : nat) (s : list Z).

Definition enc_attr (a : sattr) : list Z :=
  match a with
  | AUleb tag tp v vp => upad tag tp ++ upad v vp
  | ANtbs tag tp s => upad tag tp ++ cstring_encode s
  | ACompat tag tp v vp s => upad tag tp ++ upad v vp ++ cstring_encode s
  | ANestUleb tag tp itag itp v vp => upad tag tp ++ upad itag itp ++ upad v vp ++ [0]
  | ANestNtbs tag tp itag itp s => upad tag tp ++ upad itag itp ++ cstring_encode s
  end.

Definition wf_attr (fl : flavour) (a : sattr) : bool :=
  match a with
  | AUleb tag _ v _ => has_kind fl tag KUleb && (0 <=? v)
  | ANtbs tag _ s => has_kind fl tag KNtbs && no_nul s
  | ACompat tag _ v _ s => has_kind fl tag KCompat && (0 <=? v) && no_nul s
  | ANestUleb tag _ itag _ v _ => has_kind fl tag KNested && has_kind fl itag KUleb && (0 <=? v)
  | ANestNtbs tag _ itag _ s => has_kind fl tag KNested && has_kind fl itag KNtbs && no_nul s
  end.

Definition expected_attr (fl : flavour) (a : sattr) : oattr :=
  match a with
  | AUleb tag _ v _ => (tag_name fl tag, OInt v, XNone)
  | ANtbs tag _ s => (tag_name fl tag, OStr s, XNone)
  | ACompat tag _ v _ s => (tag_name fl tag, OInt v, XStr s)
  | ANestUleb tag _ itag _ v _ => (tag_name fl tag, ONest (tag_name fl itag) (OInt v) XNone, XNone)
  | ANestNtbs tag _ itag _ s => (tag_name fl tag, ONest (tag_name fl itag) (OStr s) XNone, XNone)
  end.

(* ---- sub-subsections ---- *)
Record ssub : Type := {
  ss_scope : Z;                  (* 1 file, 2 section, 3 symbol *)
  ss_tp : nat;                   (* padding of the tag's uleb128 *)
  ss_nums : list (Z * nat);      (* section / symbol numbers, each with its padding *)
  ss_termpad : nat;              (* padding of the terminating 0 *)
  ss_attrs : list sattr }.

Definition enc_nums (nums : list (Z * nat)) (termpad : nat) : list Z :=
  List.concat (map (fun p => upad (fst p) (snd p)) nums) ++ uleb_pad_zero termpad.
Definition enc_attrs (l : list sattr) : list Z := List.concat (map enc_attr l).

Definition ssub_body (s : ssub) : list Z :=
  (if ss_scope s =? 1 then [] else enc_nums (ss_nums s) (ss_termpad s)) ++ enc_attrs (ss_attrs s).
Definition ssub_size (s : ssub) : Z :=
  zlen (upad (ss_scope s) (ss_tp s)) + 4 + zlen (ssub_body s).
Definition enc_ssub (le : bool) (s : ssub) : list Z :=
  upad (ss_scope s) (ss_tp s) ++ int_encode le 4 (ssub_size s) ++ ssub_body s.

Definition wf_ssub (fl : flavour) (s : ssub) : bool :=
  ((ss_scope s =? 1) && (match ss_nums s with [] => true | _ => false end)
   || (ss_scope s =? 2) || (ss_scope s =? 3))
  && forallb (fun p => 0 <? fst p) (ss_nums s)
  && forallb (wf_attr fl) (ss_attrs s)
  && (ssub_size s <? 2 ^ 32).

Definition expected_ssub (fl : flavour) (s : ssub) : osub :=
  ((tag_name fl (ss_scope s), OInt (ssub_size s),
    if ss_scope s =? 1 then XNone else XNums (map fst (ss_nums s))),
   map (expected_attr fl) (ss_attrs s)).

(* ---- subsections ---- *)
Record subsec : Type := { sb_vendor : list Z; sb_subs : list ssub }.

Definition enc_ssubs (le : bool) (l : list ssub) : list Z := List.concat (map (enc_ssub le) l).
Definition zsum (l : list Z) : Z := fold_right Z.add 0 l.
Definition ssubs_size (l : list ssub) : Z := zsum (map ssub_size l).
Definition subsec_length (s : subsec) : Z :=
  4 + (zlen (sb_vendor s) + 1) + ssubs_size (sb_subs s).
Definition enc_subsec (le : bool) (s : subsec) : list Z :=
  int_encode le 4 (subsec_length s) ++ cstring_encode (sb_vendor s) ++ enc_ssubs le (sb_subs s).

Definition wf_subsec (fl : flavour) (s : subsec) : bool :=
  no_nul (sb_vendor s) && forallb (wf_ssub fl) (sb_subs s) && (subsec_length s <? 2 ^ 32).

Definition expected_subsec (fl : flavour) (s : subsec) : osubsec :=
  (subsec_length s, sb_vendor s, map (expected_ssub fl) (sb_subs s)).

(* ---- the section ---- *)
Definition enc_subsecs (le : bool) (l : list subsec) : list Z := List.concat (map (enc_subsec le) l).
Definition enc_section (le : bool) (l : list subsec) : list Z := 65 :: enc_subsecs le l.
Definition wf_section (fl : flavour) (l : list subsec) : bool := forallb (wf_subsec fl) l.
Definition expected_section (fl : flavour) (l : list subsec) : list osubsec :=
  map (expected_subsec fl) l.

(* ---- field layouts of the structures (IHI 0045: uint32 length, NTBS vendor name;
        tags and values are uleb128, sizes are uint32, all in the file's byte order) ---- *)
Definition u32_kind (le : bool) : string := if le then "u32le" else "u32be".
Definition spec_attr_subsection_header (le : bool) : list (string * string) :=
  [("length", u32_kind le); ("vendor_name", "ntbs")].
