(* Spec/C08Hist.v — a relocation table OBJECT observed through a history of API calls.
   Property C08 says what a table yields ("exactly its encoded entries", "exactly the address
   sequence its anchors and bitmaps denote"); it names the observation points
   iter_relocations / num_relocations / get_relocation and, as state, the RELR memo
   RelrRelocationTable._cached_relocations.  A table is immutable data: what an observation
   answers is a function of the table's contents alone, whatever was asked of the same object
   before — including walks that were started and abandoned half way.

   This file fixes
   * the vocabulary: the operations a client can perform on one table object ([hop]) and what
     it can see of each ([ans]);
   * Python generator objects (language semantics, not library code): a generator is a
     suspended walk; next() resumes it for one item, close() / dropping it ends it;
   * the reference answers [spec_hist exp h] of a history [h] on a table whose stateless
     expansion is [exp]: every table-level question is answered from [exp]; the j-th next() of
     any generator yields the j-th element of [exp], no matter what else happened in between. *)
From PV Require Import Base.Bytes Base.Outcome.
Open Scope Z_scope.

(* ------------------------------------------------------------------ vocabulary *)
Inductive hop : Type :=
| HStart                (* g = table.iter_relocations(): a new generator; generators are numbered 0,1,.. in creation order *)
| HNext (g : nat)       (* next(g) *)
| HClose (g : nat)      (* g.close(); also: the last reference is dropped, a for loop over g is left by break *)
| HNum                  (* table.num_relocations() *)
| HGet (n : Z)          (* table.get_relocation(n) *)
| HIter.                (* list(table.iter_relocations()) *)

Inductive ans (A : Type) : Type :=
| AUnit                 (* nothing to see (start, close) *)
| AItem (a : A)         (* a relocation: next() yielded it / get_relocation returned it *)
| AStop                 (* StopIteration *)
| AInt (n : Z)
| AList (l : list A)
| AErr (e : err)        (* the call raised *)
| ANoGen.               (* the history names a generator that was never created: not a behaviour of anything *)
Arguments AUnit {A}.  Arguments AItem {A} a.  Arguments AStop {A}.  Arguments AInt {A} n.
Arguments AList {A} l.  Arguments AErr {A} e.  Arguments ANoGen {A}.

(* ------------------------------------------------------------------ Python generator objects *)
(* what one resumption of a walk does *)
Inductive gstep (A : Type) : Type := GYield (a : A) | GStop | GRaise (e : err).
Arguments GYield {A} a.  Arguments GStop {A}.  Arguments GRaise {A} e.

(* a generator object: how many items it has yielded, and whether it is finished (returned,
   raised or closed).  [walk i] is what the (i+1)-th resumption of a fresh walk does. *)
Record gen := mkGen { g_pos : nat; g_done : bool }.

Definition set_nth {A} (l : list A) (i : nat) (x : A) : list A := (firstn i l ++ x :: skipn (S i) l)%list.

Definition gen_op {A} (walk : nat -> gstep A) (gs : list gen) (o : hop) : list gen * ans A :=
  match o with
  | HStart => ((gs ++ [mkGen 0 false])%list, AUnit)
  | HNext g =>
      match nth_error gs g with
      | None => (gs, ANoGen)
      | Some s =>
          if g_done s then (gs, AStop)                      (* a finished generator keeps raising StopIteration *)
          else match walk (g_pos s) with
               | GYield a => (set_nth gs g (mkGen (S (g_pos s)) false), AItem a)
               | GStop => (set_nth gs g (mkGen (g_pos s) true), AStop)
               | GRaise e => (set_nth gs g (mkGen (g_pos s) true), AErr e)
               end
      end
  | HClose g =>
      match nth_error gs g with
      | None => (gs, ANoGen)
      | Some s => (set_nth gs g (mkGen (g_pos s) true), AUnit)
      end
  | _ => (gs, ANoGen)
  end.

(* ------------------------------------------------------------------ reference answers *)
(* the walk over a table whose expansion is [exp]: its elements in order, then the end; a table
   with no expansion (malformed: RELR bitmap without an anchor in front) fails at once *)
Definition spec_walk {A} (exp : res (list A)) (i : nat) : gstep A :=
  match exp with
  | Ok l => match nth_error l i with Some a => GYield a | None => GStop end
  | Err e => GRaise e
  end.

Definition spec_step {A} (exp : res (list A)) (gs : list gen) (o : hop) : list gen * ans A :=
  match o with
  | HNum => (gs, match exp with Ok l => AInt (zlen l) | Err e => AErr e end)
  | HGet n =>
      (gs, match exp with
           | Ok l => if (0 <=? n) && (n <? zlen l)
                     then match nth_error l (Z.to_nat n) with Some a => AItem a | None => AErr (EPy "IndexError"%string) end
                     else AErr (EPy "IndexError"%string)
           | Err e => AErr e
           end)
  | HIter => (gs, match exp with Ok l => AList l | Err e => AErr e end)
  | _ => gen_op (spec_walk exp) gs o
  end.

Fixpoint spec_run {A} (exp : res (list A)) (gs : list gen) (h : list hop) : list (ans A) :=
  match h with
  | [] => []
  | o :: r => let (gs', a) := spec_step exp gs o in a :: spec_run exp gs' r
  end.
Definition spec_hist {A} (exp : res (list A)) (h : list hop) : list (ans A) := spec_run exp [] h.

(* the domain of the history clause: get_relocation is asked for entries the table has
   (a negative or too large index is answered by Python's list / by whatever bytes follow the
   table: neither is the table's content).  [strict] = the index must also be below the count
   (REL/RELA tables compute a file offset from any n). *)
Definition hop_ok (strict : bool) (count : Z) (o : hop) : bool :=
  match o with
  | HGet n => (0 <=? n) && (negb strict || (n <? count))
  | _ => true
  end.
