(* Spec/C06Instr.v — call frame instructions and their byte encoding, written from the
   standard: DWARF 5 section 6.4.2 (operands) and section 7.24, Table 7.29 (numbering).
   Plus the two GNU extensions every producer for ELF targets emits:
     0x2d DW_CFA_GNU_window_save (SPARC) = DW_CFA_AARCH64_negate_ra_state, no operands
     0x2e DW_CFA_GNU_args_size, one ULEB128 operand.
   Nothing here is derived from pyelftools.

   LEB128 leaves the producer a choice (padding); so that the encoder reaches EVERY valid
   encoding, a LEB128 operand is the value together with the bytes chosen for it, and the
   well-formedness predicate says the bytes are a valid encoding of the value. *)
From PV Require Export Base.Bytes Spec.PrimSpec.
From Coq Require Export String.

Record lebval : Type := mkleb { lv : Z; lb : list Z }.

(* executable validity of a chosen encoding (sound w.r.t. uleb_valid / sleb_valid:
   Proofs/PrimProofs.uleb_spec_sound) *)
Definition wf_uleb (l : lebval) : bool :=
  all_bytes (lb l) &&
  match uleb_spec (lb l) with
  | Some (v, []) => v =? lv l
  | _ => false
  end.
Definition wf_sleb (l : lebval) : bool :=
  all_bytes (lb l) &&
  match sleb_spec (lb l) with
  | Some (v, []) => v =? lv l
  | _ => false
  end.

(* a DW_FORM_block / exprloc operand: ULEB128 length, then that many bytes *)
Definition wf_block (len : lebval) (e : list Z) : bool :=
  wf_uleb len && (lv len =? zlen e) && all_bytes e.

Inductive instr : Type :=
(* high 2 bits of the opcode byte carry the instruction, low 6 bits the first operand *)
| I_advance_loc (delta : Z)                        (* 0x1 : delta *)
| I_offset (reg : Z) (off : lebval)                   (* 0x2 : register ; ULEB128 offset *)
| I_restore (reg : Z)                              (* 0x3 : register *)
(* high 2 bits zero: the low 6 bits are the opcode *)
| I_nop                                            (* 0x00 *)
| I_set_loc (addr : Z)                             (* 0x01 address *)
| I_advance_loc1 (delta : Z)                       (* 0x02 1-byte delta *)
| I_advance_loc2 (delta : Z)                       (* 0x03 2-byte delta *)
| I_advance_loc4 (delta : Z)                       (* 0x04 4-byte delta *)
| I_offset_extended (reg off : lebval)                (* 0x05 ULEB128 register, ULEB128 offset *)
| I_restore_extended (reg : lebval)                   (* 0x06 ULEB128 register *)
| I_undefined (reg : lebval)                          (* 0x07 ULEB128 register *)
| I_same_value (reg : lebval)                         (* 0x08 ULEB128 register *)
| I_register (reg reg2 : lebval)                      (* 0x09 ULEB128 register, ULEB128 register *)
| I_remember_state                                 (* 0x0a *)
| I_restore_state                                  (* 0x0b *)
| I_def_cfa (reg off : lebval)                        (* 0x0c ULEB128 register, ULEB128 offset *)
| I_def_cfa_register (reg : lebval)                   (* 0x0d ULEB128 register *)
| I_def_cfa_offset (off : lebval)                     (* 0x0e ULEB128 offset *)
| I_def_cfa_expression (len : lebval) (e : list Z)    (* 0x0f BLOCK *)
| I_expression (reg len : lebval) (e : list Z)        (* 0x10 ULEB128 register, BLOCK *)
| I_offset_extended_sf (reg off : lebval)             (* 0x11 ULEB128 register, SLEB128 offset *)
| I_def_cfa_sf (reg off : lebval)                     (* 0x12 ULEB128 register, SLEB128 offset *)
| I_def_cfa_offset_sf (off : lebval)                  (* 0x13 SLEB128 offset *)
| I_val_offset (reg off : lebval)                     (* 0x14 ULEB128, ULEB128 *)
| I_val_offset_sf (reg off : lebval)                  (* 0x15 ULEB128, SLEB128 *)
| I_val_expression (reg len : lebval) (e : list Z)    (* 0x16 ULEB128, BLOCK *)
(* vendor extensions (DW_CFA_lo_user 0x1c .. DW_CFA_hi_user 0x3f) *)
| I_GNU_window_save                                (* 0x2d, also DW_CFA_AARCH64_negate_ra_state *)
| I_GNU_args_size (n : lebval)                        (* 0x2e ULEB128 *)
(* further vendor opcodes of the binutils / LLVM registries.  pyelftools does not implement them
   today (it refuses them with DWARFError), so they are outside the theorems (wf_instr is false
   for them); they are specified here so that a port of them is checked against their definition
   by the correspondence as soon as the live module names them. *)
| I_MIPS_advance_loc8 (delta : Z)                  (* 0x1d ALWAYS an 8-byte delta (binutils byte_get 8) *)
| I_AARCH64_negate_ra_state_with_pc                (* 0x2c no operands *)
| I_GNU_negative_offset_extended (reg off : lebval).  (* 0x2f ULEB128 register, ULEB128 offset, negated *)

(* Table 7.29 with the names, for the comparison with the library's constants *)
Open Scope string_scope.
Definition spec_DW_CFA_core : list (string * Z) := [
  ("DW_CFA_advance_loc", 0x40); ("DW_CFA_offset", 0x80); ("DW_CFA_restore", 0xc0);
  ("DW_CFA_nop", 0x00); ("DW_CFA_set_loc", 0x01); ("DW_CFA_advance_loc1", 0x02);
  ("DW_CFA_advance_loc2", 0x03); ("DW_CFA_advance_loc4", 0x04);
  ("DW_CFA_offset_extended", 0x05); ("DW_CFA_restore_extended", 0x06);
  ("DW_CFA_undefined", 0x07); ("DW_CFA_same_value", 0x08); ("DW_CFA_register", 0x09);
  ("DW_CFA_remember_state", 0x0a); ("DW_CFA_restore_state", 0x0b);
  ("DW_CFA_def_cfa", 0x0c); ("DW_CFA_def_cfa_register", 0x0d); ("DW_CFA_def_cfa_offset", 0x0e);
  ("DW_CFA_def_cfa_expression", 0x0f); ("DW_CFA_expression", 0x10);
  ("DW_CFA_offset_extended_sf", 0x11); ("DW_CFA_def_cfa_sf", 0x12);
  ("DW_CFA_def_cfa_offset_sf", 0x13); ("DW_CFA_val_offset", 0x14);
  ("DW_CFA_val_offset_sf", 0x15); ("DW_CFA_val_expression", 0x16);
  ("DW_CFA_GNU_window_save", 0x2d); ("DW_CFA_AARCH64_negate_ra_state", 0x2d);
  ("DW_CFA_GNU_args_size", 0x2e)
].
(* names of the registries (binutils dwarf2.def, LLVM Dwarf.def) a library may or may not know *)
Definition spec_DW_CFA_vendor : list (string * Z) := [
  ("DW_CFA_lo_user", 0x1c); ("DW_CFA_MIPS_advance_loc8", 0x1d);
  ("DW_CFA_AARCH64_negate_ra_state_with_pc", 0x2c);
  ("DW_CFA_GNU_negative_offset_extended", 0x2f); ("DW_CFA_hi_user", 0x3f)
].
Definition spec_DW_CFA : list (string * Z) := spec_DW_CFA_core ++ spec_DW_CFA_vendor.
Close Scope string_scope.

(* the opcode byte *)
Definition opcode_of (i : instr) : Z :=
  match i with
  | I_advance_loc d => 0x40 + d
  | I_offset r _ => 0x80 + r
  | I_restore r => 0xc0 + r
  | I_nop => 0x00
  | I_set_loc _ => 0x01
  | I_advance_loc1 _ => 0x02
  | I_advance_loc2 _ => 0x03
  | I_advance_loc4 _ => 0x04
  | I_offset_extended _ _ => 0x05
  | I_restore_extended _ => 0x06
  | I_undefined _ => 0x07
  | I_same_value _ => 0x08
  | I_register _ _ => 0x09
  | I_remember_state => 0x0a
  | I_restore_state => 0x0b
  | I_def_cfa _ _ => 0x0c
  | I_def_cfa_register _ => 0x0d
  | I_def_cfa_offset _ => 0x0e
  | I_def_cfa_expression _ _ => 0x0f
  | I_expression _ _ _ => 0x10
  | I_offset_extended_sf _ _ => 0x11
  | I_def_cfa_sf _ _ => 0x12
  | I_def_cfa_offset_sf _ => 0x13
  | I_val_offset _ _ => 0x14
  | I_val_offset_sf _ _ => 0x15
  | I_val_expression _ _ _ => 0x16
  | I_GNU_window_save => 0x2d
  | I_GNU_args_size _ => 0x2e
  | I_MIPS_advance_loc8 _ => 0x1d
  | I_AARCH64_negate_ra_state_with_pc => 0x2c
  | I_GNU_negative_offset_extended _ _ => 0x2f
  end.

(* the operand bytes; [le] = byte order of the object file, [asize] = size of a target
   address in bytes (DW_CFA_set_loc is the only instruction whose size depends on it) *)
Definition operands_of (le : bool) (asize : nat) (i : instr) : list Z :=
  match i with
  | I_advance_loc _ | I_restore _ | I_nop | I_remember_state | I_restore_state
  | I_GNU_window_save | I_AARCH64_negate_ra_state_with_pc => []
  | I_MIPS_advance_loc8 d => int_encode le 8 d
  | I_GNU_negative_offset_extended r o => lb r ++ lb o
  | I_offset _ o => lb o
  | I_set_loc a => int_encode le asize a
  | I_advance_loc1 d => int_encode le 1 d
  | I_advance_loc2 d => int_encode le 2 d
  | I_advance_loc4 d => int_encode le 4 d
  | I_offset_extended r o | I_register r o | I_def_cfa r o | I_val_offset r o
  | I_offset_extended_sf r o | I_def_cfa_sf r o | I_val_offset_sf r o => lb r ++ lb o
  | I_restore_extended r | I_undefined r | I_same_value r | I_def_cfa_register r
  | I_def_cfa_offset r | I_def_cfa_offset_sf r | I_GNU_args_size r => lb r
  | I_def_cfa_expression len e => lb len ++ e
  | I_expression r len e | I_val_expression r len e => lb r ++ lb len ++ e
  end.

Definition encode_instr (le : bool) (asize : nat) (i : instr) : list Z :=
  opcode_of i :: operands_of le asize i.

Definition encode_instrs (le : bool) (asize : nat) (is : list instr) : list Z :=
  List.concat (map (encode_instr le asize) is).

(* operand ranges *)
Definition fits_u (n : nat) (v : Z) : bool := (0 <=? v) && (v <? 2 ^ (8 * Z.of_nat n)).
Definition fits_s (n : nat) (v : Z) : bool :=
  (- (2 ^ (8 * Z.of_nat n) / 2) <=? v) && (v <? 2 ^ (8 * Z.of_nat n) / 2).

Definition wf_instr (asize : nat) (i : instr) : bool :=
  match i with
  | I_advance_loc d => (0 <=? d) && (d <? 64)
  | I_offset r o => (0 <=? r) && (r <? 64) && wf_uleb o
  | I_restore r => (0 <=? r) && (r <? 64)
  | I_nop | I_remember_state | I_restore_state | I_GNU_window_save => true
  | I_set_loc a => fits_u asize a
  | I_advance_loc1 d => fits_u 1 d
  | I_advance_loc2 d => fits_u 2 d
  | I_advance_loc4 d => fits_u 4 d
  | I_offset_extended r o | I_register r o | I_def_cfa r o | I_val_offset r o =>
      wf_uleb r && wf_uleb o
  | I_offset_extended_sf r o | I_def_cfa_sf r o | I_val_offset_sf r o =>
      wf_uleb r && wf_sleb o
  | I_restore_extended r | I_undefined r | I_same_value r | I_def_cfa_register r
  | I_def_cfa_offset r | I_GNU_args_size r => wf_uleb r
  | I_def_cfa_offset_sf o => wf_sleb o
  | I_def_cfa_expression len e => wf_block len e
  | I_expression r len e | I_val_expression r len e => wf_uleb r && wf_block len e
  | I_MIPS_advance_loc8 _ | I_AARCH64_negate_ra_state_with_pc
  | I_GNU_negative_offset_extended _ _ => false        (* not implemented: outside the theorems *)
  end.

(* well-formedness including the optional vendor opcodes (used by the correspondence only) *)
Definition wf_instr_ext (asize : nat) (i : instr) : bool :=
  match i with
  | I_MIPS_advance_loc8 d => fits_u 8 d
  | I_AARCH64_negate_ra_state_with_pc => true
  | I_GNU_negative_offset_extended r o => wf_uleb r && wf_uleb o
  | _ => wf_instr asize i
  end.
Definition is_optional (i : instr) : bool :=
  match i with
  | I_MIPS_advance_loc8 _ | I_AARCH64_negate_ra_state_with_pc
  | I_GNU_negative_offset_extended _ _ => true
  | _ => false
  end.

Definition wf_instrs (asize : nat) (is : list instr) : bool := forallb (wf_instr asize) is.

(* the part of well-formedness the table semantics needs: the operand embedded in the opcode
   byte has 6 bits (all other operands are unbounded integers there) *)
Definition low6_ok (i : instr) : bool :=
  match i with
  | I_advance_loc d => (0 <=? d) && (d <? 64)
  | I_offset r _ => (0 <=? r) && (r <? 64)
  | I_restore r => (0 <=? r) && (r <? 64)
  | I_MIPS_advance_loc8 _ | I_AARCH64_negate_ra_state_with_pc
  | I_GNU_negative_offset_extended _ _ => false        (* not implemented: outside the theorems *)
  | _ => true
  end.
Definition low6_all (is : list instr) : bool := forallb low6_ok is.

(* DW_CFA_set_loc: in .eh_frame the operand is encoded with the CIE's pointer encoding
   (a GNU convention outside DWARF); the property's domain keeps set_loc to sections where
   that encoding is the plain target address. *)
Definition is_set_loc (i : instr) : bool := match i with I_set_loc _ => true | _ => false end.
Definition no_set_loc (is : list instr) : bool := forallb (fun i => negb (is_set_loc i)) is.
