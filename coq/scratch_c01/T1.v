From Coq Require Import String.
From PV Require Import Base.Bytes Base.Outcome Base.Prim Base.Fmt Base.Enum Base.PyData.
From PV Require Import Proofs.FmtProofs Proofs.PrimProofs Proofs.ElfLayoutFacts Proofs.C01Lemmas.
From PV Require Import Spec.PrimSpec Spec.ElfGabi Spec.C01Obs Spec.C01Image Model.C01ElfFile Gen.ElfLayouts.
Open Scope string_scope.
Open Scope list_scope.
Open Scope Z_scope.

#[local] Arguments named : simpl never.
#[local] Arguments enum_lookup : simpl never.
#[local] Arguments table_of_id : simpl never.
#[local] Arguments table_id_for : simpl never.

Ltac strict_eval :=
  repeat match goal with
  | |- context [enum_lookup ?T true ?z] =>
      let r := eval vm_compute in (enum_lookup T true z) in
      change (enum_lookup T true z) with r
  end.

Lemma adapt_ehdr s :
  adapt (pick (i_is64 s) gen_binds_Elf_Ehdr_32 gen_binds_Elf_Ehdr_64)
        (annot_layout (L_ehdr s) (ehdr_vals s)) = Some (exp_ehdr s).
Proof.
  destruct s as [is64 le e secs segs k]. destruct e.
  destruct is64, le; cbn; rewrite ?enum_lookup_nonstrict; strict_eval; cbn; reflexivity.
Qed.
