(* Model/C01History.v — ELFFile as an object WITH STATE: the lazily built attribute
   _section_name_map (elffile.py: None until the first get_section_by_name /
   get_section_index / has_section, then the dict name -> index for the rest of the object's
   life) and call histories on one object: enumerations that are started and abandoned after
   k items (a generator that is not exhausted), full enumerations, and the three lookups.
   Everything else an ELFFile holds is fixed at construction (Model/C01ElfFile.v [elffile]).
   No proofs here: Proofs/C01History.v. *)
From Coq Require Import String.
From PV Require Import Base.Bytes Base.Outcome Base.Fmt Base.PyData.
From PV Require Import Spec.C01Obs Model.C01ElfFile.
Open Scope string_scope.
Open Scope Z_scope.

(* self._section_name_map *)
Definition hstate := option (dict (list Z) Z).

Inductive hop :=
| HTake (ty : option hval) (k : Z)   (* it = iter_sections(type=ty); list(islice(it, k)); it is dropped *)
| HIter (ty : option hval)           (* list(iter_sections(type=ty)) *)
| HSegs (ty : option hval)           (* list(iter_segments(type=ty)): creates every Segment object anew *)
| HHas (name : list Z)               (* has_section(name) *)
| HIndex (name : list Z)             (* get_section_index(name) *)
| HByName (name : list Z).           (* get_section_by_name(name) *)

Inductive hans :=
| ASects (l : list sect)
| ASegs (l : list segm)
| ABool (b : bool)
| AIndex (i : option Z)
| ASect (x : option sect).

(* the first k items of the generator iter_sections(type): sections are instantiated one by
   one and nothing beyond the k-th match is touched *)
Fixpoint take_sections (ef : elffile) (ty : option hval) (idx : list Z) (k : nat) : res (list sect) :=
  match k with
  | O => Ok []
  | S k' =>
      match idx with
      | [] => Ok []
      | i :: t =>
          do s <- get_section ef i;
          if match ty with None => true | Some v => hval_eqb (hty (s_hdr s) "sh_type") v end
          then (do r <- take_sections ef ty t k'; Ok (s :: r))
          else take_sections ef ty t k
      end
  end.

Definition iter_sections_take (ef : elffile) (ty : option hval) (k : Z) : res (list sect) :=
  if k <=? 0 then Ok []                         (* islice(it, 0) never resumes the generator *)
  else do n <- num_sections ef;
       take_sections ef ty (range (loop_bound (ef_core ef) n)) (Z.to_nat k).

(* _make_section_name_map when an exception escapes from it: the dict was assigned first and
   holds the names seen so far *)
Fixpoint name_map_fill (ef : elffile) (idx : list Z) (m : dict (list Z) Z) : dict (list Z) Z :=
  match idx with
  | [] => m
  | i :: t => match get_section ef i with
              | Ok s => name_map_fill ef t (dict_set bytes_eqb m (s_name s) i)
              | Err _ => m
              end
  end.
Definition partial_name_map (ef : elffile) : dict (list Z) Z :=
  match num_sections ef with
  | Ok n => name_map_fill ef (range (loop_bound (ef_core ef) n)) []
  | Err _ => []
  end.

(* `if self._section_name_map is None: self._make_section_name_map()` *)
Definition ensure_map (ef : elffile) (st : hstate) : hstate * res (dict (list Z) Z) :=
  match st with
  | Some m => (st, Ok m)
  | None => match make_section_name_map ef with
            | Ok m => (Some m, Ok m)
            | Err e => (Some (partial_name_map ef), Err e)
            end
  end.

Definition hstep (ef : elffile) (st : hstate) (op : hop) : hstate * res hans :=
  match op with
  | HTake ty k => (st, do l <- iter_sections_take ef ty k; Ok (ASects l))
  | HIter ty => (st, do l <- iter_sections ef ty; Ok (ASects l))
  | HSegs ty => (st, do l <- iter_segments ef ty; Ok (ASegs l))
  | HHas name =>
      let (st', m) := ensure_map ef st in
      (st', do d <- m; Ok (ABool (memb bytes_eqb name (dict_keys d))))
  | HIndex name =>
      let (st', m) := ensure_map ef st in
      (st', do d <- m; Ok (AIndex (PyData.dict_get bytes_eqb d name)))
  | HByName name =>
      let (st', m) := ensure_map ef st in
      (st', do d <- m;
            match PyData.dict_get bytes_eqb d name with
            | None => Ok (ASect None)
            | Some secnum => do s <- get_section ef secnum; Ok (ASect (Some s))
            end)
  end.

(* a history on one object, answers in order *)
Fixpoint hrun (ef : elffile) (st : hstate) (ops : list hop) : hstate * list (res hans) :=
  match ops with
  | [] => (st, [])
  | op :: t =>
      let (st1, a) := hstep ef st op in
      let (st2, r) := hrun ef st1 t in
      (st2, a :: r)
  end.
