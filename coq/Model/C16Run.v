(* Model/C16Run.v — the form of Prim.block_decode the C16 driver runs: it compares the announced length with
   what is left before counting, so a length of 2^63 or 2^70 costs nothing.  Equal to Prim.block_decode on every
   input (Proofs/PyFunsC16.v block_decode_run_eq, Props/C16.v C16_block_run_is_model). *)
From PV Require Import Base.Prim.

Definition block_decode_run (len : dec Z) : dec (list Z) := fun bs =>
  match len bs with
  | Some (n, r) => if (Z.of_nat (length r) <? n)%Z then None else block_decode len bs
  | None => None
  end.
