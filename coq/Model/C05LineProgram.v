(* Model/C05LineProgram.v — transliteration of elftools/dwarf/lineprogram.py
   (LineState, LineProgram._decode_line_program).  No proofs here.

   Conventions: the stream is the list of bytes from the current position on; every
   struct_parse(...) is a Base/Prim decoder whose None is the ELFParseError struct_parse raises.
   DW_LNS_* / DW_LNE_* are the live constants of dwarf/constants.py (Gen/C05Tables.v). *)
From PV Require Export Base.Outcome Base.Prim Spec.C05Line.
From PV Require Import Gen.C05Tables.
Open Scope list_scope.
Open Scope Z_scope.

(* class LineState.  is_stmt holds header['default_is_stmt'] (an int) until
   DW_LNS_negate_stmt replaces it by a Python bool (False = 0, True = 1). *)
Record lstate : Type := {
  s_address : Z;
  s_file : Z;
  s_line : Z;
  s_column : Z;
  s_op_index : Z;
  s_is_stmt : Z;
  s_basic_block : bool;
  s_end_sequence : bool;
  s_prologue_end : bool;
  s_epilogue_begin : bool;
  s_isa : Z;
  s_discriminator : Z
}.

(* LineState.__init__(default_is_stmt) *)
Definition LineState (default_is_stmt : Z) : lstate := {|
  s_address := 0; s_file := 1; s_line := 1; s_column := 0; s_op_index := 0;
  s_is_stmt := default_is_stmt; s_basic_block := false; s_end_sequence := false;
  s_prologue_end := false; s_epilogue_begin := false; s_isa := 0; s_discriminator := 0 |}.

(* attribute assignments *)
Definition upd_address (s : lstate) (v : Z) : lstate := {|
  s_address := v; s_file := s_file s; s_line := s_line s; s_column := s_column s; s_op_index := s_op_index s;
  s_is_stmt := s_is_stmt s; s_basic_block := s_basic_block s; s_end_sequence := s_end_sequence s;
  s_prologue_end := s_prologue_end s; s_epilogue_begin := s_epilogue_begin s; s_isa := s_isa s;
  s_discriminator := s_discriminator s |}.
Definition upd_file (s : lstate) (v : Z) : lstate := {|
  s_address := s_address s; s_file := v; s_line := s_line s; s_column := s_column s; s_op_index := s_op_index s;
  s_is_stmt := s_is_stmt s; s_basic_block := s_basic_block s; s_end_sequence := s_end_sequence s;
  s_prologue_end := s_prologue_end s; s_epilogue_begin := s_epilogue_begin s; s_isa := s_isa s;
  s_discriminator := s_discriminator s |}.
Definition upd_line (s : lstate) (v : Z) : lstate := {|
  s_address := s_address s; s_file := s_file s; s_line := v; s_column := s_column s; s_op_index := s_op_index s;
  s_is_stmt := s_is_stmt s; s_basic_block := s_basic_block s; s_end_sequence := s_end_sequence s;
  s_prologue_end := s_prologue_end s; s_epilogue_begin := s_epilogue_begin s; s_isa := s_isa s;
  s_discriminator := s_discriminator s |}.
Definition upd_column (s : lstate) (v : Z) : lstate := {|
  s_address := s_address s; s_file := s_file s; s_line := s_line s; s_column := v; s_op_index := s_op_index s;
  s_is_stmt := s_is_stmt s; s_basic_block := s_basic_block s; s_end_sequence := s_end_sequence s;
  s_prologue_end := s_prologue_end s; s_epilogue_begin := s_epilogue_begin s; s_isa := s_isa s;
  s_discriminator := s_discriminator s |}.
Definition upd_op_index (s : lstate) (v : Z) : lstate := {|
  s_address := s_address s; s_file := s_file s; s_line := s_line s; s_column := s_column s; s_op_index := v;
  s_is_stmt := s_is_stmt s; s_basic_block := s_basic_block s; s_end_sequence := s_end_sequence s;
  s_prologue_end := s_prologue_end s; s_epilogue_begin := s_epilogue_begin s; s_isa := s_isa s;
  s_discriminator := s_discriminator s |}.
Definition upd_is_stmt (s : lstate) (v : Z) : lstate := {|
  s_address := s_address s; s_file := s_file s; s_line := s_line s; s_column := s_column s; s_op_index := s_op_index s;
  s_is_stmt := v; s_basic_block := s_basic_block s; s_end_sequence := s_end_sequence s;
  s_prologue_end := s_prologue_end s; s_epilogue_begin := s_epilogue_begin s; s_isa := s_isa s;
  s_discriminator := s_discriminator s |}.
Definition upd_basic_block (s : lstate) (v : bool) : lstate := {|
  s_address := s_address s; s_file := s_file s; s_line := s_line s; s_column := s_column s; s_op_index := s_op_index s;
  s_is_stmt := s_is_stmt s; s_basic_block := v; s_end_sequence := s_end_sequence s;
  s_prologue_end := s_prologue_end s; s_epilogue_begin := s_epilogue_begin s; s_isa := s_isa s;
  s_discriminator := s_discriminator s |}.
Definition upd_end_sequence (s : lstate) (v : bool) : lstate := {|
  s_address := s_address s; s_file := s_file s; s_line := s_line s; s_column := s_column s; s_op_index := s_op_index s;
  s_is_stmt := s_is_stmt s; s_basic_block := s_basic_block s; s_end_sequence := v;
  s_prologue_end := s_prologue_end s; s_epilogue_begin := s_epilogue_begin s; s_isa := s_isa s;
  s_discriminator := s_discriminator s |}.
Definition upd_prologue_end (s : lstate) (v : bool) : lstate := {|
  s_address := s_address s; s_file := s_file s; s_line := s_line s; s_column := s_column s; s_op_index := s_op_index s;
  s_is_stmt := s_is_stmt s; s_basic_block := s_basic_block s; s_end_sequence := s_end_sequence s;
  s_prologue_end := v; s_epilogue_begin := s_epilogue_begin s; s_isa := s_isa s;
  s_discriminator := s_discriminator s |}.
Definition upd_epilogue_begin (s : lstate) (v : bool) : lstate := {|
  s_address := s_address s; s_file := s_file s; s_line := s_line s; s_column := s_column s; s_op_index := s_op_index s;
  s_is_stmt := s_is_stmt s; s_basic_block := s_basic_block s; s_end_sequence := s_end_sequence s;
  s_prologue_end := s_prologue_end s; s_epilogue_begin := v; s_isa := s_isa s;
  s_discriminator := s_discriminator s |}.
Definition upd_isa (s : lstate) (v : Z) : lstate := {|
  s_address := s_address s; s_file := s_file s; s_line := s_line s; s_column := s_column s; s_op_index := s_op_index s;
  s_is_stmt := s_is_stmt s; s_basic_block := s_basic_block s; s_end_sequence := s_end_sequence s;
  s_prologue_end := s_prologue_end s; s_epilogue_begin := s_epilogue_begin s; s_isa := v;
  s_discriminator := s_discriminator s |}.
Definition upd_discriminator (s : lstate) (v : Z) : lstate := {|
  s_address := s_address s; s_file := s_file s; s_line := s_line s; s_column := s_column s; s_op_index := s_op_index s;
  s_is_stmt := s_is_stmt s; s_basic_block := s_basic_block s; s_end_sequence := s_end_sequence s;
  s_prologue_end := s_prologue_end s; s_epilogue_begin := s_epilogue_begin s; s_isa := s_isa s;
  s_discriminator := v |}.

(* LineProgramEntry(command, is_extended, args, state).  args are the numeric arguments; for
   DW_LNE_define_file (whose argument is the parsed file entry) they are [dir_index; mtime; length]
   and the entry itself is reported in st_files below. *)
Record lentry : Type := {
  e_command : Z;
  e_is_extended : bool;
  e_args : list Z;
  e_state : option lstate
}.

(* result of one iteration of the while loop *)
Record step_out : Type := {
  o_state : lstate;            (* the `state` variable afterwards *)
  o_entries : list lentry;     (* what was appended to `entries` *)
  o_files : list file_entry;   (* what was appended to self['file_entry'] *)
  o_rest : list Z;             (* the stream from stream.tell() on *)
  o_consumed : Z               (* stream.tell() - offset *)
}.

(* add_entry_new_state: append copy.copy(state), then clear some registers *)
Definition add_entry_new_state (cmd : Z) (args : list Z) (is_extended : bool) (state : lstate)
  : lentry * lstate :=
  ({| e_command := cmd; e_is_extended := is_extended; e_args := args; e_state := Some state |},
   upd_epilogue_begin (upd_prologue_end (upd_basic_block (upd_discriminator state 0) false) false) false).
(* add_entry_old_state *)
Definition add_entry_old_state (cmd : Z) (args : list Z) (is_extended : bool) : lentry :=
  {| e_command := cmd; e_is_extended := is_extended; e_args := args; e_state := None |}.

(* `not x` on an int or bool, as a Python bool *)
Definition py_not (x : Z) : Z := if x =? 0 then 1 else 0.

Definition rd_uint8 (bs : list Z) : res (Z * list Z) := of_opt EParse (uint_decode true 1 bs).
Definition rd_uleb (bs : list Z) : res (Z * list Z) := of_opt EParse (uleb_decode bs).
Definition rd_sleb (bs : list Z) : res (Z * list Z) := of_opt EParse (sleb_decode bs).

(* structs.Dwarf_lineprog_file_entry: CString name; If(bool(name)): three ULEB128 *)
Definition file_entry_decode (bs : list Z) : res (file_entry * list Z) :=
  do (name, r0) <- of_opt EParse (cstring_decode bs);
  match name with
  | [] => Ok ({| fe_name := []; fe_dir := 0; fe_mtime := 0; fe_length := 0 |}, r0)
  | _ =>
      do (d, r1) <- rd_uleb r0;
      do (m, r2) <- rd_uleb r1;
      do (l, r3) <- rd_uleb r2;
      Ok ({| fe_name := name; fe_dir := d; fe_mtime := m; fe_length := l |}, r3)
  end.

(* stream.seek(n, os.SEEK_CUR), n >= 0, on the list of remaining bytes (written so that a huge n
   does not build a huge unary number when the model is run) *)
Definition seek_fwd (n : Z) (bs : list Z) : list Z :=
  if zlen bs <=? n then [] else skipn (Z.to_nat n) bs.

Definition out (st : lstate) (es : list lentry) (fs : list file_entry) (bs rest : list Z) : res step_out :=
  Ok {| o_state := st; o_entries := es; o_files := fs; o_rest := rest;
        o_consumed := zlen bs - zlen rest |}.

Section Step.
  Variable c : lcfg.             (* byte order and address size of self.structs *)
  Variable h : lparams.          (* the header fields the loop reads *)
  Variable appendable : bool.    (* self['file_entry'] is a list (versions 2-4), not a tuple or None *)

  (* advance_pc(operation_advance): the nested helper; returns the new state and address_addend *)
  Definition advance_pc (state : lstate) (operation_advance : Z) : lstate * Z :=
    let maximum_operations_per_instruction := p_max_ops h in
    let address_addend :=
      p_min_inst h * ((s_op_index state + operation_advance) / maximum_operations_per_instruction) in
    let state := upd_address state (s_address state + address_addend) in
    let state := upd_op_index state
                   ((s_op_index state + operation_advance) mod maximum_operations_per_instruction) in
    (state, address_addend).

  (* opcode >= opcode_base: "Special opcode (follow the recipe in 6.2.5.1)" *)
  Definition lp_special (state : lstate) (opcode : Z) (bs rest : list Z) : res step_out :=
    let maximum_operations_per_instruction := p_max_ops h in
    let adjusted_opcode := opcode - p_opcode_base h in
    let operation_advance := adjusted_opcode / p_line_range h in
    let address_addend :=
      p_min_inst h * ((s_op_index state + operation_advance) / maximum_operations_per_instruction) in
    let state := upd_address state (s_address state + address_addend) in
    let state := upd_op_index state
                   ((s_op_index state + operation_advance) mod maximum_operations_per_instruction) in
    let line_addend := p_line_base h + adjusted_opcode mod p_line_range h in
    let state := upd_line state (s_line state + line_addend) in
    let '(e, state) := add_entry_new_state opcode [line_addend; address_addend; s_op_index state] false state in
    out state [e] [] bs rest.

  (* opcode == 0: "Extended opcode" *)
  Definition lp_extended (state : lstate) (bs r1 : list Z) : res step_out :=
    do (inst_len, r2) <- rd_uleb r1;
    do (ex_opcode, r3) <- rd_uint8 r2;
    if ex_opcode =? DW_LNE_end_sequence then
      let state := upd_end_sequence state true in
      let '(e, _) := add_entry_new_state ex_opcode [] true state in
      (* reset state *)
      out (LineState (p_default_is_stmt h)) [e] [] bs r3
    else if ex_opcode =? DW_LNE_set_address then
      do (operand, r4) <- of_opt EParse (uint_decode (c_le c) (c_addr_size c) r3);
      let state := upd_address state operand in
      let state := upd_op_index state 0 in
      out state [add_entry_old_state ex_opcode [operand] true] [] bs r4
    else if ex_opcode =? DW_LNE_define_file then
      do (operand, r4) <- file_entry_decode r3;
      if appendable then
        out state [add_entry_old_state ex_opcode [fe_dir operand; fe_mtime operand; fe_length operand] true]
            [operand] bs r4
      else Err (EPy "AttributeError"%string)
    else if ex_opcode =? DW_LNE_set_discriminator then
      do (operand, r4) <- rd_uleb r3;
      out (upd_discriminator state operand) [] [] bs r4
    else
      (* self.stream.seek(inst_len - 1, os.SEEK_CUR): may step back one byte (inst_len = 0) or
         beyond the end of the stream *)
      if inst_len - 1 <? 0 then
        Ok {| o_state := state; o_entries := []; o_files := []; o_rest := r2;
              o_consumed := zlen bs - zlen r2 |}
      else
        Ok {| o_state := state; o_entries := []; o_files := [];
              o_rest := seek_fwd (inst_len - 1) r3;
              o_consumed := zlen bs - zlen r3 + (inst_len - 1) |}.

  (* 0 < opcode < opcode_base: "Standard opcode" *)
  Definition lp_standard (state : lstate) (opcode : Z) (bs r1 : list Z) : res step_out :=
    if opcode =? DW_LNS_copy then
      let '(e, state) := add_entry_new_state opcode [] false state in
      out state [e] [] bs r1
    else if opcode =? DW_LNS_advance_pc then
      do (operand, r2) <- rd_uleb r1;
      let '(state, address_addend) := advance_pc state operand in
      out state [add_entry_old_state opcode [address_addend] false] [] bs r2
    else if opcode =? DW_LNS_advance_line then
      do (operand, r2) <- rd_sleb r1;
      out (upd_line state (s_line state + operand)) [] [] bs r2
    else if opcode =? DW_LNS_set_file then
      do (operand, r2) <- rd_uleb r1;
      out (upd_file state operand) [add_entry_old_state opcode [operand] false] [] bs r2
    else if opcode =? DW_LNS_set_column then
      do (operand, r2) <- rd_uleb r1;
      out (upd_column state operand) [add_entry_old_state opcode [operand] false] [] bs r2
    else if opcode =? DW_LNS_negate_stmt then
      out (upd_is_stmt state (py_not (s_is_stmt state))) [add_entry_old_state opcode [] false] [] bs r1
    else if opcode =? DW_LNS_set_basic_block then
      out (upd_basic_block state true) [add_entry_old_state opcode [] false] [] bs r1
    else if opcode =? DW_LNS_const_add_pc then
      let adjusted_opcode := 255 - p_opcode_base h in
      let '(state, address_addend) := advance_pc state (adjusted_opcode / p_line_range h) in
      out state [add_entry_old_state opcode [address_addend] false] [] bs r1
    else if opcode =? DW_LNS_fixed_advance_pc then
      do (operand, r2) <- of_opt EParse (uint_decode (c_le c) 2 r1);
      let state := upd_address state (s_address state + operand) in
      let state := upd_op_index state 0 in
      out state [add_entry_old_state opcode [operand] false] [] bs r2
    else if opcode =? DW_LNS_set_prologue_end then
      out (upd_prologue_end state true) [add_entry_old_state opcode [] false] [] bs r1
    else if opcode =? DW_LNS_set_epilogue_begin then
      out (upd_epilogue_begin state true) [add_entry_old_state opcode [] false] [] bs r1
    else if opcode =? DW_LNS_set_isa then
      do (operand, r2) <- rd_uleb r1;
      out (upd_isa state operand) [add_entry_old_state opcode [operand] false] [] bs r2
    else
      (* dwarf_assert(False, 'Invalid standard line program opcode') *)
      Err EDwarf.

  (* one iteration of `while offset < self.program_end_offset` *)
  Definition lp_step (state : lstate) (bs : list Z) : res step_out :=
    do (opcode, r1) <- rd_uint8 bs;
    if opcode >=? p_opcode_base h then lp_special state opcode bs r1
    else if opcode =? 0 then lp_extended state bs r1
    else lp_standard state opcode bs r1.

  (* the loop.  [remaining] = program_end_offset - offset.  Each iteration consumes at least one
     byte, so the fuel S (length bs) given by the caller cannot run out (proved). *)
  Fixpoint lp_loop (fuel : nat) (state : lstate) (bs : list Z) (remaining : Z)
    : res (list lentry * list file_entry * Z * list Z) :=
    match fuel with
    | O => Err EFuel
    | S f =>
        if remaining <=? 0 then Ok ([], [], remaining, bs)
        else
          do o <- lp_step state bs;
          do (es, fs, rem', rest') <- lp_loop f (o_state o) (o_rest o) (remaining - o_consumed o);
          Ok (o_entries o ++ es, o_files o ++ fs, rem', rest')
    end.
End Step.

(* LineProgram._decode_line_program on a stream holding [sec], program extent [start, end_).
   Returns the entries, the file entries appended to the header, program_end_offset minus the
   final offset (0 = the loop stopped exactly at the end) and the unread rest of the stream. *)
Definition decode_line_program (c : lcfg) (h : lparams) (appendable : bool)
    (sec : list Z) (start end_ : Z) : res (list lentry * list file_entry * Z * list Z) :=
  lp_loop c h appendable (S (length sec)) (LineState (p_default_is_stmt h))
          (skipn (Z.to_nat start) sec) (end_ - start).

(* the line table: "looking only at entries with non-None state" *)
Fixpoint entry_states (es : list lentry) : list lstate :=
  match es with
  | [] => []
  | e :: r => match e_state e with Some s => s :: entry_states r | None => entry_states r end
  end.

(* a LineState as the registers it stands for: is_stmt by truth value *)
Definition regs_of (s : lstate) : regs := {|
  r_address := s_address s; r_op_index := s_op_index s; r_file := s_file s; r_line := s_line s;
  r_column := s_column s; r_is_stmt := negb (s_is_stmt s =? 0); r_basic_block := s_basic_block s;
  r_end_sequence := s_end_sequence s; r_prologue_end := s_prologue_end s;
  r_epilogue_begin := s_epilogue_begin s; r_isa := s_isa s; r_discriminator := s_discriminator s |}.

(* the rows of the line table, as registers *)
Definition rows_model (c : lcfg) (h : lparams) (appendable : bool) (sec : list Z) (start end_ : Z)
  : res (list regs) :=
  do (es, fs, rem, rest) <- decode_line_program c h appendable sec start end_;
  Ok (map regs_of (entry_states es)).
