(* Model/C10Machine.v — the C10 state machine: `step : state -> op -> state * answer`.

   Transliteration of the caching / cursor / generator skeleton of
     elftools/dwarf/dwarfinfo.py   get_CU_at, get_CU_containing, _parse_CUs_iter, iter_TUs/_parse_TUs_iter,
                                   _parse_debug_types, get_TU_by_sig8,
                                   _cached_CU_at_offset, _parse_CU_at_offset, get_abbrev_table,
                                   get_DIE_from_refaddr, line_program_for_CU,
                                   _parse_line_program_at_offset, CFI_entries, EH_CFI_entries
     elftools/dwarf/compileunit.py get_abbrev_table, get_top_DIE, get_DIE_from_refaddr,
                                   iter_DIEs, iter_DIE_children, _iter_DIE_subtree, _get_cached_DIE
     elftools/dwarf/die.py         __init__/_parse_DIE (cursor discipline only), get_parent,
                                   _search_ancestor_offspring, iter_children, iter_siblings,
                                   get_DIE_from_attribute, set_parent
     elftools/dwarf/lineprogram.py get_entries (memo, file_entry growth)
     elftools/dwarf/callframe.py   CFIEntry.get_decoded (memo; an FDE decodes through its CIE's memo)
     elftools/dwarf/abbrevtable.py __init__ (seek + parse)
     elftools/elf/elffile.py       num_sections, get_section, get_section_by_name,
                                   _make_section_name_map, iter_sections, get_segment
     elftools/elf/sections.py      SymbolTableSection.get_symbol/get_symbol_by_name/iter_symbols,
                                   StringTableSection.get_string
     elftools/elf/dynamic.py       Dynamic._get_tag/get_tag/num_tags/iter_tags
     elftools/common/utils.py      struct_parse (with / without stream_pos)

   What the bytes decode to is NOT modelled here: the machine is parameterised by the pure,
   relative parse functions of the immutable file (record [parsers], a Section variable).
   A read that the code makes with `stream_pos=` / after `stream.seek(...)` is written
   [seek sid pos ;; parse_stream p sid]; a read the code makes at the current position is
   written [parse_stream p sid] alone.  No proofs here. *)
From PV Require Export Model.C10Types.
From Coq Require Import ZArith List Bool.
Import ListNotations.
Open Scope Z_scope.

(* ------------------------------------------------------------------ the immutable file *)
Record shdr_raw := mk_shdr { sh_name : Z; sh_size_f : Z; sh_pid : Z; sh_eff : effects; sh_ty : Z (* sh_type *) }.
Record sym_raw := mk_sym { sy_name : Z; sy_pid : Z }.
Record dyn_raw := mk_dyn { dy_null : bool; dy_pid : Z; dy_eff : effects }.
Record phdr_raw := mk_phdr { ph_pid : Z; ph_eff : effects }.

Record parsers := mk_parsers {
  (* .debug_info *)
  p_info_size : Z;                                 (* debug_info_sec.size *)
  p_unit : Z -> res (unit_hdr * Z);                (* Dwarf_CU_header at a position: value, position after *)
  p_die : Z -> Z -> res (die_raw * Z);             (* unit offset -> position -> one DIE, position after *)
  (* .debug_types *)
  p_types_size : Z;                                (* debug_types_sec.size (0 when the section is absent) *)
  p_tu : Z -> res (tu_raw * Z);                    (* Dwarf_TU_header at a position: value, position after *)
  (* .debug_abbrev *)
  p_abbrev_size : Z;
  p_abbrev : Z -> res (Z * Z);                     (* a whole abbreviation table at a position *)
  (* .debug_line *)
  p_lphdr : Z -> Z -> res (lp_raw * Z);            (* unit offset (its structs) -> position -> header *)
  p_lpbody : Z -> Z -> Z -> res (lp_body * Z);     (* unit offset -> program start -> end -> entries, cursor after *)
  (* .debug_frame / .eh_frame: CallFrameInfo(...).get_entries() starts with an absolute read at 0 *)
  p_cfi : bool -> Z -> res (Z * Z);                (* eh? -> position (always 0) -> entries, cursor after *)
  p_cfi_count : bool -> Z;                         (* len(entries) *)
  p_cfi_kind : bool -> Z -> Z * Z;                 (* entries[i]: 0 = CIE, 1 = FDE, 2 = ZERO; index of entries[i].cie in the list *)
  p_cfi_table : bool -> Z -> option Z -> res Z;    (* _decode_CFI_table of entries[i], given the decoded table of its CIE *)
  (* ELF *)
  p_stream_len : Z; p_shoff : Z; p_shnum : Z; p_shentsize : Z; p_shstr_base : Z;
  p_shdr : Z -> res (shdr_raw * Z);
  p_cstr : Z -> res (Z * Z);                       (* parse_cstring_from_stream at a position: name, cursor after *)
  p_phoff : Z; p_phentsize : Z;
  p_phdr : Z -> res (phdr_raw * Z);
  p_sym_base : Z; p_sym_entsize : Z; p_sym_count : Z; p_strtab_base : Z;
  p_sym : Z -> res (sym_raw * Z);
  p_dyn_base : Z; p_dyn_entsize : Z;
  p_dyn : Z -> res (dyn_raw * Z)
}.

(* ------------------------------------------------------------------ a state-and-exception monad *)
Definition M (A : Type) := state -> state * res A.
Definition ret {A} (a : A) : M A := fun s => (s, Ok a).
Definition fail {A} (e : err) : M A := fun s => (s, Err e).
(* an exception keeps the side effects made before it was raised *)
Definition bindM {A B} (m : M A) (k : A -> M B) : M B :=
  fun s => match m s with (s1, Ok a) => k a s1 | (s1, Err e) => (s1, Err e) end.
Notation "x <- m ;; k" := (bindM m (fun x => k)) (at level 61, m at next level, right associativity).
Notation "m ;;; k" := (bindM m (fun _ => k)) (at level 61, right associativity).
Definition lift {A} (r : res A) : M A := fun s => (s, r).
Definition get_state : M state := fun s => (s, Ok s).
Definition modify (f : state -> state) : M unit := fun s => (f s, Ok tt).

(* ---- streams *)
Definition tell (sid : nat) : M Z := fun s => (s, Ok (nth sid (cur s) 0)).
Definition seek (sid : nat) (pos : Z) : M unit :=
  modify (fun s => set_cur s (upd_nth sid (fun _ => pos) (cur s))).
(* construct's parse_stream: reads at the cursor and advances it *)
Definition parse_stream {A} (p : Z -> res (A * Z)) (sid : nat) : M A :=
  pos <- tell sid ;;
  match p pos with
  | Ok (a, e) => seek sid e ;;; ret a
  | Err e => fail e
  end.
(* utils.struct_parse(struct, stream, stream_pos=None) *)
Definition struct_parse {A} (p : Z -> res (A * Z)) (sid : nat) (stream_pos : option Z) : M A :=
  match stream_pos with Some x => seek sid x | None => ret tt end ;;;
  parse_stream p sid.
(* absolute reads on other streams nested in a parse *)
Fixpoint apply_eff (eff : effects) : M unit :=
  match eff with
  | [] => ret tt
  | (sid, pos) :: r => seek sid pos ;;; apply_eff r
  end.

(* ---- heaps *)
Definition nth_res {A} (l : list A) (n : nat) : res A :=
  match nth_error l n with Some v => Ok v | None => Err (EPy "IndexError") end.
Definition get_die (id : nat) : M die_obj := fun s => (s, nth_res (dies s) id).
Definition get_cu (id : nat) : M cu_obj := fun s => (s, nth_res (cus s) id).
Definition alloc_die (d : die_obj) : M nat := fun s => (set_dies s (dies s ++ [d]), Ok (length (dies s))).
Definition alloc_cu (c : cu_obj) : M nat := fun s => (set_cus s (cus s ++ [c]), Ok (length (cus s))).
Definition upd_die (id : nat) (f : die_obj -> die_obj) : M unit :=
  modify (fun s => set_dies s (upd_nth id f (dies s))).
Definition upd_cu (id : nat) (f : cu_obj -> cu_obj) : M unit :=
  modify (fun s => set_cus s (upd_nth id f (cus s))).

Section Machine.
  Variable P : parsers.
  Variable fuel : nat.        (* bound on every Python `while`/recursion; theorems show it is never hit *)

  (* ================================================================ dwarfinfo.py: units *)

  (* DWARFInfo._parse_CU_at_offset:
       initial_length = struct_parse(the_Dwarf_uint32, stream, offset)
       cu_header = struct_parse(cu_structs.Dwarf_CU_header, stream, offset)
       cu_die_offset = stream.tell()
       return CompileUnit(header, self, structs, cu_offset=offset, cu_die_offset) *)
  Definition parse_CU_at_offset (offset : Z) : M nat :=
    h <- struct_parse (p_unit P) S_INFO (Some offset) ;;
    cu_die_offset <- tell S_INFO ;;
    alloc_cu (mk_cu offset h cu_die_offset None [] []).

  (* DWARFInfo._cached_CU_at_offset:
       i = bisect_right(self._cu_offsets_map, offset)
       if i >= 1 and offset == self._cu_offsets_map[i - 1]: return self._cu_cache[i - 1]
       cu = self._parse_CU_at_offset(offset)
       self._cu_offsets_map.insert(i, offset); self._cu_cache.insert(i, cu); return cu *)
  Definition cached_CU_at_offset (offset : Z) : M nat :=
    s <- get_state ;;
    let i := bisect_right (cu_keys s) offset in
    if (1 <=? i)%nat && (offset =? nth (i - 1) (cu_keys s) 0) then lift (nth_res (cu_objs s) (i - 1))
    else
      cu <- parse_CU_at_offset offset ;;
      modify (fun s => set_cu_cache s (list_insert i offset (cu_keys s)) (list_insert i cu (cu_objs s))) ;;;
      ret cu.

  (* DWARFInfo.get_CU_at *)
  Definition get_CU_at (offset : Z) : M nat :=
    if negb ((0 <=? offset) && (offset <? p_info_size P)) then fail EDwarf
    else cached_CU_at_offset offset.

  (* one resumption of DWARFInfo._parse_CUs_iter(offset):
       while offset < self.debug_info_sec.size:
           cu = self._cached_CU_at_offset(offset)
           offset = offset + cu['unit_length'] + cu.structs.initial_length_field_size()
           yield cu
     result: None = StopIteration, Some (cu, offset) = yielded cu, the local `offset` *)
  Definition cus_iter_next (offset : Z) : M (option (nat * Z)) :=
    if offset <? p_info_size P then
      cu <- cached_CU_at_offset offset ;;
      c <- get_cu cu ;;
      ret (Some (cu, offset + uh_size (c_hdr c)))
    else ret None.

  (* the loop of get_CU_containing over _parse_CUs_iter(start):
       for cu in self._parse_CUs_iter(start):
           if cu.cu_offset <= refaddr < cu.cu_offset + cu.size: return cu
       raise ValueError *)
  Fixpoint containing_loop (n : nat) (offset refaddr : Z) : M nat :=
    match n with
    | O => fail EFuel
    | S n' =>
        r <- cus_iter_next offset ;;
        match r with
        | None => fail (EPy "ValueError")
        | Some (cu, offset') =>
            c <- get_cu cu ;;
            if (c_off c <=? refaddr) && (refaddr <? c_off c + uh_size (c_hdr c)) then ret cu
            else containing_loop n' offset' refaddr
        end
    end.

  (* DWARFInfo.get_CU_containing:
       i = bisect_right(self._cu_offsets_map, refaddr)
       start = self._cu_offsets_map[i - 1] if i > 0 else 0 *)
  Definition get_CU_containing (refaddr : Z) : M nat :=
    if negb ((0 <=? refaddr) && (refaddr <? p_info_size P)) then fail EDwarf
    else
      s <- get_state ;;
      let i := bisect_right (cu_keys s) refaddr in
      start <- lift (if (0 <? i)%nat then py_index (cu_keys s) (Z.of_nat i - 1) else Ok 0) ;;
      containing_loop fuel start refaddr.

  (* ================================================================ type units *)

  (* DWARFInfo._parse_TU_at_offset: struct_parse(the_Dwarf_uint32, stream, offset); struct_parse(Dwarf_TU_header,
     stream, offset); tu_die_offset = stream.tell(): a NEW TypeUnit object on every call *)
  Definition parse_TU_at_offset (offset : Z) : M tu_raw := struct_parse (p_tu P) S_TYPES (Some offset).

  (* one resumption of DWARFInfo._parse_TUs_iter(offset):
       if self.debug_types_sec is None: return
       while offset < self.debug_types_sec.size:
           tu = self._parse_TU_at_offset(offset)
           offset += tu['unit_length'] + tu.structs.initial_length_field_size()
           yield tu *)
  Definition tus_iter_next (offset : Z) : M (option (tu_raw * Z)) :=
    if offset <? p_types_size P then
      tu <- parse_TU_at_offset offset ;; ret (Some (tu, offset + tu_size tu))
    else ret None.

  (* DWARFInfo._parse_debug_types:
       if self._type_units_by_sig is not None: return
       self._type_units_by_sig = {}
       offset = 0
       while offset < self.debug_types_sec.size:           # when the section exists
           tu = self._parse_TU_at_offset(offset); self._type_units_by_sig[tu['signature']] = tu; offset += ...
       for cu in self._parse_CUs_iter():                    # DWARF v5 type units live in .debug_info
           if cu.header.get('unit_type') in (DW_UT_type, DW_UT_split_type):
               self._type_units_by_sig[cu['type_signature']] = cu *)
  Definition tumap_put (sig : Z) (v : Z * Z * Z) : M unit :=
    modify (fun s => set_tu_map s (Some (dict_set Z.eqb (match tu_map s with Some m => m | None => [] end) sig v))).
  Fixpoint types_loop (n : nat) (offset : Z) : M unit :=
    match n with
    | O => fail EFuel
    | S n' =>
        r <- tus_iter_next offset ;;
        match r with
        | None => ret tt
        | Some (tu, offset') => tumap_put (tu_sig tu) (0, offset, tu_pid tu) ;;; types_loop n' offset'
        end
    end.
  Fixpoint info_types_loop (n : nat) (offset : Z) : M unit :=
    match n with
    | O => fail EFuel
    | S n' =>
        r <- cus_iter_next offset ;;
        match r with
        | None => ret tt
        | Some (cu, offset') =>
            c <- get_cu cu ;;
            match uh_tsig (c_hdr c) with
            | Some sig => tumap_put sig (1, c_off c, uh_pid (c_hdr c))
            | None => ret tt
            end ;;;
            info_types_loop n' offset'
        end
    end.
  Definition parse_debug_types : M unit :=
    s <- get_state ;;
    match tu_map s with
    | Some _ => ret tt
    | None =>
        modify (fun s => set_tu_map s (Some [])) ;;;
        types_loop fuel 0 ;;;
        info_types_loop fuel 0
    end.

  (* DWARFInfo.get_TU_by_sig8(sig8):
       self._parse_debug_types()
       tu = self._type_units_by_sig.get(sig8)
       if tu is None: raise KeyError(...)
       return tu *)
  Definition get_TU_by_sig8 (sig : Z) : M (Z * Z * Z) :=
    parse_debug_types ;;;
    s <- get_state ;;
    match dict_get Z.eqb (match tu_map s with Some m => m | None => [] end) sig with
    | Some v => ret v
    | None => fail (EPy "KeyError")
    end.

  (* ================================================================ abbreviation tables *)

  (* DWARFInfo.get_abbrev_table(offset):
       dwarf_assert(offset < self.debug_abbrev_sec.size)
       if offset not in self._abbrevtable_cache:
           self._abbrevtable_cache[offset] = AbbrevTable(structs, stream, offset)
                 # AbbrevTable._parse_abbrev_table: self.stream.seek(self.offset); relative reads
       return self._abbrevtable_cache[offset] *)
  Definition get_abbrev_table (offset : Z) : M Z :=
    if negb (offset <? p_abbrev_size P) then fail EDwarf
    else
      s <- get_state ;;
      match dict_get Z.eqb (abbrevs s) offset with
      | Some t => ret t
      | None =>
          seek S_ABBREV offset ;;;
          t <- parse_stream (p_abbrev P) S_ABBREV ;;
          modify (fun s => set_abbrevs s (dict_set Z.eqb (abbrevs s) offset t)) ;;;
          ret t
      end.

  (* CompileUnit.get_abbrev_table:
       if self._abbrev_table is None:
           self._abbrev_table = self.dwarfinfo.get_abbrev_table(self['debug_abbrev_offset'])
       return self._abbrev_table *)
  Definition cu_get_abbrev_table (cu : nat) : M Z :=
    c <- get_cu cu ;;
    match c_abbrev c with
    | Some t => ret t
    | None =>
        t <- get_abbrev_table (uh_abbrev (c_hdr c)) ;;
        upd_cu cu (fun c => set_c_abbrev c (Some t)) ;;;
        ret t
    end.

  (* ================================================================ die.py / compileunit.py: entries *)

  (* DIE.__init__ + DIE._parse_DIE:
       stream.seek(self.offset)
       self.abbrev_code = the_Dwarf_uleb128.parse_stream(stream)      # relative from here on
       if self.abbrev_code == 0: self.size = stream.tell() - self.offset; return
       abbrev_decl = self.cu.get_abbrev_table().get_abbrev(self.abbrev_code)
       for spec in abbrev_decl['attr_spec']: ... Dwarf_dw_form[form].parse_stream(stream) ...
                                              _translate_attr_value -> absolute reads of debug_str &c
       self.size = stream.tell() - self.offset *)
  Definition new_DIE (cu : nat) (offset : Z) : M nat :=
    c <- get_cu cu ;;
    seek S_INFO offset ;;;
    raw <- parse_stream (p_die P (c_off c)) S_INFO ;;
    (if dr_null raw then ret tt else cu_get_abbrev_table cu ;;; ret tt) ;;;
    apply_eff (dr_eff raw) ;;;
    alloc_die (mk_die cu offset raw None None).

  (* CompileUnit.get_top_DIE:
       if self._diemap: return self._dielist[0]
       top = DIE(cu=self, stream=..., offset=self.cu_die_offset)
       self._dielist.insert(0, top); self._diemap.insert(0, self.cu_die_offset)
       top._translate_indirect_attributes()        # its reads are part of dr_eff of a top entry
       return top *)
  Definition get_top_DIE (cu : nat) : M nat :=
    c <- get_cu cu ;;
    match c_diemap c with
    | _ :: _ => lift (py_index (c_dielist c) 0)
    | [] =>
        top <- new_DIE cu (c_die_off c) ;;
        upd_cu cu (fun c => set_c_cache c (list_insert 0 (c_die_off c) (c_diemap c))
                                           (list_insert 0 top (c_dielist c))) ;;;
        ret top
    end.

  (* CompileUnit._get_cached_DIE:
       top_die_stream = self.get_top_DIE().stream
       i = bisect_right(self._diemap, offset)
       if offset == self._diemap[i - 1]: die = self._dielist[i - 1]
       else: die = DIE(cu=self, stream=top_die_stream, offset=offset)
             self._dielist.insert(i, die); self._diemap.insert(i, offset)
       return die *)
  Definition get_cached_DIE (cu : nat) (offset : Z) : M nat :=
    get_top_DIE cu ;;;
    c <- get_cu cu ;;
    let i := bisect_right (c_diemap c) offset in
    k <- lift (py_index (c_diemap c) (Z.of_nat i - 1)) ;;
    if offset =? k then lift (py_index (c_dielist c) (Z.of_nat i - 1))
    else
      die <- new_DIE cu offset ;;
      upd_cu cu (fun c => set_c_cache c (list_insert i offset (c_diemap c))
                                         (list_insert i die (c_dielist c))) ;;;
      ret die.

  (* CompileUnit.get_DIE_from_refaddr:
       dwarf_assert(self.cu_die_offset <= refaddr < self.cu_offset + self.size)
       return self._get_cached_DIE(refaddr) *)
  Definition cu_get_DIE_from_refaddr (cu : nat) (refaddr : Z) : M nat :=
    c <- get_cu cu ;;
    if (c_die_off c <=? refaddr) && (refaddr <? c_off c + uh_size (c_hdr c)) then get_cached_DIE cu refaddr
    else fail EDwarf.

  (* DWARFInfo.get_DIE_from_refaddr(refaddr, cu=None):
       cu = self.get_CU_containing(refaddr); return cu.get_DIE_from_refaddr(refaddr) *)
  Definition di_get_DIE_from_refaddr (refaddr : Z) : M nat :=
    cu <- get_CU_containing refaddr ;;
    cu_get_DIE_from_refaddr cu refaddr.

  (* DIE.set_parent *)
  Definition set_parent (child die : nat) : M unit := upd_die child (fun d => set_d_parent d (Some die)).

  (* the part of iter_DIE_children's loop from the top of `while True` to the `yield`:
       child = self._get_cached_DIE(cur_offset)
       child.set_parent(die)
       if child.is_null(): die._terminator = child; return
       yield child *)
  Definition children_fetch (die : nat) (cur_offset : Z) : M (cframe * option nat) :=
    d <- get_die die ;;
    child <- get_cached_DIE (d_cu d) cur_offset ;;
    set_parent child die ;;;
    ch <- get_die child ;;
    if dr_null (d_raw ch) then
      upd_die die (fun d => set_d_term d (Some child)) ;;; ret (CDone, None)
    else ret (CYield die child cur_offset, Some child).

  (* CompileUnit.iter_DIE_children(die), one resumption ([children_next]) and running it to the
     end ([children_drain], which is `for _ in self.iter_DIE_children(child): pass` and, with
     the list of yielded children, any other `for` over the generator):
       if not die.has_children: return
       cur_offset = die.offset + die.size
       while True:
           <children_fetch>
           if not child.has_children: cur_offset += child.size
           elif "DW_AT_sibling" in child.attributes:
               sibling = child.attributes["DW_AT_sibling"]
               if sibling.form in (ref1, ref2, ref4, ref8, ref, ref_udata): cur_offset = sibling.value + self.cu_offset
               elif sibling.form == 'DW_FORM_ref_addr': cur_offset = sibling.value
               else: raise NotImplementedError
           else:
               if child._terminator is None:
                   for _ in self.iter_DIE_children(child): pass
               cur_offset = child._terminator.offset + child._terminator.size *)
  Fixpoint children_next (n : nat) (f : cframe) : M (cframe * option nat) :=
    match n with
    | O => fail EFuel
    | S n' =>
        match f with
        | CDone => ret (CDone, None)
        | CStart die =>
            d <- get_die die ;;
            if negb (dr_hc (d_raw d)) then ret (CDone, None)
            else children_fetch die (d_off d + dr_size (d_raw d))
        | CYield die child cur_offset =>
            ch <- get_die child ;;
            if negb (dr_hc (d_raw ch)) then children_fetch die (cur_offset + dr_size (d_raw ch))
            else
              match dr_sib (d_raw ch) with
              | Some (SibLocal, v) =>
                  d <- get_die die ;; c <- get_cu (d_cu d) ;;
                  children_fetch die (v + c_off c)
              | Some (SibAddr, v) => children_fetch die v
              | Some (SibOther, _) => fail (EPy "NotImplementedError")
              | None =>
                  match d_term ch with
                  | None => children_drain n' (CStart child) [] ;;; ret tt
                  | Some _ => ret tt
                  end ;;;
                  ch <- get_die child ;;
                  match d_term ch with
                  | None => fail (EPy "AttributeError")        (* None.offset *)
                  | Some t =>
                      td <- get_die t ;;
                      children_fetch die (d_off td + dr_size (d_raw td))
                  end
              end
        end
    end
  with children_drain (n : nat) (f : cframe) (acc : list nat) : M (list nat) :=
    match n with
    | O => fail EFuel
    | S n' =>
        r <- children_next n' f ;;
        match r with
        | (_, None) => ret (rev acc)
        | (f', Some child) => children_drain n' f' (child :: acc)
        end
    end.

  (* DIE._search_ancestor_offspring:
       search = self.cu.get_top_DIE()
       while search.offset < self.offset:
           prev = search
           for child in search.iter_children():
               child.set_parent(search)
               if child.offset <= self.offset: prev = child
           if search.has_children and search._terminator.offset <= self.offset:
               prev = search._terminator
           if prev is search: raise ValueError
           search = prev
     The body of the `for` (a second, identical set_parent and the choice of prev) is folded
     over the list of yielded children. *)
  Fixpoint scan_kids (kids : list nat) (search : nat) (self_off : Z) (prev : nat) : M nat :=
    match kids with
    | [] => ret prev
    | child :: r =>
        set_parent child search ;;;
        ch <- get_die child ;;
        scan_kids r search self_off (if d_off ch <=? self_off then child else prev)
    end.

  Fixpoint search_loop (n : nat) (self search : nat) : M unit :=
    match n with
    | O => fail EFuel
    | S n' =>
        me <- get_die self ;;
        sd <- get_die search ;;
        if d_off sd <? d_off me then
          kids <- children_drain fuel (CStart search) [] ;;
          prev <- scan_kids kids search (d_off me) search ;;
          sd <- get_die search ;;
          prev <- (if dr_hc (d_raw sd) then
                     match d_term sd with
                     | None => fail (EPy "AttributeError")
                     | Some t => td <- get_die t ;; ret (if d_off td <=? d_off me then t else prev)
                     end
                   else ret prev) ;;
          if Nat.eqb prev search then fail (EPy "ValueError")
          else search_loop n' self prev
        else ret tt
    end.

  (* DIE.get_parent:
       if self._parent is None: self._search_ancestor_offspring()
       return self._parent *)
  Definition get_parent (self : nat) : M (option nat) :=
    me <- get_die self ;;
    match d_parent me with
    | Some p => ret (Some p)
    | None =>
        top <- get_top_DIE (d_cu me) ;;
        search_loop fuel self top ;;;
        me <- get_die self ;;
        ret (d_parent me)
    end.

  (* DIE.get_DIE_from_attribute(name), name = the k-th reference attribute:
       ref1..ref_udata: self.cu.get_DIE_from_refaddr(self.cu.cu_offset + attr.raw_value)
       ref_addr:        self.cu.dwarfinfo.get_DIE_from_refaddr(attr.raw_value)
       (ref_sig8 / supplementary forms are outside this model) *)
  Definition get_DIE_from_attribute (self : nat) (k : nat) : M nat :=
    me <- get_die self ;;
    match nth_error (dr_refs (d_raw me)) k with
    | None => fail (EPy "KeyError")
    | Some (RefLocal, v) => c <- get_cu (d_cu me) ;; cu_get_DIE_from_refaddr (d_cu me) (c_off c + v)
    | Some (RefAddr, v) => di_get_DIE_from_refaddr v
    | Some (RefOther, _) => fail (EPy "NotImplementedError")
    end.

  (* one resumption of the `yield from` chain of CompileUnit._iter_DIE_subtree generators
     (innermost level first; supplementary_dwarfinfo is None, so no DW_TAG_imported_unit hop):
       yield die                                         PStart -> PDie
       if die.has_children:
           for c in die.iter_children():                 PDie / PKids: advance the children generator,
               yield from die.cu._iter_DIE_subtree(c)        push the level of c, which yields c
           yield die._terminator                         PKids -> PTerm
                                                         PTerm, PDie without children: level finished
     yields Some (Some die), Some None (Python None), or None = StopIteration *)
  Fixpoint subtree_next (n : nat) (stack : list slevel) : M (option (list slevel * option nat)) :=
    match n with
    | O => fail EFuel
    | S n' =>
        match stack with
        | [] => ret None
        | mk_sl die pc :: rest =>
            match pc with
            | PStart => ret (Some (mk_sl die PDie :: rest, Some die))
            | PDie =>
                d <- get_die die ;;
                if dr_hc (d_raw d) then subtree_next n' (mk_sl die (PKids (CStart die)) :: rest)
                else subtree_next n' rest
            | PKids cf =>
                r <- children_next fuel cf ;;
                match r with
                | (cf', Some c) => ret (Some (mk_sl c PDie :: mk_sl die (PKids cf') :: rest, Some c))
                | (cf', None) => d <- get_die die ;; ret (Some (mk_sl die PTerm :: rest, d_term d))
                end
            | PTerm => subtree_next n' rest
            end
        end
    end.

  (* DIE.iter_siblings (a generator function):
       parent = self.get_parent()
       if parent:
           for sibling in parent.iter_children():
               if sibling is not self: yield sibling
       else: raise StopIteration()       # inside a generator this surfaces as RuntimeError (PEP 479) *)
  Fixpoint siblings_loop (n : nat) (self : nat) (cf : cframe) : M (option (frame * nat)) :=
    match n with
    | O => fail EFuel
    | S n' =>
        r <- children_next fuel cf ;;
        match r with
        | (_, None) => ret None
        | (cf', Some sib) =>
            if Nat.eqb sib self then siblings_loop n' self cf'
            else ret (Some (FSiblings self (Some cf'), sib))
        end
    end.
  Definition siblings_next (self : nat) (c : option cframe) : M (option (frame * nat)) :=
    match c with
    | Some cf => siblings_loop fuel self cf
    | None =>
        p <- get_parent self ;;
        match p with
        | Some parent => siblings_loop fuel self (CStart parent)
        | None => fail (EPy "RuntimeError")
        end
    end.

  (* ================================================================ line programs, CFI *)

  (* DWARFInfo._parse_line_program_at_offset(offset, structs):
       if offset in self._linetable_cache: return self._linetable_cache[offset]
       lineprog_header = struct_parse(structs.Dwarf_lineprog_header, self.debug_line_sec.stream, offset)
       resolve_strings(...)                              # v5: absolute reads of debug_line_str / debug_str
       lineprogram = LineProgram(header, stream, structs,
                                 program_start_offset=self.debug_line_sec.stream.tell(), program_end_offset=...)
       self._linetable_cache[offset] = lineprogram
     The LineProgram object is referred to by its cache key. *)
  Definition parse_line_program_at_offset (offset cu_off : Z) : M Z :=
    s <- get_state ;;
    match dict_get Z.eqb (lines s) offset with
    | Some _ => ret offset
    | None =>
        h <- struct_parse (p_lphdr P cu_off) S_LINE (Some offset) ;;
        apply_eff (lr_eff h) ;;;
        start <- tell S_LINE ;;
        modify (fun s => set_lines s (dict_set Z.eqb (lines s) offset (mk_lp h cu_off start (lr_files h) None))) ;;;
        ret offset
    end.

  (* DWARFInfo.line_program_for_CU(CU):
       top_DIE = CU.get_top_DIE()
       if 'DW_AT_stmt_list' in top_DIE.attributes:
           return self._parse_line_program_at_offset(top_DIE.attributes['DW_AT_stmt_list'].value, CU.structs)
       else: return None *)
  Definition line_program_for_CU (cu : nat) : M (option Z) :=
    top <- get_top_DIE cu ;;
    td <- get_die top ;;
    match dr_stmt (d_raw td) with
    | Some off => c <- get_cu cu ;; k <- parse_line_program_at_offset off (c_off c) ;; ret (Some k)
    | None => ret None
    end.

  Definition get_lp (key : Z) : M lp_obj :=
    s <- get_state ;;
    match dict_get Z.eqb (lines s) key with Some lp => ret lp | None => fail (EPy "KeyError") end.

  (* LineProgram.get_entries / _decode_line_program:
       if self._decoded_entries is None: self._decoded_entries = self._decode_line_program()
       return self._decoded_entries
     _decode_line_program:
       offset = self.program_start_offset
       while offset < self.program_end_offset:
           opcode = struct_parse(the_Dwarf_uint8, self.stream, offset)     # absolute
           ... operands: relative reads ...
           DW_LNE_define_file: self['file_entry'].append(operand)          # the header grows
           offset = self.stream.tell() *)
  Definition lp_get_entries (key : Z) : M Z :=
    lp <- get_lp key ;;
    match l_entries lp with
    | Some e => ret e
    | None =>
        let p := p_lpbody P (l_cu lp) (lr_end (l_raw lp)) in
        b <- (if l_start lp <? lr_end (l_raw lp) then
                seek S_LINE (l_start lp) ;;; parse_stream p S_LINE
              else lift (match p (l_start lp) with Ok (b, _) => Ok b | Err e => Err e end)) ;;
        modify (fun s => set_lines s (dict_set Z.eqb (lines s) key
                  (mk_lp (l_raw lp) (l_cu lp) (l_start lp) (l_files lp + lb_defs b) (Some (lb_pid b))))) ;;;
        ret (lb_pid b)
    end.

  (* DWARFInfo.CFI_entries() / EH_CFI_entries(): a NEW CallFrameInfo on every call, whose
     _parse_entries begins with _parse_entry_at(0): struct_parse(the_Dwarf_uint32, self.stream, 0);
     everything after that is relative to it (the section is not empty) *)
  Definition cfi_entries (eh : bool) : M Z :=
    let sid := if eh then S_EH else S_FRAME in
    seek sid 0 ;;; parse_stream (p_cfi P eh) sid.

  (* the client's `entries = dwarfinfo.CFI_entries()`: new CFIEntry objects, nothing decoded yet *)
  Definition held (eh : bool) (s : state) : option (list (option Z)) := if eh then snd (cfis s) else fst (cfis s).
  Definition set_held (eh : bool) (v : option (list (option Z))) : M unit :=
    modify (fun s => set_cfis s (if eh then (fst (cfis s), v) else (v, snd (cfis s)))).
  Definition cfi_fetch (eh : bool) : M Z :=
    e <- cfi_entries eh ;;
    set_held eh (Some (repeat None (Z.to_nat (p_cfi_count P eh)))) ;;;
    ret e.

  (* CFIEntry.get_decoded() of entries[i]:
       if self._decoded_table is None: self._decoded_table = self._decode_CFI_table()
       return self._decoded_table
     CFIEntry._decode_CFI_table (callframe.py): a CIE starts from an empty line and reg_order = []; an FDE
       cie_decoded_table = self.cie.get_decoded()            # memoised in the CIE object of the same list
       cur_line = copy.copy(cie_decoded_table.table[-1]); reg_order = copy.copy(cie_decoded_table.reg_order)
     and then runs its own instructions: the result is a function of the entry and of the CIE's table *)
  Definition memo_get (eh : bool) (i : Z) : M (option Z) :=
    s <- get_state ;;
    match held eh s with
    | None => fail (EPy "TypeError")
    | Some l => match nth_error l (Z.to_nat i) with Some m => ret m | None => fail (EPy "IndexError") end
    end.
  Definition memo_set (eh : bool) (i : Z) (t : Z) : M unit :=
    s <- get_state ;;
    match held eh s with
    | None => fail (EPy "TypeError")
    | Some l => set_held eh (Some (upd_nth (Z.to_nat i) (fun _ => Some t) l))
    end.
  (* get_decoded of an entry that is a CIE *)
  Definition cie_get_decoded (eh : bool) (j : Z) : M Z :=
    m <- memo_get eh j ;;
    match m with
    | Some t => ret t
    | None => t <- lift (p_cfi_table P eh j None) ;; memo_set eh j t ;;; ret t
    end.
  Definition entry_get_decoded (eh : bool) (i : Z) : M Z :=
    m <- memo_get eh i ;;
    match m with
    | Some t => ret t
    | None =>
        let '(kind, cie) := p_cfi_kind P eh i in
        if kind =? 0 then cie_get_decoded eh i
        else if kind =? 1 then
          ct <- cie_get_decoded eh cie ;;
          t <- lift (p_cfi_table P eh i (Some ct)) ;; memo_set eh i t ;;; ret t
        else fail (EPy "AttributeError")          (* ZERO terminators have no get_decoded *)
    end.
  (* entries[i].get_decoded() on the list the client holds; the list is fetched first when there is none *)
  Definition cfi_decoded (eh : bool) (i : Z) : M Z :=
    s <- get_state ;;
    match held eh s with None => cfi_fetch eh ;;; ret tt | Some _ => ret tt end ;;;
    if (0 <=? i) && (i <? p_cfi_count P eh) then entry_get_decoded eh i else fail (EPy "IndexError").

  (* ================================================================ elffile.py, sections.py *)

  (* ELFFile._get_section_header(n):
       stream_pos = self._section_offset(n)
       if stream_pos > self.stream_len: return None       # every caller then subscripts None
       return struct_parse(self.structs.Elf_Shdr, self.stream, stream_pos=stream_pos) *)
  Definition get_section_header (n : Z) : M shdr_raw :=
    let stream_pos := p_shoff P + n * p_shentsize P in
    if p_stream_len P <? stream_pos then fail (EPy "TypeError")
    else struct_parse (p_shdr P) S_ELF (Some stream_pos).

  (* StringTableSection.get_string(offset):
       parse_cstring_from_stream(self.stream, self['sh_offset'] + offset) *)
  Definition get_string (base offset : Z) : M Z :=
    seek S_ELF (base + offset) ;;; parse_stream (p_cstr P) S_ELF.

  (* ELFFile.get_section(n) = _make_section(_get_section_header(n)):
       name = self._get_section_name(section_header); then the constructor of the class for sh_type
       (its reads are all absolute: sh_eff) *)
  Definition get_section (n : Z) : M (list Z) :=
    h <- get_section_header n ;;
    name <- get_string (p_shstr_base P) (sh_name h) ;;
    apply_eff (sh_eff h) ;;;
    ret [name; sh_pid h].

  (* ELFFile.get_section(n, type):
       section_header = self._get_section_header(n)
       if type and section_header.sh_type not in type: raise ELFError("Unexpected section type ...")
       return self._make_section(section_header) *)
  Definition get_section_typed (n ty : Z) : M (list Z) :=
    h <- get_section_header n ;;
    if negb (sh_ty h =? ty) then fail EElf
    else
      name <- get_string (p_shstr_base P) (sh_name h) ;;
      apply_eff (sh_eff h) ;;;
      ret [name; sh_pid h].

  (* ELFFile.num_sections *)
  Definition num_sections : M Z :=
    if p_shoff P =? 0 then ret 0
    else if p_shnum P =? 0 then h <- get_section_header 0 ;; ret (sh_size_f h)
    else ret (p_shnum P).

  (* one resumption of ELFFile.iter_sections():
       for i in range(self.num_sections()): section = self.get_section(i); yield section *)
  Definition sections_next (i : Z) (n : option Z) : M (option (frame * list Z)) :=
    n <- match n with Some n => ret n | None => num_sections end ;;
    if i <? n then sec <- get_section i ;; ret (Some (FSections (i + 1) (Some n), sec))
    else ret None.

  (* ELFFile._make_section_name_map:
       self._section_name_map = {}
       for i, sec in enumerate(self.iter_sections()): self._section_name_map[sec.name] = i *)
  Fixpoint secmap_loop (k : nat) (i : Z) : M unit :=
    match k with
    | O => ret tt
    | S k' =>
        sec <- get_section i ;;
        modify (fun s => set_secmap s (Some (dict_set Z.eqb (match e_secmap s with Some m => m | None => [] end)
                                                     (nth 0 sec 0) i))) ;;;
        secmap_loop k' (i + 1)
    end.
  Definition make_section_name_map : M unit :=
    modify (fun s => set_secmap s (Some [])) ;;;
    n <- num_sections ;;
    secmap_loop (Z.to_nat n) 0.

  (* ELFFile.get_section_by_name(name):
       if self._section_name_map is None: self._make_section_name_map()
       secnum = self._section_name_map.get(name, None)
       return None if secnum is None else self.get_section(secnum) *)
  Definition get_section_by_name (name : Z) : M (option (list Z)) :=
    s <- get_state ;;
    match e_secmap s with None => make_section_name_map | Some _ => ret tt end ;;;
    s <- get_state ;;
    match dict_get Z.eqb (match e_secmap s with Some m => m | None => [] end) name with
    | None => ret None
    | Some secnum => sec <- get_section secnum ;; ret (Some sec)
    end.

  (* ELFFile.get_segment(n): struct_parse(Elf_Phdr, stream, stream_pos=_segment_offset(n)), then the
     constructor of the segment class (absolute reads: ph_eff) *)
  Definition get_segment (n : Z) : M (list Z) :=
    h <- struct_parse (p_phdr P) S_ELF (Some (p_phoff P + n * p_phentsize P)) ;;
    apply_eff (ph_eff h) ;;;
    ret [ph_pid h].

  (* SymbolTableSection.get_symbol(n):
       entry = struct_parse(Elf_Sym, self.stream, stream_pos=self['sh_offset'] + n * self['sh_entsize'])
       name = self.stringtable.get_string(entry['st_name']) *)
  Definition get_symbol (n : Z) : M (list Z) :=
    e <- struct_parse (p_sym P) S_ELF (Some (p_sym_base P + n * p_sym_entsize P)) ;;
    name <- get_string (p_strtab_base P) (sy_name e) ;;
    ret [name; sy_pid e].

  (* one resumption of SymbolTableSection.iter_symbols():
       for i in range(self.num_symbols()): yield self.get_symbol(i) *)
  Definition symbols_next (i : Z) (n : option Z) : M (option (frame * list Z)) :=
    let n := match n with Some n => n | None => p_sym_count P end in
    if i <? n then sym <- get_symbol i ;; ret (Some (FSymbols (i + 1) (Some n), sym))
    else ret None.

  (* SymbolTableSection.get_symbol_by_name(name):
       if self._symbol_name_map is None:
           self._symbol_name_map = defaultdict(list)
           for i, sym in enumerate(self.iter_symbols()): self._symbol_name_map[sym.name].append(i)
       symnums = self._symbol_name_map.get(name)
       return [self.get_symbol(i) for i in symnums] if symnums else None *)
  Fixpoint symmap_loop (k : nat) (i : Z) : M unit :=
    match k with
    | O => ret tt
    | S k' =>
        sym <- get_symbol i ;;
        modify (fun s =>
          let m := match e_symmap s with Some m => m | None => [] end in
          let nm := nth 0 sym 0 in
          let old := match dict_get Z.eqb m nm with Some l => l | None => [] end in
          set_symmap s (Some (dict_set Z.eqb m nm (old ++ [i])))) ;;;
        symmap_loop k' (i + 1)
    end.
  Fixpoint get_symbols (l : list Z) : M (list Z) :=
    match l with
    | [] => ret []
    | i :: r => sym <- get_symbol i ;; rest <- get_symbols r ;; ret (sym ++ rest)
    end.
  Definition get_symbol_by_name (name : Z) : M (option (list Z)) :=
    s <- get_state ;;
    match e_symmap s with
    | None => modify (fun s => set_symmap s (Some [])) ;;; symmap_loop (Z.to_nat (p_sym_count P)) 0
    | Some _ => ret tt
    end ;;;
    s <- get_state ;;
    match dict_get Z.eqb (match e_symmap s with Some m => m | None => [] end) name with
    | None | Some [] => ret None
    | Some symnums => syms <- get_symbols symnums ;; ret (Some syms)
    end.

  (* ================================================================ dynamic.py (after the repair of get_tag) *)

  (* Dynamic._get_tag(n):
       if self._num_tags != -1 and n >= self._num_tags: raise IndexError(n)
       return struct_parse(Elf_Dyn, self._stream, stream_pos=self._offset + n * self._tagsize) *)
  Definition raw_get_tag (n : Z) : M dyn_raw :=
    s <- get_state ;;
    if negb (e_numtags s =? -1) && (e_numtags s <=? n) then fail (EPy "IndexError")
    else struct_parse (p_dyn P) S_ELF (Some (p_dyn_base P + n * p_dyn_entsize P)).

  (* Dynamic.num_tags:
       if self._num_tags != -1: return self._num_tags
       for n in itertools.count():
           tag = self._get_tag(n)
           if tag['d_tag'] == 'DT_NULL': self._num_tags = n + 1; return self._num_tags *)
  Fixpoint num_tags_loop (k : nat) (n : Z) : M Z :=
    match k with
    | O => fail EFuel
    | S k' =>
        t <- raw_get_tag n ;;
        if dy_null t then modify (fun s => set_numtags s (n + 1)) ;;; ret (n + 1)
        else num_tags_loop k' (n + 1)
    end.
  Definition num_tags : M Z :=
    s <- get_state ;;
    if negb (e_numtags s =? -1) then ret (e_numtags s) else num_tags_loop fuel 0.

  (* Dynamic.get_tag(n):
       if n >= self.num_tags(): raise IndexError(n)
       return DynamicTag(self._get_tag(n), self._get_stringtable())    # DT_NEEDED &c: a string read (dy_eff) *)
  Definition get_tag (n : Z) : M (list Z) :=
    nt <- num_tags ;;
    if nt <=? n then fail (EPy "IndexError")
    else t <- raw_get_tag n ;; apply_eff (dy_eff t) ;;; ret [dy_pid t].

  (* one resumption of Dynamic.iter_tags() over Dynamic._iter_tags():
       for n in itertools.count():
           tag = self._get_tag(n); yield DynamicTag(tag, self._get_stringtable())
           if tag['d_tag'] == 'DT_NULL': break *)
  Definition tags_next (n : Z) (fin : bool) : M (option (frame * list Z)) :=
    if fin then ret None
    else t <- raw_get_tag n ;; apply_eff (dy_eff t) ;;; ret (Some (FTags (n + 1) (dy_null t), [dy_pid t])).

  (* ================================================================ the machine *)
  Definition die_answer (id : nat) : M answer :=
    d <- get_die id ;; c <- get_cu (d_cu d) ;; ret (ADie (c_off c) (d_off d) (dr_pid (d_raw d))).
  Definition opt_die_answer (o : option nat) : M answer :=
    match o with Some id => die_answer id | None => ret ANone end.
  Definition cu_answer (id : nat) : M answer :=
    c <- get_cu id ;; ret (AUnit (c_off c) (uh_pid (c_hdr c))).
  Definition opt_vals (o : option (list Z)) : answer :=
    match o with Some l => AVals l | None => ANone end.
  (* <DIE u o> = dwarfinfo.get_CU_at(u).get_DIE_from_refaddr(o) *)
  Definition the_DIE (u o : Z) : M nat := cu <- get_CU_at u ;; cu_get_DIE_from_refaddr cu o.
  Definition set_slot (slot : nat) (f : frame) : M unit :=
    modify (fun s => set_frames s (upd_nth slot (fun _ => f) (frames s))).

  (* next(generator): Some (frame', answer) = a value was yielded, None = StopIteration *)
  Definition frame_next (f : frame) : M (option (frame * answer)) :=
    match f with
    | FEmpty => ret None
    | FCUs offset =>
        r <- cus_iter_next offset ;;
        match r with
        | None => ret None
        | Some (cu, offset') => a <- cu_answer cu ;; ret (Some (FCUs offset', a))
        end
    | FTUs offset =>
        r <- tus_iter_next offset ;;
        match r with
        | None => ret None
        | Some (tu, offset') => ret (Some (FTUs offset', AVals [0; offset; tu_pid tu]))
        end
    | FChildren cf =>
        r <- children_next fuel cf ;;
        match r with
        | (_, None) => ret None
        | (cf', Some c) => a <- die_answer c ;; ret (Some (FChildren cf', a))
        end
    | FSiblings self c =>
        r <- siblings_next self c ;;
        match r with
        | None => ret None
        | Some (f', sib) => a <- die_answer sib ;; ret (Some (f', a))
        end
    | FSubtree stack =>
        r <- subtree_next fuel stack ;;
        match r with
        | None => ret None
        | Some (stack', d) => a <- opt_die_answer d ;; ret (Some (FSubtree stack', a))
        end
    | FSections i n =>
        r <- sections_next i n ;;
        match r with None => ret None | Some (f', v) => ret (Some (f', AVals v)) end
    | FSymbols i n =>
        r <- symbols_next i n ;;
        match r with None => ret None | Some (f', v) => ret (Some (f', AVals v)) end
    | FTags n fin =>
        r <- tags_next n fin ;;
        match r with None => ret None | Some (f', v) => ret (Some (f', AVals v)) end
    end.

  Definition run_op (o : op) : M answer :=
    match o with
    | Disturb sid pos => seek sid pos ;;; ret ADone
    | CUAt u => cu <- get_CU_at u ;; cu_answer cu
    | CUContaining a => cu <- get_CU_containing a ;; cu_answer cu
    | TopDIE u => cu <- get_CU_at u ;; d <- get_top_DIE cu ;; die_answer d
    | DIEAt u o => d <- the_DIE u o ;; die_answer d
    | DIEGlobal o => d <- di_get_DIE_from_refaddr o ;; die_answer d
    | Parent u o => d <- the_DIE u o ;; p <- get_parent d ;; opt_die_answer p
    | FollowRef u o k => d <- the_DIE u o ;; t <- get_DIE_from_attribute d k ;; die_answer t
    | LineProg u =>
        cu <- get_CU_at u ;; k <- line_program_for_CU cu ;;
        match k with
        | None => ret ANone
        | Some key => lp <- get_lp key ;; ret (AVals [lr_pid (l_raw lp); l_files lp])
        end
    | LineEntries u =>
        cu <- get_CU_at u ;; k <- line_program_for_CU cu ;;
        match k with
        | None => ret ANone
        | Some key => e <- lp_get_entries key ;; ret (AVals [e])
        end
    | CFI eh => e <- cfi_fetch eh ;; ret (AVals [e])
    | CFIDecoded eh i => t <- cfi_decoded eh i ;; ret (AVals [t])
    | TUBySig sig => v <- get_TU_by_sig8 sig ;; ret (AVals [fst (fst v); snd (fst v); snd v])
    | NewIterTUs slot => set_slot slot (FTUs 0) ;;; ret ADone
    | NewIterCUs slot => set_slot slot (FCUs 0) ;;; ret ADone
    | NewIterDIEs slot u =>
        (* iter_DIEs() calls get_top_DIE() eagerly: return self._iter_DIE_subtree(self.get_top_DIE()) *)
        cu <- get_CU_at u ;; top <- get_top_DIE cu ;;
        set_slot slot (FSubtree [mk_sl top PStart]) ;;; ret ADone
    | NewIterChildren slot u o => d <- the_DIE u o ;; set_slot slot (FChildren (CStart d)) ;;; ret ADone
    | NewIterSiblings slot u o => d <- the_DIE u o ;; set_slot slot (FSiblings d None) ;;; ret ADone
    | NewIterSections slot => set_slot slot (FSections 0 None) ;;; ret ADone
    | NewIterSymbols slot => set_slot slot (FSymbols 0 None) ;;; ret ADone
    | NewIterTags slot => set_slot slot (FTags 0 false) ;;; ret ADone
    | Next slot =>
        fun s =>
          match frame_next (nth slot (frames s) FEmpty) s with
          | (s1, Ok (Some (f', a))) => (fst (set_slot slot f' s1), Ok a)
          | (s1, Ok None) => (fst (set_slot slot FEmpty s1), Ok AStop)
          | (s1, Err e) => (fst (set_slot slot FEmpty s1), Err e)   (* an exception finishes the generator *)
          end
    | ENumSections => n <- num_sections ;; ret (AVals [n])
    | ESection n => sec <- get_section n ;; ret (AVals sec)
    | ESectionByName name => r <- get_section_by_name name ;; ret (opt_vals r)
    | ESegment n => seg <- get_segment n ;; ret (AVals seg)
    | ESymbol n => sym <- get_symbol n ;; ret (AVals sym)
    | ESymbolByName name => r <- get_symbol_by_name name ;; ret (opt_vals r)
    | EString off => v <- get_string (p_strtab_base P) off ;; ret (AVals [v])
    | ENumTags => n <- num_tags ;; ret (AVals [n])
    | EGetTag n => t <- get_tag n ;; ret (AVals t)
    | ESectionTyped n ty => sec <- get_section_typed n ty ;; ret (AVals sec)
    (* ELFFile.get_dwarf_info() builds a NEW DWARFInfo over new copies of the section contents: nothing the
       DWARFInfo handed out earlier can see *)
    | RefetchDwarf => ret ADone
    (* DWARFInfo.get_CU_at(off) -> _cached_CU_at_offset: the bisect search finds no entry for off (only offsets of
       parsed units are ever inserted), _parse_CU_at_offset seeks to off, reads and raises; the insertions into
       _cu_offsets_map / _cu_cache come AFTER the parse, so nothing but the cursor has changed *)
    (* the same call as DIEAt: CompileUnit.get_DIE_from_refaddr's dwarf_assert on the range raises DWARFError *)
    | DIEAtOutside u o => d <- the_DIE u o ;; die_answer d
    (* LineProgram.get_entries: `if self._decoded_entries is None: self._decoded_entries = self._decode_line_program()`;
       the decoder raises before the assignment, so the memo stays None and a retry decodes (and fails) again *)
    | LineEntriesFailing u e c =>
        cu <- get_CU_at u ;; k <- line_program_for_CU cu ;;
        match k with
        | None => ret ANone
        | Some _ => (if 0 <=? c then seek S_LINE c else ret tt) ;;; fail e
        end
    | CUAtFailing off e c => (if 0 <=? c then seek S_INFO c else ret tt) ;;; fail e
    end.

  Definition step (s : state) (o : op) : state * answer :=
    match run_op o s with
    | (s', Ok a) => (s', a)
    | (s', Err e) => (s', AErr e)
    end.

  Definition run (s : state) (h : list op) : state * list answer :=
    fold_left (fun acc o => let '(s', a) := step (fst acc) o in (s', snd acc ++ [a])) h (s, []).
End Machine.
