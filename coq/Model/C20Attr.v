(* Model/C20Attr.v — transliteration of the build-attribute readers of
   elftools/elf/sections.py (AttributesSection, AttributesSubsection,
   AttributesSubsubsection, ARMAttribute, RISCVAttribute) over the tag tables that
   Gen/C20Tables.v regenerates from the live structs.  A stream is the byte list of
   the file plus explicit offsets ([seek]/[tell] of Model/C20Types.v).
   No proofs here: see Proofs/C20Attr.v. *)
From PV Require Export Base.Bytes Base.Outcome Base.Prim Model.C20Types Gen.C20Tables.
Open Scope string_scope.
Open Scope list_scope.
Open Scope Z_scope.

(* ---- struct_parse of the primitive constructs (ConstructError -> ELFParseError) ---- *)
Definition p_word (le : bool) (bs : list Z) : res (Z * list Z) := of_opt EParse (uint_decode le 4 bs). (* Elf_word *)
Definition p_byte (bs : list Z) : res (Z * list Z) := of_opt EParse (uint_decode true 1 bs).           (* Elf_byte *)
Definition p_uleb (bs : list Z) : res (Z * list Z) := of_opt EParse (uleb_decode bs).                  (* Elf_uleb128 *)
Definition p_ntbs (bs : list Z) : res (list Z * list Z) := of_opt EParse (cstring_decode bs).          (* Elf_ntbs *)

(* Enum(Elf_uleb128('tag'), **ENUM_ATTR_TAG_x) without default: unknown value -> MappingError *)
Fixpoint enum_name (tbl : list (string * Z)) (v : Z) : option string :=
  match tbl with
  | [] => None
  | (n, x) :: r => if x =? v then Some n else enum_name r v
  end.

(* ---- the if/elif chain of ARMAttribute.__init__ / RISCVAttribute.__init__ on self.tag ---- *)
Inductive aclass : Type :=
| CFile      (* TAG_FILE: Elf_word value *)
| CScoped    (* TAG_SECTION / TAG_SYMBOL: Elf_word value, extra = uleb128 list up to 0 *)
| CNtbs      (* Elf_ntbs value *)
| CCompat    (* TAG_COMPATIBILITY: uleb128 value, extra = Elf_ntbs *)
| CNested    (* TAG_ALSO_COMPATIBLE_WITH: value = ARMAttribute(structs, stream) [+ NUL] *)
| CUleb.     (* else: uleb128 value *)

Definition arm_class (tag : string) : aclass :=
  if mem_str tag ["TAG_FILE"; "TAG_SECTION"; "TAG_SYMBOL"] then
    (if negb (tag =? "TAG_FILE")%string then CScoped else CFile)
  else if mem_str tag ["TAG_CPU_RAW_NAME"; "TAG_CPU_NAME"; "TAG_CONFORMANCE"] then CNtbs
  else if (tag =? "TAG_COMPATIBILITY")%string then CCompat
  else if (tag =? "TAG_ALSO_COMPATIBLE_WITH")%string then CNested
  else CUleb.

Definition riscv_class (tag : string) : aclass :=
  if mem_str tag ["TAG_FILE"; "TAG_SECTION"; "TAG_SYMBOL"] then
    (if negb (tag =? "TAG_FILE")%string then CScoped else CFile)
  else if (tag =? "TAG_ARCH")%string then CNtbs
  else CUleb.

(* which attribute class a section uses: (tag struct's table, the class's if/elif chain) *)
Record attr_impl : Type := { ai_table : list (string * Z); ai_class : string -> aclass }.
Definition arm_impl : attr_impl := {| ai_table := gen_attr_tag_arm; ai_class := arm_class |}.
Definition riscv_impl : attr_impl := {| ai_table := gen_attr_tag_riscv; ai_class := riscv_class |}.

(* s_number = uleb; while s_number != 0: extra.append(s_number); s_number = uleb *)
Fixpoint p_numbers_go (fuel : nat) (bs : list Z) : res (list Z * list Z) :=
  match fuel with
  | O => Err EFuel
  | S f =>
      do (n, r) <- p_uleb bs;
      if n =? 0 then Ok ([], r)
      else do (l, t) <- p_numbers_go f r; Ok (n :: l, t)
  end.
Definition p_numbers (bs : list Z) : res (list Z * list Z) := p_numbers_go (S (List.length bs)) bs.

(* ARMAttribute(structs, stream) / RISCVAttribute(structs, stream): parse at the cursor *)
Fixpoint p_attr_go (ai : attr_impl) (fuel : nat) (le : bool) (bs : list Z) : res (oattr * list Z) :=
  match fuel with
  | O => Err EFuel
  | S f =>
      do (t, r0) <- p_uleb bs;
      do name <- of_opt EParse (enum_name (ai_table ai) t);
      match ai_class ai name with
      | CFile =>
          do (v, r1) <- p_word le r0; Ok ((name, OInt v, XNone), r1)
      | CScoped =>
          do (v, r1) <- p_word le r0;
          do (l, r2) <- p_numbers r1; Ok ((name, OInt v, XNums l), r2)
      | CNtbs =>
          do (s, r1) <- p_ntbs r0; Ok ((name, OStr s, XNone), r1)
      | CCompat =>
          do (v, r1) <- p_uleb r0;
          do (s, r2) <- p_ntbs r1; Ok ((name, OInt v, XStr s), r2)
      | CNested =>
          do (inner, r1) <- p_attr_go ai f le r0;
          let '(iname, ival, iextra) := inner in
          match ival with
          | OStr _ => Ok ((name, ONest iname ival iextra, XNone), r1)    (* type(value.value) is str *)
          | _ =>
              do (nul, r2) <- p_byte r1;
              if nul =? 0 then Ok ((name, ONest iname ival iextra, XNone), r2)
              else Err EElf                                              (* elf_assert(nul == 0) *)
          end
      | CUleb =>
          do (v, r1) <- p_uleb r0; Ok ((name, OInt v, XNone), r1)
      end
  end.
Definition p_attr (ai : attr_impl) (le : bool) (bs : list Z) : res (oattr * list Z) :=
  p_attr_go ai (S (List.length bs)) le bs.

(* header.value used as an integer (offset + header.value) *)
Definition attr_int_value (a : oattr) : res Z :=
  match a with
  | (_, OInt v, _) => Ok v
  | _ => Err (EPy "TypeError")
  end.

(* AttributesSubsubsection._make_attributes (as repaired by fix 8921c0e: own offset, seek per item):
     end = self.offset + self.header.value; offset = self.attr_start
     while offset != end:
         seek(offset); attribute = self.attribute(structs, stream); offset = tell(); yield attribute *)
Fixpoint make_attributes (ai : attr_impl) (fuel : nat) (le : bool) (img : list Z) (pos end_ : Z)
  : res (list oattr) :=
  if pos =? end_ then Ok [] else
  match fuel with
  | O => Err EFuel
  | S f =>
      do (a, rest) <- p_attr ai le (seek img pos);
      do l <- make_attributes ai f le img (tell img rest) end_;
      Ok (a :: l)
  end.

(* AttributesSubsubsection.__init__ (header parsed at [offset], attr_start = tell())
   followed by list(iter_attributes()) *)
Definition read_subsubsection (ai : attr_impl) (le : bool) (img : list Z) (offset : Z)
  : res (Z * osub) :=
  do (header, rest) <- p_attr ai le (seek img offset);
  let attr_start := tell img rest in
  do size <- attr_int_value header;
  do attrs <- make_attributes ai (S (List.length img)) le img attr_start (offset + size);
  Ok (size, (header, attrs)).

(* AttributesSubsection._make_subsubsections, every sub-subsection read out:
     end = self.offset + self['length']; offset = self.subsubsec_start
     while offset != end:
         seek(offset); subsubsec = self.subsubsection(stream, structs, offset)
         offset += subsubsec.header.value
         yield subsubsec *)
Fixpoint make_subsubsections (ai : attr_impl) (fuel : nat) (le : bool) (img : list Z) (offset end_ : Z)
  : res (list osub) :=
  if offset =? end_ then Ok [] else
  match fuel with
  | O => Err EFuel
  | S f =>
      do (size, ss) <- read_subsubsection ai le img offset;
      do l <- make_subsubsections ai f le img (offset + size) end_;
      Ok (ss :: l)
  end.

(* AttributesSubsection.__init__: struct_parse(Elf_Attr_Subsection_Header, stream, offset)
   (Elf_word length, Elf_ntbs vendor_name), subsubsec_start = tell(); then every
   sub-subsection *)
Definition read_subsection (ai : attr_impl) (le : bool) (img : list Z) (offset : Z)
  : res (Z * osubsec) :=
  do (length, r0) <- p_word le (seek img offset);
  do (vendor, r1) <- p_ntbs r0;
  let subsubsec_start := tell img r1 in
  do subs <- make_subsubsections ai (S (List.length img)) le img subsubsec_start (offset + length);
  Ok (length, (length, vendor, subs)).

(* AttributesSection._make_subsections, every subsection read out:
     end = self['sh_offset'] + self.data_size; offset = self.subsec_start
     while offset != end:
         subsec = self.subsection(stream, structs, offset)
         offset += subsec['length']
         yield subsec *)
Fixpoint make_subsections (ai : attr_impl) (fuel : nat) (le : bool) (img : list Z) (offset end_ : Z)
  : res (list osubsec) :=
  if offset =? end_ then Ok [] else
  match fuel with
  | O => Err EFuel
  | S f =>
      do (length, s) <- read_subsection ai le img offset;
      do l <- make_subsections ai f le img (offset + length) end_;
      Ok (s :: l)
  end.

(* AttributesSection.__init__ (format-version byte 'A' at sh_offset, subsec_start = tell())
   then  for subsec in iter_subsections(): for ss in subsec.iter_subsubsections():
   ss.header, list(ss.iter_attributes()).  Every generator keeps its own offset, so
   the order in which a caller drains them does not matter. *)
Definition read_attr_section (ai : attr_impl) (le : bool) (img : list Z) (sh_offset sh_size : Z)
  : res (list osubsec) :=
  do (fv, rest) <- p_byte (seek img sh_offset);
  if negb (fv =? 65) then Err EElf        (* elf_assert(chr(fv) == 'A') *)
  else
    let subsec_start := tell img rest in
    make_subsections ai (S (List.length img)) le img subsec_start (sh_offset + sh_size).
