(* Model/C13DwarfInfo.v — transliteration of the unit-lookup part of
   elftools/dwarf/dwarfinfo.py (get_CU_containing, get_CU_at, _parse_CUs_iter,
   _cached_CU_at_offset, _parse_CU_at_offset, get_DIE_from_lut_entry) and of
   compileunit.py (get_DIE_from_refaddr, get_top_DIE, _get_cached_DIE).
   State: the parallel lists _cu_offsets_map/_cu_cache, and per unit object the
   parallel lists _diemap/_dielist.  Unit objects are created once per offset and
   kept in the cache, so "the attributes of the unit object at offset o" is a dict
   keyed by o.  DIE construction (die.py, property C04) is a parameter [parse_die].
   No proofs here. *)
From PV Require Export Base.PyData Base.Prim Spec.C13Spec.
From Coq Require Import ZArith List Bool.
Import ListNotations.
Open Scope Z_scope.

(* the Switch over unit_type inside dwarfv5_CU_header: which fields follow
   (has 8-byte id, has type_offset); None = MappingError/SwitchError *)
Definition unit_type_kind (t : Z) : option (bool * bool) :=
  if (t =? 1) || (t =? 3) then Some (false, false)         (* DW_UT_compile, DW_UT_partial *)
  else if (t =? 4) || (t =? 5) then Some (true, false)     (* DW_UT_skeleton, DW_UT_split_compile *)
  else if (t =? 2) || (t =? 6) then Some (true, true)      (* DW_UT_type, DW_UT_split_type *)
  else None.

(* structs.Dwarf_CU_header for a given dwarf_format:
   Dwarf_initial_length, Dwarf_uint16 version, IfThenElse(version >= 5, v5 header, v4 header) *)
Definition cu_header_decode (le is64 : bool) : dec cu_header := fun bs =>
  let off_n := if is64 then 8%nat else 4%nat in
  match initial_length_decode le bs with
  | None => None
  | Some ((unit_length, fmt64), r0) =>
  match uint_decode le 2 r0 with
  | None => None
  | Some (version, r1) =>
      if 5 <=? version then
        match uint_decode le 1 r1 with
        | None => None
        | Some (unit_type, r2) =>
        match unit_type_kind unit_type with
        | None => None
        | Some (has_id, has_type_off) =>
        match uint_decode le 1 r2 with
        | None => None
        | Some (address_size, r3) =>
        match uint_decode le off_n r3 with
        | None => None
        | Some (abbrev_off, r4) =>
        match (if has_id then uint_decode le 8 r4 else Some (0, r4)) with
        | None => None
        | Some (id, r5) =>
        match (if has_type_off then uint_decode le off_n r5 else Some (0, r5)) with
        | None => None
        | Some (type_off, r6) =>
            Some (mk_cu_header unit_length fmt64 version unit_type abbrev_off address_size id type_off, r6)
        end end end end end end
      else
        match uint_decode le off_n r1 with
        | None => None
        | Some (abbrev_off, r2) =>
        match uint_decode le 1 r2 with
        | None => None
        | Some (address_size, r3) =>
            Some (mk_cu_header unit_length fmt64 version 0 abbrev_off address_size 0 0, r3)
        end end
  end end.

(* DWARFInfo._parse_CU_at_offset *)
Definition parse_CU_at_offset (le : bool) (stream : list Z) (offset : Z) : res cu :=
  let at_off := skipn (Z.to_nat offset) stream in
  match uint_decode le 4 at_off with               (* peek at the first word *)
  | None => Err EParse
  | Some (initial_length, _) =>
      let is64 := initial_length =? 0xFFFFFFFF in
      match cu_header_decode le is64 at_off with
      | None => Err EParse
      | Some (h, after) =>
          (* DWARFStructs(address_size=cu_header['address_size']): assert 8 or 4 *)
          if negb ((ch_addr_size h =? 8) || (ch_addr_size h =? 4)) then Err (EPy "AssertionError")
          else
            let cu_die_offset := offset + (zlen at_off - zlen after) in   (* stream.tell() *)
            (* dwarf_assert(self._is_supported_version(version)) *)
            if (2 <=? ch_version h) && (ch_version h <=? 5) then Ok (mk_cu offset h cu_die_offset)
            else Err EDwarf
      end
  end.

(* DWARFInfo._cached_CU_at_offset:
     i = bisect_right(self._cu_offsets_map, offset)
     if i >= 1 and offset == self._cu_offsets_map[i - 1]: return self._cu_cache[i - 1]
     cu = self._parse_CU_at_offset(offset)
     self._cu_offsets_map.insert(i, offset); self._cu_cache.insert(i, cu); return cu      *)
Definition cached_CU_at_offset (le : bool) (stream : list Z) (c : bcache cu) (offset : Z)
  : bcache cu * res cu :=
  bcache_get (parse_CU_at_offset le stream) c offset.

(* get_CU_containing's loop over _parse_CUs_iter(start):
     while offset < size: cu = _cached_CU_at_offset(offset)
                          offset = offset + cu['unit_length'] + cu.structs.initial_length_field_size()
                          if cu.cu_offset <= refaddr < cu.cu_offset + cu.size: return cu
     raise ValueError                                                                    *)
Fixpoint containing_loop (fuel : nat) (le : bool) (stream : list Z) (size : Z)
         (c : bcache cu) (offset refaddr : Z) : bcache cu * res cu :=
  match fuel with
  | O => (c, Err EFuel)
  | S f =>
      if offset <? size then
        match cached_CU_at_offset le stream c offset with
        | (c1, Err e) => (c1, Err e)
        | (c1, Ok u) =>
            if (cu_offset u <=? refaddr) && (refaddr <? cu_offset u + cu_size u) then (c1, Ok u)
            else containing_loop f le stream size c1 (offset + cu_size u) refaddr
        end
      else (c, Err (EPy "ValueError"))
  end.

(* DWARFInfo.get_CU_containing *)
Definition get_CU_containing (le : bool) (stream : list Z) (size : Z) (c : bcache cu) (refaddr : Z)
  : bcache cu * res cu :=
  if negb ((0 <=? refaddr) && (refaddr <? size)) then (c, Err EDwarf)
  else
    let i := bisect_right (fst c) refaddr in
    (* start = self._cu_offsets_map[i - 1] if i > 0 else 0 *)
    match (if (0 <? i)%nat then py_index (fst c) (Z.of_nat i - 1) else Ok 0) with
    | Err e => (c, Err e)
    | Ok start => containing_loop (S (Z.to_nat size)) le stream size c start refaddr
    end.

(* DWARFInfo.get_CU_at *)
Definition get_CU_at (le : bool) (stream : list Z) (size : Z) (c : bcache cu) (offset : Z)
  : bcache cu * res cu :=
  if negb ((0 <=? offset) && (offset <? size)) then (c, Err EDwarf)
  else cached_CU_at_offset le stream c offset.

(* ---------------------------------------------------------------- compileunit.py *)
Section DIEs.
  Context {D : Type} (parse_die : cu -> Z -> res D).   (* DIE(cu, stream, offset) *)

  (* CompileUnit.get_top_DIE:
       if self._diemap: return self._dielist[0]
       top = DIE(cu=self, stream=..., offset=self.cu_die_offset)
       self._dielist.insert(0, top); self._diemap.insert(0, self.cu_die_offset); return top *)
  Definition get_top_DIE (u : cu) (dc : bcache D) : bcache D * res D :=
    match fst dc with
    | _ :: _ => (dc, py_index (snd dc) 0)
    | [] =>
        match parse_die u (cu_die_offset u) with
        | Ok top => ((list_insert 0 (cu_die_offset u) (fst dc), list_insert 0 top (snd dc)), Ok top)
        | Err e => (dc, Err e)
        end
    end.

  (* CompileUnit._get_cached_DIE:
       top_die_stream = self.get_top_DIE().stream
       i = bisect_right(self._diemap, offset)
       if offset == self._diemap[i - 1]: die = self._dielist[i - 1]
       else: die = DIE(...); self._dielist.insert(i, die); self._diemap.insert(i, offset)
       return die                                                                       *)
  Definition get_cached_DIE (u : cu) (dc : bcache D) (offset : Z) : bcache D * res D :=
    match get_top_DIE u dc with
    | (dc1, Err e) => (dc1, Err e)
    | (dc1, Ok _) =>
        let i := bisect_right (fst dc1) offset in
        match py_index (fst dc1) (Z.of_nat i - 1) with
        | Err e => (dc1, Err e)
        | Ok k =>
            if offset =? k then (dc1, py_index (snd dc1) (Z.of_nat i - 1))
            else match parse_die u offset with
                 | Ok die => ((list_insert i offset (fst dc1), list_insert i die (snd dc1)), Ok die)
                 | Err e => (dc1, Err e)
                 end
        end
    end.

  Record di_state := mk_di_state {
    st_cus : bcache cu;                       (* _cu_offsets_map, _cu_cache *)
    st_dies : dict Z (bcache D)               (* unit offset -> (_diemap, _dielist) of that unit object *)
  }.
  Definition di_init : di_state := mk_di_state ([], []) [].
  Definition die_cache_of (st : di_state) (o : Z) : bcache D :=
    match dict_get Z.eqb (st_dies st) o with Some dc => dc | None => ([], []) end.

  (* DWARFInfo.get_DIE_from_lut_entry:
       cu = self.get_CU_at(lut_entry.cu_ofs)
       return self.get_DIE_from_refaddr(lut_entry.die_ofs, cu)   -> cu.get_DIE_from_refaddr(refaddr):
           dwarf_assert(self.cu_die_offset <= refaddr < self.cu_offset + self.size)
           return self._get_cached_DIE(refaddr)                                         *)
  Definition get_DIE_from_lut_entry (le : bool) (stream : list Z) (size : Z) (st : di_state)
             (cu_ofs die_ofs : Z) : di_state * res D :=
    match get_CU_at le stream size (st_cus st) cu_ofs with
    | (c1, Err e) => (mk_di_state c1 (st_dies st), Err e)
    | (c1, Ok u) =>
        if (cu_die_offset u <=? die_ofs) && (die_ofs <? cu_offset u + cu_size u) then
          match get_cached_DIE u (die_cache_of st (cu_offset u)) die_ofs with
          | (dc1, r) => (mk_di_state c1 (dict_set Z.eqb (st_dies st) (cu_offset u) dc1), r)
          end
        else (mk_di_state c1 (st_dies st), Err EDwarf)
    end.

  (* a history of queries on one DWARFInfo object (di_op, di_answer: Spec/C13Spec.v) *)
  Definition di_step (le : bool) (stream : list Z) (size : Z) (st : di_state) (o : di_op)
    : di_state * di_answer D :=
    match o with
    | OpContaining r =>
        let '(c1, a) := get_CU_containing le stream size (st_cus st) r in
        (mk_di_state c1 (st_dies st), ACU a)
    | OpAt off =>
        let '(c1, a) := get_CU_at le stream size (st_cus st) off in
        (mk_di_state c1 (st_dies st), ACU a)
    | OpDie cu_ofs die_ofs =>
        let '(st1, a) := get_DIE_from_lut_entry le stream size st cu_ofs die_ofs in
        (st1, ADIE a)
    end.

  Fixpoint di_run (le : bool) (stream : list Z) (size : Z) (st : di_state) (h : list di_op)
    : di_state * list (di_answer D) :=
    match h with
    | [] => (st, [])
    | o :: r =>
        let '(st1, a) := di_step le stream size st o in
        let '(st2, l) := di_run le stream size st1 r in
        (st2, a :: l)
    end.
End DIEs.
