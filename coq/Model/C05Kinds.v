(* Model/C05Kinds.v — the kinds of construct parser objects that occur as values of
   DWARFStructs.Dwarf_dw_form (dwarf/structs.py _create_dw_form).  The table itself is data and
   is regenerated from the live objects into Gen/C05Tables.v by tools/gen/gen_c05.py. *)
From Coq Require Import ZArith List String.

Inductive pkind : Type :=
| KUInt (n : nat)       (* FormatField, unsigned, n bytes, byte order of the structs *)
| KSInt (n : nat)       (* FormatField, signed *)
| KU24                  (* ULInt24 / UBInt24 of common/construct_utils.py *)
| KOffset               (* Dwarf_offset: 4 bytes in 32-bit DWARF, 8 in 64-bit *)
| KAddr                 (* Dwarf_target_addr: address_size bytes *)
| KUleb                 (* ULEB128 *)
| KSleb                 (* SLEB128 *)
| KCString              (* construct CString *)
| KBlock (len : pkind)  (* PrefixedArray(uint8, length_field) *)
| KArray (n : nat)      (* Array(n, uint8) *)
| KEmpty                (* StaticField('', 0) *)
| KNone                 (* the table holds None *)
| KMissing.             (* the decoded name is not a key of the table: KeyError *)
