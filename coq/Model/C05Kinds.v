(* Model/C05Kinds.v — the kinds of construct parser objects that occur as values of
   DWARFStructs.Dwarf_dw_form (dwarf/structs.py _create_dw_form).  The table itself is data and
   is regenerated from the live objects into Gen/C05Tables.v by tools/gen/gen_c05.py. *)
From Coq Require Import ZArith List String.

Inductive pkind : Type :=
| KUInt (n : nat)       (* FormatField, unsigned, n bytes, byte order of the structs *)
| KSInt (n : nat)       (* FormatField, signed *)
| KU24                  (* ULInt24 / UBInt24 of common/construct_utils.py *)
| KOffset               (* Dwarf_offset: 4 bytes in 32-bit DWARF, 8 in 64-bit *)
| KAddr                 (* Dwarf_target_addr: address_size bytes *)
| KUleb                 (* ULEB128 *)
| KSleb                 (* SLEB128 *)
| KCString              (* construct CString *)
| KBlock (len : pkind)  (* PrefixedArray(uint8, length_field) *)
| KArray (n : nat)      (* Array(n, uint8) *)
| KEmpty                (* StaticField('', 0) *)
| KNone                 (* the table holds None *)
| KMissing.             (* the decoded name is not a key of the table: KeyError *)

(* the shapes of the members of DWARFStructs.Dwarf_lineprog_header and Dwarf_lineprog_file_entry
   (dwarf/structs.py _create_lineprog_header).  The member lists themselves are data and are
   regenerated from the live construct objects into Gen/C05Tables.v (every lambda is probed). *)
Inductive hfield : Type :=
| HInitialLength        (* _InitialLengthAdapter(Struct(uint32 first, If(first == 0xFFFFFFFF, uint64 second))) *)
| HField (k : pkind)    (* a plain field *)
| HIfVerGe (t : Z) (f : hfield) (dflt : option Z)   (* If(lambda ctx: ctx.version >= t, f, elsevalue); None = Python None *)
| HIfVerLt (t : Z) (f : hfield) (dflt : option Z)   (* If(lambda ctx: ctx.version < t, f, elsevalue) *)
| HIfNonEmpty (field : string) (fs : list (string * pkind))
                        (* If(lambda ctx: bool(ctx.<field>), Embed(Struct('', fs...))) *)
| HCountMinus1 (field : string) (k : pkind)          (* Array(lambda ctx: ctx.<field> - 1, k) *)
| HPrefixed (count_name : string) (count : pkind) (elem : hfield)   (* PrefixedArray(elem, count) *)
| HFormatStruct         (* Struct(Enum(ULEB128 content_type, **ENUM_DW_LNCT), Enum(ULEB128 form, **ENUM_DW_FORM)) *)
| HFormattedEntry (format_field : string)            (* FormattedEntry(name, structs, format_field) *)
| HUntilEmptyString     (* RepeatUntilExcluding(lambda obj, ctx: obj == b'', CString) *)
| HUntilEmptyName.      (* RepeatUntilExcluding(lambda obj, ctx: not obj.name, Dwarf_lineprog_file_entry) *)
