(* Model/C19Battery.v — C19 part 2: the enumeration battery as a STEP-COUNTING model.
   Everything runs in the counting monad of Model/C19Base.v, so a run returns the
   per-step outcomes together with (struct parses, bytes read, string reads).

   Every Python loop is an instance of ONE combinator [loop] with fuel
   |file| + 1; running out of fuel is Err EFuel, which nothing catches.  The theorems
   of Proofs/C19Battery.v show EFuel unreachable (each loop ends within |file|+1
   iterations) and bound the counters.

   [x_legacy = true] is the code before the repairs 690af1e (num_segments with
   e_phoff = 0) and eedb89f (zero next link in version chains); the harness ties
   [x_legacy = false] to /repo.

   Mirrors elf/elffile.py (num_sections, get_section, iter_sections, _make_section and
   the _make_*_section helpers, num_segments, get_segment, iter_segments, _make_segment),
   elf/sections.py (Section/SymbolTableSection/AttributesSection __init__, num_symbols),
   elf/relocation.py (RelocationSection / RelrRelocationSection __init__),
   elf/dynamic.py (DynamicSection/DynamicSegment __init__, _iter_tags, iter_tags,
   DynamicTag), elf/hash.py (ELFHashTable/GNUHashTable __init__,
   get_number_of_symbols), elf/gnuversions.py (iter_versions,
   _iter_version_auxiliaries), elf/notes.py (iter_notes).
   NOT modelled (the model answers Err (EPy "unmodelled") and the harness compares
   nothing from there on): Dynamic._get_stringtable's fallback for a DynamicSegment
   without a matching section, note descriptors NT_PRPSINFO / NT_FILE (core files).
   No proofs in this file. *)
From Coq Require Import String.
From PV Require Import Base.Bytes Base.Outcome Base.Fmt Base.Prim Base.Enum.
From PV Require Import Gen.ElfLayouts Gen.Tables Model.C19Base Model.C19Ctor.
Open Scope list_scope.
Open Scope Z_scope.

(* ------------------------------------------------------------------ control *)
(* one Python loop: [step s] runs one iteration from loop state s and answers
   inl s' (go on) or inr s' (break / exhausted / return) *)
Fixpoint loop {S : Type} (fuel : nat) (step : S -> M (S + S)) (s : S) : M S :=
  match fuel with
  | O => fail EFuel
  | Datatypes.S f =>
      dom r <- step s;
      match r with
      | inl s' => loop f step s'
      | inr s' => ret s'
      end
  end.

(* try: ... except Exception as e: — the counters survive; fuel exhaustion is not an
   exception of the code and is never caught *)
Definition mtry {A} (m : M A) : M (res A) := fun c =>
  match m c with
  | (Err EFuel, c1) => (Err EFuel, c1)
  | (r, c1) => (Ok r, c1)
  end.

Definition unmodelled {A} : M A := fail (EPy "unmodelled").

(* ------------------------------------------------------------------ tables chosen by
   create_advanced_structs(e_type, e_machine, EI_OSABI) *)
Fixpoint assoc_str (l : list (string * string)) (k : string) : option string :=
  match l with
  | [] => None
  | (a, b) :: r => if String.eqb a k then Some b else assoc_str r k
  end.
Definition tab_of (id : option string) : list (Z * string) :=
  match id with Some i => gen_table i gen_enum_tables | None => [] end.
Definition machine_key (v : Z) : string :=
  match dict_get E005_e_machine v with Some n => n | None => "<raw>"%string end.
Definition osabi_key (v : Z) : string :=
  match dict_get E003_EI_OSABI v with Some n => n | None => "<raw>"%string end.
Definition etype_key (v : Z) : string :=
  match dict_get E004_e_type v with Some n => n | None => "<raw>"%string end.

Record bctx : Type := mkb {
  b_x : elfctx;
  b_strtab : option secinfo;        (* self._section_header_stringtable *)
  b_fuel : nat;                     (* |file| + 1 *)
  b_mkey : string;                  (* decoded e_machine *)
  b_shtab : list (Z * string);      (* Elf_Shdr.sh_type decoding dict *)
  b_pttab : list (Z * string);      (* Elf_Phdr.p_type *)
  b_dtab : list (Z * string);       (* Elf_Dyn.d_tag *)
  b_ntab : list (Z * string)        (* Elf_Nhdr.n_type *)
}.

Definition mk_bctx (f : elffile) : bctx :=
  let x := f_ctx f in
  let mk := machine_key (hz x "e_machine") in
  mkb x (f_strtab f) (S (length (x_bs x))) mk
      (tab_of (assoc_str gen_sh_type_table_of_machine mk))
      (tab_of (assoc_str gen_p_type_table_of_machine mk))
      (tab_of (if String.eqb (osabi_key (hz x "e_ident.EI_OSABI")) "ELFOSABI_SOLARIS"
               then assoc_str gen_d_tag_table_of_machine_solaris mk
               else assoc_str gen_d_tag_table_of_machine mk))
      (tab_of (assoc_str gen_n_type_table_of_etype (etype_key (hz x "e_type")))).

Definition bs_of (b : bctx) : list Z := x_bs (b_x b).
Definition le_of (b : bctx) : bool := x_le (b_x b).
Definition is64_of (b : bctx) : bool := x_is64 (b_x b).
Definition leg_of (b : bctx) : bool := x_legacy (b_x b).

(* value == 'NAME' for an Enum field decoded through table T *)
Definition named (T : list (Z * string)) (v : Z) (n : string) : bool :=
  match dict_get T v with Some m => String.eqb m n | None => false end.
Definition sht (b : bctx) (h : record) (n : string) : bool := named (b_shtab b) (rec_z h "sh_type") n.

(* struct_parse of a static record of the file's class / byte order *)
Definition parse_rec (b : bctx) (L : layout) (pos : Z) : M record :=
  struct_parse_at (leg_of b) L [] (bs_of b) pos.

(* ------------------------------------------------------------------ layouts with
   file-sized arrays (Elf_Hash, Gnu_Hash): an Array whose count exceeds what is left
   fails after reading everything.  [avail] = number of bytes from the cursor to EOF, kept by
   arithmetic; checking it before an array keeps every count below the file size. *)
Fixpoint words (le : bool) (n : nat) (cnt : nat) (bs : list Z) : list Z * list Z :=
  match cnt with
  | O => ([], bs)
  | S c => let '(zs, t) := words le n c (skipn n bs) in (int_decode le (firstn n bs) :: zs, t)
  end.
Definition ksize (k : fkind) : Z := match kind_size k with Some n => Z.of_nat n | None => 0 end.
Fixpoint decode_fields_g (L : layout) (e : env) (bs : list Z) (avail : Z)
  : option (list (string * fval) * Z) :=
  match L with
  | [] => Some ([], avail)
  | (nm, k) :: L' =>
      match k with
      | KArr c le n =>
          let cnt := Z.max 0 (eval e c) in
          if negb (cnt * Z.of_nat n <=? avail) then None else
          let '(zs, r) := words le n (Z.to_nat cnt) bs in
          match decode_fields_g L' ((nm, VL zs) :: e) r (avail - cnt * Z.of_nat n) with
          | Some (es, a) => Some ((nm, VL zs) :: es, a)
          | None => None
          end
      | _ =>
          match decode_kind nm k e bs with
          | None => None
          | Some (entries, r) =>
              match decode_fields_g L' (rev entries ++ e) r (avail - ksize k) with
              | Some (es, a) => Some (entries ++ es, a)
              | None => None
              end
          end
      end
  end.
Definition struct_parse_arr_at (b : bctx) (L : layout) (pos : Z) : M record := fun c =>
  match seek_error pos with
  | Some t =>
      if negb (leg_of b) then (Err EParse, c) else (Err (EPy t), c)
  | None =>
      let avail := Z.max 0 (stream_len (b_x b) - pos) in
      match decode_fields_g L [] (rest_at (bs_of b) pos) avail with
      | Some (r, a) => (Ok r, tick_parse c (avail - a))
      | None => (Err EParse, tick_parse c avail)
      end
  end.

(* ------------------------------------------------------------------ section objects *)
(* Python class of a section object *)
Definition K_Section := 0.          Definition K_Null := 1.            Definition K_StrTab := 2.
Definition K_SymTab := 3.           Definition K_SymTabIndex := 4.     Definition K_SunwSyminfo := 5.
Definition K_VerNeed := 6.          Definition K_VerDef := 7.          Definition K_VerSym := 8.
Definition K_Reloc := 9.            Definition K_Dynamic := 10.        Definition K_Note := 11.
Definition K_Stab := 12.            Definition K_ArmAttr := 13.        Definition K_RiscvAttr := 14.
Definition K_ElfHash := 15.         Definition K_GnuHash := 16.        Definition K_Relr := 17.

Record sobj : Type := mkso {
  o_kind : Z;
  o_hdr : record;
  o_link_kind : Z;            (* class of the linked stringtable / symboltable object, -1: none *)
  o_link_off : Z;             (* its sh_offset *)
  o_params : record           (* hash table parameters *)
}.
Definition so (k : Z) (h : record) : sobj := mkso k h (-1) 0 [].
Definition so_link (k : Z) (h : record) (l : sobj) : sobj :=
  mkso k h (o_kind l) (rec_z (o_hdr l) "sh_offset") [].

(* ELFFile._get_section_name(section_header) *)
Definition get_section_name (b : bctx) (h : record) : M (list Z) :=
  match b_strtab b with
  | None => fail EParse                                   (* "String Table not found" *)
  | Some st =>
      dom s <- cstring_at (b_fuel b) (bs_of b) (rec_z (s_hdr st) "sh_offset" + rec_z h "sh_name");
      ret (match s with Some s => s | None => [] end)
  end.

(* name; then Section.__init__ — what _make_section does for every class without links *)
Definition mk_plain (b : bctx) (h : record) (k : Z) : M sobj :=
  dom _ <- section_init (b_x b) h;
  ret (so k h).

(* ELFFile._get_linked_strtab_section(n): header (None['sh_type'] -> TypeError), type check,
   _make_section -> StringTableSection *)
Definition linked_strtab (b : bctx) (n : Z) : M sobj :=
  dom oh <- get_section_header (b_x b) n;
  match oh with
  | None => fail (EPy "TypeError")
  | Some h =>
      if negb (sht b h "SHT_STRTAB") then fail EElf else
      dom _ <- get_section_name b h;
      mk_plain b h K_StrTab
  end.

(* SymbolTableSection.__init__ after the linked string table is known *)
Definition symtab_init (b : bctx) (h : record) (st : sobj) : M sobj :=
  dom _ <- section_init (b_x b) h;
  if negb (0 <? rec_z h "sh_entsize") then fail EElf else
  if negb (rec_z h "sh_size" mod rec_z h "sh_entsize" =? 0) then fail EElf else
  ret (so_link K_SymTab h st).

(* ELFFile._make_symbol_table_section *)
Definition mk_symtab (b : bctx) (h : record) : M sobj :=
  dom st <- linked_strtab b (rec_z h "sh_link");
  symtab_init b h st.

(* ELFFile._get_linked_symtab_section(n) *)
Definition linked_symtab (b : bctx) (n : Z) : M sobj :=
  dom oh <- get_section_header (b_x b) n;
  match oh with
  | None => fail (EPy "TypeError")
  | Some h =>
      if negb (sht b h "SHT_SYMTAB" || sht b h "SHT_DYNSYM") then fail EElf else
      dom _ <- get_section_name b h;
      mk_symtab b h
  end.

(* RelocationTable.entry_size: Elf_Rela / Elf_Rel .sizeof() *)
Definition rel_entry_size (b : bctx) (rela : bool) : Z :=
  let mips := is64_of b && existsb (String.eqb (b_mkey b)) gen_rel_mips64_machines in
  if rela then lsize (if mips then gen_Elf_Rela_mips64 (le_of b) else gen_Elf_Rela (le_of b) (is64_of b))
  else lsize (if mips then gen_Elf_Rel_mips64 (le_of b) else gen_Elf_Rel (le_of b) (is64_of b)).

Definition Elf_byte : layout := [("format_version"%string, KU true 1)].

(* AttributesSection.__init__ *)
Definition mk_attr (b : bctx) (h : record) (k : Z) : M sobj :=
  dom _ <- section_init (b_x b) h;
  dom fv <- parse_rec b Elf_byte (rec_z h "sh_offset");
  if negb (rec_z fv "format_version" =? 65) then fail EElf else
  ret (so k h).

(* ELFFile.get_section(n, type=('SHT_STRTAB','SHT_NOBITS')) as DynamicSection.__init__ calls it *)
Definition get_section_typed (b : bctx) (n : Z) : M sobj :=
  dom oh <- get_section_header (b_x b) n;
  match oh with
  | None => fail (EPy "AttributeError")
  | Some h =>
      if sht b h "SHT_STRTAB" then dom _ <- get_section_name b h; mk_plain b h K_StrTab
      else if sht b h "SHT_NOBITS" then dom _ <- get_section_name b h; mk_plain b h K_Section
      else fail EElf
  end.

(* ELFFile._make_section(section_header) *)
Definition make_section (b : bctx) (h : record) : M sobj :=
  dom name <- get_section_name b h;
  let ty := sht b h in
  if ty "SHT_STRTAB" then mk_plain b h K_StrTab
  else if ty "SHT_NULL" then mk_plain b h K_Null
  else if ty "SHT_SYMTAB" || ty "SHT_DYNSYM" || ty "SHT_SUNW_LDYNSYM" then mk_symtab b h
  else if ty "SHT_SYMTAB_SHNDX" then mk_plain b h K_SymTabIndex
  else if ty "SHT_SUNW_syminfo" then
    dom sy <- linked_symtab b (rec_z h "sh_link");
    dom _ <- section_init (b_x b) h; ret (so_link K_SunwSyminfo h sy)
  else if ty "SHT_GNU_verneed" then
    dom st <- linked_strtab b (rec_z h "sh_link");
    dom _ <- section_init (b_x b) h; ret (so_link K_VerNeed h st)
  else if ty "SHT_GNU_verdef" then
    dom st <- linked_strtab b (rec_z h "sh_link");
    dom _ <- section_init (b_x b) h; ret (so_link K_VerDef h st)
  else if ty "SHT_GNU_versym" then
    dom sy <- linked_symtab b (rec_z h "sh_link");
    dom _ <- section_init (b_x b) h; ret (so_link K_VerSym h sy)
  else if ty "SHT_REL" || ty "SHT_RELA" then
    dom _ <- section_init (b_x b) h;
    if negb (rec_z h "sh_entsize" =? rel_entry_size b (ty "SHT_RELA")) then fail EElf
    else ret (so K_Reloc h)
  else if ty "SHT_DYNAMIC" then
    dom _ <- section_init (b_x b) h;
    dom st <- get_section_typed b (rec_z h "sh_link");
    ret (so_link K_Dynamic h st)
  else if ty "SHT_NOTE" then mk_plain b h K_Note
  else if ty "SHT_PROGBITS" && zlist_eqb name [46; 115; 116; 97; 98] then mk_plain b h K_Stab
  else if ty "SHT_ARM_ATTRIBUTES" then mk_attr b h K_ArmAttr
  else if ty "SHT_RISCV_ATTRIBUTES" then mk_attr b h K_RiscvAttr
  else if ty "SHT_HASH" then
    dom sy <- linked_symtab b (rec_z h "sh_link");
    dom _ <- section_init (b_x b) h;
    dom p <- struct_parse_arr_at b (gen_Elf_Hash (le_of b) (is64_of b)) (rec_z h "sh_offset");
    ret (mkso K_ElfHash h (o_kind sy) (rec_z (o_hdr sy) "sh_offset") p)
  else if ty "SHT_GNU_HASH" then
    dom sy <- linked_symtab b (rec_z h "sh_link");
    dom _ <- section_init (b_x b) h;
    dom p <- struct_parse_arr_at b (gen_Gnu_Hash (le_of b) (is64_of b)) (rec_z h "sh_offset");
    ret (mkso K_GnuHash h (o_kind sy) (rec_z (o_hdr sy) "sh_offset") p)
  else if ty "SHT_RELR" then
    dom _ <- section_init (b_x b) h;
    if negb (lsize (gen_Elf_Relr (le_of b) (is64_of b)) =? rec_z h "sh_entsize") then fail EElf
    else ret (so K_Relr h)
  else mk_plain b h K_Section.

(* ELFFile.get_section(n)  (type=None) *)
Definition get_section (b : bctx) (n : Z) : M sobj :=
  dom oh <- get_section_header (b_x b) n;
  match oh with
  | None =>      (* _make_section(None): _get_section_name(None) *)
      match b_strtab b with None => fail EParse | Some _ => fail (EPy "TypeError") end
  | Some h => make_section b h
  end.

(* ELFFile.num_sections() *)
Definition num_sections (b : bctx) : M Z :=
  let x := b_x b in
  if hz x "e_shoff" =? 0 then ret 0
  else if hz x "e_shnum" =? 0 then
    dom oh <- get_section_header x 0;
    match oh with None => fail (EPy "TypeError") | Some h => ret (rec_z h "sh_size") end
  else ret (hz x "e_shnum").

(* for i in range(n): s = self.get_section(i); <visit s>
   The visitor may stop the generator early (DynamicSegment.__init__'s break). *)
Definition sections_loop {A} (b : bctx) (n : Z) (visit : A -> sobj -> A * bool) (a0 : A) : M A :=
  dom r <- loop (b_fuel b)
             (fun st : Z * A =>
                let '(i, a) := st in
                if n <=? i then ret (inr (i, a)) else
                dom s <- get_section b i;
                let '(a', stop) := visit a s in
                ret (if stop then inr (i, a') else inl (i + 1, a')))
             (0, a0);
  ret (snd r).

(* ------------------------------------------------------------------ segments *)
Definition K_Segment := 0.  Definition K_Interp := 1.  Definition K_DynSeg := 2.  Definition K_NoteSeg := 3.

Record gobj : Type := mkgo {
  g_kind : Z;
  g_hdr : record;
  g_strtab : option sobj      (* DynamicSegment: the string table found through the sections *)
}.

Definition phdr_size (b : bctx) : Z := lsize (gen_Elf_Phdr (le_of b) (is64_of b)).

(* ELFFile._segment_offset(n) *)
Definition segment_offset (b : bctx) (n : Z) : M Z :=
  let x := b_x b in
  let phentsize := hz x "e_phentsize" in
  if (0 <? hz x "e_phoff") && (phentsize <? phdr_size b) then fail EElf
  else ret (hz x "e_phoff" + n * phentsize).

(* DynamicSegment.__init__: the first DynamicSection whose sh_offset equals p_offset gives the
   string table, stringtable = elffile.get_section(section['sh_link']) *)
Definition dynseg_init (b : bctx) (ph : record) : M gobj :=
  dom n <- num_sections b;
  dom found <- sections_loop b n
                 (fun (a : option sobj) s =>
                    if (o_kind s =? K_Dynamic) && (rec_z (o_hdr s) "sh_offset" =? rec_z ph "p_offset")
                    then (Some s, true) else (a, false))
                 None;
  match found with
  | None => ret (mkgo K_DynSeg ph None)
  | Some s => dom st <- get_section b (rec_z (o_hdr s) "sh_link"); ret (mkgo K_DynSeg ph (Some st))
  end.

(* ELFFile._make_segment *)
Definition make_segment (b : bctx) (ph : record) : M gobj :=
  let ty := named (b_pttab b) (rec_z ph "p_type") in
  if ty "PT_INTERP" then ret (mkgo K_Interp ph None)
  else if ty "PT_DYNAMIC" then dynseg_init b ph
  else if ty "PT_NOTE" then ret (mkgo K_NoteSeg ph None)
  else ret (mkgo K_Segment ph None).

(* ELFFile.get_segment(n) *)
Definition get_segment (b : bctx) (n : Z) : M gobj :=
  dom pos <- segment_offset b n;
  dom ph <- parse_rec b (gen_Elf_Phdr (le_of b) (is64_of b)) pos;
  make_segment b ph.

(* ELFFile.num_segments():
     if self['e_phoff'] == 0: return 0                  <- repair 690af1e
     if self['e_phnum'] < 0xffff: return self['e_phnum']
     return self.get_section(0)['sh_info'] *)
Definition num_segments (b : bctx) : M Z :=
  let x := b_x b in
  if negb (leg_of b) && (hz x "e_phoff" =? 0) then ret 0
  else if hz x "e_phnum" <? 0xffff then ret (hz x "e_phnum")
  else dom s <- get_section b 0; ret (rec_z (o_hdr s) "sh_info").

(* list(e.iter_sections()) / list(e.iter_segments()) with what was collected before an
   exception: (objects in order, exception or None) *)
Definition collect_sections (b : bctx) : M (list sobj * option err) :=
  dom rn <- mtry (num_sections b);
  match rn with
  | Err e => ret ([], Some e)
  | Ok n =>
      dom r <- loop (b_fuel b)
                 (fun st : Z * list sobj * option err =>
                    let '(i, acc, _) := st in
                    if n <=? i then ret (inr st) else
                    dom rs <- mtry (get_section b i);
                    match rs with
                    | Ok s => ret (inl (i + 1, s :: acc, None))
                    | Err e => ret (inr (i, acc, Some e))
                    end)
                 (0, [], None);
      let '(_, acc, e) := r in ret (rev acc, e)
  end.

Definition collect_segments (b : bctx) : M (list gobj * option err) :=
  dom rn <- mtry (num_segments b);
  match rn with
  | Err e => ret ([], Some e)
  | Ok n =>
      dom r <- loop (b_fuel b)
                 (fun st : Z * list gobj * option err =>
                    let '(i, acc, _) := st in
                    if n <=? i then ret (inr st) else
                    dom rs <- mtry (get_segment b i);
                    match rs with
                    | Ok s => ret (inl (i + 1, s :: acc, None))
                    | Err e => ret (inr (i, acc, Some e))
                    end)
                 (0, [], None);
      let '(_, acc, e) := r in ret (rev acc, e)
  end.

(* ------------------------------------------------------------------ dynamic tags *)
Definition dyn_layout (b : bctx) : layout := gen_Elf_Dyn (le_of b) (is64_of b).
Definition HANDLED_TAGS : list string :=
  ["DT_NEEDED"; "DT_RPATH"; "DT_RUNPATH"; "DT_SONAME"; "DT_SUNW_FILTER"]%string.

(* DynamicTag(entry, stringtable) for a string table object of class [lk] at offset [loff] *)
Definition dynamic_tag (b : bctx) (tag : record) (lk loff : Z) : M unit :=
  match dict_get (b_dtab b) (rec_z tag "d_tag") with
  | Some nm =>
      if existsb (String.eqb nm) HANDLED_TAGS then
        if lk =? K_StrTab then dom _ <- cstring_at (b_fuel b) (bs_of b) (loff + rec_z tag "d_val"); ret tt
        else fail (EPy "AttributeError")          (* a plain Section has no get_string *)
      else ret tt
  | None => ret tt
  end.

(* sum(1 for _ in d.iter_tags()):
     for n in itertools.count(): tag = self._get_tag(n); yield DynamicTag(tag, strtab)
                                 if tag['d_tag'] == 'DT_NULL': break *)
Definition iter_tags (b : bctx) (offset lk loff : Z) : M Z :=
  dom r <- loop (b_fuel b)
             (fun n : Z =>
                dom tag <- parse_rec b (dyn_layout b) (offset + n * lsize (dyn_layout b));
                dom _ <- dynamic_tag b tag lk loff;
                ret (if named (b_dtab b) (rec_z tag "d_tag") "DT_NULL" then inr (n + 1) else inl (n + 1)))
             0;
  ret r.

Definition section_tags (b : bctx) (s : sobj) : M Z :=
  iter_tags b (rec_z (o_hdr s) "sh_offset") (o_link_kind s) (o_link_off s).

(* DynamicSegment.iter_tags(): empty when p_filesz == 0; without a string table found through the
   sections Dynamic._get_stringtable falls back on DT_STRTAB / '.dynstr': not modelled *)
Definition segment_tags (b : bctx) (g : gobj) : M Z :=
  if rec_z (g_hdr g) "p_filesz" =? 0 then ret 0 else
  match g_strtab g with
  | None => unmodelled
  | Some st => iter_tags b (rec_z (g_hdr g) "p_offset") (o_kind st) (rec_z (o_hdr st) "sh_offset")
  end.

(* ------------------------------------------------------------------ symbol counts *)
(* SymbolTableSection.num_symbols(): sh_entsize > 0 was asserted by __init__ *)
Definition num_symbols (s : sobj) : Z := rec_z (o_hdr s) "sh_size" / rec_z (o_hdr s) "sh_entsize".

(* ELFHashTable.get_number_of_symbols() *)
Definition elf_hash_nsyms (s : sobj) : Z := rec_z (o_params s) "nchains".

Definition rec_list (r : record) (f : string) : list Z :=
  match rec_get r f with Some (VL zs) => zs | _ => [] end.
Fixpoint zmax_list (l : list Z) (acc : Z) : Z :=
  match l with [] => acc | x :: r => zmax_list r (Z.max acc x) end.

(* GNUHashTable.get_number_of_symbols():
     max_idx = max(self.params['buckets'])                        (ValueError when empty)
     if max_idx < symoffset: return symoffset
     stream.seek(chain_pos + (max_idx - symoffset) * wordsize)
     while True: cur_hash = struct.unpack(fmt, stream.read(wordsize))[0]   (struct.error at EOF)
                 if cur_hash & 1: return max_idx + 1
                 max_idx += 1 *)
Definition gnu_hash_nsyms (b : bctx) (s : sobj) : M Z :=
  let p := o_params s in
  let xword := if is64_of b then 8 else 4 in
  match rec_list p "buckets" with
  | [] => fail (EPy "ValueError")
  | b0 :: rest =>
      let max_idx := zmax_list rest b0 in
      if max_idx <? rec_z p "symoffset" then ret (rec_z p "symoffset") else
      let chain_pos := rec_z (o_hdr s) "sh_offset" + 4 * 4 + rec_z p "bloom_size" * xword
                       + rec_z p "nbuckets" * 4 in
      let start := chain_pos + (max_idx - rec_z p "symoffset") * 4 in
      match seek_error start with
      | Some t => fail (EPy t)
      | None =>
          dom r <- loop (b_fuel b)
                     (fun st : Z * Z =>
                        let '(pos, idx) := st in
                        dom w <- raw_read (bs_of b) pos 4;
                        if blen w <? 4 then fail (EPy "error") else
                        if Z.odd (int_decode (le_of b) w) then ret (inr (pos, idx + 1))
                        else ret (inl (pos + 4, idx + 1)))
                     (start, max_idx);
          ret (snd r)
      end
  end.

(* ------------------------------------------------------------------ version sections *)
(* for _ in range(count): entry = struct_parse(aux_struct, stream, off); name = get_string(...)
                          yield; if entry[next] == 0: break   <- repair eedb89f;  off += entry[next] *)
Definition iter_aux (b : bctx) (L : layout) (name_f next_f : string) (stroff : Z) (off0 count : Z) : M Z :=
  dom r <- loop (b_fuel b)
             (fun st : Z * Z =>
                let '(i, off) := st in
                if count <=? i then ret (inr st) else
                dom e <- parse_rec b L off;
                dom _ <- cstring_at (b_fuel b) (bs_of b) (stroff + rec_z e name_f);
                if negb (leg_of b) && (rec_z e next_f =? 0) then ret (inr (i + 1, off))
                else ret (inl (i + 1, off + rec_z e next_f)))
             (0, off0);
  ret (fst r).

(* n = m = 0
   for v, auxit in sec.iter_versions(): n += 1
       for a in auxit: m += 1
   -> (n, m) *)
Definition iter_versions (b : bctx) (s : sobj) : M (Z * Z) :=
  let need := o_kind s =? K_VerNeed in
  let L := if need then gen_Elf_Verneed (le_of b) (is64_of b) else gen_Elf_Verdef (le_of b) (is64_of b) in
  let LA := if need then gen_Elf_Vernaux (le_of b) (is64_of b) else gen_Elf_Verdaux (le_of b) (is64_of b) in
  let f (a d : string) : string := if need then a else d in
  let stroff := o_link_off s in
  dom r <- loop (b_fuel b)
             (fun st : Z * Z * Z * Z =>
                let '(i, off, n, m) := st in
                if rec_z (o_hdr s) "sh_info" <=? i then ret (inr st) else
                dom e <- parse_rec b L off;
                if negb (0 <? rec_z e (f "vn_cnt" "vd_cnt")) then fail EElf else
                dom _ <- (if need then dom _ <- cstring_at (b_fuel b) (bs_of b) (stroff + rec_z e "vn_file"); ret tt
                          else ret tt);
                dom k <- iter_aux b LA (f "vna_name" "vda_name") (f "vna_next" "vda_next") stroff
                           (off + rec_z e (f "vn_aux" "vd_aux")) (rec_z e (f "vn_cnt" "vd_cnt"));
                let nx := rec_z e (f "vn_next" "vd_next") in
                if negb (leg_of b) && (nx =? 0) then ret (inr (i + 1, off, n + 1, m + k))
                else ret (inl (i + 1, off + nx, n + 1, m + k)))
             (0, rec_z (o_hdr s) "sh_offset", 0, 0);
  let '(_, _, n, m) := r in ret (n, m).

(* ------------------------------------------------------------------ notes *)
Definition nhdr_layout (b : bctx) : layout := gen_Elf_Nhdr (le_of b) (is64_of b).
Definition roundup4 (n : Z) : Z := Z.lor (n - 1) 3 + 1.          (* roundup(n, 2) *)
Definition GNU : list Z := [71; 78; 85].

(* stream.read(n): OverflowError when n does not fit a C ssize_t *)
Definition stream_read (b : bctx) (pos n : Z) : M (list Z) :=
  if MAX_SSIZE <? n then fail (EPy "OverflowError") else raw_read (bs_of b) pos n.

(* struct_parse(Elf_Prop, stream, off): pr_type, pr_datasz, then pr_data — one word for the
   X86 / AARCH64 / RISCV property names and for GNU_PROPERTY_STACK_SIZE of the class' width, else
   pr_datasz raw bytes — then Padding up to the class alignment.  A short read fails after
   consuming what was left.  Returns pr_datasz. *)
Definition prop_head (b : bctx) : layout := [("pr_type"%string, KU (le_of b) 4); ("pr_datasz"%string, KU (le_of b) 4)].
Definition prop_data_len (b : bctx) (ty datasz : Z) : Z :=
  match rfind tbl_ENUM_NOTE_GNU_PROPERTY_TYPE ty with
  | Some nm =>
      (* classify_pr_data: (name*, pr_datasz, 0) selects the 4-byte word only when pr_datasz = 4,
         else the default Field(pr_datasz)  <- repair 0460299; before, the key was (name*, 4, 0):
         a word whatever pr_datasz said *)
      if String.prefix "GNU_PROPERTY_X86_" nm || String.prefix "GNU_PROPERTY_AARCH64_" nm
         || String.prefix "GNU_PROPERTY_RISCV_" nm then (if leg_of b then 4 else datasz)
      else if String.eqb nm "GNU_PROPERTY_STACK_SIZE" && (datasz =? 4) && negb (is64_of b) then 4
      else if String.eqb nm "GNU_PROPERTY_STACK_SIZE" && (datasz =? 8) && is64_of b then 8
      else datasz
  | None => datasz
  end.
Definition roundup_bits (n k : Z) : Z := Z.lor (n - 1) (2 ^ k - 1) + 1.       (* roundup(n, k) *)
Definition parse_prop (b : bctx) (off : Z) : M Z := fun c =>
  match seek_error off with
  | Some t =>
      if negb (leg_of b) then (Err EParse, c) else (Err (EPy t), c)
  | None =>
      let rest := rest_at (bs_of b) off in
      let win := read_n rest 8 in
      match decode_layout (prop_head b) win with
      | None => (Err EParse, tick_parse c (blen win))
      | Some (r, _) =>
          let datasz := rec_z r "pr_datasz" in
          let pad := roundup_bits datasz (if is64_of b then 3 else 2) - datasz in
          let need := 8 + prop_data_len b (rec_z r "pr_type") datasz + pad in
          if need <=? blen rest then (Ok datasz, tick_parse c need)
          else (Err EParse, tick_parse c (blen rest))
      end
  end.

(* NT_GNU_PROPERTY_TYPE_0:  off = offset; end = offset + n_descsz
     while off < end: p = struct_parse(Elf_Prop, stream, off); off += roundup(p.pr_datasz + 8, 2|3) *)
Definition iter_props (b : bctx) (offset descsz : Z) : M unit :=
  dom _ <- loop (b_fuel b)
             (fun off : Z =>
                if negb (off <? offset + descsz) then ret (inr off) else
                dom datasz <- parse_prop b off;
                ret (inl (off + roundup_bits (datasz + 8) (if is64_of b then 3 else 2))))
             offset;
  ret tt.

(* sum(1 for _ in iter_notes(elffile, offset, size)) *)
Definition iter_notes (b : bctx) (offset size : Z) : M Z :=
  let endp := offset + size in
  let hs := lsize (nhdr_layout b) in
  dom r <- loop (b_fuel b)
             (fun st : Z * Z =>
                let '(off, n) := st in
                if negb (off + hs <=? endp) then ret (inr st) else
                dom note <- parse_rec b (nhdr_layout b) off;
                let off1 := off + hs in
                (* elffile.stream.seek(offset) *)
                match seek_error off1 with
                | Some t => fail (EPy t)
                | None =>
                    let namesz := rec_z note "n_namesz" in
                    let descsz := rec_z note "n_descsz" in
                    dom nm <- (if namesz =? 0 then ret (None, off1, off1)
                               else let disk := roundup4 namesz in
                                    dom d <- stream_read b off1 disk;
                                    (* CString('').parse(data): ArrayError without a terminator *)
                                    match find0 d with
                                    | None => fail (EPy "ArrayError")
                                    | Some k => ret (Some (firstn k d), off1 + disk, off1 + blen d)
                                    end);
                    let '(name, off2, pos2) := nm in
                    dom desc <- stream_read b pos2 descsz;
                    let ty := named (b_ntab b) (rec_z note "n_type") in
                    let is_gnu := match name with Some s => zlist_eqb s GNU | None => false end in
                    dom _ <- (if ty "NT_GNU_ABI_TAG" && is_gnu then
                                dom _ <- parse_rec b (gen_Elf_abi (le_of b) (is64_of b)) off2; ret tt
                              else if ty "NT_GNU_BUILD_ID" && is_gnu then ret tt
                              else if ty "NT_GNU_GOLD_VERSION" && is_gnu then ret tt
                              else if ty "NT_PRPSINFO" then unmodelled
                              else if ty "NT_FILE" then unmodelled
                              else if ty "NT_GNU_PROPERTY_TYPE_0" && is_gnu then iter_props b off2 descsz
                              else ret tt);
                    ret (inl (off2 + roundup4 descsz, n + 1))
                end)
             (offset, 0);
  ret (snd r).

(* ------------------------------------------------------------------ the battery *)
(* per-object outcomes: value or exception *)
Definition each {A B} (f : A -> M B) (l : list A) : M (list (res B)) :=
  fold_right (fun a acc => dom r <- mtry (f a); dom rs <- acc; ret (r :: rs)) (ret []) l.
Definition keep {A} (p : A -> bool) (l : list A) : list A := filter p l.

Record battery_out : Type := mkbo {
  r_sections : list Z * option err;          (* class of every section object, exception *)
  r_segments : list Z * option err;
  r_symcounts : list Z;
  r_sec_tags : list (res Z);
  r_sec_notes : list (res Z);
  r_seg_notes : list (res Z);
  r_hash : list (res Z);
  r_versions : list (res (Z * Z));
  r_seg_tags : list (res Z)
}.

Definition battery (f : elffile) : M battery_out :=
  let b := mk_bctx f in
  dom secs <- collect_sections b;
  dom segs <- collect_segments b;
  let ss := fst secs in let gs := fst segs in
  let symc := map num_symbols (keep (fun s => o_kind s =? K_SymTab) ss) in
  dom stags <- each (section_tags b) (keep (fun s => o_kind s =? K_Dynamic) ss);
  dom snotes <- each (fun s => iter_notes b (rec_z (o_hdr s) "sh_offset") (rec_z (o_hdr s) "sh_size"))
                     (keep (fun s => o_kind s =? K_Note) ss);
  dom gnotes <- each (fun g => iter_notes b (rec_z (g_hdr g) "p_offset") (rec_z (g_hdr g) "p_filesz"))
                     (keep (fun g => g_kind g =? K_NoteSeg) gs);
  dom hs <- each (fun s => if o_kind s =? K_ElfHash then ret (elf_hash_nsyms s) else gnu_hash_nsyms b s)
                 (keep (fun s => (o_kind s =? K_ElfHash) || (o_kind s =? K_GnuHash)) ss);
  dom vs <- each (iter_versions b) (keep (fun s => (o_kind s =? K_VerNeed) || (o_kind s =? K_VerDef)) ss);
  dom gtags <- each (segment_tags b) (keep (fun g => g_kind g =? K_DynSeg) gs);
  ret (mkbo (map o_kind ss, snd secs) (map g_kind gs, snd segs) symc stags snotes gnotes hs vs gtags).

(* ELFFile(stream) followed by the battery *)
Definition open_and_enumerate (legacy : bool) (bs : list Z) : M battery_out :=
  dom f <- ctor legacy bs;
  battery f.

Definition battery_model (bs : list Z) : res battery_out * cnt := run (open_and_enumerate false bs).
Definition battery_legacy (bs : list Z) : res battery_out * cnt := run (open_and_enumerate true bs).

(* ------------------------------------------------------------------ wire format *)
Definition sx_opt_err (o : option err) : sx :=
  match o with None => sx_none | Some e => sx_of_err e end.
Definition sx_resz (r : res Z) : sx := sx_res SI r.
Definition sx_battery (o : battery_out) : sx :=
  SL [SL [SL (map SI (fst (r_sections o))); sx_opt_err (snd (r_sections o))];
      SL [SL (map SI (fst (r_segments o))); sx_opt_err (snd (r_segments o))];
      SL (map SI (r_symcounts o));
      SL (map sx_resz (r_sec_tags o));
      SL (map sx_resz (r_sec_notes o));
      SL (map sx_resz (r_seg_notes o));
      SL (map sx_resz (r_hash o));
      SL (map (sx_res (fun p => SL [SI (fst p); SI (snd p)])) (r_versions o));
      SL (map sx_resz (r_seg_tags o))].
