(* Model/C05Header.v — transliteration of
     dwarf/structs.py   DWARFStructs._create_lineprog_header (Dwarf_lineprog_header,
                        Dwarf_lineprog_file_entry, FormattedEntry)
     dwarf/dwarfinfo.py DWARFInfo._parse_line_program_at_offset (resolve_strings, the
                        legacy-compatible tables, program extent), line_program_for_CU,
                        _linetable_cache
   No proofs here.  The parsed Container is returned in the shape of Spec.C05Header.hview
   (content types and forms as their numeric codes; the names the code compares are obtained from
   the live tables in Gen/C05Tables.v).  `include_directory`/`file_entry`, which the code leaves
   None for a version 5 header without directories/files, are reported as the empty list. *)
From PV Require Export Base.Outcome Base.Prim Spec.C05Header Model.C05Kinds Model.C05LineProgram.
From PV Require Import Gen.C05Tables.
Open Scope list_scope.
Open Scope Z_scope.

(* a DWARFStructs instance: little_endian, dwarf_format == 64, address_size *)
Record mstructs : Type := { ms_le : bool; ms_is64 : bool; ms_addr : nat }.
Definition cfg_of (s : mstructs) : lcfg := {| c_le := ms_le s; c_addr_size := ms_addr s |}.

Definition rd_uint (le : bool) (n : nat) (bs : list Z) : res (Z * list Z) :=
  of_opt EParse (uint_decode le n bs).
Definition rd_sint (le : bool) (n : nat) (bs : list Z) : res (Z * list Z) :=
  of_opt EParse (sint_decode_n le n bs).

(* ---- construct Enum over a {name: value} dict: value -> the LAST name carrying it *)
Fixpoint enum_name (tbl : list (string * Z)) (v : Z) (acc : option string) : option string :=
  match tbl with
  | [] => acc
  | (n, x) :: r => enum_name r v (if x =? v then Some n else acc)
  end.
(* value of a name (dict lookup) *)
Fixpoint enum_value (tbl : list (string * Z)) (n : string) : option Z :=
  match tbl with
  | [] => None
  | (m, x) :: r => if String.eqb m n then Some x else enum_value r n
  end.

(* Enum(Dwarf_uleb128('content_type'), **ENUM_DW_LNCT): a value without a name is a MappingError
   unless the dict carries _default_ = Pass *)
Definition rd_content_type (bs : list Z) : res (Z * list Z) :=
  do (v, r) <- rd_uleb bs;
  match enum_name tbl_c05_lnct v None with
  | Some _ => Ok (v, r)
  | None => if c05_lnct_default then Ok (v, r) else Err EParse
  end.

(* Enum(Dwarf_uleb128('form'), **ENUM_DW_FORM) *)
Fixpoint form_lookup (tbl : list (Z * (string * pkind))) (v : Z) : option (string * pkind) :=
  match tbl with
  | [] => None
  | (x, d) :: r => if x =? v then Some d else form_lookup r v
  end.
Definition rd_form (bs : list Z) : res (Z * list Z) :=
  do (v, r) <- rd_uleb bs;
  match form_lookup tbl_c05_forms v with
  | Some _ => Ok (v, r)
  | None => if c05_form_default then Ok (v, r) else Err EParse
  end.

(* Struct('..._entry_format', content_type, form) *)
Definition rd_format (bs : list Z) : res ((Z * Z) * list Z) :=
  do (ct, r1) <- rd_content_type bs;
  do (f, r2) <- rd_form r1;
  Ok ((ct, f), r2).

(* Array(count, subcon) / the loop of PrefixedArray *)
Fixpoint rd_array {A} (n : nat) (d : list Z -> res (A * list Z)) (bs : list Z) : res (list A * list Z) :=
  match n with
  | O => Ok ([], bs)
  | S k =>
      do (x, r) <- d bs;
      do (xs, r') <- rd_array k d r;
      Ok (x :: xs, r')
  end.

(* ---- parsing one value by the kind of construct object Dwarf_dw_form holds *)
Definition offset_size (s : mstructs) : nat := if ms_is64 s then 8%nat else 4%nat.

Definition rd_len (s : mstructs) (k : pkind) : option (dec Z) :=
  match k with
  | KUInt n => Some (uint_decode (ms_le s) n)
  | KUleb => Some uleb_decode
  | _ => None
  end.

Definition rd_kind (s : mstructs) (k : pkind) (bs : list Z) : res (dval * list Z) :=
  match k with
  | KUInt n => do (v, r) <- rd_uint (ms_le s) n bs; Ok (DInt v, r)
  | KSInt n => do (v, r) <- rd_sint (ms_le s) n bs; Ok (DInt v, r)
  | KU24 => do (v, r) <- of_opt EParse (u24_decode (ms_le s) bs); Ok (DInt v, r)
  | KOffset => do (v, r) <- rd_uint (ms_le s) (offset_size s) bs; Ok (DInt v, r)
  | KAddr => do (v, r) <- rd_uint (ms_le s) (ms_addr s) bs; Ok (DInt v, r)
  | KUleb => do (v, r) <- rd_uleb bs; Ok (DInt v, r)
  | KSleb => do (v, r) <- rd_sleb bs; Ok (DInt v, r)
  | KCString => do (v, r) <- of_opt EParse (cstring_decode bs); Ok (DBytes v, r)
  | KBlock lk =>
      match rd_len s lk with
      | Some ld => do (v, r) <- of_opt EParse (block_decode ld bs); Ok (DList v, r)
      | None => Err (EPy "OutOfModel")
      end
  | KArray n => do (v, r) <- of_opt EParse (take n bs); Ok (DList v, r)
  | KEmpty => Ok (DBytes [], bs)
  | KNone => Err (EPy "AttributeError")       (* Rename(name, None) *)
  | KMissing => Err (EPy "KeyError")          (* self.structs.Dwarf_dw_form[f.form] *)
  end.

(* Container: obj[name] = value keeps the position of an existing key *)
Fixpoint alist_set (k : Z) (v : dval) (l : list (Z * dval)) : list (Z * dval) :=
  match l with
  | [] => [(k, v)]
  | (k', v') :: r => if k' =? k then (k', v) :: r else (k', v') :: alist_set k v r
  end.
Fixpoint alist_find (k : Z) (l : list (Z * dval)) : option dval :=
  match l with
  | [] => None
  | (k', v) :: r => if k' =? k then Some v else alist_find k r
  end.

(* FormattedEntry._parse: Struct('formatted_entry', *(Rename(f.content_type, Dwarf_dw_form[f.form]))) *)
Fixpoint rd_entry (s : mstructs) (fmt : list (Z * Z)) (acc : list (Z * dval)) (bs : list Z)
  : res (list (Z * dval) * list Z) :=
  match fmt with
  | [] => Ok (acc, bs)
  | (ct, f) :: fr =>
      match form_lookup tbl_c05_forms f with
      | None => Err (EPy "KeyError")          (* an unnamed form value is passed through as an int *)
      | Some (_, k) =>
          do (v, r) <- rd_kind s k bs;
          rd_entry s fr (alist_set ct v acc) r
      end
  end.
(* the parser is built (all table lookups done) before the first field is read *)
Fixpoint check_format (fmt : list (Z * Z)) : res unit :=
  match fmt with
  | [] => Ok tt
  | (_, f) :: fr =>
      match form_lookup tbl_c05_forms f with
      | None => Err (EPy "KeyError")
      | Some (_, KMissing) => Err (EPy "KeyError")
      | Some (_, KNone) => Err (EPy "AttributeError")
      | Some _ => check_format fr
      end
  end.
Definition rd_formatted_entry (s : mstructs) (fmt : list (Z * Z)) (bs : list Z)
  : res (list (Z * dval) * list Z) :=
  do _ <- check_format fmt;
  rd_entry s fmt [] bs.

(* ---- Dwarf_lineprog_header *)
Record raw_header : Type := {
  rh_view : hview;           (* as parsed: strings not yet resolved, legacy tables of versions 2-4 *)
  rh_rest : list Z           (* the stream after the header: stream.tell() *)
}.

Definition file_entry_view (f : file_entry) : dval * dval * dval * dval :=
  (DBytes (fe_name f), DInt (fe_dir f), DInt (fe_mtime f), DInt (fe_length f)).

(* RepeatUntilExcluding(lambda obj, ctx: not obj.name, Dwarf_lineprog_file_entry) *)
Fixpoint rd_file_entries (fuel : nat) (bs : list Z) : res (list file_entry * list Z) :=
  match fuel with
  | O => Err EFuel
  | S f =>
      do (fe, r) <- file_entry_decode bs;
      match fe_name fe with
      | [] => Ok ([], r)
      | _ => do (fs, r') <- rd_file_entries f r; Ok (fe :: fs, r')
      end
  end.

Definition parse_header (s : mstructs) (bs : list Z) : res raw_header :=
  let le := ms_le s in
  do (il, r0) <- of_opt EParse (initial_length_decode le bs);
  let unit_length := fst il in
  do (version, r1) <- rd_uint le 2 r0;
  let ver5 := version >=? 5 in
  do (address_size, r2) <- (if ver5 then do (v, r) <- rd_uint le 1 r1; Ok (Some v, r) else Ok (None, r1));
  do (seg_size, r3) <- (if ver5 then do (v, r) <- rd_uint le 1 r2; Ok (Some v, r) else Ok (None, r2));
  do (header_length, r4) <- rd_uint le (offset_size s) r3;
  do (min_inst, r5) <- rd_uint le 1 r4;
  do (max_ops, r6) <- (if version >=? 4 then rd_uint le 1 r5 else Ok (1, r5));
  do (default_is_stmt, r7) <- rd_uint le 1 r6;
  do (line_base, r8) <- rd_sint le 1 r7;
  do (line_range, r9) <- rd_uint le 1 r8;
  do (opcode_base, r10) <- rd_uint le 1 r9;
  do (std_lengths, r11) <- of_opt EParse (take (Z.to_nat (opcode_base - 1)) r10);
  let params := {| p_min_inst := min_inst; p_max_ops := max_ops; p_default_is_stmt := default_is_stmt;
                   p_line_base := line_base; p_line_range := line_range; p_opcode_base := opcode_base |} in
  if ver5 then
    do (nfmt, r12) <- rd_uint le 1 r11;
    do (dir_format, r13) <- rd_array (Z.to_nat nfmt) rd_format r12;
    do (ndirs, r14) <- rd_uleb r13;
    do (dirs, r15) <- rd_array (Z.to_nat ndirs) (rd_formatted_entry s dir_format) r14;
    do (nffmt, r16) <- rd_uint le 1 r15;
    do (file_format, r17) <- rd_array (Z.to_nat nffmt) rd_format r16;
    do (nfiles, r18) <- rd_uleb r17;
    do (files, r19) <- rd_array (Z.to_nat nfiles) (rd_formatted_entry s file_format) r18;
    Ok {| rh_view := {| v_unit_length := unit_length; v_version := version;
                        v_address_size := address_size; v_seg_sel_size := seg_size;
                        v_header_length := header_length; v_params := params;
                        v_std_lengths := std_lengths;
                        v_dir_format := Some dir_format; v_directories := Some dirs;
                        v_file_format := Some file_format; v_file_names := Some files;
                        v_include_directory := []; v_file_entry := [] |};
          rh_rest := r19 |}
  else
    do (incdirs, r12) <- of_opt EParse
        (repeat_until (S (length r11)) cstring_decode
                      (fun obj => match obj with [] => true | _ => false end) r11);
    do (fentries, r13) <- rd_file_entries (S (length r12)) r12;
    Ok {| rh_view := {| v_unit_length := unit_length; v_version := version;
                        v_address_size := address_size; v_seg_sel_size := seg_size;
                        v_header_length := header_length; v_params := params;
                        v_std_lengths := std_lengths;
                        v_dir_format := None; v_directories := None;
                        v_file_format := None; v_file_names := None;
                        v_include_directory := map DBytes incdirs;
                        v_file_entry := map file_entry_view fentries |};
          rh_rest := r13 |}.

(* ---- DWARFInfo._parse_line_program_at_offset *)
(* the sections a DWARFInfo holds that this function touches; None = section absent *)
Record msections : Type := {
  sec_line : list Z;
  sec_line_str : option (list Z);
  sec_str : option (list Z);
  (* self.supplementary_dwarfinfo: None, or a DWARFInfo seen through its debug_str_sec *)
  sec_sup_str : option (option (list Z))
}.

(* get_string_from_linetable / get_string_from_table: parse_cstring_from_stream(sec.stream, offset) *)
Definition get_string (sec : option (list Z)) (v : dval) : res dval :=
  match sec with
  | None => Err (EPy "AttributeError")        (* self.debug_line_str_sec is None *)
  | Some data =>
      match v with
      | DInt off =>
          if off >=? 2 ^ 63 then Err (EPy "OverflowError")   (* stream.seek *)
          else if zlen data <=? off then Ok DNone            (* nothing to read: not found *)
          else match parse_cstring_at data (Z.to_nat off) with
               | Some s => Ok (DBytes s)
               | None => Ok DNone
               end
      | _ => Err (EPy "TypeError")
      end
  end.

(* str(x).encode() of a non-negative int *)
Fixpoint dec_digits (fuel : nat) (n : Z) (acc : list Z) : list Z :=
  match fuel with
  | O => acc
  | S f => let acc' := (48 + n mod 10) :: acc in if n <? 10 then acc' else dec_digits f (n / 10) acc'
  end.
Definition py_str_int (n : Z) : list Z := dec_digits (S (Z.to_nat (Z.log2 n))) n [].
(* lambda x: str(x).encode()  -- the fallback when no supplementary file was given *)
Definition str_of_offset (v : dval) : res dval :=
  match v with
  | DInt x => if x <? 0 then Err (EPy "OutOfModel") else Ok (DBytes (py_str_int x))
  | _ => Err (EPy "OutOfModel")
  end.

(* replace_value(data, content_type, replacer) *)
Fixpoint replace_value (data : list (list (Z * dval))) (ct : Z) (replacer : dval -> res dval)
  : res (list (list (Z * dval))) :=
  match data with
  | [] => Ok []
  | entry :: rest =>
      match alist_find ct entry with
      | None => Err (EPy "KeyError")
      | Some v =>
          do v' <- replacer v;
          do rest' <- replace_value rest ct replacer;
          Ok (alist_set ct v' entry :: rest')
      end
  end.

Definition form_name (f : Z) : option string :=
  match form_lookup tbl_c05_forms f with Some (n, _) => Some n | None => None end.
Definition name_in (n : string) (l : list string) : bool := existsb (String.eqb n) l.

(* resolve_strings(lineprog_header, format_field, data_field): the loop over the format *)
Fixpoint resolve_fields (secs : msections) (fmt : list (Z * Z)) (data : list (list (Z * dval)))
  : res (list (list (Z * dval))) :=
  match fmt with
  | [] => Ok data
  | (ct, f) :: fr =>
      match form_name f with
      | None => resolve_fields secs fr data          (* an int compares unequal to every name *)
      | Some n =>
          if String.eqb n "DW_FORM_line_strp" then
            do data' <- replace_value data ct (get_string (sec_line_str secs));
            resolve_fields secs fr data'
          else if String.eqb n "DW_FORM_strp" then
            do data' <- replace_value data ct (get_string (sec_str secs));
            resolve_fields secs fr data'
          else if name_in n ["DW_FORM_strp_sup"; "DW_FORM_GNU_strp_alt"]%string then
            (* if self.supplementary_dwarfinfo: its get_string_from_table, else the offset as text *)
            do data' <- (match sec_sup_str secs with
                         | Some sup => replace_value data ct (get_string sup)
                         | None => replace_value data ct str_of_offset
                         end);
            resolve_fields secs fr data'
          else if name_in n ["DW_FORM_strp_sup"; "DW_FORM_strx"; "DW_FORM_strx1"; "DW_FORM_strx2";
                             "DW_FORM_strx3"; "DW_FORM_strx4"]%string then
            Err (EPy "NotImplementedError")
          else resolve_fields secs fr data
      end
  end.
Definition resolve_strings (secs : msections) (fmt : option (list (Z * Z)))
    (data : option (list (list (Z * dval)))) : res (option (list (list (Z * dval)))) :=
  match fmt, data with
  | Some (d :: fr), Some ents =>            (* lineprog_header.get(format_field, False) is truthy *)
      do r <- resolve_fields secs (d :: fr) ents; Ok (Some r)
  | _, _ => Ok data
  end.

(* entry.DW_LNCT_path (AttributeError when absent) / entry.get('DW_LNCT_...') (None when absent) *)
Definition lnct (n : string) : res Z :=
  match enum_value tbl_c05_lnct n with Some v => Ok v | None => Err (EPy "OutOfModel") end.
Definition entry_attr (n : string) (e : list (Z * dval)) : res dval :=
  do k <- lnct n;
  match alist_find k e with Some v => Ok v | None => Err (EPy "AttributeError") end.
Definition entry_get (n : string) (e : list (Z * dval)) : res dval :=
  do k <- lnct n;
  match alist_find k e with Some v => Ok v | None => Ok DNone end.
Fixpoint mapM {A B} (f : A -> res B) (l : list A) : res (list B) :=
  match l with
  | [] => Ok []
  | x :: r => do y <- f x; do ys <- mapM f r; Ok (y :: ys)
  end.

(* a LineProgram object: its header and program_{start,end}_offset *)
Record mlineprog : Type := {
  lp_header : hview;
  lp_start : Z;
  lp_end : Z;
  lp_structs : mstructs
}.

Definition initial_length_field_size (s : mstructs) : Z := if ms_is64 s then 12 else 4.

Definition parse_line_program_uncached (secs : msections) (offset : Z) (s : mstructs) : res mlineprog :=
  do rh <- parse_header s (skipn (Z.to_nat offset) (sec_line secs));
  let hv := rh_view rh in
  do directories <- resolve_strings secs (v_dir_format hv) (v_directories hv);
  do file_names <- resolve_strings secs (v_file_format hv) (v_file_names hv);
  (* "provide compatible file/directory name arrays for legacy lineprogram consumers" *)
  do include_directory <-
     match directories with
     | Some (d :: ds) => mapM (entry_attr "DW_LNCT_path") (d :: ds)
     | _ => Ok (v_include_directory hv)
     end;
  do file_entry <-
     match file_names with
     | Some (e :: es) =>
         mapM (fun e => do n <- entry_get "DW_LNCT_path" e;
                        do d <- entry_get "DW_LNCT_directory_index" e;
                        do m <- entry_get "DW_LNCT_timestamp" e;
                        do l <- entry_get "DW_LNCT_size" e;
                        Ok (n, d, m, l)) (e :: es)
     | _ => Ok (v_file_entry hv)
     end;
  let end_offset := offset + v_unit_length hv + initial_length_field_size s in
  Ok {| lp_header := {| v_unit_length := v_unit_length hv; v_version := v_version hv;
                        v_address_size := v_address_size hv; v_seg_sel_size := v_seg_sel_size hv;
                        v_header_length := v_header_length hv; v_params := v_params hv;
                        v_std_lengths := v_std_lengths hv;
                        v_dir_format := v_dir_format hv; v_directories := directories;
                        v_file_format := v_file_format hv; v_file_names := file_names;
                        v_include_directory := include_directory; v_file_entry := file_entry |};
        (* program_start_offset = self.debug_line_sec.stream.tell() *)
        lp_start := zlen (sec_line secs) - zlen (rh_rest rh);
        lp_end := end_offset;
        lp_structs := s |}.

(* self._linetable_cache: dict offset -> LineProgram *)
Definition lcache : Type := list (Z * mlineprog).
Fixpoint cache_get (c : lcache) (k : Z) : option mlineprog :=
  match c with
  | [] => None
  | (k', v) :: r => if k' =? k then Some v else cache_get r k
  end.

Definition parse_line_program_at_offset (secs : msections) (cache : lcache) (offset : Z) (s : mstructs)
  : res (mlineprog * lcache) :=
  match cache_get cache offset with
  | Some lp => Ok (lp, cache)
  | None =>
      do lp <- parse_line_program_uncached secs offset s;
      Ok (lp, (offset, lp) :: cache)
  end.

(* DWARFInfo.line_program_for_CU(CU): the unit is seen through its structs and the attributes of
   its top DIE (the DIE parser itself is property C04's) *)
Record munit : Type := {
  cu_structs : mstructs;
  cu_top_attrs : list (string * Z)     (* attribute name -> .value of the top DIE *)
}.
Fixpoint attr_get (l : list (string * Z)) (n : string) : option Z :=
  match l with
  | [] => None
  | (m, v) :: r => if String.eqb m n then Some v else attr_get r n
  end.
Definition line_program_for_CU (secs : msections) (cache : lcache) (cu : munit)
  : res (option mlineprog * lcache) :=
  match attr_get (cu_top_attrs cu) "DW_AT_stmt_list" with
  | Some off =>
      do (lp, cache') <- parse_line_program_at_offset secs cache off (cu_structs cu);
      Ok (Some lp, cache')
  | None => Ok (None, cache)
  end.

(* LineProgram.get_entries() on the program object (define_file appends to header['file_entry'],
   which is a list only when it came from the version 2-4 struct) *)
Definition get_entries (secs : msections) (lp : mlineprog)
  : res (list lentry * list file_entry * Z * list Z) :=
  decode_line_program (cfg_of (lp_structs lp)) (v_params (lp_header lp))
                      (v_version (lp_header lp) <? 5)
                      (sec_line secs) (lp_start lp) (lp_end lp).
