(* Model/C19Ctor.v — the COMPLETE constructor path ELFFile(stream) of
   elftools/elf/elffile.py over ARBITRARY byte lists, every Python-level failure
   explicit.  [legacy = true] is the code before the two repairs recorded in
   known_findings.d/C19.json (kept so that the witnesses stay checkable);
   [legacy = false] is the code as it is now, which the harness ties to /repo.
   No proofs in this file. *)
From Coq Require Import String.
From PV Require Import Base.Bytes Base.Outcome Base.Fmt Base.Prim Base.Enum.
From PV Require Import Gen.ElfLayouts Gen.Tables Model.C19Base.
Open Scope Z_scope.

(* what the constructor has established: the ELFFile attributes later code reads *)
Record elfctx : Type := mkctx {
  x_bs : list Z;          (* the stream contents *)
  x_len : Z;              (* self.stream_len = len(contents), computed once *)
  x_legacy : bool;
  x_is64 : bool;          (* self.elfclass == 64 *)
  x_le : bool;            (* self.little_endian *)
  x_hdr : record          (* self.header *)
}.
Definition hz (x : elfctx) (f : string) : Z := rec_z (x_hdr x) f.
Definition stream_len (x : elfctx) : Z := x_len x.

Definition binds_Ehdr (is64 : bool) := if is64 then gen_binds_Elf_Ehdr_64 else gen_binds_Elf_Ehdr_32.
Definition binds_Shdr (is64 : bool) := if is64 then gen_binds_Elf_Shdr_64 else gen_binds_Elf_Shdr_32.
Definition binds_Chdr (is64 : bool) := if is64 then gen_binds_Elf_Chdr_64 else gen_binds_Elf_Chdr_32.

Definition ELFMAG : list Z := [127; 69; 76; 70].    (* b'\x7fELF' *)

(* ELFFile._identify_file:
     self.stream.seek(0); magic = self.stream.read(4)
     elf_assert(magic == b'\x7fELF', ...)                       -> ELFError
     ei_class = self.stream.read(1): b'\x01' -> 32, b'\x02' -> 64, else ELFError
     ei_data  = self.stream.read(1): b'\x01' -> LE, b'\x02' -> BE, else ELFError *)
Definition identify_file (bs : list Z) : M (bool * bool) :=
  dom magic <- raw_read bs 0 4;
  if negb (zlist_eqb magic ELFMAG) then fail EElf else
  dom ei_class <- raw_read bs 4 1;
  dom is64 <- (if zlist_eqb ei_class [1] then ret false
               else if zlist_eqb ei_class [2] then ret true
               else fail EElf);
  dom ei_data <- raw_read bs 5 1;
  dom le <- (if zlist_eqb ei_data [1] then ret true
             else if zlist_eqb ei_data [2] then ret false
             else fail EElf);
  ret (is64, le).

(* self.structs.Elf_Shdr.sizeof() *)
Definition shdr_size (x : elfctx) : Z := lsize (gen_Elf_Shdr (x_le x) (x_is64 x)).

(* ELFFile._section_offset(n):
     shentsize = self['e_shentsize']
     if self['e_shoff'] > 0 and shentsize < self.structs.Elf_Shdr.sizeof(): raise ELFError
     return self['e_shoff'] + n * shentsize *)
Definition section_offset (x : elfctx) (n : Z) : M Z :=
  let shentsize := hz x "e_shentsize" in
  if (0 <? hz x "e_shoff") && (shentsize <? shdr_size x) then fail EElf
  else ret (hz x "e_shoff" + n * shentsize).

(* ELFFile._get_section_header(n):
     stream_pos = self._section_offset(n)
     if stream_pos > self.stream_len: return None
     return struct_parse(self.structs.Elf_Shdr, self.stream, stream_pos=stream_pos) *)
Definition get_section_header (x : elfctx) (n : Z) : M (option record) :=
  dom pos <- section_offset x n;
  if stream_len x <? pos then ret None
  else dom r <- struct_parse_at (x_legacy x) (gen_Elf_Shdr (x_le x) (x_is64 x))
                  (binds_Shdr (x_is64 x)) (x_bs x) pos;
       ret (Some r).

(* ELFFile.get_shstrndx():
     if self['e_shstrndx'] != SHN_INDICES.SHN_XINDEX: return self['e_shstrndx']
     header = self._get_section_header(0)
     if header is None: raise ELFError(...)          <- repaired code; before: None['sh_link']
     return header['sh_link'] *)
Definition get_shstrndx (x : elfctx) : M Z :=
  if negb (hz x "e_shstrndx" =? SHN_XINDEX) then ret (hz x "e_shstrndx")
  else dom oh <- get_section_header x 0;
       match oh with
       | None => fail (if x_legacy x then EPy "TypeError" else EElf)
       | Some h => ret (rec_z h "sh_link")
       end.

(* what Section.__init__ leaves in the object *)
Record secinfo : Type := mksec {
  s_hdr : record;
  s_compressed : bool;
  s_ctype : Z;            (* raw ch_type (0 when not compressed) *)
  s_size : Z;             (* _decompressed_size *)
  s_align : Z             (* _decompressed_align *)
}.

(* Section.__init__ (elf/sections.py):
     self._compressed = header['sh_flags'] & SH_FLAGS.SHF_COMPRESSED
     if self.compressed:
         header = struct_parse(self.structs.Elf_Chdr, self.stream, stream_pos=self['sh_offset'])
         ch_type / ch_size / ch_addralign
     else: sh_size / sh_addralign *)
Definition section_init (x : elfctx) (sh : record) : M secinfo :=
  if Z.land (rec_z sh "sh_flags") SHF_COMPRESSED =? 0 then
    ret (mksec sh false 0 (rec_z sh "sh_size") (rec_z sh "sh_addralign"))
  else
    dom ch <- struct_parse_at (x_legacy x) (gen_Elf_Chdr (x_le x) (x_is64 x))
                (binds_Chdr (x_is64 x)) (x_bs x) (rec_z sh "sh_offset");
    ret (mksec sh true (rec_z ch "ch_type") (rec_z ch "ch_size") (rec_z ch "ch_addralign")).

(* the constructed object: context + self._section_header_stringtable *)
Record elffile : Type := mkelf {
  f_ctx : elfctx;
  f_strtab : option secinfo
}.

(* ELFFile.__init__:
     self.stream.seek(0, io.SEEK_END); self.stream_len = self.stream.tell()
     self._identify_file()
     self.structs = ELFStructs(...); self.structs.create_basic_structs()
     self.header = struct_parse(self.structs.Elf_Ehdr, self.stream, stream_pos=0)
     self.structs.create_advanced_structs(e_type, e_machine, EI_OSABI)     (cannot fail)
     self.stream.seek(0); self.e_ident_raw = self.stream.read(16)
     self._section_header_stringtable = self._get_section_header_stringtable()
   _get_section_header_stringtable:
     if self['e_shoff'] == 0: return None            <- repair b9afe31 (offset 0 holds the ELF header)
     n = self.get_shstrndx(); h = self._get_section_header(n)
     if h is None: return None
     return StringTableSection(header=h, name='', elffile=self) *)
Definition ctor (legacy : bool) (bs : list Z) : M elffile :=
  dom cl <- identify_file bs;
  let is64 := fst cl in let le := snd cl in
  dom hdr <- struct_parse_at legacy (gen_Elf_Ehdr le is64) (binds_Ehdr is64) bs 0;
  let x := mkctx bs (blen bs) legacy is64 le hdr in
  dom e_ident_raw <- raw_read bs 0 16;
  if hz x "e_shoff" =? 0 then ret (mkelf x None) else
  dom n <- get_shstrndx x;
  dom oh <- get_section_header x n;
  match oh with
  | None => ret (mkelf x None)
  | Some sh => dom si <- section_init x sh; ret (mkelf x (Some si))
  end.

Definition construct_gen (legacy : bool) (bs : list Z) : res elffile := fst (run (ctor legacy bs)).
(* the code as it is now *)
Definition construct_model (bs : list Z) : res elffile := construct_gen false bs.
(* the code before the repairs *)
Definition construct_legacy (bs : list Z) : res elffile := construct_gen true bs.

(* observable summary used by the correspondence *)
Definition sx_elffile (f : elffile) : sx :=
  let x := f_ctx f in
  SL [SI (if x_is64 x then 64 else 32); sx_bool (x_le x);
      match f_strtab f with
      | None => sx_none
      | Some s => SL [SI (rec_z (s_hdr s) "sh_offset"); sx_bool (s_compressed s); SI (s_size s); SI (s_align s)]
      end].
