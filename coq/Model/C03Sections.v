(* Model/C03Sections.v — transliteration of the symbol-table classes of
   elftools/elf/sections.py: StringTableSection.get_string, SymbolTableSection
   (num_symbols, get_symbol, iter_symbols, get_symbol_by_name),
   SymbolTableIndexSection.get_section_index, SUNWSyminfoTableSection.
   The stream is the whole file image [img]; every read here is absolute
   (struct_parse(..., stream_pos=...)), so no cursor is threaded.  Records are
   decoded with the layouts regenerated from the live construct trees
   (Gen/ElfLayouts.v).  Names are byte strings; enum-valued fields are kept as
   the integers they were decoded from.  No proofs here. *)
From PV Require Import Base.Fmt Base.Outcome Base.Prim Gen.ElfLayouts.
Local Open Scope string_scope.

(* struct_parse(struct, stream, stream_pos=off): seek(off) then parse; any ConstructError
   (short read) becomes ELFParseError.  A layout of static size reads exactly that many
   bytes, so only that window is handed to the decoder (keeps the extracted code linear
   in the offset instead of in the file size). *)
Definition struct_parse_at (L : layout) (img : list Z) (off : Z) : res (list (string * fval)) :=
  let bs := skipn (Z.to_nat off) img in
  let w := match layout_size L with Some sz => firstn sz bs | None => bs end in
  match decode_layout L w with
  | Some (r, _) => Ok r
  | None => Err EParse
  end.

(* struct_parse(Elf_word(''), stream, off) / any single unsigned FormatField *)
Definition read_uint (le : bool) (n : nat) (img : list Z) (off : Z) : option Z :=
  match uint_decode le n (firstn n (skipn (Z.to_nat off) img)) with
  | Some (v, _) => Some v
  | None => None
  end.

(* section header fields the classes consult *)
Record seccfg := mkSec { s_off : Z; s_size : Z; s_entsize : Z }.
(* a symbol table section together with its linked string table's sh_offset *)
Record symcfg := mkSymCfg { c_le : bool; c_is64 : bool; c_sec : seccfg; c_stroff : Z }.

(* StringTableSection.get_string(offset):
     s = parse_cstring_from_stream(self.stream, table_offset + offset)
     return s.decode('utf-8', errors='replace') if s else ''                      *)
Definition get_string (img : list Z) (table_offset offset : Z) : list Z :=
  match parse_cstring_at img (Z.to_nat (table_offset + offset)) with
  | Some s => s
  | None => []
  end.

(* SymbolTableSection.num_symbols: self['sh_size'] // self['sh_entsize'] *)
Definition num_symbols (c : symcfg) : Z := s_size (c_sec c) / s_entsize (c_sec c).

(* the dictionary-like accesses an observer makes on Symbol.entry *)
Definition entry_fields (e : list (string * fval)) : list Z :=
  [rec_z e "st_name"; rec_z e "st_value"; rec_z e "st_size";
   rec_z e "st_info.bind"; rec_z e "st_info.type";
   rec_z e "st_other.local"; rec_z e "st_other.visibility"; rec_z e "st_shndx"].

Definition symbol := (list Z * list Z)%type.     (* Symbol(entry, name): (name, entry fields) *)

(* SymbolTableSection.get_symbol(n):
     entry_offset = self['sh_offset'] + n * self['sh_entsize']
     entry = struct_parse(self.structs.Elf_Sym, self.stream, stream_pos=entry_offset)
     name = self.stringtable.get_string(entry['st_name'])
     return Symbol(entry, name)                                                    *)
Definition get_symbol (img : list Z) (c : symcfg) (n : Z) : res symbol :=
  let entry_offset := s_off (c_sec c) + n * s_entsize (c_sec c) in
  do entry <- struct_parse_at (gen_Elf_Sym (c_le c) (c_is64 c)) img entry_offset;
  let name := get_string img (c_stroff c) (rec_z entry "st_name") in
  Ok (name, entry_fields entry).

Fixpoint mapM {A B} (f : A -> res B) (l : list A) : res (list B) :=
  match l with
  | [] => Ok []
  | x :: r => do y <- f x; do ys <- mapM f r; Ok (y :: ys)
  end.

(* range(a, b) *)
Definition py_range (a b : Z) : list Z := map (fun k => a + Z.of_nat k) (seq 0 (Z.to_nat (b - a))).

(* SymbolTableSection.iter_symbols: for i in range(self.num_symbols()): yield self.get_symbol(i) *)
Definition iter_symbols (img : list Z) (c : symcfg) : res (list symbol) :=
  mapM (get_symbol img c) (py_range 0 (num_symbols c)).

Definition bytes_eq (a b : list Z) : bool := if list_eq_dec Z.eq_dec a b then true else false.

(* self._symbol_name_map[name].append(i) on a defaultdict(list): insertion-ordered *)
Fixpoint dd_append (d : list (list Z * list Z)) (k : list Z) (i : Z) : list (list Z * list Z) :=
  match d with
  | [] => [(k, [i])]
  | (k', l) :: r => if bytes_eq k k' then (k', (l ++ [i])%list) :: r else (k', l) :: dd_append r k i
  end.
Fixpoint dd_get (d : list (list Z * list Z)) (k : list Z) : option (list Z) :=
  match d with
  | [] => None
  | (k', l) :: r => if bytes_eq k k' then Some l else dd_get r k
  end.

(* for i, sym in enumerate(self.iter_symbols()): self._symbol_name_map[sym.name].append(i) *)
Fixpoint name_map_go (d : list (list Z * list Z)) (i : Z) (syms : list symbol) :=
  match syms with
  | [] => d
  | s :: r => name_map_go (dd_append d (fst s) i) (i + 1) r
  end.

(* SymbolTableSection.get_symbol_by_name(name):
     if self._symbol_name_map is None:
         self._symbol_name_map = defaultdict(list)
         for i, sym in enumerate(self.iter_symbols()): self._symbol_name_map[sym.name].append(i)
     symnums = self._symbol_name_map.get(name)
     return [self.get_symbol(i) for i in symnums] if symnums else None              *)
Definition build_symbol_name_map (img : list Z) (c : symcfg) : res (list (list Z * list Z)) :=
  do syms <- iter_symbols img c;
  Ok (name_map_go [] 0 syms).
Definition get_symbol_by_name_with (img : list Z) (c : symcfg) (symbol_name_map : list (list Z * list Z))
                                   (name : list Z) : res (option (list symbol)) :=
  match dd_get symbol_name_map name with
  | None => Ok None
  | Some [] => Ok None
  | Some symnums => do l <- mapM (get_symbol img c) symnums; Ok (Some l)
  end.
Definition get_symbol_by_name (img : list Z) (c : symcfg) (name : list Z) : res (option (list symbol)) :=
  do symbol_name_map <- build_symbol_name_map img c;
  get_symbol_by_name_with img c symbol_name_map name.

(* SymbolTableIndexSection.get_section_index(n):
     return struct_parse(self.elffile.structs.Elf_word(''), self.stream,
                         self['sh_offset'] + n * self['sh_entsize'])                *)
Definition get_section_index (img : list Z) (le : bool) (s : seccfg) (n : Z) : res Z :=
  match read_uint le 4 img (s_off s + n * s_entsize s) with
  | Some v => Ok v
  | None => Err EParse
  end.

(* SUNWSyminfoTableSection.num_symbols: self['sh_size'] // self['sh_entsize'] - 1 *)
Definition syminfo_num_symbols (s : seccfg) : Z := s_size s / s_entsize s - 1.

(* SUNWSyminfoTableSection.get_symbol(n):
     entry = struct_parse(self.structs.Elf_Sunw_Syminfo, self.stream, stream_pos=sh_offset + n * sh_entsize)
     name = self.symboltable.get_symbol(n).name
     return Symbol(entry, name)                                                    *)
Definition syminfo_get_symbol (img : list Z) (c : symcfg) (s : seccfg) (n : Z) : res symbol :=
  do entry <- struct_parse_at (gen_Elf_Sunw_Syminfo (c_le c) (c_is64 c)) img (s_off s + n * s_entsize s);
  do sym <- get_symbol img c n;
  Ok (fst sym, [rec_z entry "si_boundto"; rec_z entry "si_flags"]).

(* SUNWSyminfoTableSection.iter_symbols: for i in range(1, self.num_symbols() + 1): yield self.get_symbol(i) *)
Definition syminfo_iter_symbols (img : list Z) (c : symcfg) (s : seccfg) : res (list symbol) :=
  mapM (syminfo_get_symbol img c s) (py_range 1 (syminfo_num_symbols s + 1)).

(* ------------------------------------------------------------------ the stream cursor, explicit.
   The file object is shared by every section of the ELFFile and by the consumer: between two calls,
   and between two next() of a generator, anything may have moved it.  [cur] is the cursor a call (or a
   generator step) starts with.
   struct_parse(struct, stream, stream_pos=None):  if stream_pos is not None: stream.seek(stream_pos);
   then the struct is read at the cursor. *)
Definition struct_parse_stream (L : layout) (img : list Z) (cur : Z) (stream_pos : option Z)
  : res (list (string * fval)) :=
  struct_parse_at L img (match stream_pos with Some p => p | None => cur end).

(* parse_cstring_from_stream(stream, stream_pos=None): same convention *)
Definition parse_cstring_stream (img : list Z) (cur : Z) (stream_pos : option Z) : option (list Z) :=
  parse_cstring_at img (Z.to_nat (match stream_pos with Some p => p | None => cur end)).

(* SymbolTableSection.get_symbol(n) started with the cursor at [cur]: both reads pass stream_pos *)
Definition get_symbol_cur (img : list Z) (c : symcfg) (cur : Z) (n : Z) : res symbol :=
  let entry_offset := s_off (c_sec c) + n * s_entsize (c_sec c) in
  let L := gen_Elf_Sym (c_le c) (c_is64 c) in
  do entry <- struct_parse_stream L img cur (Some entry_offset);
  (* the struct read leaves the cursor behind the entry; the string read seeks again *)
  let cur1 := entry_offset + match layout_size L with Some sz => Z.of_nat sz | None => 0 end in
  let name := match parse_cstring_stream img cur1 (Some (c_stroff c + rec_z entry "st_name")) with
              | Some s => s | None => [] end in
  Ok (name, entry_fields entry).

(* ------------------------------------------------------------------ the section object as a state machine.
   SymbolTableSection has ONE mutable attribute, self._symbol_name_map (None until the first
   get_symbol_by_name); every generator returned by iter_symbols() has its own position.  A history is
   any sequence of calls on one object and on its generators, each started at an arbitrary cursor. *)
Definition memo := option (list (list Z * list Z)).
Definition gens := list (Z * Z).              (* generator id -> index of the entry its next step yields *)
Fixpoint gen_pos (gs : gens) (g : Z) : Z :=
  match gs with [] => 0 | (k, j) :: r => if (k =? g)%Z then j else gen_pos r g end.
Definition gen_set (gs : gens) (g j : Z) : gens := (g, j) :: gs.

Inductive symop :=
| OpNum                      (* num_symbols() *)
| OpGet (n : Z)              (* get_symbol(n) *)
| OpIter (k : Z)             (* g = iter_symbols(); next(g) up to k times in one go; then g is abandoned / closed *)
| OpByName (q : list Z)      (* get_symbol_by_name(q) *)
| OpNext (g : Z).            (* next(G) on the generator G = iter_symbols() number g (created on first use; a
                                generator body does not run before its first next) *)

Inductive symobs :=
| ObsNum (z : Z)
| ObsSym (r : res symbol)
| ObsSyms (r : res (list symbol))
| ObsByName (r : res (option (list symbol)))
| ObsStop.                   (* StopIteration *)

(* a generator over  for i in range(self.num_symbols()): yield self.get_symbol(i)  consumed k times:
   the first min(k, num_symbols) symbols; it touches no attribute of the section *)
Definition iter_symbols_prefix (img : list Z) (c : symcfg) (k : Z) : res (list symbol) :=
  mapM (get_symbol img c) (py_range 0 (Z.min k (num_symbols c))).

(* the results of a loop body up to its first exception *)
Fixpoint take_ok {A B} (f : A -> res B) (l : list A) : list B * option err :=
  match l with
  | [] => ([], None)
  | x :: r => match f x with
              | Ok y => let (ys, e) := take_ok f r in (y :: ys, e)
              | Err e => ([], Some e)
              end
  end.

(* get_symbol_by_name on an object whose attribute is [m]:
     if self._symbol_name_map is None:
         self._symbol_name_map = defaultdict(list)           (assigned BEFORE the loop: an exception
         for i, sym in enumerate(self.iter_symbols()): ...     in the loop leaves the partial map behind)
     symnums = self._symbol_name_map.get(name) ...                                                   *)
Definition get_symbol_by_name_st (img : list Z) (c : symcfg) (m : memo) (name : list Z)
  : memo * res (option (list symbol)) :=
  match m with
  | Some symbol_name_map => (m, get_symbol_by_name_with img c symbol_name_map name)
  | None =>
      let (syms, e) := take_ok (get_symbol img c) (py_range 0 (num_symbols c)) in
      let symbol_name_map := name_map_go [] 0 syms in
      (Some symbol_name_map,
       match e with
       | Some e => Err e
       | None => get_symbol_by_name_with img c symbol_name_map name
       end)
  end.

(* one call, started with the stream cursor at [cur] *)
Definition sym_step (img : list Z) (c : symcfg) (cur : Z) (st : memo * gens) (op : symop)
  : (memo * gens) * symobs :=
  let (m, gs) := st in
  match op with
  | OpNum => (st, ObsNum (num_symbols c))
  | OpGet n => (st, ObsSym (get_symbol_cur img c cur n))
  | OpIter k => (st, ObsSyms (iter_symbols_prefix img c k))
  | OpByName q => let (m', r) := get_symbol_by_name_st img c m q in ((m', gs), ObsByName r)
  | OpNext g =>
      let j := gen_pos gs g in
      if (j <? num_symbols c)%Z then
        let r := get_symbol_cur img c cur j in
        (* an exception inside the generator finishes it *)
        ((m, gen_set gs g (match r with Ok _ => j + 1 | Err _ => num_symbols c end)), ObsSym r)
      else (st, ObsStop)
  end.

(* a history; [adv t] is the stream cursor when call number t starts: whatever the consumer and the
   other sections of the file did to the stream since the previous call *)
Fixpoint sym_run (img : list Z) (c : symcfg) (adv : Z -> Z) (t : Z) (st : memo * gens) (ops : list symop)
  : (memo * gens) * list symobs :=
  match ops with
  | [] => (st, [])
  | op :: r => let (st', o) := sym_step img c (adv t) st op in
               let (st'', os) := sym_run img c adv (t + 1) st' r in (st'', o :: os)
  end.
