(* Model/C10Types.v — data of the C10 state machine (property C10: answers do not depend
   on query history or stream position).

   The file is immutable; what the library parses out of it is described by PURE, RELATIVE
   parse functions (Section variables of Model/C10Machine.v):  "parsing X with the cursor of
   stream S at position p gives value v and leaves the cursor at e".  Everything that is
   mutable in the Python objects is state of the machine:

     DWARFInfo._cu_offsets_map / _cu_cache        cu_keys / cu_objs   (parallel lists)
     CompileUnit objects                          heap [cus]          (identity = index)
     CompileUnit._diemap / _dielist               c_diemap / c_dielist
     CompileUnit._abbrev_table                    c_abbrev
     DIE objects                                  heap [dies]         (identity = index)
     DIE._parent / DIE._terminator                d_parent / d_term   (references into [dies])
     DWARFInfo._abbrevtable_cache                 abbrevs
     DWARFInfo._linetable_cache                   lines (LineProgram objects with
                                                  header.file_entry length and _decoded_entries)
     ELFFile._section_name_map                    e_secmap
     SymbolTableSection._symbol_name_map          e_symmap
     Dynamic._num_tags                            e_numtags
     stream.tell() of every stream                cur   (ONE cursor per stream)
     live generator objects                       frames (their local variables)
     CFIEntry._decoded_table of the entries of    cfis
       the list a client holds

   No proofs here. *)
From PV Require Export Base.PyData.
From Coq Require Import ZArith List Bool.
Import ListNotations.
Open Scope Z_scope.

(* ------------------------------------------------------------------ streams *)
Definition S_ELF : nat := 0.      (* ELFFile.stream *)
Definition S_INFO : nat := 1.     (* dwarfinfo.debug_info_sec.stream *)
Definition S_ABBREV : nat := 2.   (* debug_abbrev_sec.stream *)
Definition S_LINE : nat := 3.     (* debug_line_sec.stream *)
Definition S_FRAME : nat := 4.    (* debug_frame_sec.stream *)
Definition S_EH : nat := 5.       (* eh_frame_sec.stream *)
Definition S_TYPES : nat := 12.   (* debug_types_sec.stream *)
(* 6.. : debug_str, debug_line_str, debug_str_offsets, debug_addr, debug_loclists,
         debug_rnglists, debug_types: only reached through absolute reads nested in a
         parse ("effects") *)
Definition NSTREAMS : nat := 13.

Definition effects := list (nat * Z).   (* (stream, final cursor) of nested absolute reads *)

(* ------------------------------------------------------------------ parsed values *)
Inductive sibform := SibLocal | SibAddr | SibOther.
Inductive refform := RefLocal | RefAddr | RefOther.

(* what the machine needs to know about a parsed DIE; everything else is the opaque id *)
Record die_raw := mk_raw {
  dr_size : Z;                        (* DIE.size *)
  dr_null : bool;                     (* abbrev_code == 0, i.e. is_null() *)
  dr_hc : bool;                       (* DIE.has_children (None, i.e. falsy, for null entries) *)
  dr_sib : option (sibform * Z);      (* attributes['DW_AT_sibling']: class of .form, .value *)
  dr_refs : list (refform * Z);       (* reference attributes in order: class of .form, .raw_value *)
  dr_stmt : option Z;                 (* attributes['DW_AT_stmt_list'].value *)
  dr_pid : Z;                         (* tag, abbrev_code and every attribute: opaque *)
  dr_eff : effects                    (* debug_str & co. cursors after the attribute translation *)
}.

Record unit_hdr := mk_hdr {
  uh_size : Z;                        (* unit_length + initial_length_field_size() *)
  uh_abbrev : Z;                      (* debug_abbrev_offset *)
  uh_pid : Z;                         (* every header field: opaque *)
  uh_tsig : option Z                  (* type_signature of a DWARF v5 DW_UT_type / DW_UT_split_type unit *)
}.

(* a type unit of .debug_types: unit_length + initial_length_field_size(), signature, every header field *)
Record tu_raw := mk_tu { tu_size : Z; tu_sig : Z; tu_pid : Z }.

Record lp_raw := mk_lpraw {
  lr_end : Z;                         (* offset + unit_length + initial_length_field_size() *)
  lr_files : Z;                       (* len(header.file_entry) as parsed *)
  lr_pid : Z;                         (* every header field: opaque *)
  lr_eff : effects                    (* v5 name resolution: debug_line_str / debug_str reads *)
}.

Record lp_body := mk_lpbody {
  lb_pid : Z;                         (* the decoded entry list: opaque *)
  lb_defs : Z                         (* number of DW_LNE_define_file executed *)
}.

(* ------------------------------------------------------------------ objects *)
Record die_obj := mk_die {
  d_cu : nat; d_off : Z; d_raw : die_raw;
  d_parent : option nat;              (* DIE._parent *)
  d_term : option nat                 (* DIE._terminator *)
}.
Definition set_d_parent (d : die_obj) (p : option nat) : die_obj :=
  mk_die (d_cu d) (d_off d) (d_raw d) p (d_term d).
Definition set_d_term (d : die_obj) (t : option nat) : die_obj :=
  mk_die (d_cu d) (d_off d) (d_raw d) (d_parent d) t.

Record cu_obj := mk_cu {
  c_off : Z;                          (* cu_offset *)
  c_hdr : unit_hdr;                   (* header *)
  c_die_off : Z;                      (* cu_die_offset *)
  c_abbrev : option Z;                (* _abbrev_table *)
  c_diemap : list Z;                  (* _diemap *)
  c_dielist : list nat                (* _dielist *)
}.
Definition set_c_abbrev (c : cu_obj) (a : option Z) : cu_obj :=
  mk_cu (c_off c) (c_hdr c) (c_die_off c) a (c_diemap c) (c_dielist c).
Definition set_c_cache (c : cu_obj) (m : list Z) (l : list nat) : cu_obj :=
  mk_cu (c_off c) (c_hdr c) (c_die_off c) (c_abbrev c) m l.

Record lp_obj := mk_lp {
  l_raw : lp_raw;
  l_cu : Z;                           (* the unit whose structs the program was created with *)
  l_start : Z;                        (* program_start_offset *)
  l_files : Z;                        (* len(self.header.file_entry) NOW *)
  l_entries : option Z                (* _decoded_entries *)
}.

(* ------------------------------------------------------------------ generator frames *)
(* CompileUnit.iter_DIE_children(die): suspended before the first statement, at `yield child`,
   or finished *)
Inductive cframe :=
| CStart (die : nat)
| CYield (die child : nat) (cur_offset : Z)
| CDone.

(* CompileUnit._iter_DIE_subtree(die): one level of the `yield from` chain *)
Inductive spc :=
| PStart                              (* not started *)
| PDie                                (* at `yield die` *)
| PKids (c : cframe)                  (* inside `for c in die.iter_children(): yield from ...` *)
| PTerm.                              (* at `yield die._terminator` *)
Record slevel := mk_sl { sl_die : nat; sl_pc : spc }.

Inductive frame :=
| FEmpty                                            (* no generator in this slot *)
| FCUs (offset : Z)                                 (* DWARFInfo._parse_CUs_iter: local `offset` *)
| FTUs (offset : Z)                                 (* DWARFInfo._parse_TUs_iter: local `offset` *)
| FChildren (c : cframe)                            (* die.iter_children() *)
| FSiblings (self : nat) (c : option cframe)        (* die.iter_siblings(): None = not started *)
| FSubtree (stack : list slevel)                    (* cu.iter_DIEs(): innermost level first *)
| FSections (i : Z) (n : option Z)                  (* ELFFile.iter_sections(): range not yet evaluated / i, n *)
| FSymbols (i : Z) (n : option Z)                   (* SymbolTableSection.iter_symbols() *)
| FTags (n : Z) (fin : bool).                       (* Dynamic.iter_tags(): next index, DT_NULL seen *)

(* ------------------------------------------------------------------ state *)
Record state := mk_state {
  cu_keys : list Z;                   (* DWARFInfo._cu_offsets_map *)
  cu_objs : list nat;                 (* DWARFInfo._cu_cache *)
  cus : list cu_obj;
  dies : list die_obj;
  abbrevs : dict Z Z;                 (* _abbrevtable_cache *)
  lines : dict Z lp_obj;              (* _linetable_cache *)
  e_secmap : option (dict Z Z);       (* ELFFile._section_name_map: name -> index *)
  e_symmap : option (dict Z (list Z));(* SymbolTableSection._symbol_name_map *)
  e_numtags : Z;                      (* Dynamic._num_tags (-1 = not yet known) *)
  cur : list Z;
  frames : list frame;
  (* the list of CFI entry objects the client got from its last CFI_entries() / EH_CFI_entries() call, one
     CFIEntry._decoded_table memo per entry (None = the client holds no list yet): (.debug_frame, .eh_frame) *)
  cfis : option (list (option Z)) * option (list (option Z));
  (* DWARFInfo._type_units_by_sig: signature -> (0 = unit of .debug_types | 1 = type unit of .debug_info, offset, header) *)
  tu_map : option (dict Z (Z * Z * Z))
}.

Definition init_state (nslots : nat) : state :=
  mk_state [] [] [] [] [] [] None None (-1) (repeat 0 NSTREAMS) (repeat FEmpty nslots) (None, None) None.

Definition set_cu_cache (s : state) (k : list Z) (o : list nat) : state :=
  mk_state k o (cus s) (dies s) (abbrevs s) (lines s) (e_secmap s) (e_symmap s) (e_numtags s) (cur s) (frames s) (cfis s) (tu_map s).
Definition set_cus (s : state) (v : list cu_obj) : state :=
  mk_state (cu_keys s) (cu_objs s) v (dies s) (abbrevs s) (lines s) (e_secmap s) (e_symmap s) (e_numtags s) (cur s) (frames s) (cfis s) (tu_map s).
Definition set_dies (s : state) (v : list die_obj) : state :=
  mk_state (cu_keys s) (cu_objs s) (cus s) v (abbrevs s) (lines s) (e_secmap s) (e_symmap s) (e_numtags s) (cur s) (frames s) (cfis s) (tu_map s).
Definition set_abbrevs (s : state) (v : dict Z Z) : state :=
  mk_state (cu_keys s) (cu_objs s) (cus s) (dies s) v (lines s) (e_secmap s) (e_symmap s) (e_numtags s) (cur s) (frames s) (cfis s) (tu_map s).
Definition set_lines (s : state) (v : dict Z lp_obj) : state :=
  mk_state (cu_keys s) (cu_objs s) (cus s) (dies s) (abbrevs s) v (e_secmap s) (e_symmap s) (e_numtags s) (cur s) (frames s) (cfis s) (tu_map s).
Definition set_secmap (s : state) (v : option (dict Z Z)) : state :=
  mk_state (cu_keys s) (cu_objs s) (cus s) (dies s) (abbrevs s) (lines s) v (e_symmap s) (e_numtags s) (cur s) (frames s) (cfis s) (tu_map s).
Definition set_symmap (s : state) (v : option (dict Z (list Z))) : state :=
  mk_state (cu_keys s) (cu_objs s) (cus s) (dies s) (abbrevs s) (lines s) (e_secmap s) v (e_numtags s) (cur s) (frames s) (cfis s) (tu_map s).
Definition set_numtags (s : state) (v : Z) : state :=
  mk_state (cu_keys s) (cu_objs s) (cus s) (dies s) (abbrevs s) (lines s) (e_secmap s) (e_symmap s) v (cur s) (frames s) (cfis s) (tu_map s).
Definition set_cur (s : state) (v : list Z) : state :=
  mk_state (cu_keys s) (cu_objs s) (cus s) (dies s) (abbrevs s) (lines s) (e_secmap s) (e_symmap s) (e_numtags s) v (frames s) (cfis s) (tu_map s).
Definition set_frames (s : state) (v : list frame) : state :=
  mk_state (cu_keys s) (cu_objs s) (cus s) (dies s) (abbrevs s) (lines s) (e_secmap s) (e_symmap s) (e_numtags s) (cur s) v (cfis s) (tu_map s).

Definition set_cfis (s : state) (v : option (list (option Z)) * option (list (option Z))) : state :=
  mk_state (cu_keys s) (cu_objs s) (cus s) (dies s) (abbrevs s) (lines s) (e_secmap s) (e_symmap s) (e_numtags s) (cur s) (frames s) v (tu_map s).

Definition set_tu_map (s : state) (v : option (dict Z (Z * Z * Z))) : state :=
  mk_state (cu_keys s) (cu_objs s) (cus s) (dies s) (abbrevs s) (lines s) (e_secmap s) (e_symmap s) (e_numtags s) (cur s) (frames s) (cfis s) v.

Fixpoint upd_nth {A} (n : nat) (f : A -> A) (l : list A) : list A :=
  match l, n with
  | [], _ => []
  | x :: r, O => f x :: r
  | x :: r, S m => x :: upd_nth m f r
  end.

(* ------------------------------------------------------------------ operations and answers *)
Inductive op :=
(* adversarial repositioning of one stream *)
| Disturb (sid : nat) (pos : Z)
(* units *)
| CUAt (u : Z)                          (* dwarfinfo.get_CU_at(u) *)
| CUContaining (a : Z)                  (* dwarfinfo.get_CU_containing(a) *)
(* entries; a DIE is addressed as get_CU_at(u).get_DIE_from_refaddr(o) *)
| TopDIE (u : Z)                        (* get_CU_at(u).get_top_DIE() *)
| DIEAt (u o : Z)                       (* get_CU_at(u).get_DIE_from_refaddr(o) *)
| DIEGlobal (o : Z)                     (* dwarfinfo.get_DIE_from_refaddr(o) *)
| Parent (u o : Z)                      (* <DIE u o>.get_parent() *)
| FollowRef (u o : Z) (k : nat)         (* <DIE u o>.get_DIE_from_attribute(<k-th reference attribute>) *)
(* line programs, call frame information *)
| LineProg (u : Z)                      (* dwarfinfo.line_program_for_CU(get_CU_at(u)): header + len(file_entry) *)
| LineEntries (u : Z)                   (* ... .get_entries() *)
| CFI (eh : bool)                       (* entries = dwarfinfo.CFI_entries() / EH_CFI_entries(), kept by the client *)
| CFIDecoded (eh : bool) (i : Z)        (* entries[i].get_decoded() on the list the client holds (fetched first if none) *)
(* generators: created into a slot, advanced with Next *)
| TUBySig (sig : Z)                     (* dwarfinfo.get_TU_by_sig8(sig) *)
| NewIterTUs (slot : nat)               (* dwarfinfo.iter_TUs() *)
| NewIterCUs (slot : nat)               (* dwarfinfo.iter_CUs() *)
| NewIterDIEs (slot : nat) (u : Z)      (* get_CU_at(u).iter_DIEs() *)
| NewIterChildren (slot : nat) (u o : Z)(* <DIE u o>.iter_children() *)
| NewIterSiblings (slot : nat) (u o : Z)(* <DIE u o>.iter_siblings() *)
| NewIterSections (slot : nat)          (* elffile.iter_sections() *)
| NewIterSymbols (slot : nat)           (* symtab.iter_symbols() *)
| NewIterTags (slot : nat)              (* dynamic.iter_tags() *)
| Next (slot : nat)                     (* next(generator in slot) *)
(* ELF level *)
| ENumSections                          (* elffile.num_sections() *)
| ESection (n : Z)                      (* elffile.get_section(n) *)
| ESectionByName (name : Z)             (* elffile.get_section_by_name(name) *)
| ESegment (n : Z)                      (* elffile.get_segment(n) *)
| ESymbol (n : Z)                       (* symtab.get_symbol(n) *)
| ESymbolByName (name : Z)              (* symtab.get_symbol_by_name(name) *)
| EString (off : Z)                     (* strtab.get_string(off) *)
| ENumTags                              (* dynamic.num_tags() *)
| EGetTag (n : Z)                       (* dynamic.get_tag(n) *)
| ESectionTyped (n : Z) (ty : Z)        (* elffile.get_section(n, type=(<the type named ty>,)) *)
| RefetchDwarf                          (* elffile.get_dwarf_info() once more on the ELFFile the DWARFInfo in use came
                                           from; the client goes on with the DWARFInfo it already holds *)
| DIEAtOutside (u o : Z)                (* get_CU_at(u).get_DIE_from_refaddr(o) for an offset o outside the entries of
                                           the unit (inside its header, or at / past its end) *)
| LineEntriesFailing (u : Z) (e : err) (c : Z)
                                        (* line_program_for_CU(get_CU_at(u)).get_entries() on a line program whose
                                           decoding fails part-way on a freshly opened object: e raised, .debug_line
                                           cursor left at c (which programs fail is a matter of the bytes) *)
| CUAtFailing (off : Z) (e : err) (c : Z). (* dwarfinfo.get_CU_at(off) at an offset where NO unit starts and where a
                                           freshly opened object raises e, leaving the .debug_info cursor at c
                                           (c < 0: the stream is not touched).  Which offsets fail, and how, is a
                                           matter of the bytes (not modelled): e and c are what a fresh object shows *)

Inductive answer :=
| AUnit (off pid : Z)                   (* a CompileUnit: cu_offset, header *)
| ADie (u o pid : Z)                    (* a DIE: its unit's offset, its offset, its contents *)
| ANone                                 (* Python None *)
| AStop                                 (* StopIteration *)
| ADone                                 (* nothing observable (Disturb, generator creation) *)
| AVals (l : list Z)                    (* any other value, as a tuple of ids *)
| AErr (e : err).
