(* Model/C15GnuVersions.v — executable transliteration of
     elftools/elf/gnuversions.py   (GNUVersionSection, GNUVerNeedSection, GNUVerDefSection, GNUVerSymSection)
     elftools/elf/sections.py      (StringTableSection.get_string, SymbolTableSection.__init__/get_symbol)
     elftools/elf/elffile.py       (_make_section dispatch for the three version section types,
                                    _get_linked_strtab_section, _get_linked_symtab_section,
                                    _make_symbol_table_section, _make_gnu_ver*_section)
   A stream is the whole file image (byte list); every read here is absolute
   (struct_parse(..., stream_pos=...)), so no cursor is carried.  Record structs are
   the layouts REGENERATED from the live construct trees (Gen/ElfLayouts.v) together
   with their Enum bindings.  Section headers are given decoded (header decoding is
   C01's subject); [sh_type] is the integer, its name is looked up in the regenerated
   table exactly as the Enum adapter does.  No proofs here. *)
From PV Require Import Base.Fmt Base.Outcome Base.Prim Base.Enum Gen.ElfLayouts Spec.C15Versions.
Open Scope Z_scope.
Open Scope list_scope.

(* ---------- construct glue ---------- *)
Definition binds := list (string * string * bool).     (* field -> (enum table id, strict?) *)
Definition cstruct := (layout * binds)%type.

Fixpoint bind_lookup (b : binds) (field : string) : option (string * bool) :=
  match b with
  | [] => None
  | (f, id, strict) :: r => if (f =? field)%string then Some (id, strict) else bind_lookup r field
  end.
Fixpoint table_lookup (ts : list (string * list (Z * string))) (id : string) : option (list (Z * string)) :=
  match ts with
  | [] => None
  | (k, t) :: r => if (k =? id)%string then Some t else table_lookup r id
  end.

(* MappingAdapter._decode of field [field] holding integer [v] *)
Definition enum_field (b : binds) (field : string) (v : Z) : enum_val :=
  match bind_lookup b field with
  | None => Raw v
  | Some (id, strict) =>
      match table_lookup gen_enum_tables id with
      | None => Raw v
      | Some t =>
          match dict_get t v with
          | Some n => Name n
          | None => if strict then MappingError else Raw v
          end
      end
  end.

(* no strict Enum of the struct meets an unmapped value *)
Definition enums_ok (b : binds) (r : record) : bool :=
  forallb (fun x => match enum_field b (fst (fst x)) (rec_z r (fst (fst x))) with
                    | MappingError => false | _ => true end) b.

(* stream.seek(off) on the BytesIO, as what a following read sees: the bytes from [off] on, nothing past the
   end.  Written as a walk down the image with a Z countdown: it computes no length and never builds a unary
   number from a file-controlled offset (garbage displacements reach 2^32), so walks over thousands of records
   stay cheap after extraction.  (= skipn (Z.to_nat off) img, Proofs/C15Proofs.v seek_eq) *)
Fixpoint seek (img : list Z) (off : Z) : list Z :=
  if off <=? 0 then img
  else match img with
       | [] => []
       | _ :: r => seek r (off - 1)
       end.

(* common/utils.py struct_parse(struct, stream, stream_pos=off):
   stream.seek(off); struct.parse_stream(stream); ConstructError -> ELFParseError *)
Definition struct_parse_at (s : cstruct) (img : list Z) (off : Z) : res record :=
  match decode_layout (fst s) (seek img off) with
  | Some (r, _) => if enums_ok (snd s) r then Ok r else Err EParse
  | None => Err EParse
  end.

(* sections.py StringTableSection.get_string(offset):
     s = parse_cstring_from_stream(self.stream, table_offset + offset)
     return s.decode('utf-8', errors='replace') if s else ''          (names are byte lists here) *)
Definition get_string (img : list Z) (strtab : shdr) (offset : Z) : list Z :=
  let pos := sh_offset strtab + offset in
  let rest := seek img pos in
  (* parse_cstring_from_stream: 64-byte chunks up to the first NUL; EOF first => None.  Fuel: one round per
     remaining byte is more than the chunk loop can use *)
  match cstr_chunks (S (List.length rest)) rest with
  | Some s => s
  | None => []
  end.

(* ---------- elffile.py: section construction ---------- *)
Definition shdr_binds (is64 : bool) : binds := if is64 then gen_binds_Elf_Shdr_64 else gen_binds_Elf_Shdr_32.
(* section_header['sh_type'] == name *)
Definition sh_type_is (is64 : bool) (h : shdr) (name : string) : bool :=
  match enum_field (shdr_binds is64) "sh_type" (sh_type h) with
  | Name n => (n =? name)%string
  | _ => false
  end.

(* _get_section_header(n): entry n of the (given, decoded) header table.  A header outside
   the table is not modelled (the code reads whatever bytes are there). *)
Definition get_section_header (shdrs : list shdr) (n : Z) : res shdr :=
  if n <? 0 then Err EParse
  else match nth_error shdrs (Z.to_nat n) with Some h => Ok h | None => Err EParse end.

(* _get_linked_strtab_section(n) *)
Definition get_linked_strtab_section (is64 : bool) (shdrs : list shdr) (n : Z) : res shdr :=
  do h <- get_section_header shdrs n;
  if negb (sh_type_is is64 h "SHT_STRTAB") then Err EElf    (* raise ELFError(...) *)
  else Ok h.

(* a SymbolTableSection: its header and its string table *)
Definition symtab := (shdr * shdr)%type.

(* _get_linked_symtab_section(n) -> _make_section -> _make_symbol_table_section -> SymbolTableSection.__init__ *)
Definition get_linked_symtab_section (is64 : bool) (shdrs : list shdr) (n : Z) : res symtab :=
  do h <- get_section_header shdrs n;
  if negb (sh_type_is is64 h "SHT_SYMTAB" || sh_type_is is64 h "SHT_DYNSYM") then Err EElf
  else
    do strtab <- get_linked_strtab_section is64 shdrs (sh_link h);
    if negb (sh_entsize h >? 0) then Err EElf                        (* elf_assert(self['sh_entsize'] > 0) *)
    else if negb (sh_size h mod sh_entsize h =? 0) then Err EElf     (* elf_assert(sh_size % sh_entsize == 0) *)
    else Ok (h, strtab).

Inductive section :=
| GNUVerNeedSection (header stringtable : shdr)
| GNUVerDefSection (header stringtable : shdr)
| GNUVerSymSection (header : shdr) (symboltable : symtab)
| OtherSection (header : shdr).

(* _make_section, the three branches this property is about (no other branch tests these names) *)
Definition make_section (is64 : bool) (shdrs : list shdr) (h : shdr) : res section :=
  if sh_type_is is64 h "SHT_GNU_verneed" then          (* _make_gnu_verneed_section *)
    do st <- get_linked_strtab_section is64 shdrs (sh_link h); Ok (GNUVerNeedSection h st)
  else if sh_type_is is64 h "SHT_GNU_verdef" then      (* _make_gnu_verdef_section *)
    do st <- get_linked_strtab_section is64 shdrs (sh_link h); Ok (GNUVerDefSection h st)
  else if sh_type_is is64 h "SHT_GNU_versym" then      (* _make_gnu_versym_section *)
    do sy <- get_linked_symtab_section is64 shdrs (sh_link h); Ok (GNUVerSymSection h sy)
  else Ok (OtherSection h).

(* ELFFile.get_section(n) *)
Definition get_section (is64 : bool) (shdrs : list shdr) (n : Z) : res section :=
  do h <- get_section_header shdrs n; make_section is64 shdrs h.

(* ---------- gnuversions.py: GNUVersionSection ---------- *)
Record vcfg := mk_vcfg {
  field_prefix : string;
  version_struct : cstruct;
  version_auxiliaries_struct : cstruct }.

(* GNUVerDefSection.__init__ / GNUVerNeedSection.__init__: the super().__init__ arguments *)
Definition verdef_cfg (le is64 : bool) : vcfg :=
  mk_vcfg "vd" (gen_Elf_Verdef le is64, if is64 then gen_binds_Elf_Verdef_64 else gen_binds_Elf_Verdef_32)
               (gen_Elf_Verdaux le is64, if is64 then gen_binds_Elf_Verdaux_64 else gen_binds_Elf_Verdaux_32).
Definition verneed_cfg (le is64 : bool) : vcfg :=
  mk_vcfg "vn" (gen_Elf_Verneed le is64, if is64 then gen_binds_Elf_Verneed_64 else gen_binds_Elf_Verneed_32)
               (gen_Elf_Vernaux le is64, if is64 then gen_binds_Elf_Vernaux_64 else gen_binds_Elf_Vernaux_32).

(* num_versions: return self['sh_info'] *)
Definition num_versions (header : shdr) : Z := sh_info header.

(* _field_name(name, auxiliary): self.field_prefix + ('a_' if auxiliary else '_') + name *)
Definition field_name (c : vcfg) (name : string) (auxiliary : bool) : string :=
  (field_prefix c ++ (if auxiliary then "a_" else "_") ++ name)%string.

(* _iter_version_auxiliaries(entry_offset, count), iterated to the end:
     for _ in range(count):
         entry = struct_parse(self.version_auxiliaries_struct, self.stream, stream_pos=entry_offset)
         name = self.stringtable.get_string(entry[name_field])
         yield VersionAuxiliary(entry, name)
         if entry[next_field] == 0: break        # a zero link ends the chain whatever [count] says
         entry_offset += entry[next_field] *)
Fixpoint iter_version_auxiliaries (c : vcfg) (img : list Z) (stringtable : shdr)
         (count : nat) (entry_offset : Z) : res (list aux_view) :=
  match count with
  | O => Ok []
  | S k =>
      do entry <- struct_parse_at (version_auxiliaries_struct c) img entry_offset;
      let name := get_string img stringtable (rec_z entry (field_name c "name" true)) in
      if rec_z entry (field_name c "next" true) =? 0 then Ok [(entry, name)]       (* break *)
      else
        do rest <- iter_version_auxiliaries c img stringtable k
                     (entry_offset + rec_z entry (field_name c "next" true));
        Ok ((entry, name) :: rest)
  end.

(* iter_versions(), each yielded auxiliary iterator consumed before the next entry is asked for
   (the way every caller in the library and the harness walks it):
     entry_offset = self['sh_offset']
     for _ in range(self.num_versions()):
         entry = struct_parse(self.version_struct, self.stream, stream_pos=entry_offset)
         elf_assert(entry[count_field] > 0, ...)
         yield Version(entry), self._iter_version_auxiliaries(entry_offset + entry[aux_field], entry[count_field])
         if entry[next_field] == 0: break        # a zero link ends the chain whatever sh_info says
         entry_offset += entry[next_field]
   [file_field] = Some "vn_file" adds GNUVerNeedSection.iter_versions' wrapper
     verneed.name = self.stringtable.get_string(verneed['vn_file'])
   (Version.name stays None for definitions). *)
Fixpoint iter_versions_from (c : vcfg) (file_field : option string) (img : list Z) (stringtable : shdr)
         (n : nat) (entry_offset : Z) : res (list ver_view) :=
  match n with
  | O => Ok []
  | S k =>
      do entry <- struct_parse_at (version_struct c) img entry_offset;
      if negb (rec_z entry (field_name c "cnt" false) >? 0) then Err EElf
      else
        let name := option_map (fun f => get_string img stringtable (rec_z entry f)) file_field in
        do auxs <- iter_version_auxiliaries c img stringtable
                     (Z.to_nat (rec_z entry (field_name c "cnt" false)))
                     (entry_offset + rec_z entry (field_name c "aux" false));
        if rec_z entry (field_name c "next" false) =? 0 then Ok [(entry, name, auxs)]   (* break *)
        else
          do rest <- iter_versions_from c file_field img stringtable k
                       (entry_offset + rec_z entry (field_name c "next" false));
          Ok ((entry, name, auxs) :: rest)
  end.

Definition iter_versions (c : vcfg) (file_field : option string) (img : list Z) (header stringtable : shdr)
  : res (list ver_view) :=
  iter_versions_from c file_field img stringtable (Z.to_nat (num_versions header)) (sh_offset header).

(* ---------- GNUVerDefSection ---------- *)
Definition verdef_iter_versions (le is64 : bool) (img : list Z) (header stringtable : shdr) :=
  iter_versions (verdef_cfg le is64) None img header stringtable.

(* get_version(index):
     for verdef, verdaux_iter in self.iter_versions():
         if verdef['vd_ndx'] == index: return verdef, verdaux_iter
     return None
   The returned iterator is consumed by the observer; entries after the hit are never read.
   On a miss the generator is resumed: a zero next link ends it, the for loop ends, None. *)
Fixpoint verdef_get_version_from (c : vcfg) (img : list Z) (stringtable : shdr)
         (n : nat) (entry_offset : Z) (index : Z) : res (option ver_view) :=
  match n with
  | O => Ok None
  | S k =>
      do entry <- struct_parse_at (version_struct c) img entry_offset;
      if negb (rec_z entry (field_name c "cnt" false) >? 0) then Err EElf
      else if rec_z entry "vd_ndx" =? index then
        do auxs <- iter_version_auxiliaries c img stringtable
                     (Z.to_nat (rec_z entry (field_name c "cnt" false)))
                     (entry_offset + rec_z entry (field_name c "aux" false));
        Ok (Some (entry, None, auxs))
      else if rec_z entry (field_name c "next" false) =? 0 then Ok None             (* generator's break *)
      else verdef_get_version_from c img stringtable k
             (entry_offset + rec_z entry (field_name c "next" false)) index
  end.
Definition verdef_get_version (le is64 : bool) (img : list Z) (header stringtable : shdr) (index : Z) :=
  verdef_get_version_from (verdef_cfg le is64) img stringtable
    (Z.to_nat (num_versions header)) (sh_offset header) index.

(* ---------- GNUVerNeedSection ---------- *)
Definition verneed_iter_versions (le is64 : bool) (img : list Z) (header stringtable : shdr) :=
  iter_versions (verneed_cfg le is64) (Some "vn_file"%string) img header stringtable.

(* the inner loop of get_version over one auxiliary iterator:
     for vernaux in vernaux_iter:
         if vernaux['vna_other'] == index: return verneed, vernaux
   (a miss resumes _iter_version_auxiliaries: a zero next link ends it) *)
Fixpoint find_vernaux (c : vcfg) (img : list Z) (stringtable : shdr)
         (count : nat) (entry_offset : Z) (index : Z) : res (option aux_view) :=
  match count with
  | O => Ok None
  | S k =>
      do entry <- struct_parse_at (version_auxiliaries_struct c) img entry_offset;
      let name := get_string img stringtable (rec_z entry (field_name c "name" true)) in
      if rec_z entry "vna_other" =? index then Ok (Some (entry, name))
      else if rec_z entry (field_name c "next" true) =? 0 then Ok None              (* generator's break *)
      else find_vernaux c img stringtable k (entry_offset + rec_z entry (field_name c "next" true)) index
  end.

(* get_version(index):
     for verneed, vernaux_iter in self.iter_versions():
         for vernaux in vernaux_iter: ...
     return None *)
Fixpoint verneed_get_version_from (c : vcfg) (img : list Z) (stringtable : shdr)
         (n : nat) (entry_offset : Z) (index : Z) : res (option (record * list Z * aux_view)) :=
  match n with
  | O => Ok None
  | S k =>
      do entry <- struct_parse_at (version_struct c) img entry_offset;
      if negb (rec_z entry (field_name c "cnt" false) >? 0) then Err EElf
      else
        let name := get_string img stringtable (rec_z entry "vn_file") in
        do hit <- find_vernaux c img stringtable
                    (Z.to_nat (rec_z entry (field_name c "cnt" false)))
                    (entry_offset + rec_z entry (field_name c "aux" false)) index;
        match hit with
        | Some a => Ok (Some (entry, name, a))
        | None =>
            if rec_z entry (field_name c "next" false) =? 0 then Ok None            (* generator's break *)
            else verneed_get_version_from c img stringtable k
                   (entry_offset + rec_z entry (field_name c "next" false)) index
        end
  end.
Definition verneed_get_version (le is64 : bool) (img : list Z) (header stringtable : shdr) (index : Z) :=
  verneed_get_version_from (verneed_cfg le is64) img stringtable
    (Z.to_nat (num_versions header)) (sh_offset header) index.

(* has_indexes():
     if self._has_indexes is None:
         self._has_indexes = False
         for _, vernaux_iter in self.iter_versions():
             for vernaux in vernaux_iter:
                 if vernaux['vna_other']:
                     self._has_indexes = True
                     break                     # leaves the INNER loop only
     return self._has_indexes
   Inner loop: true = left through the break.  Both generators stop at a zero next link. *)
Fixpoint has_indexes_inner (c : vcfg) (img : list Z) (count : nat) (entry_offset : Z) : res bool :=
  match count with
  | O => Ok false
  | S k =>
      do entry <- struct_parse_at (version_auxiliaries_struct c) img entry_offset;
      (* the generator resolves the name before yielding; that cannot raise *)
      if negb (rec_z entry "vna_other" =? 0) then Ok true
      else if rec_z entry (field_name c "next" true) =? 0 then Ok false            (* generator's break *)
      else has_indexes_inner c img k (entry_offset + rec_z entry (field_name c "next" true))
  end.
(* outer loop; returns the exception that ended it (if any) and the value of self._has_indexes *)
Fixpoint has_indexes_outer (c : vcfg) (img : list Z) (n : nat) (entry_offset : Z) (flag : bool)
  : option err * bool :=
  match n with
  | O => (None, flag)
  | S k =>
      match struct_parse_at (version_struct c) img entry_offset with
      | Err e => (Some e, flag)
      | Ok entry =>
          if negb (rec_z entry (field_name c "cnt" false) >? 0) then (Some EElf, flag)
          else
            match has_indexes_inner c img (Z.to_nat (rec_z entry (field_name c "cnt" false)))
                                    (entry_offset + rec_z entry (field_name c "aux" false)) with
            | Err e => (Some e, flag)
            | Ok b =>
                if rec_z entry (field_name c "next" false) =? 0 then (None, flag || b)   (* generator's break *)
                else has_indexes_outer c img k
                       (entry_offset + rec_z entry (field_name c "next" false)) (flag || b)
            end
      end
  end.
(* [memo] is self._has_indexes; returns the answer and the new memo *)
Definition has_indexes (le is64 : bool) (img : list Z) (header : shdr) (memo : option bool)
  : res bool * option bool :=
  match memo with
  | Some b => (Ok b, Some b)
  | None =>
      let '(e, flag) := has_indexes_outer (verneed_cfg le is64) img
                          (Z.to_nat (num_versions header)) (sh_offset header) false in
      (match e with None => Ok flag | Some x => Err x end, Some flag)
  end.

(* ---------- GNUVerSymSection ---------- *)
Definition sym_struct (le is64 : bool) : cstruct :=
  (gen_Elf_Sym le is64, if is64 then gen_binds_Elf_Sym_64 else gen_binds_Elf_Sym_32).
Definition versym_struct (le is64 : bool) : cstruct :=
  (gen_Elf_Versym le is64, if is64 then gen_binds_Elf_Versym_64 else gen_binds_Elf_Versym_32).

(* num_symbols: return self['sh_size'] // self['sh_entsize'] *)
Definition versym_num_symbols (header : shdr) : res Z :=
  if sh_entsize header =? 0 then Err (EPy "ZeroDivisionError") else Ok (sh_size header / sh_entsize header).

(* sections.py SymbolTableSection.get_symbol(n) (only the name is observed here) *)
Definition symtab_get_symbol_name (le is64 : bool) (img : list Z) (t : symtab) (n : Z) : res (list Z) :=
  let entry_offset := sh_offset (fst t) + n * sh_entsize (fst t) in
  do entry <- struct_parse_at (sym_struct le is64) img entry_offset;
  Ok (get_string img (snd t) (rec_z entry "st_name")).

(* get_symbol(n):
     entry_offset = self['sh_offset'] + n * self['sh_entsize']
     entry = struct_parse(self.structs.Elf_Versym, self.stream, stream_pos=entry_offset)
     name = self.symboltable.get_symbol(n).name
     return Symbol(entry, name)
   observed as (entry['ndx'] after the Enum adapter, name) *)
Definition versym_get_symbol (le is64 : bool) (img : list Z) (header : shdr) (t : symtab) (n : Z)
  : res (enum_val * list Z) :=
  let entry_offset := sh_offset header + n * sh_entsize header in
  do entry <- struct_parse_at (versym_struct le is64) img entry_offset;
  do name <- symtab_get_symbol_name le is64 img t n;
  Ok (enum_field (snd (versym_struct le is64)) "ndx" (rec_z entry "ndx"), name).

(* iter_symbols: for i in range(self.num_symbols()): yield self.get_symbol(i) *)
Fixpoint versym_iter_from (le is64 : bool) (img : list Z) (header : shdr) (t : symtab)
         (count : nat) (i : Z) : res (list (enum_val * list Z)) :=
  match count with
  | O => Ok []
  | S k =>
      do x <- versym_get_symbol le is64 img header t i;
      do rest <- versym_iter_from le is64 img header t k (i + 1);
      Ok (x :: rest)
  end.
Definition versym_iter_symbols (le is64 : bool) (img : list Z) (header : shdr) (t : symtab) :=
  do n <- versym_num_symbols header;
  versym_iter_from le is64 img header t (Z.to_nat n) 0.

(* ---------- whole observations from a section index (what the harness does with ELFFile) ---------- *)
Definition file_verdef_versions (le is64 : bool) (img : list Z) (shdrs : list shdr) (n : Z) : res (list ver_view) :=
  do s <- get_section is64 shdrs n;
  match s with
  | GNUVerDefSection h st => verdef_iter_versions le is64 img h st
  | _ => Err (EPy "not-a-GNUVerDefSection")
  end.
Definition file_verdef_get_version (le is64 : bool) (img : list Z) (shdrs : list shdr) (n index : Z) :=
  do s <- get_section is64 shdrs n;
  match s with
  | GNUVerDefSection h st => verdef_get_version le is64 img h st index
  | _ => Err (EPy "not-a-GNUVerDefSection")
  end.
Definition file_verneed_versions (le is64 : bool) (img : list Z) (shdrs : list shdr) (n : Z) : res (list ver_view) :=
  do s <- get_section is64 shdrs n;
  match s with
  | GNUVerNeedSection h st => verneed_iter_versions le is64 img h st
  | _ => Err (EPy "not-a-GNUVerNeedSection")
  end.
Definition file_verneed_get_version (le is64 : bool) (img : list Z) (shdrs : list shdr) (n index : Z) :=
  do s <- get_section is64 shdrs n;
  match s with
  | GNUVerNeedSection h st => verneed_get_version le is64 img h st index
  | _ => Err (EPy "not-a-GNUVerNeedSection")
  end.
(* two consecutive has_indexes() calls on one section object: the second sees the memo *)
Definition file_verneed_has_indexes (le is64 : bool) (img : list Z) (shdrs : list shdr) (n : Z)
  : res (res bool * res bool) :=
  do s <- get_section is64 shdrs n;
  match s with
  | GNUVerNeedSection h st =>
      let '(r1, m1) := has_indexes le is64 img h None in
      let '(r2, _) := has_indexes le is64 img h m1 in
      Ok (r1, r2)
  | _ => Err (EPy "not-a-GNUVerNeedSection")
  end.
Definition file_num_versions (is64 : bool) (shdrs : list shdr) (n : Z) : res Z :=
  do s <- get_section is64 shdrs n;
  match s with
  | GNUVerDefSection h _ | GNUVerNeedSection h _ => Ok (num_versions h)
  | _ => Err (EPy "not-a-GNUVersionSection")
  end.
Definition file_versym_symbols (le is64 : bool) (img : list Z) (shdrs : list shdr) (n : Z) :=
  do s <- get_section is64 shdrs n;
  match s with
  | GNUVerSymSection h t => versym_iter_symbols le is64 img h t
  | _ => Err (EPy "not-a-GNUVerSymSection")
  end.
Definition file_versym_num_symbols (is64 : bool) (shdrs : list shdr) (n : Z) : res Z :=
  do s <- get_section is64 shdrs n;
  match s with
  | GNUVerSymSection h t => versym_num_symbols h
  | _ => Err (EPy "not-a-GNUVerSymSection")
  end.
