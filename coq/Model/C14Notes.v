(* Model/C14Notes.v — executable transliteration of
     elftools/elf/notes.py      iter_notes
     elftools/elf/sections.py   NoteSection.iter_notes, StabSection.iter_stabs
     elftools/elf/segments.py   NoteSegment.iter_notes
     elftools/elf/structs.py    Elf_Prop (classify_pr_data, roundup_padding), Elf_Nt_File
     elftools/common/utils.py   roundup (body regenerated: Gen/C14Notes.v gen_roundup), struct_parse
   The stream is the whole file image [img]; offsets are Python ints (Z).  Everything that
   is data in the code (layouts, enum dicts, the Switch table, the key function's table,
   the padding/length/count lambdas, roundup's body) comes from Gen.  No proofs here. *)
From PV Require Import Base.Outcome Base.Fmt Base.Enum Base.Prim.
From PV Require Import Gen.ElfLayouts Gen.C14Notes Spec.C14Notes.
Open Scope string_scope.
Open Scope list_scope.
Open Scope Z_scope.

Definition record := list (string * fval).

Fixpoint assoc_s {A} (k : string) (l : list (string * A)) : option A :=
  match l with
  | [] => None
  | (k', v) :: r => if String.eqb k' k then Some v else assoc_s k r
  end.

Definition elfclass (c : cfg) : Z := if c_is64 c then 64 else 32.

(* ---------------------------------------------------------------- stream primitives *)
(* stream.seek(off): the bytes from off on (nothing at or past EOF) *)
Definition skipn_z (off : Z) (img : list Z) : list Z :=
  if off <? zlen img then skipn (Z.to_nat off) img else [].
(* stream.read(n): at most n bytes *)
Definition firstn_z (n : Z) (bs : list Z) : list Z :=
  if n <? zlen bs then firstn (Z.to_nat n) bs else bs.
Definition read_at (img : list Z) (off n : Z) : list Z := firstn_z n (skipn_z off img).
(* stream.read(n) at the cursor [cur]: the bytes and the cursor afterwards (a short read at EOF
   advances by what was read).  notes.py reads through _read_at_most(elffile, n) =
   stream.read(min(n, max(stream_len - tell, 0))): the same bytes, without asking for more than
   the file holds *)
Definition read_cur (img : list Z) (cur n : Z) : list Z * Z :=
  let bs := read_at img cur n in (bs, cur + zlen bs).
(* construct Field(n): exactly n bytes or FieldError *)
Definition take_z (n : Z) (bs : list Z) : option (list Z * list Z) :=
  if n <=? zlen bs then Some (firstn (Z.to_nat n) bs, skipn (Z.to_nat n) bs) else None.

(* common/utils.py struct_parse(struct, stream, stream_pos=off): ConstructError -> ELFParseError *)
Definition struct_parse_at (L : layout) (img : list Z) (off : Z) : res record :=
  match decode_layout L (skipn_z off img) with
  | Some (r, _) => Ok r
  | None => Err EParse
  end.

(* construct Enum over a decode dict; strict = no _default_ (MappingError) *)
Definition enum_field (T : list (Z * string)) (strict : bool) (v : Z) : res enum_val :=
  match dict_get T v with
  | Some n => Ok (Name n)
  | None => if strict then Err EParse else Ok (Raw v)
  end.

Definition table_by_id (id : string) : list (Z * string) :=
  match assoc_s id gen_enum_tables with Some t => t | None => [] end.

Fixpoint bind_of (f : string) (binds : list (string * string * bool)) : option (string * bool) :=
  match binds with
  | [] => None
  | (f', id, strict) :: r => if String.eqb f' f then Some (id, strict) else bind_of f r
  end.

(* common/utils.py roundup(num, bits): return (num - 1 | (1 << bits) - 1) + 1 *)
Definition roundup (num bits : Z) : Z :=
  eval [("num", VZ num); ("bits", VZ bits)] gen_roundup.

(* ---------------------------------------------------------------- structs.py: Elf_Nhdr *)
(* _create_note(e_type): Enum(n_type, ENUM_NOTE_N_TYPE if e_type != "ET_CORE" else ENUM_CORE_NOTE_N_TYPE) *)
Definition n_type_table (c : cfg) : list (Z * string) :=
  match assoc_s (c_etype c) gen_n_type_table_of_etype with
  | Some id => table_by_id id
  | None => []
  end.
Definition n_type_strict (c : cfg) : bool :=
  match bind_of "n_type" (if c_is64 c then gen_binds_Elf_Nhdr_64 else gen_binds_Elf_Nhdr_32) with
  | Some (_, s) => s
  | None => false
  end.
(* the e_type names the translator enumerated when it built gen_n_type_table_of_etype (every
   name of ENUM_E_TYPE, "<raw>" for an unnamed value, "<none>"): the domain of n_type_table *)
Definition wf_cfg (c : cfg) : bool :=
  existsb (String.eqb (c_etype c)) (map fst gen_n_type_table_of_etype).
Definition Elf_Nhdr (c : cfg) : layout := gen_Elf_Nhdr (c_le c) (c_is64 c).
Definition sizeof (L : layout) : Z :=
  match layout_size L with Some n => Z.of_nat n | None => 0 end.

(* ---------------------------------------------------------------- structs.py: Elf_Prop *)
(* def classify_pr_data(ctx): None unless pr_type is a name; X86_/AARCH64_/RISCV_ prefixes give
   (prefix label, pr_datasz, 0), any other name (pr_type, pr_datasz, elfclass).  The prefix tests
   are evaluated by the translator on every name of the Enum (gen_prop_key_of_type: label, the
   size component if it is a constant, the class component if it is a constant). *)
Definition classify_pr_data (c : cfg) (t : enum_val) (datasz : Z) : option (string * Z * Z) :=
  match t with
  | Name n =>
      match assoc_s n gen_prop_key_of_type with
      | Some (lab, a, b) =>
          Some (lab, match a with Some a' => a' | None => datasz end,
                     match b with Some b' => b' | None => elfclass c end)
      | None => None
      end
  | _ => None
  end.

(* Switch('pr_data', classify_pr_data, {...}, default=Field('pr_data', lambda ctx: ctx.pr_datasz)) *)
Fixpoint switch_case (key : string * Z * Z) (cases : list (string * Z * Z * nat)) : option nat :=
  match cases with
  | [] => None
  | (lab, a, b, n) :: r =>
      let '(l0, a0, b0) := key in
      if String.eqb lab l0 && (a =? a0) && (b =? b0) then Some n else switch_case key r
  end.

(* struct_parse(Elf_Prop, stream, off): pr_type, pr_datasz, pr_data, Padding(roundup_padding) *)
Definition parse_prop (c : cfg) (img : list Z) (off : Z) : res pview :=
  match decode_layout (gen_Elf_Prop_head (c_le c) (c_is64 c)) (skipn_z off img) with
  | None => Err EParse
  | Some (hd, r1) =>
      do t <- enum_field gen_prop_type_table gen_prop_type_strict (rec_z hd "pr_type");
      let datasz := rec_z hd "pr_datasz" in
      let env := rev hd in
      do dr <- match (match classify_pr_data c t datasz with
                      | Some key => switch_case key gen_prop_cases
                      | None => None
                      end) with
               | Some n =>
                   match take n r1 with
                   | Some (a, r2) => Ok (PInt (int_decode (c_le c) a), r2)
                   | None => Err EParse
                   end
               | None =>
                   match take_z (eval env gen_prop_default_len) r1 with
                   | Some (a, r2) => Ok (PBytes a, r2)
                   | None => Err EParse
                   end
               end;
      let '(data, r2) := dr in
      match take_z (eval env (gen_prop_padding (c_is64 c))) r2 with
      | Some _ => Ok (t, datasz, data)
      | None => Err EParse
      end
  end.

(* notes.py, the NT_GNU_PROPERTY_TYPE_0 branch:
     while off < current_note_end:
         p = struct_parse(Elf_Prop, stream, off)
         off += roundup(p.pr_datasz + 8, 2 if elffile.elfclass == 32 else 3)
         props.append(p) *)
Fixpoint props_go (fuel : nat) (c : cfg) (img : list Z) (off end_ : Z) : res (list pview) :=
  match fuel with
  | O => Err EFuel
  | S f =>
      if off <? end_ then
        do p <- parse_prop c img off;
        let '(_, datasz, _) := p in
        do rest <- props_go f c img (off + roundup (datasz + 8) (if elfclass c =? 32 then 2 else 3)) end_;
        Ok (p :: rest)
      else Ok []
  end.

(* ---------------------------------------------------------------- structs.py: Elf_Nt_File *)
(* Array(count, Struct('Elf_Nt_File_Entry', ...)) : MetaArray, ArrayError on a short read *)
Fixpoint parse_entries (fuel : nat) (L : layout) (count : Z) (bs : list Z)
  : res (list record * list Z) :=
  if count <=? 0 then Ok ([], bs) else
  match fuel with
  | O => Err EFuel
  | S f =>
      match decode_layout L bs with
      | None => Err EParse
      | Some (r, t) =>
          do rt <- parse_entries f L (count - 1) t;
          let '(rs, t') := rt in Ok (r :: rs, t')
      end
  end.
(* Array(count, CString('filename')) *)
Fixpoint parse_cstrings (fuel : nat) (count : Z) (bs : list Z) : res (list (list Z) * list Z) :=
  if count <=? 0 then Ok ([], bs) else
  match fuel with
  | O => Err EFuel
  | S f =>
      match cstring_decode bs with
      | None => Err EParse
      | Some (s, t) =>
          do rt <- parse_cstrings f (count - 1) t;
          let '(ss, t') := rt in Ok (s :: ss, t')
      end
  end.

Definition entry_triple (r : record) : Z * Z * Z :=
  (rec_z r "vm_start", rec_z r "vm_end", rec_z r "page_offset").

Definition parse_nt_file (c : cfg) (img : list Z) (off : Z) : res dview :=
  match decode_layout (gen_Elf_Nt_File_head (c_le c) (c_is64 c)) (skipn_z off img) with
  | None => Err EParse
  | Some (hd, r1) =>
      let env := rev hd in
      do er <- parse_entries (S (length r1)) (gen_Elf_Nt_File_entry (c_le c) (c_is64 c))
                 (eval env gen_nt_file_count_entries) r1;
      let '(es, r2) := er in
      do nr <- parse_cstrings (S (length r2)) (eval env gen_nt_file_count_names) r2;
      let '(names, _) := nr in
      Ok (DVFile (rec_z hd "num_map_entries") (rec_z hd "page_size") (map entry_triple es) names)
  end.

(* ---------------------------------------------------------------- structs.py: Elf_Prpsinfo, Elf_abi *)
(* Elf_ugid = Elf_half on a few 32-bit machines *)
Definition Elf_Prpsinfo (c : cfg) : layout :=
  if c_is64 c then gen_Elf_Prpsinfo (c_le c) true
  else if existsb (String.eqb (c_machine c)) gen_ugid_half_machines then gen_Elf_Prpsinfo_half32 (c_le c)
  else gen_Elf_Prpsinfo (c_le c) false.

(* a Container has no entry for Padding *)
Definition container (r : record) : record :=
  filter (fun f => negb (String.eqb (fst f) "<pad>")) r.

Definition abi_os_bind (c : cfg) : string * bool :=
  match bind_of "abi_os" (if c_is64 c then gen_binds_Elf_abi_64 else gen_binds_Elf_abi_32) with
  | Some b => b
  | None => ("", false)
  end.

(* bytes.hex() *)
Definition HEXDIGITS : list Z := [48; 49; 50; 51; 52; 53; 54; 55; 56; 57; 97; 98; 99; 100; 101; 102].
Definition bytes2hex (bs : list Z) : list Z :=
  flat_map (fun b => [nth (Z.to_nat (b / 16)) HEXDIGITS 0; nth (Z.to_nat (b mod 16)) HEXDIGITS 0]) bs.

(* ---------------------------------------------------------------- notes.py: iter_notes *)
Definition is_name (t : enum_val) (s : string) : bool :=
  match t with Name n => String.eqb n s | _ => false end.
(* note['n_name'] == 'GNU' *)
Definition name_is (name : option (list Z)) (s : list Z) : bool :=
  match name with Some b => bytes_eqb b s | None => false end.
Definition STR_GNU : list Z := [71; 78; 85].

(* the if / elif chain on n_type and n_name, in source order *)
Definition desc_dispatch (t : enum_val) (name : option (list Z)) : kind :=
  if is_name t "NT_GNU_ABI_TAG" && name_is name STR_GNU then KAbi
  else if is_name t "NT_GNU_BUILD_ID" && name_is name STR_GNU then KBuildId
  else if is_name t "NT_GNU_GOLD_VERSION" && name_is name STR_GNU then KGold
  else if is_name t "NT_PRPSINFO" then KPrps
  else if is_name t "NT_FILE" then KFile
  else if is_name t "NT_GNU_PROPERTY_TYPE_0" && name_is name STR_GNU then KProps
  else KNone.

Definition decode_desc (c : cfg) (img : list Z) (k : kind) (offset descsz : Z) (desc_data : list Z)
  : res dview :=
  match k with
  | KAbi =>        (* struct_parse(elffile.structs.Elf_abi, elffile.stream, offset) *)
      do r <- struct_parse_at (gen_Elf_abi (c_le c) (c_is64 c)) img offset;
      do os <- enum_field (table_by_id (fst (abi_os_bind c))) (snd (abi_os_bind c)) (rec_z r "abi_os");
      Ok (DVAbi os (rec_z r "abi_major") (rec_z r "abi_minor") (rec_z r "abi_tiny"))
  | KBuildId => Ok (DVHex (bytes2hex desc_data))      (* bytes2hex(desc_data) *)
  | KGold => Ok (DVStr desc_data)                     (* bytes2str(desc_data) *)
  | KPrps =>       (* struct_parse(elffile.structs.Elf_Prpsinfo, elffile.stream, offset) *)
      do r <- struct_parse_at (Elf_Prpsinfo c) img offset; Ok (DVRec (container r))
  | KFile => parse_nt_file c img offset
  | KProps =>
      do ps <- props_go (S (length img)) c img offset (offset + descsz); Ok (DVProps ps)
  | KNone => Ok (DVBytes desc_data)
  end.

(* The stream cursor is explicit from here on.  The file object belongs to the consumer as much as
   to the generator: between two yields the consumer may read other sections, walk another extent
   in lock step or seek anywhere, so the cursor [cur] a step starts with is unknown.  A read through
   struct_parse(..., stream_pos=off) or after stream.seek(off) is absolute (the cursor is
   overwritten); stream.read(n) is relative to the cursor. *)

(* if note['n_namesz']: disk_namesz = roundup(n_namesz, 2);
       n_name = bytes2str(CString('').parse(stream.read(disk_namesz))); offset += disk_namesz
   else: n_name = None.        CString('').parse is not wrapped by struct_parse: ArrayError.
   Returns the name, the offset and the cursor afterwards. *)
Definition read_name (img : list Z) (cur offset namesz : Z) : res (option (list Z) * Z * Z) :=
  if namesz =? 0 then Ok (None, offset, cur)
  else
    let disk_namesz := roundup namesz 2 in
    let '(bs, cur') := read_cur img cur disk_namesz in        (* stream.read(disk_namesz) *)
    match cstring_decode bs with
    | Some (s, _) => Ok (Some s, offset + disk_namesz, cur')
    | None => Err (EPy "ArrayError")
    end.

(* one loop iteration, resumed with the cursor at [cur]: the note at [offset] and the offset of the
   next one *)
Definition one_note (c : cfg) (img : list Z) (cur : Z) (offset : Z) : res (onote * Z) :=
  let cur0 := offset in                                   (* struct_parse(..., stream_pos=offset) seeks: [cur] is overwritten *)
  do hdr <- struct_parse_at (Elf_Nhdr c) img cur0;
  do t <- enum_field (n_type_table c) (n_type_strict c) (rec_z hdr "n_type");
  let namesz := rec_z hdr "n_namesz" in
  let descsz := rec_z hdr "n_descsz" in
  let offset1 := offset + sizeof (Elf_Nhdr c) in
  let cur1 := offset1 in                                  (* elffile.stream.seek(offset) *)
  do nm <- read_name img cur1 offset1 namesz;
  let '(name, offset2, cur2) := nm in
  let '(desc_data, _) := read_cur img cur2 descsz in      (* elffile.stream.read(n_descsz): at the cursor *)
  (* the descriptor decoders all pass stream_pos: absolute *)
  do dv <- decode_desc c img (desc_dispatch t name) offset2 descsz desc_data;
  let offset3 := offset2 + roundup descsz 2 in
  Ok ({| o_namesz := namesz; o_descsz := descsz; o_type := t; o_offset := offset;
         o_name := name; o_descdata := desc_data; o_desc := dv;
         o_size := offset3 - offset |}, offset3).

(* while offset + nhdr_size <= end: ... yield note      (guard as repaired by the fix: commit;
   the generator yields the notes before an exception: (yielded, Some error)).
   [adv i] is the stream cursor when the generator is resumed for its i-th step: whatever the
   descriptor decoders of the previous step and then the consumer left there. *)
Fixpoint iter_notes_go (fuel : nat) (c : cfg) (img : list Z) (adv : nat -> Z) (i : nat) (offset end_ : Z)
  : list onote * option err :=
  match fuel with
  | O => ([], Some EFuel)
  | S f =>
      if offset + sizeof (Elf_Nhdr c) <=? end_ then
        match one_note c img (adv i) offset with
        | Err e => ([], Some e)
        | Ok (n, offset') =>
            let (rest, e) := iter_notes_go f c img adv (S i) offset' end_ in (n :: rest, e)
        end
      else ([], None)
  end.

Definition iter_notes (c : cfg) (img : list Z) (adv : nat -> Z) (offset size : Z) : list onote * option err :=
  iter_notes_go (S (length img)) c img adv O offset (offset + size).

(* ---------------------------------------------------------------- sections.py / segments.py *)
(* NoteSection.iter_notes: iter_notes(self.elffile, self['sh_offset'], self['sh_size']) *)
Definition NoteSection_iter_notes (c : cfg) (img : list Z) (adv : nat -> Z) (sh : record) :=
  iter_notes c img adv (rec_z sh "sh_offset") (rec_z sh "sh_size").
(* NoteSegment.iter_notes: iter_notes(self.elffile, self['p_offset'], self['p_filesz']) *)
Definition NoteSegment_iter_notes (c : cfg) (img : list Z) (adv : nat -> Z) (ph : record) :=
  iter_notes c img adv (rec_z ph "p_offset") (rec_z ph "p_filesz").

(* StabSection.iter_stabs: while offset < end: parse Elf_Stabs at offset; n_offset; offset += sizeof;
   stream.seek(offset); yield.        One step, resumed with the cursor at [cur]: *)
Definition one_stab (c : cfg) (img : list Z) (cur : Z) (offset : Z) : res (record * Z) :=
  let cur0 := offset in                                   (* struct_parse(..., stream_pos=offset) seeks: [cur] is overwritten *)
  do r <- struct_parse_at (gen_Elf_Stabs (c_le c) (c_is64 c)) img cur0;
  Ok (r, offset + sizeof (gen_Elf_Stabs (c_le c) (c_is64 c))).
Fixpoint iter_stabs_go (fuel : nat) (c : cfg) (img : list Z) (adv : nat -> Z) (i : nat) (offset end_ : Z)
  : list (record * Z) * option err :=
  match fuel with
  | O => ([], Some EFuel)
  | S f =>
      if offset <? end_ then
        match one_stab c img (adv i) offset with
        | Err e => ([], Some e)
        | Ok (r, offset') =>
            let (rest, e) := iter_stabs_go f c img adv (S i) offset' end_ in
            ((r, offset) :: rest, e)
        end
      else ([], None)
  end.
Definition StabSection_iter_stabs (c : cfg) (img : list Z) (adv : nat -> Z) (sh : record) :=
  let offset := rec_z sh "sh_offset" in
  iter_stabs_go (S (length img)) c img adv O offset (offset + rec_z sh "sh_size").

(* the headers as ELFFile reads them: struct_parse(Elf_Shdr / Elf_Phdr, stream, stream_pos=...) *)
Definition section_header_at (c : cfg) (img : list Z) (off : Z) : res record :=
  struct_parse_at (gen_Elf_Shdr (c_le c) (c_is64 c)) img off.
Definition segment_header_at (c : cfg) (img : list Z) (off : Z) : res record :=
  struct_parse_at (gen_Elf_Phdr (c_le c) (c_is64 c)) img off.

Definition section_notes_at (c : cfg) (img : list Z) (adv : nat -> Z) (shoff : Z) : res (list onote * option err) :=
  do sh <- section_header_at c img shoff; Ok (NoteSection_iter_notes c img adv sh).
Definition segment_notes_at (c : cfg) (img : list Z) (adv : nat -> Z) (phoff : Z) : res (list onote * option err) :=
  do ph <- segment_header_at c img phoff; Ok (NoteSegment_iter_notes c img adv ph).
Definition section_stabs_at (c : cfg) (img : list Z) (adv : nat -> Z) (shoff : Z) : res (list (record * Z) * option err) :=
  do sh <- section_header_at c img shoff; Ok (StabSection_iter_stabs c img adv sh).
