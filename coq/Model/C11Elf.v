(* Model/C11Elf.v — the part of elftools/elf/elffile.py that turns the bytes of a
   file into the list of named section headers get_dwarf_info works on:
   ELFFile.__init__, _identify_file, _parse_elf_header, get_shstrndx,
   _get_section_header_stringtable, num_sections, _section_offset,
   _get_section_header, _get_section_name / StringTableSection.get_string,
   iter_sections.  Records are decoded with the layouts regenerated from the
   live construct trees (Gen/ElfLayouts.v).  No proofs here.
   A section of the abstract file carries the bytes of the file from its
   sh_offset on: every later read of the section is a read from that suffix. *)
From PV Require Import Base.Outcome Base.Fmt Base.Prim Gen.ElfLayouts Spec.C11Container.
Open Scope Z_scope.

Definition ELF_MAGIC : list Z := [127; 69; 76; 70].
Definition SHN_XINDEX : Z := 0xffff.

(* struct_parse(struct, stream, stream_pos=pos): ConstructError -> ELFParseError *)
Definition struct_parse_at (L : layout) (img : list Z) (pos : Z) : res (list (string * fval)) :=
  match decode_layout L (skipn (Z.to_nat pos) img) with
  | Some (r, _) => Ok r
  | None => Err EParse
  end.

(* _identify_file: (elfclass is 64, little_endian) *)
Definition identify_file (img : list Z) : res (bool * bool) :=
  if bytes_eqb (firstn 4 img) ELF_MAGIC then
    do is64 <- match firstn 1 (skipn 4 img) with
               | [1] => Ok false | [2] => Ok true | _ => Err EElf end;
    do le <- match firstn 1 (skipn 5 img) with
             | [1] => Ok true | [2] => Ok false | _ => Err EElf end;
    Ok (is64, le)
  else Err EElf.

Record ehdr := mkEhdr {
  h_le : bool; h_is64 : bool; h_machine : Z; h_flags : Z;
  h_shoff : Z; h_shentsize : Z; h_shnum : Z; h_shstrndx : Z
}.

Definition shdr_size (is64 : bool) : Z := if is64 then 64 else 40.   (* Elf_Shdr.sizeof() *)

(* _section_offset(n) *)
Definition section_offset (h : ehdr) (n : Z) : res Z :=
  if (0 <? h_shoff h) && (h_shentsize h <? shdr_size (h_is64 h)) then Err EElf
  else Ok (h_shoff h + n * h_shentsize h).

(* _get_section_header(n): None when the header would start beyond the end of the file *)
Definition get_section_header (img : list Z) (h : ehdr) (n : Z)
  : res (option (list (string * fval))) :=
  do pos <- section_offset h n;
  if zlen img <? pos then Ok None
  else do r <- struct_parse_at (gen_Elf_Shdr (h_le h) (h_is64 h)) img pos; Ok (Some r).

(* subscripting the None that _get_section_header returned *)
Definition subscript {A} (o : option A) : res A :=
  match o with Some a => Ok a | None => Err (EPy "TypeError") end.

(* Section.__init__ of a section whose header has SHF_COMPRESSED: the Elf_Chdr at
   sh_offset is parsed at construction time *)
Definition section_init_ok (le is64 : bool) (flags : Z) (stream : list Z) : res unit :=
  if negb (Z.land flags SHF_COMPRESSED =? 0) then
    match decode_layout (gen_Elf_Chdr le is64) stream with
    | Some _ => Ok tt
    | None => Err EParse
    end
  else Ok tt.

Definition sec_of_header (img : list Z) (name : list Z) (r : list (string * fval)) : sec :=
  mkSec name (rec_z r "sh_type") (rec_z r "sh_flags") (rec_z r "sh_addr") (rec_z r "sh_offset")
        (rec_z r "sh_size") (rec_z r "sh_link") (rec_z r "sh_info")
        (skipn (Z.to_nat (rec_z r "sh_offset")) img).

(* for i in range(num_sections()): get_section(i) *)
Fixpoint read_sections (img : list Z) (h : ehdr) (strtab_off : option Z) (i : Z) (count : nat)
  : res (list sec) :=
  match count with
  | O => Ok []
  | S c =>
      do oh <- get_section_header img h i;
      (* _get_section_name: "String Table not found" comes first *)
      do toff <- match strtab_off with Some t => Ok t | None => Err EParse end;
      do r <- subscript oh;
      let name := match parse_cstring_at img (Z.to_nat (toff + rec_z r "sh_name")) with
                  | Some s => s | None => [] end in
      let s := sec_of_header img name r in
      do _ <- section_init_ok (h_le h) (h_is64 h) (s_flags s) (s_stream s);
      do rest <- read_sections img h strtab_off (i + 1) c;
      Ok (s :: rest)
  end.

(* ELFFile(stream) followed by the first iteration over all sections *)
Definition parse_image (img : list Z) : res elf :=
  do (is64, le) <- identify_file img;
  do eh <- struct_parse_at (gen_Elf_Ehdr le is64) img 0;
  let h := mkEhdr le is64 (rec_z eh "e_machine") (rec_z eh "e_flags") (rec_z eh "e_shoff")
                  (rec_z eh "e_shentsize") (rec_z eh "e_shnum") (rec_z eh "e_shstrndx") in
  (* get_shstrndx *)
  do strndx <- (if negb (h_shstrndx h =? SHN_XINDEX) then Ok (h_shstrndx h)
                else do o0 <- get_section_header img h 0; do r0 <- subscript o0; Ok (rec_z r0 "sh_link"));
  (* _get_section_header_stringtable *)
  do osh <- get_section_header img h strndx;
  do strtab_off <- match osh with
                   | None => Ok None
                   | Some r =>
                       do _ <- section_init_ok le is64 (rec_z r "sh_flags")
                                 (skipn (Z.to_nat (rec_z r "sh_offset")) img);
                       Ok (Some (rec_z r "sh_offset"))
                   end;
  (* num_sections *)
  do n <- (if h_shoff h =? 0 then Ok 0
           else if h_shnum h =? 0 then
             do o0 <- get_section_header img h 0; do r0 <- subscript o0; Ok (rec_z r0 "sh_size")
           else Ok (h_shnum h));
  do secs <- read_sections img h strtab_off 0 (Z.to_nat n);
  Ok (mkElf le is64 (h_machine h) (h_flags h) secs).
