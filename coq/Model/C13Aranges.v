(* Model/C13Aranges.v — transliteration of elftools/dwarf/aranges.py (class ARanges).
   A stream is the byte list of the section; absolute reads take the offset, relative
   reads take the remaining bytes.  Result records are the ones of Spec/C13Spec.v
   (arange_entry mirrors the namedtuple ARangeEntry).  No proofs here. *)
From PV Require Export Base.PyData Base.Prim Spec.C13Spec.
From Coq Require Import ZArith List Bool.
Import ListNotations.
Open Scope Z_scope.

Record aranges_header := mk_aranges_header {
  ah_unit_length : Z; ah_version : Z; ah_debug_info_offset : Z;
  ah_address_size : Z; ah_segment_size : Z
}.

(* structs.Dwarf_aranges_header of the DWARFInfo-level structs (dwarf_format=32):
   Dwarf_initial_length, Dwarf_uint16, Dwarf_offset (4 bytes), Dwarf_uint8, Dwarf_uint8 *)
Definition aranges_header_decode (le : bool) : dec aranges_header := fun bs =>
  match initial_length_decode le bs with
  | None => None
  | Some ((unit_length, _), r0) =>
  match uint_decode le 2 r0 with
  | None => None
  | Some (version, r1) =>
  match uint_decode le 4 r1 with
  | None => None
  | Some (info_off, r2) =>
  match uint_decode le 1 r2 with
  | None => None
  | Some (asz, r3) =>
  match uint_decode le 1 r3 with
  | None => None
  | Some (seg, r4) => Some (mk_aranges_header unit_length version info_off asz seg, r4)
  end end end end end.

(* ARanges._get_addr_size_struct: 4 -> Dwarf_uint32, else assert == 8 -> Dwarf_uint64 *)
Definition get_addr_size_struct (v : Z) : res nat :=
  if v =? 4 then Ok 4%nat
  else if v =? 8 then Ok 8%nat
  else Err (EPy "AssertionError").

(* the inner loop of _get_entries:
     while addr != 0 or length != 0 or (not got_entries and need_empty):
         entries.append(...); got_entries = True
         if addr != 0 or length != 0:
             addr = struct_parse(...); length = struct_parse(...)                *)
Fixpoint tuples_loop (fuel : nat) (le : bool) (n : nat) (need_empty : bool)
         (addr length : Z) (got_entries : bool) (bs : list Z) : res (list (Z * Z)) :=
  match fuel with
  | O => Err EFuel
  | S f =>
      let nonnull := negb (addr =? 0) || negb (length =? 0) in
      if nonnull || (negb got_entries && need_empty) then
        if nonnull then
          match uint_decode le n bs with
          | None => Err EParse
          | Some (addr', r1) =>
          match uint_decode le n r1 with
          | None => Err EParse
          | Some (length', r2) =>
              do rest <- tuples_loop f le n need_empty addr' length' true r2;
              Ok ((addr, length) :: rest)
          end end
        else
          do rest <- tuples_loop f le n need_empty addr length true bs;
          Ok ((addr, length) :: rest)
      else Ok []
  end.

Definition mk_entry (h : aranges_header) (t : Z * Z) : arange_entry :=
  mk_arange_entry (fst t) (snd t) (ah_debug_info_offset h) (ah_unit_length h)
                  (ah_version h) (ah_address_size h) (ah_segment_size h).

(* ARanges._get_entries (after fix efe8bbe: the header is padded to the tuple size counted
   from the start of the SET): one iteration of `while offset < self.size` per set
     tuple_size = aranges_header["address_size"] * 2
     header_size = self.stream.tell() - offset
     seek_to = offset + -(-header_size // tuple_size) * tuple_size
   (Python's // and Coq's Z./ are both floor division; tuple_size is 8 or 16 here because
   _get_addr_size_struct has already asserted address_size in {4, 8}) *)
Fixpoint get_entries_loop (fuel : nat) (le need_empty : bool) (stream : list Z) (size offset : Z)
  : res (list arange_entry) :=
  match fuel with
  | O => Err EFuel
  | S f =>
      if offset <? size then
        let at_off := skipn (Z.to_nat offset) stream in
        match aranges_header_decode le at_off with
        | None => Err EParse
        | Some (h, after) =>
            do n <- get_addr_size_struct (ah_address_size h);
            if ah_segment_size h =? 0 then
              let tuple_size := ah_address_size h * 2 in
              let header_size := offset + (zlen at_off - zlen after) - offset in   (* stream.tell() - offset *)
              let seek_to := offset + - (- header_size / tuple_size) * tuple_size in
              let bs := skipn (Z.to_nat seek_to) stream in
              match uint_decode le n bs with
              | None => Err EParse
              | Some (addr, r1) =>
              match uint_decode le n r1 with
              | None => Err EParse
              | Some (length, r2) =>
                  do ts <- tuples_loop (S (S (List.length r2))) le n need_empty addr length false r2;
                  do more <- get_entries_loop f le need_empty stream size
                               (offset + ah_unit_length h + 4);   (* initial_length_field_size() = 4 *)
                  Ok (map (mk_entry h) ts ++ more)
              end end
            else Err (EPy "NotImplementedError")
        end
      else Ok []
  end.

Definition get_entries (le need_empty : bool) (stream : list Z) (size : Z) : res (list arange_entry) :=
  get_entries_loop (S (Z.to_nat size)) le need_empty stream size 0.

(* ARanges.__init__: entries = _get_entries(); entries.sort(key=begin_addr); keys = [...] *)
Record aranges := mk_aranges { ar_entries : list arange_entry; ar_keys : list Z }.
Definition aranges_init (le : bool) (stream : list Z) (size : Z) : res aranges :=
  do es <- get_entries le false stream size;
  let sorted_es := sorted_by ae_begin es in
  Ok (mk_aranges sorted_es (map ae_begin sorted_es)).

(* ARanges.cu_offset_at_addr (after the fix: an empty table answers None):
     if not self.entries: return None
     tup = self.entries[bisect_right(self.keys, addr) - 1]      # index -1 wraps to the last entry
     if tup.begin_addr <= addr < tup.begin_addr + tup.length: return tup.info_offset
     else: return None                                                              *)
Definition cu_offset_at_addr (t : aranges) (addr : Z) : res (option Z) :=
  match ar_entries t with
  | [] => Ok None
  | _ =>
      do tup <- py_index (ar_entries t) (Z.of_nat (bisect_right (ar_keys t) addr) - 1);
      if (ae_begin tup <=? addr) && (addr <? ae_begin tup + ae_length tup)
      then Ok (Some (ae_info_offset tup))
      else Ok None
  end.

(* the code as it was before the fix, kept for the refutation theorem *)
Definition cu_offset_at_addr_unfixed (t : aranges) (addr : Z) : res (option Z) :=
  do tup <- py_index (ar_entries t) (Z.of_nat (bisect_right (ar_keys t) addr) - 1);
  if (ae_begin tup <=? addr) && (addr <? ae_begin tup + ae_length tup)
  then Ok (Some (ae_info_offset tup))
  else Ok None.

(* the code as it was before fix efe8bbe, kept for the refutation theorem: the padding was
   counted from the start of the SECTION
     fp = self.stream.tell(); seek_to = int(math.ceil(fp/float(tuple_size)) * tuple_size) *)
Fixpoint get_entries_loop_unfixed (fuel : nat) (le need_empty : bool) (stream : list Z) (size offset : Z)
  : res (list arange_entry) :=
  match fuel with
  | O => Err EFuel
  | S f =>
      if offset <? size then
        let at_off := skipn (Z.to_nat offset) stream in
        match aranges_header_decode le at_off with
        | None => Err EParse
        | Some (h, after) =>
            do n <- get_addr_size_struct (ah_address_size h);
            if ah_segment_size h =? 0 then
              let tuple_size := ah_address_size h * 2 in
              let fp := offset + (zlen at_off - zlen after) in             (* stream.tell() *)
              let seek_to := ((fp + tuple_size - 1) / tuple_size) * tuple_size in  (* ceil(fp/ts)*ts *)
              let bs := skipn (Z.to_nat seek_to) stream in
              match uint_decode le n bs with
              | None => Err EParse
              | Some (addr, r1) =>
              match uint_decode le n r1 with
              | None => Err EParse
              | Some (length, r2) =>
                  do ts <- tuples_loop (S (S (List.length r2))) le n need_empty addr length false r2;
                  do more <- get_entries_loop_unfixed f le need_empty stream size
                               (offset + ah_unit_length h + 4);   (* initial_length_field_size() = 4 *)
                  Ok (map (mk_entry h) ts ++ more)
              end end
            else Err (EPy "NotImplementedError")
        end
      else Ok []
  end.

Definition get_entries_unfixed (le need_empty : bool) (stream : list Z) (size : Z) : res (list arange_entry) :=
  get_entries_loop_unfixed (S (Z.to_nat size)) le need_empty stream size 0.
