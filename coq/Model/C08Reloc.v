(* Model/C08Reloc.v — executable transliteration of elftools/elf/relocation.py (tables, RELR,
   RelocationHandler), Dynamic.get_relocation_tables (elf/dynamic.py) and
   ELFFile._read_dwarf_section (elf/elffile.py).  Everything that is DATA in the code comes from
   Gen: record layouts (Gen/ElfLayouts.v), recipe dicts, calc functions, get_machine_arch's dict
   and the machine/flavour dispatch of _do_apply_relocation (Gen/C08Recipes.v).  No proofs here. *)
From PV Require Import Base.Fmt Base.Outcome Gen.ElfLayouts Gen.C08Recipes.
Open Scope Z_scope.

(* ---------- configuration: ELFStructs(little_endian, elfclass, e_machine) ---------- *)
Definition entry := list (string * fval).       (* a parsed Container, fields in parse order *)

(* structs.py _create_rel: the MIPS ELF64 layout is chosen by e_machine == 'EM_MIPS' and class 64 *)
Definition rel_struct (le is64 mips : bool) (rela : bool) : layout :=
  if is64 && mips then (if rela then gen_Elf_Rela_mips64 le else gen_Elf_Rel_mips64 le)
  else (if rela then gen_Elf_Rela le is64 else gen_Elf_Rel le is64).

(* construct's sizeof() of a static struct *)
Definition sizeof (L : layout) : Z := match layout_size L with Some n => Z.of_nat n | None => 0 end.

(* stream.seek(off) then reading: everything from off on; nothing when off is at or past the end
   (the guard only keeps the extracted code from building a huge unary number) *)
Definition zskipn (off : Z) (l : list Z) : list Z :=
  if zlen l <=? off then [] else skipn (Z.to_nat off) l.

(* struct_parse(struct, stream, stream_pos=off): seek + parse; a short read is ELFParseError;
   a position the stream cannot seek to (negative: ValueError of BytesIO) is reported as
   ELFParseError too (common/utils.py struct_parse) *)
Definition struct_parse_at (L : layout) (img : list Z) (off : Z) : res entry :=
  if off <? 0 then Err EParse
  else match decode_layout L (zskipn off img) with
       | Some (r, _) => Ok r
       | None => Err EParse
       end.

(* Container item access: KeyError when the field is absent *)
Definition getf (e : entry) (n : string) : res Z :=
  match rec_get e n with Some (VZ z) => Ok z | _ => Err (EPy "KeyError") end.
Definition has_field (e : entry) (n : string) : bool :=
  match rec_get e n with Some _ => true | None => false end.

(* ---------- class RelocationTable ---------- *)
(* num_relocations: self._size // self.entry_size *)
Definition num_relocations (L : layout) (size : Z) : Z := size / sizeof L.

(* get_relocation(n): entry_offset = self._offset + n * self.entry_size; struct_parse there *)
Definition get_relocation (L : layout) (img : list Z) (off n : Z) : res entry :=
  struct_parse_at L img (off + n * sizeof L).

(* iter_relocations: for i in range(num_relocations()): yield get_relocation(i) *)
Fixpoint iter_from (L : layout) (img : list Z) (off : Z) (cnt : nat) (i : Z) : res (list entry) :=
  match cnt with
  | O => Ok []
  | S k => do e <- get_relocation L img off i;
           do r <- iter_from L img off k (i + 1);
           Ok (e :: r)
  end.
Definition iter_relocations (L : layout) (img : list Z) (off size : Z) : res (list entry) :=
  iter_from L img off (Z.to_nat (num_relocations L size)) 0.

(* class RelocationSection.__init__: the two elf_asserts (sh_type is REL/RELA by construction) *)
Definition reloc_section_check (L : layout) (sh_entsize : Z) : res unit :=
  if sh_entsize =? sizeof L then Ok tt else Err EElf.

(* ---------- class RelrRelocationTable ---------- *)
(* the inner `while True` of iter_relocations: shift, stop at zero, emit set bits.
   The loop runs at most once per bit of the word; fuel = number of bits of the entry. *)
Fixpoint relr_bitmap (fuel : nat) (entry_offset base i entsz : Z) : res (list Z) :=
  match fuel with
  | O => Err EFuel
  | S f =>
      let entry_offset := Z.shiftr entry_offset 1 in
      if entry_offset =? 0 then Ok []
      else
        do rest <- relr_bitmap f entry_offset base (i + 1) entsz;
        if negb (Z.land entry_offset 1 =? 0) then Ok ((base + i * entsz) :: rest) else Ok rest
  end.

(* the outer `while relr < limit`: one iteration per entry; cnt = ceil(size / entrysize) iterations *)
Fixpoint relr_loop (le is64 : bool) (img : list Z) (cnt : nat) (relr : Z) (base : option Z) : res (list Z) :=
  match cnt with
  | O => Ok []
  | S k =>
      let L := gen_Elf_Relr le is64 in
      let entsz := sizeof L in
      do e <- struct_parse_at L img relr;
      do entry_offset <- getf e "r_offset";
      if Z.land entry_offset 1 =? 0 then
        (* anchor: base = entry_offset + entrysize; yield the entry itself *)
        do rest <- relr_loop le is64 img k (relr + entsz) (Some (entry_offset + entsz));
        Ok (entry_offset :: rest)
      else
        match base with
        | None => Err EElf      (* elf_assert(base is not None, 'RELR bitmap without base address') *)
        | Some b =>
            do here <- relr_bitmap (Z.to_nat (8 * entsz)) entry_offset b 0 entsz;
            (* base += (8 * entrysize - 1) * Elf_addr.sizeof() *)
            do rest <- relr_loop le is64 img k (relr + entsz)
                                 (Some (b + (8 * entsz - 1) * (if is64 then 8 else 4)));
            Ok (here ++ rest)%list
        end
  end.

(* __init__: elf_assert(self._entrysize == entrysize); iter_relocations: if size == 0: return *)
Definition relr_iter_relocations (le is64 : bool) (img : list Z) (off size entrysize : Z) : res (list Z) :=
  let entsz := sizeof (gen_Elf_Relr le is64) in
  if negb (entsz =? entrysize) then Err EElf
  else if size =? 0 then Ok []
  else relr_loop le is64 img (Z.to_nat ((size + entsz - 1) / entsz)) off None.

(* ---------- ELFFile.get_machine_arch, on the header's e_machine number ---------- *)
Fixpoint zassoc {A} (t : list (Z * A)) (k : Z) : option A :=
  match t with [] => None | (k', v) :: r => if k' =? k then Some v else zassoc r k end.
Fixpoint sassoc {A} (t : list (string * A)) (k : string) : option A :=
  match t with [] => None | (k', v) :: r => if (k' =? k)%string then Some v else sassoc r k end.

(* Enum(Elf_half('e_machine'), **ENUM_E_MACHINE): the name if the number is known (the decode
   dict keeps the LAST name of a duplicated value, which is what gen_enum_tables records) *)
Definition e_machine_table : list (Z * string) :=
  match sassoc (map (fun b => (fst (fst b), snd (fst b))) gen_binds_Elf_Ehdr_64) "e_machine" with
  | Some id => match sassoc gen_enum_tables id with Some t => t | None => [] end
  | None => []
  end.
Definition e_machine_name (em : Z) : option string := zassoc e_machine_table em.
Definition machine_arch (em : Z) : string :=
  match e_machine_name em with
  | Some nm => match sassoc gen_machine_arch nm with Some a => a | None => gen_machine_arch_default end
  | None => gen_machine_arch_default
  end.
Definition is_mips (em : Z) : bool :=
  match e_machine_name em with Some nm => (nm =? "EM_MIPS")%string | None => false end.

(* ---------- RelocationHandler._do_apply_relocation ---------- *)
Fixpoint dispatch_find (t : list (string * bool * string)) (arch : string) (rela : bool) : string :=
  match t with
  | [] => gen_dispatch_default
  | (a, r, o) :: rest => if (a =? arch)%string && Bool.eqb r rela then o else dispatch_find rest arch rela
  end.
Definition reloc_dispatch (arch : string) (rela : bool) : string := dispatch_find gen_dispatch arch rela.

Definition family_of (outcome : string) : option string :=
  if String.prefix "use:" outcome then Some (String.substring 4 (String.length outcome - 4) outcome) else None.

Definition recipe_of (fam : string) (typ : Z) : option (Z * bool * string) :=
  match sassoc gen_recipe_families fam with
  | Some t => zassoc t typ
  | None => None
  end.

(* write n bytes at off over the old content (BytesIO.write inside the buffer) *)
Definition splice (s : list Z) (off : nat) (bs : list Z) : list Z :=
  (firstn off s ++ bs ++ skipn (off + length bs) s)%list.

(* struct_parse(value_struct, stream, stream_pos=r_offset): n bytes, unsigned, file byte order *)
Definition read_value (le : bool) (n : nat) (stream : list Z) (off : Z) : res Z :=
  if off <? 0 then Err EParse
  else if 2 ^ 63 <=? off then Err EParse      (* BytesIO.seek: position must fit a ssize_t; struct_parse wraps the OverflowError *)
  else match take n (zskipn off stream) with
       | Some (a, _) => Ok (int_decode le a)
       | None => Err EParse
       end.

Definition do_apply_relocation (le is64 : bool) (em : Z) (nsyms : Z) (symval : Z -> res Z)
           (stream : list Z) (reloc : entry) : res (list Z) :=
  do sym <- getf reloc "r_info_sym";
  if nsyms <=? sym then Err EReloc                       (* 'Invalid symbol reference in relocation' *)
  else
  do sym_value <- symval sym;
  do reloc_type <- getf reloc "r_info_type";
  let arch := machine_arch em in
  let rela := has_field reloc "r_addend" in              (* Relocation.is_RELA *)
  let outcome := reloc_dispatch arch rela in
  match family_of outcome with
  | None => Err EReloc                                   (* 'Unexpected REL[A] relocation' / recipe is None *)
  | Some fam =>
      (* MIPS RELA: 'Multiple relocations in R_MIPS_64 are not implemented' (ELF64 only) *)
      do _ <- (if (arch =? "MIPS")%string && rela && (reloc_type =? gen_R_MIPS_64) && is64 then
                 do t2 <- getf reloc "r_type2"; do t3 <- getf reloc "r_type3"; do ss <- getf reloc "r_ssym";
                 if negb (t2 =? 0) || negb (t3 =? 0) || negb (ss =? 0) then Err EReloc else Ok tt
               else Ok tt);
      match recipe_of fam reloc_type with
      | None => Err EReloc                               (* 'Unsupported relocation type' *)
      | Some (bytesize, has_addend, cid) =>
          if negb ((bytesize =? 4) || (bytesize =? 8) || (bytesize =? 1) || (bytesize =? 2))
          then Err EReloc                                (* 'Invalid bytesize' *)
          else
          let n := Z.to_nat bytesize in
          do off <- getf reloc "r_offset";
          do original_value <- read_value le n stream off;
          do addend <- (if has_addend then getf reloc "r_addend" else Ok 0);
          match gen_calc cid with
          | None => Err (EPy "TypeError")
          | Some calc =>
              let relocated_value := calc original_value sym_value off addend in
              let relocated_value := relocated_value mod 2 ^ (bytesize * 8) in
              Ok (splice stream (Z.to_nat off) (int_encode le n relocated_value))
          end
      end
  end.

(* SymbolTableSection.num_symbols / get_symbol(n)['st_value'] *)
Definition symtab_num (size entsize : Z) : Z := size / entsize.
Definition symtab_value (le is64 : bool) (img : list Z) (off entsize n : Z) : res Z :=
  do e <- struct_parse_at (gen_Elf_Sym le is64) img (off + n * entsize);
  getf e "st_value".

(* apply_section_relocations: for reloc in reloc_section.iter_relocations(): _do_apply_relocation.
   The generator is lazy: entry i is parsed right before it is applied. *)
Fixpoint apply_loop (le is64 : bool) (em : Z) (L : layout) (img : list Z) (roff : Z)
         (nsyms : Z) (symval : Z -> res Z) (cnt : nat) (i : Z) (stream : list Z) : res (list Z) :=
  match cnt with
  | O => Ok stream
  | S k =>
      do reloc <- get_relocation L img roff i;
      do stream' <- do_apply_relocation le is64 em nsyms symval stream reloc;
      apply_loop le is64 em L img roff nsyms symval k (i + 1) stream'
  end.

(* a section header as far as this property reads it *)
Record sec := mkSec { s_name : list Z; s_type : Z; s_off : Z; s_size : Z; s_link : Z; s_entsize : Z }.
Definition SHT_SYMTAB := 2.  Definition SHT_RELA := 4.  Definition SHT_REL := 9.

Definition apply_section_relocations (le is64 : bool) (em : Z) (img : list Z) (secs : list sec)
           (stream : list Z) (rs : sec) : res (list Z) :=
  let rela := s_type rs =? SHT_RELA in
  let L := rel_struct le is64 (is_mips em) rela in
  match nth_error secs (Z.to_nat (s_link rs)) with
  | None => Err EElf
  | Some symtab =>
      if negb (0 <? s_entsize symtab) then Err EElf
      else
      apply_loop le is64 em L img (s_off rs)
                 (symtab_num (s_size symtab) (s_entsize symtab))
                 (symtab_value le is64 img (s_off symtab) (s_entsize symtab))
                 (Z.to_nat (num_relocations L (s_size rs))) 0 stream
  end.

(* find_relocations_for_section: the first RelocationSection named .rel<name> or .rela<name> *)
Definition bytes_eqb (a b : list Z) : bool :=
  (length a =? length b)%nat && forallb (fun p => fst p =? snd p) (combine a b).
Definition dot_rel : list Z := [46; 114; 101; 108].          (* ".rel" *)
Definition dot_rela : list Z := [46; 114; 101; 108; 97].     (* ".rela" *)
Fixpoint find_relocations_for_section (secs : list sec) (name : list Z) : option sec :=
  match secs with
  | [] => None
  | s :: r =>
      if ((s_type s =? SHT_REL) || (s_type s =? SHT_RELA)) &&
         (bytes_eqb (s_name s) (dot_rel ++ name) || bytes_eqb (s_name s) (dot_rela ++ name))
      then Some s else find_relocations_for_section r name
  end.

(* ELFFile._read_dwarf_section(section, relocate_dwarf_sections) -> bytes of the descriptor's stream
   (no phantom bytes: e_machine is not EM_DSPIC30F; section not compressed, not NOBITS) *)
Definition read_dwarf_section (le is64 : bool) (em : Z) (img : list Z) (secs : list sec)
           (section : sec) (relocate_dwarf_sections : bool) : res (list Z) :=
  let section_data := firstn (Z.to_nat (s_size section)) (zskipn (s_off section) img) in
  if relocate_dwarf_sections then
    match find_relocations_for_section secs (s_name section) with
    | Some rs =>
        do _ <- reloc_section_check (rel_struct le is64 (is_mips em) (s_type rs =? SHT_RELA)) (s_entsize rs);
        apply_section_relocations le is64 em img secs section_data rs
    | None => Ok section_data
    end
  else Ok section_data.

(* ---------- Dynamic.get_relocation_tables ---------- *)
(* a PT_LOAD program header: (p_offset, p_vaddr, p_filesz) *)
Definition seg := (Z * Z * Z)%type.
(* ELFFile.address_offsets(start, size=1): first PT_LOAD containing [start, start+1) *)
Fixpoint address_offset (segs : list seg) (start : Z) : option Z :=
  match segs with
  | [] => None
  | (p_offset, p_vaddr, p_filesz) :: r =>
      if (p_vaddr <=? start) && (start + 1 <=? p_vaddr + p_filesz) then Some (start - p_vaddr + p_offset)
      else address_offset r start
  end.

(* tags up to and including the first DT_NULL (tag 0): what _iter_tags visits *)
Fixpoint first_tag (tags : list (Z * Z)) (t : Z) : option Z :=
  match tags with
  | [] => None
  | (tg, v) :: r => if tg =? t then Some v else if tg =? 0 then None else first_tag r t
  end.

Inductive dtable :=
| TRel (kind : string) (off : option Z) (size : Z) (rela : bool)
| TRelr (off : option Z) (size entsize : Z).

Definition DT_PLTRELSZ := 2.  Definition DT_RELA := 7.  Definition DT_RELASZ := 8.  Definition DT_RELAENT := 9.
Definition DT_REL := 17.  Definition DT_RELSZ := 18.  Definition DT_RELENT := 19.  Definition DT_PLTREL := 20.
Definition DT_JMPREL := 23.  Definition DT_RELRSZ := 35.  Definition DT_RELR := 36.  Definition DT_RELRENT := 37.

(* get_table_offset(tag)[1]: None when the pointer is 0 or no PT_LOAD maps it *)
Definition table_offset (segs : list seg) (ptr : Z) : option Z :=
  if ptr =? 0 then None else address_offset segs ptr.

(* next(iter_tags(X)) on a missing tag raises StopIteration *)
Definition need (tags : list (Z * Z)) (t : Z) : res Z :=
  match first_tag tags t with Some v => Ok v | None => Err (EPy "StopIteration") end.

Definition get_relocation_tables (le is64 : bool) (em : Z) (tags : list (Z * Z)) (segs : list seg)
  : res (list dtable) :=
  let mips := is_mips em in
  do t1 <- match first_tag tags DT_REL with
           | Some p => do sz <- need tags DT_RELSZ; do ent <- need tags DT_RELENT;
                       if sizeof (rel_struct le is64 mips false) =? ent
                       then Ok [TRel "REL" (table_offset segs p) sz false] else Err EElf
           | None => Ok []
           end;
  do t2 <- match first_tag tags DT_RELA with
           | Some p => do sz <- need tags DT_RELASZ; do ent <- need tags DT_RELAENT;
                       if sizeof (rel_struct le is64 mips true) =? ent
                       then Ok [TRel "RELA" (table_offset segs p) sz true] else Err EElf
           | None => Ok []
           end;
  do t3 <- match first_tag tags DT_RELR with
           | Some p => do sz <- need tags DT_RELRSZ; do ent <- need tags DT_RELRENT;
                       if sizeof (gen_Elf_Relr le is64) =? ent
                       then Ok [TRelr (table_offset segs p) sz ent] else Err EElf
           | None => Ok []
           end;
  do t4 <- match first_tag tags DT_JMPREL with
           | Some p => do sz <- need tags DT_PLTRELSZ; do k <- need tags DT_PLTREL;
                       Ok [TRel "JMPREL" (table_offset segs p) sz (k =? gen_DT_RELA)]
           | None => Ok []
           end;
  Ok (t1 ++ t2 ++ t3 ++ t4)%list.

(* ---------- which sections RelocationHandler sees: ELFFile.num_sections / iter_sections ---------- *)
(* num_sections(): 0 without a table; e_shnum, or section 0's sh_size when e_shnum == 0 *)
Definition num_sections (e_shoff e_shnum sh0_size : Z) : Z :=
  if e_shoff =? 0 then 0 else if e_shnum =? 0 then sh0_size else e_shnum.

(* iter_sections(): `for i in range(self.num_sections()): yield self.get_section(i)` over the section
   header table [table] (all headers present at e_shoff, in order; a count reaching past the table
   is not modelled: every header that is there is visited) *)
Definition iter_sections (e_shoff e_shnum : Z) (table : list sec) : list sec :=
  let n := num_sections e_shoff e_shnum (match table with s0 :: _ => s_size s0 | [] => 0 end) in
  if zlen table <=? n then table else firstn (Z.to_nat n) table.

(* _read_dwarf_section on a FILE: find_relocations_for_section walks self.elffile.iter_sections() *)
Definition read_dwarf_section_file (le is64 : bool) (em : Z) (img : list Z) (e_shoff e_shnum : Z)
           (table : list sec) (section : sec) (relocate_dwarf_sections : bool) : res (list Z) :=
  read_dwarf_section le is64 em img (iter_sections e_shoff e_shnum table) section relocate_dwarf_sections.
