(* Model/C01ElfFile.v — executable transliteration of the header-level part of
   elftools/elf/elffile.py (ELFFile.__init__, _identify_file, _parse_elf_header,
   num_sections, num_segments, get_shstrndx, _section_offset, _segment_offset,
   _get_section_header, _get_segment_header, _get_section_name, _make_section,
   _make_segment, _make_section_name_map, get_section, get_section_by_name,
   get_section_index, has_section, iter_sections, iter_segments), of the
   constructors of elf/sections.py, segments.py, dynamic.py, relocation.py,
   hash.py, gnuversions.py as far as they run while a section/segment object is
   created, of construct's Enum adapter and of common/utils.py struct_parse.

   Everything that is DATA comes from Gen: record layouts gen_Elf_* and the
   field -> enum bindings gen_binds_* (Gen/ElfLayouts.v, walked from the live
   construct trees), the value->name decode dictionaries gen_enum_tables, the
   machine -> sh_type/p_type table maps, and the constants SHF_COMPRESSED /
   SHN_XINDEX (Gen/Tables.v).  No proofs here: see Proofs/C01Proofs.v.

   The stream is the byte list [img]; every read of the code is a seek to an
   absolute position followed by a parse, so no cursor is modelled. *)
From Coq Require Import String.
From PV Require Import Base.Bytes Base.Outcome Base.Prim Base.Fmt Base.Enum Base.PyData.
From PV Require Import Gen.ElfLayouts Gen.Tables Gen.PyFuns Spec.C01Obs.
Open Scope string_scope.
Open Scope Z_scope.

(* ------------------------------------------------------------------ construct Enum *)
(* hval / hrec / binds / table_of_id / named / machine_key / table_id_for: Spec/C01Obs.v *)

(* MappingAdapter._decode: decoding[obj]; KeyError -> obj (default Pass) or MappingError (strict) *)
Definition enum_lookup (tbl : list (Z * string)) (strict : bool) (z : Z) : option hval :=
  match Enum.dict_get tbl z with
  | Some n => Some (HName n)
  | None => if strict then None else Some (HZ z)
  end.

Definition adapt_field (b : binds) (f : string) (v : fval) : option hval :=
  match v with
  | VZ z => match bind_of b f with
            | None => Some (HZ z)
            | Some (id, strict) => enum_lookup (table_of_id id) strict z
            end
  | VB bs => Some (HB bs)
  | VL zs => Some (HL zs)
  end.

Fixpoint adapt (b : binds) (r : list (string * fval)) : option hrec :=
  match r with
  | [] => Some []
  | (f, v) :: t =>
      match adapt_field b f v, adapt b t with
      | Some hv, Some ht => Some ((f, hv) :: ht)
      | _, _ => None
      end
  end.

(* ------------------------------------------------------------------ struct_parse *)
Definition SEEK_LIMIT : Z := 2 ^ 63.      (* BytesIO.seek(pos >= 2**63) raises OverflowError *)

(* common/utils.py struct_parse(struct, stream, stream_pos): seek, parse;
   ConstructError and the OverflowError of an unseekable position -> ELFParseError.
   [decode_rec L] (Spec/C01Obs.v) hands the decoder the sizeof(L) bytes a static Struct reads; for a
   Struct with arrays it checks the counts against what is left of the stream before decoding the
   arrays: same result, cost bounded by the stream length *)
Definition struct_parse_at (L : layout) (b : binds) (img : list Z) (pos : Z) : res hrec :=
  if SEEK_LIMIT <=? pos then Err EParse
  else match decode_rec L (drop pos img) with
       | Some (r, _) => match adapt b r with Some h => Ok h | None => Err EParse end
       | None => Err EParse
       end.

(* Struct.sizeof() of a static layout *)
Definition sizeof (L : layout) : Z :=
  match layout_size L with Some n => Z.of_nat n | None => 0 end.

Definition const_of (tbl : list (string * Z)) (n : string) : Z :=
  match Enum.tfind tbl n with Some v => v | None => 0 end.
Definition SHF_COMPRESSED : Z := const_of tbl_SH_FLAGS "SHF_COMPRESSED".
Definition SHN_XINDEX : Z := const_of tbl_SHN_INDICES "SHN_XINDEX".

(* ------------------------------------------------------------------ ELFFile state *)
(* what ELFFile holds after structs.create_advanced_structs: stream, class, byte order,
   header, and the Enum bindings of Elf_Shdr / Elf_Phdr for this e_machine *)
Record efcore := {
  c_img : list Z;
  c_is64 : bool;
  c_le : bool;
  c_hdr : hrec;
  c_shb : binds;
  c_phb : binds;
  c_mips64rel : bool      (* ELF64 && e_machine == 'EM_MIPS': the special Elf_Rel/Elf_Rela *)
}.
Record elffile := {
  ef_core : efcore;
  ef_strtab : option hrec     (* header of _section_header_stringtable, None if absent *)
}.

Definition pick {A} (is64 : bool) (a32 a64 : A) : A := if is64 then a64 else a32.

(* ---- _identify_file *)
Definition identify_file (img : list Z) : res (bool * bool) :=
  if negb (bytes_eqb (firstn 4 img) [127; 69; 76; 70]) then Err EElf      (* elf_assert magic *)
  else
    let ei_class := firstn 1 (skipn 4 img) in
    let ei_data := firstn 1 (skipn 5 img) in
    if bytes_eqb ei_class [1] then
      (if bytes_eqb ei_data [1] then Ok (false, true)
       else if bytes_eqb ei_data [2] then Ok (false, false) else Err EElf)
    else if bytes_eqb ei_class [2] then
      (if bytes_eqb ei_data [1] then Ok (true, true)
       else if bytes_eqb ei_data [2] then Ok (true, false) else Err EElf)
    else Err EElf.

(* ---- _parse_elf_header *)
Definition parse_elf_header (img : list Z) (is64 le : bool) : res hrec :=
  struct_parse_at (gen_Elf_Ehdr le is64) (pick is64 gen_binds_Elf_Ehdr_32 gen_binds_Elf_Ehdr_64) img 0.

(* ---- structs.create_advanced_structs(e_type, e_machine, osabi): the table the
        Enum of sh_type / p_type is built from depends on e_machine.  The key into
        the generated machine -> table map is the decoded e_machine: its name, or
        "<raw>" for any integer (the code compares with string literals only). *)
Definition rebind (b : binds) (f : string) (id : string) : binds :=
  map (fun x => match x with (k, i, st) => if (k =? f)%string then (k, id, st) else (k, i, st) end) b.

Definition mk_core (img : list Z) (is64 le : bool) (hdr : hrec) : efcore :=
  let key := machine_key (hty hdr "e_machine") in
  {| c_img := img; c_is64 := is64; c_le := le; c_hdr := hdr;
     c_shb := rebind (pick is64 gen_binds_Elf_Shdr_32 gen_binds_Elf_Shdr_64) "sh_type"
                     (table_id_for gen_sh_type_table_of_machine key);
     c_phb := rebind (pick is64 gen_binds_Elf_Phdr_32 gen_binds_Elf_Phdr_64) "p_type"
                     (table_id_for gen_p_type_table_of_machine key);
     c_mips64rel := is64 && existsb (String.eqb key) gen_rel_mips64_machines |}.

Definition Shdr (c : efcore) : layout := gen_Elf_Shdr (c_le c) (c_is64 c).
Definition Phdr (c : efcore) : layout := gen_Elf_Phdr (c_le c) (c_is64 c).
Definition Chdr (c : efcore) : layout := gen_Elf_Chdr (c_le c) (c_is64 c).
Definition chdr_binds (c : efcore) : binds := pick (c_is64 c) gen_binds_Elf_Chdr_32 gen_binds_Elf_Chdr_64.
Definition stream_len (c : efcore) : Z := zlenT (c_img c).     (* = Bytes.zlen, tail-recursive *)

(* ---- _section_offset / _segment_offset: the bodies are TRANSLATED from the live source
        (Gen/PyFuns.v gen_section_offset / gen_segment_offset, regenerated on every run);
        here only the arguments self['e_shentsize'], self['e_shoff'], structs.Elf_Shdr.sizeof(), n
        are supplied *)
Definition section_offset (c : efcore) (n : Z) : res Z :=
  gen_section_offset (hz (c_hdr c) "e_shentsize") (hz (c_hdr c) "e_shoff") (sizeof (Shdr c)) n.

Definition segment_offset (c : efcore) (n : Z) : res Z :=
  gen_segment_offset (hz (c_hdr c) "e_phentsize") (hz (c_hdr c) "e_phoff") (sizeof (Phdr c)) n.

(* ---- _get_section_header: None when the offset is beyond the stream *)
Definition get_section_header (c : efcore) (n : Z) : res (option hrec) :=
  do pos <- section_offset c n;
  if stream_len c <? pos then Ok None
  else do h <- struct_parse_at (Shdr c) (c_shb c) (c_img c) pos; Ok (Some h).

(* ---- _get_segment_header *)
Definition get_segment_header (c : efcore) (n : Z) : res hrec :=
  do pos <- segment_offset c n;
  struct_parse_at (Phdr c) (c_phb c) (c_img c) pos.

(* header[...] on a header that may be None: None['x'] raises TypeError *)
Definition some_hdr (h : option hrec) : res hrec :=
  match h with Some r => Ok r | None => Err (EPy "TypeError") end.

(* ---- get_shstrndx *)
Definition get_shstrndx (c : efcore) : res Z :=
  if negb (hz (c_hdr c) "e_shstrndx" =? SHN_XINDEX) then Ok (hz (c_hdr c) "e_shstrndx")
  else do h <- get_section_header c 0;
       match h with
       | None => Err EElf         (* "section header 0 is beyond the end of the file" *)
       | Some r => Ok (hz r "sh_link")
       end.

(* ---- Section.__init__: a section flagged SHF_COMPRESSED reads its Elf_Chdr at once *)
Definition section_init (c : efcore) (h : hrec) : res unit :=
  if negb (Z.land (hz h "sh_flags") SHF_COMPRESSED =? 0) then
    do _ <- struct_parse_at (Chdr c) (chdr_binds c) (c_img c) (hz h "sh_offset"); Ok tt
  else Ok tt.

(* ---- _get_section_header_stringtable *)
Definition get_section_header_stringtable (c : efcore) : res (option hrec) :=
  if hz (c_hdr c) "e_shoff" =? 0 then Ok None else     (* no section header table: no name table *)
  do n <- get_shstrndx c;
  do h <- get_section_header c n;
  match h with
  | None => Ok None
  | Some r => do _ <- section_init c r; Ok (Some r)      (* StringTableSection(header, '', self) *)
  end.

(* ---- ELFFile.__init__ *)
Definition elf_open (img : list Z) : res elffile :=
  do ce <- identify_file img;
  let '(is64, le) := ce in
  do hdr <- parse_elf_header img is64 le;
  let c := mk_core img is64 le hdr in
  do st <- get_section_header_stringtable c;
  Ok {| ef_core := c; ef_strtab := st |}.

(* ---- num_sections *)
Definition num_sections (ef : elffile) : res Z :=
  let c := ef_core ef in
  if hz (c_hdr c) "e_shoff" =? 0 then Ok 0
  else if hz (c_hdr c) "e_shnum" =? 0 then
    do h <- get_section_header c 0; do r <- some_hdr h; Ok (hz r "sh_size")
  else Ok (hz (c_hdr c) "e_shnum").

(* ---- StringTableSection.get_string: parse_cstring_from_stream at sh_offset + offset;
        `s.decode(...) if s else ''`: a missing terminator gives the empty name *)
Definition get_string (c : efcore) (strtab : hrec) (offset : Z) : res (list Z) :=
  let pos := hz strtab "sh_offset" + offset in
  if SEEK_LIMIT <=? pos then Err (EPy "OverflowError")
  else if stream_len c <=? pos then Ok []            (* read at/after EOF: no terminator *)
  else match cstr_chunks (S (Z.to_nat (stream_len c / 64))) (drop pos (c_img c)) with
       | Some s => Ok s         (* parse_cstring_from_stream: 64-byte chunks until a NUL; at most *)
       | None => Ok []          (* |stream|/64 + 1 chunks can be read *)
       end.

(* ---- _get_section_name *)
Definition get_section_name (ef : elffile) (h : option hrec) : res (list Z) :=
  match ef_strtab ef with
  | None => Err EParse                               (* "String Table not found" *)
  | Some st => do r <- some_hdr h; get_string (ef_core ef) st (hz r "sh_name")
  end.

(* a Section object as the property observes it: name, header, type(section).__name__ *)
Record sect := { s_name : list Z; s_hdr : hrec; s_kind : string }.

(* SomeSection(header, name, elffile) whose constructor only runs Section.__init__ *)
Definition mk_sect (ef : elffile) (h : hrec) (name : list Z) (kind : string) : res sect :=
  do _ <- section_init (ef_core ef) h;
  Ok {| s_name := name; s_hdr := h; s_kind := kind |}.

Definition elf_assert (cond : bool) : res unit := if cond then Ok tt else Err EElf.

(* ---- _get_linked_strtab_section(n): header n must be SHT_STRTAB; then _make_section of it,
        which for that type is StringTableSection(header, name, self) *)
Definition get_linked_strtab_section (ef : elffile) (n : Z) : res sect :=
  do h <- get_section_header (ef_core ef) n;
  do r <- some_hdr h;
  if negb (is_name (hty r "sh_type") "SHT_STRTAB") then Err EElf
  else do name <- get_section_name ef (Some r);
       mk_sect ef r name "StringTableSection".

(* ---- _make_symbol_table_section + SymbolTableSection.__init__ *)
Definition make_symbol_table_section (ef : elffile) (r : hrec) (name : list Z) : res sect :=
  do _ <- get_linked_strtab_section ef (hz r "sh_link");
  do s <- mk_sect ef r name "SymbolTableSection";
  do _ <- elf_assert (0 <? hz r "sh_entsize");
  do _ <- elf_assert (hz r "sh_size" mod hz r "sh_entsize" =? 0);
  Ok s.

(* ---- _get_linked_symtab_section(n): header n must be SHT_SYMTAB / SHT_DYNSYM; then
        _make_section of it, which for those types is _make_symbol_table_section *)
Definition get_linked_symtab_section (ef : elffile) (n : Z) : res sect :=
  do h <- get_section_header (ef_core ef) n;
  do r <- some_hdr h;
  let ty := hty r "sh_type" in
  if negb (is_name ty "SHT_SYMTAB" || is_name ty "SHT_DYNSYM") then Err EElf
  else do name <- get_section_name ef (Some r);
       make_symbol_table_section ef r name.

(* ---- relocation.py: entry struct of a relocation section and its size *)
Definition rel_layout (c : efcore) (is_rela : bool) : layout :=
  if c_mips64rel c then (if is_rela then gen_Elf_Rela_mips64 (c_le c) else gen_Elf_Rel_mips64 (c_le c))
  else (if is_rela then gen_Elf_Rela (c_le c) (c_is64 c) else gen_Elf_Rel (c_le c) (c_is64 c)).

(* ---- structs.py _create_elf_hash: Elf_word entries, Elf_word64 for ELFCLASS64 EM_ALPHA / EM_S390 *)
Definition hash_layout (c : efcore) : layout :=
  if hash_is_wide (c_is64 c) (hty (c_hdr c) "e_machine") then Elf_Hash_wide (c_le c)
  else gen_Elf_Hash (c_le c) (c_is64 c).

(* ---- AttributesSection.__init__: format_version byte 'A' at sh_offset *)
Definition attributes_init (ef : elffile) (r : hrec) : res unit :=
  let c := ef_core ef in
  do fv <- struct_parse_at [("format_version", KU (c_le c) 1)] [] (c_img c) (hz r "sh_offset");
  elf_assert (hz fv "format_version" =? 65).

(* ---- get_section(n, type) as DynamicSection.__init__ calls it for its sh_link:
        the linked header must be SHT_STRTAB or SHT_NOBITS; _make_section of those two
        types is StringTableSection resp. the plain Section *)
Definition get_dynamic_stringtable (ef : elffile) (n : Z) : res sect :=
  do h <- get_section_header (ef_core ef) n;
  match h with
  | None => Err (EPy "AttributeError")
  | Some r =>
      let ty := hty r "sh_type" in
      if negb (is_name ty "SHT_STRTAB" || is_name ty "SHT_NOBITS") then Err EElf
      else do name <- get_section_name ef (Some r);
           mk_sect ef r name (if is_name ty "SHT_STRTAB" then "StringTableSection" else "Section")
  end.

(* ---- _make_section: the type -> class dispatch, with what each constructor does *)
Definition make_section (ef : elffile) (h : option hrec) : res sect :=
  do name <- get_section_name ef h;
  do r <- some_hdr h;
  let c := ef_core ef in
  let ty := hty r "sh_type" in
  if is_name ty "SHT_STRTAB" then mk_sect ef r name "StringTableSection"
  else if is_name ty "SHT_NULL" then mk_sect ef r name "NullSection"
  else if is_name ty "SHT_SYMTAB" || is_name ty "SHT_DYNSYM" || is_name ty "SHT_SUNW_LDYNSYM" then
    make_symbol_table_section ef r name
  else if is_name ty "SHT_SYMTAB_SHNDX" then mk_sect ef r name "SymbolTableIndexSection"
  else if is_name ty "SHT_SUNW_syminfo" then
    do _ <- get_linked_symtab_section ef (hz r "sh_link");
    mk_sect ef r name "SUNWSyminfoTableSection"
  else if is_name ty "SHT_GNU_verneed" then
    do _ <- get_linked_strtab_section ef (hz r "sh_link");
    mk_sect ef r name "GNUVerNeedSection"
  else if is_name ty "SHT_GNU_verdef" then
    do _ <- get_linked_strtab_section ef (hz r "sh_link");
    mk_sect ef r name "GNUVerDefSection"
  else if is_name ty "SHT_GNU_versym" then
    do _ <- get_linked_symtab_section ef (hz r "sh_link");
    mk_sect ef r name "GNUVerSymSection"
  else if is_name ty "SHT_REL" || is_name ty "SHT_RELA" then
    do s <- mk_sect ef r name "RelocationSection";
    do _ <- elf_assert (hz r "sh_entsize" =? sizeof (rel_layout c (is_name ty "SHT_RELA")));
    Ok s
  else if is_name ty "SHT_DYNAMIC" then
    do s <- mk_sect ef r name "DynamicSection";
    do _ <- get_dynamic_stringtable ef (hz r "sh_link");
    Ok s
  else if is_name ty "SHT_NOTE" then mk_sect ef r name "NoteSection"
  else if is_name ty "SHT_PROGBITS" && bytes_eqb name [46; 115; 116; 97; 98] (* '.stab' *) then
    mk_sect ef r name "StabSection"
  else if is_name ty "SHT_ARM_ATTRIBUTES" then
    do s <- mk_sect ef r name "ARMAttributesSection";
    do _ <- attributes_init ef r; Ok s
  else if is_name ty "SHT_RISCV_ATTRIBUTES" then
    do s <- mk_sect ef r name "RISCVAttributesSection";
    do _ <- attributes_init ef r; Ok s
  else if is_name ty "SHT_HASH" then
    do _ <- get_linked_symtab_section ef (hz r "sh_link");
    do s <- mk_sect ef r name "ELFHashSection";
    do _ <- struct_parse_at (hash_layout c) [] (c_img c) (hz r "sh_offset");
    Ok s
  else if is_name ty "SHT_GNU_HASH" then
    do _ <- get_linked_symtab_section ef (hz r "sh_link");
    do s <- mk_sect ef r name "GNUHashSection";
    do _ <- struct_parse_at (gen_Gnu_Hash (c_le c) (c_is64 c)) [] (c_img c) (hz r "sh_offset");
    Ok s
  else if is_name ty "SHT_RELR" then
    do s <- mk_sect ef r name "RelrRelocationSection";
    do _ <- elf_assert (sizeof (gen_Elf_Relr (c_le c) (c_is64 c)) =? hz r "sh_entsize");
    Ok s
  else mk_sect ef r name "Section".

(* ---- get_section(n) *)
Definition get_section (ef : elffile) (n : Z) : res sect :=
  do h <- get_section_header (ef_core ef) n;
  make_section ef h.

(* for x in range(n): collect f(x), stopping at the first exception *)
Fixpoint mapM {A B} (f : A -> res B) (l : list A) : res (list B) :=
  match l with
  | [] => Ok []
  | x :: t => do y <- f x; do ys <- mapM f t; Ok (y :: ys)
  end.

(* range(n) of a loop whose body reads a record of the table: at most |stream|+1
   iterations can succeed (every one needs its own offset inside the stream), so the
   model iterates min(n, |stream|+1) times and reports fuel exhaustion beyond that *)
Definition loop_bound (c : efcore) (n : Z) : nat := Z.to_nat (Z.min n (stream_len c + 1)).
Definition range (k : nat) : list Z := map Z.of_nat (seq 0 k).

Definition for_range {B} (c : efcore) (n : Z) (f : Z -> res B) : res (list B) :=
  let k := loop_bound c n in
  do l <- mapM f (range k);
  if Z.of_nat k <? n then Err EFuel else Ok l.

(* ---- iter_sections(type=None) *)
Definition iter_sections (ef : elffile) (type : option hval) : res (list sect) :=
  do n <- num_sections ef;
  do l <- for_range (ef_core ef) n (get_section ef);
  Ok (match type with
      | None => l
      | Some t => filter (fun s => hval_eqb (hty (s_hdr s) "sh_type") t) l
      end).

(* ---- num_segments *)
Definition num_segments (ef : elffile) : res Z :=
  let c := ef_core ef in
  if hz (c_hdr c) "e_phoff" =? 0 then Ok 0          (* no program header table *)
  else if hz (c_hdr c) "e_phnum" <? 65535 then Ok (hz (c_hdr c) "e_phnum")
  else do s <- get_section ef 0; Ok (hz (s_hdr s) "sh_info").

(* a Segment object: header and type(segment).__name__ *)
Record segm := { g_hdr : hrec; g_kind : string }.

(* DynamicSegment.__init__: scans iter_sections() for the DynamicSection at p_offset,
   then get_section(its sh_link); the generator is abandoned at the first hit *)
Fixpoint dynseg_scan (ef : elffile) (p_offset : Z) (idx : list Z) : res unit :=
  match idx with
  | [] => Ok tt
  | i :: t =>
      do s <- get_section ef i;
      if (s_kind s =? "DynamicSection")%string && (hz (s_hdr s) "sh_offset" =? p_offset) then
        do _ <- get_section ef (hz (s_hdr s) "sh_link"); Ok tt
      else dynseg_scan ef p_offset t
  end.

(* ---- _make_segment *)
Definition make_segment (ef : elffile) (h : hrec) : res segm :=
  let ty := hty h "p_type" in
  if is_name ty "PT_INTERP" then Ok {| g_hdr := h; g_kind := "InterpSegment" |}
  else if is_name ty "PT_DYNAMIC" then
    do n <- num_sections ef;
    do _ <- dynseg_scan ef (hz h "p_offset") (range (loop_bound (ef_core ef) n));
    Ok {| g_hdr := h; g_kind := "DynamicSegment" |}
  else if is_name ty "PT_NOTE" then Ok {| g_hdr := h; g_kind := "NoteSegment" |}
  else Ok {| g_hdr := h; g_kind := "Segment" |}.

(* ---- get_segment(n) *)
Definition get_segment (ef : elffile) (n : Z) : res segm :=
  do h <- get_segment_header (ef_core ef) n;
  make_segment ef h.

(* ---- iter_segments(type=None) *)
Definition iter_segments (ef : elffile) (type : option hval) : res (list segm) :=
  do n <- num_segments ef;
  do l <- for_range (ef_core ef) n (get_segment ef);
  Ok (match type with
      | None => l
      | Some t => filter (fun g => hval_eqb (hty (g_hdr g) "p_type") t) l
      end).

(* ---- _make_section_name_map: {sec.name: i for i, sec in enumerate(iter_sections())} *)
Fixpoint enumerate_from {A} (i : Z) (l : list A) : list (Z * A) :=
  match l with
  | [] => []
  | x :: t => (i, x) :: enumerate_from (i + 1) t
  end.

Definition make_section_name_map (ef : elffile) : res (dict (list Z) Z) :=
  do l <- iter_sections ef None;
  Ok (dict_of_list bytes_eqb (map (fun p => (s_name (snd p), fst p)) (enumerate_from 0 l))).

(* ---- get_section_index / has_section / get_section_by_name *)
Definition get_section_index (ef : elffile) (name : list Z) : res (option Z) :=
  do m <- make_section_name_map ef;
  Ok (PyData.dict_get bytes_eqb m name).

Definition has_section (ef : elffile) (name : list Z) : res bool :=
  do m <- make_section_name_map ef;
  Ok (memb bytes_eqb name (dict_keys m)).

Definition get_section_by_name (ef : elffile) (name : list Z) : res (option sect) :=
  do m <- make_section_name_map ef;
  match PyData.dict_get bytes_eqb m name with
  | None => Ok None
  | Some secnum => do s <- get_section ef secnum; Ok (Some s)
  end.
