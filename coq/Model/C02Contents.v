(* Model/C02Contents.v — transliteration of
     elftools/elf/sections.py   Section.__init__, compressed, data_size, data_alignment,
                                Section.data, StringTableSection.get_string
     elftools/elf/segments.py   Segment.data, InterpSegment.get_interp_name,
                                Segment.section_in_segment
     elftools/elf/elffile.py    iter_segments / get_segment / address_offsets
   over a stream = the byte list of the file (io.BytesIO).  Record layouts, enum decode
   tables and flag constants come from Gen (regenerated from the live modules).
   zlib.decompressobj().decompress(data, max_length) + .eof is the parameter [inflate].
   No proofs here. *)
From Coq Require Import String.
From PV Require Import Base.Bytes Base.Outcome Base.Prim Base.Fmt Base.Enum Gen.ElfLayouts Gen.Tables.
Open Scope Z_scope.

(* ---------------------------------------------------------------- BytesIO *)
(* stream.seek(pos): the bytes from pos on (b'' at or beyond the end) *)
Definition drop_at (stream : list Z) (pos : Z) : list Z :=
  if zlen stream <=? pos then [] else skipn (Z.to_nat pos) stream.
(* stream.seek(pos); stream.read(n): n < 0 reads to the end, else at most n bytes *)
Definition read_at (stream : list Z) (pos n : Z) : list Z :=
  let avail := drop_at stream pos in
  if n <? 0 then avail else firstn (Z.to_nat (Z.min n (zlen avail))) avail.

(* ---------------------------------------------------------------- enums, flags *)
(* construct Enum with _default_=Pass over the decoding dict (value -> name) of Gen *)
Definition dec_enum (T : list (Z * string)) (v : Z) : enum_val :=
  match dict_get T v with Some n => Name n | None => Raw v end.
(* Python  x == 'NAME'  for x a str or an int *)
Definition is_name (e : enum_val) (n : string) : bool :=
  match e with Name m => String.eqb m n | _ => false end.
(* isinstance(x, int) and lo <= x <= hi *)
Definition raw_between (e : enum_val) (lo hi : Z) : bool :=
  match e with Raw v => (lo <=? v) && (v <=? hi) | _ => false end.

Definition enum_table (id : string) : list (Z * string) :=
  match find (fun x => String.eqb (fst x) id) gen_enum_tables with
  | Some (_, T) => T
  | None => []
  end.
Definition bound_table (binds : list (string * string * bool)) (fld : string) : list (Z * string) :=
  match find (fun x => String.eqb (fst (fst x)) fld) binds with
  | Some (_, id, _) => enum_table id
  | None => []
  end.
(* the table construct consults for Elf_Chdr.ch_type *)
Definition ch_type_table (is64 : bool) : list (Z * string) :=
  bound_table (if is64 then gen_binds_Elf_Chdr_64 else gen_binds_Elf_Chdr_32) "ch_type".
(* ELFStructs picks sh_type / p_type tables by e_machine *)
Definition machine_table (m : list (string * string)) (machine : string) : list (Z * string) :=
  match find (fun x => String.eqb (fst x) machine) m with
  | Some (_, id) => enum_table id
  | None => []
  end.
Definition sh_type_table := machine_table gen_sh_type_table_of_machine.
Definition p_type_table := machine_table gen_p_type_table_of_machine.

(* elf/constants.py SH_FLAGS *)
Definition sh_flag (n : string) : Z := match tfind tbl_SH_FLAGS n with Some v => v | None => 0 end.
Definition F_ALLOC : Z := sh_flag "SHF_ALLOC".
Definition F_TLS : Z := sh_flag "SHF_TLS".
Definition F_COMPRESSED : Z := sh_flag "SHF_COMPRESSED".

(* ---------------------------------------------------------------- sections *)
(* the fields of the parsed section header the code reads *)
Record sheader := mk_sheader {
  h_type : enum_val; h_flags : Z; h_addr : Z; h_offset : Z; h_size : Z; h_addralign : Z }.

Record section := mk_section {
  s_header : sheader;
  s_compressed : Z;            (* self._compressed = sh_flags & SHF_COMPRESSED *)
  s_compression_type : enum_val;
  s_decompressed_size : Z;
  s_decompressed_align : Z }.

(* struct_parse(struct, stream, stream_pos=pos) *)
Definition struct_parse_at (L : layout) (stream : list Z) (pos : Z) : res (list (string * fval)) :=
  match decode_layout L (drop_at stream pos) with
  | Some (r, _) => Ok r
  | None => Err EParse
  end.

(* Section.__init__ *)
Definition section_init (stream : list Z) (le is64 : bool) (h : sheader) : res section :=
  let compressed := Z.land (h_flags h) F_COMPRESSED in
  if negb (compressed =? 0) then
    (* Read the compression header now to know about the size/alignment of the decompressed data *)
    do header <- struct_parse_at (gen_Elf_Chdr le is64) stream (h_offset h);
    Ok (mk_section h compressed
          (dec_enum (ch_type_table is64) (rec_z header "ch_type"))
          (rec_z header "ch_size") (rec_z header "ch_addralign"))
  else
    Ok (mk_section h compressed (Raw 0) (h_size h) (h_addralign h)).

(* ELFFile._get_section_header(n) = struct_parse(Elf_Shdr, stream, _section_offset(n)) with
   _section_offset(n) = e_shoff + n * e_shentsize.  EVERY way to a section goes through it:
   get_section(n); iter_sections() = get_section(i) for i in range(num_sections()), filtered by
   sh_type for iter_sections(type); the name map behind get_section_by_name / get_section_index /
   has_section is filled from iter_sections().  So "section n" means this header whichever entry
   point was used.  [sheader_of]: the fields of the record the contents code reads. *)
Definition sheader_of (T : list (Z * string)) (r : list (string * fval)) : sheader :=
  mk_sheader (dec_enum T (rec_z r "sh_type")) (rec_z r "sh_flags") (rec_z r "sh_addr")
             (rec_z r "sh_offset") (rec_z r "sh_size") (rec_z r "sh_addralign").
Definition section_header_at (stream : list Z) (le is64 : bool) (T : list (Z * string))
           (shoff shentsize n : Z) : res sheader :=
  do r <- struct_parse_at (gen_Elf_Shdr le is64) stream (shoff + n * shentsize);
  Ok (sheader_of T r).

(* properties compressed / data_size / data_alignment *)
Definition compressed (s : section) : Z := s_compressed s.
Definition data_size (s : section) : Z := s_decompressed_size s.
Definition data_alignment (s : section) : Z := s_decompressed_align s.

(* self.structs.Elf_Chdr.sizeof() *)
Definition chdr_sizeof (le is64 : bool) : Z :=
  match layout_size (gen_Elf_Chdr le is64) with Some n => Z.of_nat n | None => 0 end.

Section zlib.
(* decomp = zlib.decompressobj(); result = decomp.decompress(data, max_length); decomp.eof
   None = zlib.error *)
Variable inflate : list Z -> Z -> option (list Z * bool).

(* Section.data *)
Definition section_data (stream : list Z) (le is64 : bool) (s : section) : res (list Z) :=
  let h := s_header s in
  (* If this section is NOBITS, there is no data. provide a dummy answer *)
  if is_name (h_type h) "SHT_NOBITS" then Ok (repeat 0 (Z.to_nat (data_size s)))
  (* If this section is compressed, deflate it *)
  else if negb (compressed s =? 0) then
    let c_type := s_compression_type s in
    if is_name c_type "ELFCOMPRESS_ZLIB" then
      let hdr_size := chdr_sizeof le is64 in
      let compressed_bytes := read_at stream (h_offset h + hdr_size) (h_size h - hdr_size) in
      match inflate compressed_bytes (data_size s) with
      | None => Err (EPy "error")
      | Some (result, eof) =>
          if negb eof then Err ECompress
          else if negb (zlen result =? s_decompressed_size s) then Err ECompress
          else Ok result
      end
    else
      (* raise ELFCompressionError('Unknown compression type: {:#0x}'.format(c_type)):
         the format itself raises ValueError when c_type is an enum name *)
      match c_type with Raw _ => Err ECompress | _ => Err (EPy "ValueError") end
  else
    Ok (read_at stream (h_offset h) (s_decompressed_size s)).
End zlib.

(* StringTableSection.get_string over parse_cstring_from_stream (64-byte chunks):
   s.decode(...) if s else ''  — a missing terminator gives the empty string *)
Definition get_string (stream : list Z) (sh_offset offset : Z) : list Z :=
  let pos := sh_offset + offset in
  match (if zlen stream <=? pos then None else parse_cstring_at stream (Z.to_nat pos)) with
  | Some s => s
  | None => []
  end.

(* ---------------------------------------------------------------- segments *)
(* Segment.data *)
Definition segment_data (stream : list Z) (p_offset p_filesz : Z) : list Z :=
  read_at stream p_offset p_filesz.

(* InterpSegment.get_interp_name: struct_parse(CString('', encoding='utf-8'), stream, p_offset) *)
Definition get_interp_name (stream : list Z) (p_offset : Z) : res (list Z) :=
  match cstring_decode (drop_at stream p_offset) with
  | Some (s, _) => Ok s
  | None => Err EParse
  end.

(* The Segment object ELFFile.get_segment(i) builds: _make_segment(struct_parse(Elf_Phdr, e_phoff + i*e_phentsize)),
   i.e. Segment(header, stream) with header = the parsed record.  data() and get_interp_name() read
   p_offset / p_filesz resp. p_offset of that record and nothing else of it. *)
Definition Segment_data (stream : list Z) (seg : list (string * fval)) : list Z :=
  segment_data stream (rec_z seg "p_offset") (rec_z seg "p_filesz").
Definition InterpSegment_get_interp_name (stream : list Z) (seg : list (string * fval)) : res (list Z) :=
  get_interp_name stream (rec_z seg "p_offset").
(* elf.get_segment(i).data() / .get_interp_name() with the program header at file position [pos] *)
Definition segment_data_at (stream : list Z) (le is64 : bool) (pos : Z) : res (list Z) :=
  do seg <- struct_parse_at (gen_Elf_Phdr le is64) stream pos;
  Ok (Segment_data stream seg).
Definition interp_name_at (stream : list Z) (le is64 : bool) (pos : Z) : res (list Z) :=
  do seg <- struct_parse_at (gen_Elf_Phdr le is64) stream pos;
  InterpSegment_get_interp_name stream seg.

(* ELFFile.address_offsets over iter_segments(type='PT_LOAD'):
     for i in range(num_segments): segment = get_segment(i)   # struct_parse(Elf_Phdr, e_phoff + i*e_phentsize)
       if segment['p_type'] == 'PT_LOAD':
         if start >= seg['p_vaddr'] and end <= seg['p_vaddr'] + seg['p_filesz']:
             yield start - seg['p_vaddr'] + seg['p_offset']
   [todo] segments remain, the next one has index i *)
Fixpoint address_offsets_from (stream : list Z) (le is64 : bool) (T : list (Z * string))
         (phoff phentsize : Z) (start size : Z) (todo : nat) (i : Z) : res (list Z) :=
  match todo with
  | O => Ok []
  | S k =>
      do seg <- struct_parse_at (gen_Elf_Phdr le is64) stream (phoff + i * phentsize);
      do rest <- address_offsets_from stream le is64 T phoff phentsize start size k (i + 1);
      let end_ := start + size in
      if is_name (dec_enum T (rec_z seg "p_type")) "PT_LOAD"
         && (rec_z seg "p_vaddr" <=? start)
         && (end_ <=? rec_z seg "p_vaddr" + rec_z seg "p_filesz")
      then Ok ((start - rec_z seg "p_vaddr" + rec_z seg "p_offset") :: rest)
      else Ok rest
  end.
Definition address_offsets (stream : list Z) (le is64 : bool) (T : list (Z * string))
           (phoff phentsize phnum : Z) (start size : Z) : res (list Z) :=
  address_offsets_from stream le is64 T phoff phentsize start size (Z.to_nat phnum) 0.

(* the fields of the parsed program header section_in_segment reads *)
Record pheader := mk_pheader {
  g_type : enum_val; g_offset : Z; g_vaddr : Z; g_filesz : Z; g_memsz : Z }.

(* p_type values binutils tests that ENUM_P_TYPE does not name (segments.py constants) *)
Definition PT_GNU_SFRAME_raw : Z := 0x6474e554.
Definition PT_GNU_MBIND_HI_raw : Z := 0x6474e555 + 4096 - 1.

(* Segment.section_in_segment; Python ints are unbounded: no wrap anywhere *)
Definition section_in_segment (g : pheader) (s : sheader) : bool :=
  let segtype := g_type g in
  let sectype := h_type s in
  let secflags := h_flags s in
  let tls := negb (Z.land secflags F_TLS =? 0) in
  let alloc := negb (Z.land secflags F_ALLOC =? 0) in
  (* Only PT_LOAD, PT_GNU_RELRO and PT_TLS segments can contain SHF_TLS sections;
     PT_TLS segment contains only SHF_TLS sections, PT_PHDR no sections at all *)
  if negb ((tls && (is_name segtype "PT_TLS" || is_name segtype "PT_GNU_RELRO" || is_name segtype "PT_LOAD"))
           || (negb tls && negb (is_name segtype "PT_TLS" || is_name segtype "PT_PHDR")))
  then false
  (* PT_LOAD and similar segments only have SHF_ALLOC sections. *)
  else if negb alloc
          && (is_name segtype "PT_LOAD" || is_name segtype "PT_DYNAMIC" || is_name segtype "PT_GNU_EH_FRAME"
              || is_name segtype "PT_GNU_RELRO" || is_name segtype "PT_GNU_STACK"
              || raw_between segtype PT_GNU_SFRAME_raw PT_GNU_MBIND_HI_raw)
  then false
  (* No zero size sections at start or end of PT_DYNAMIC nor PT_NOTE *)
  else if (is_name segtype "PT_DYNAMIC" || is_name segtype "PT_NOTE")
          && (h_size s =? 0) && negb (g_memsz g =? 0)
          && ((negb (is_name sectype "SHT_NOBITS")
               && negb ((g_offset g <? h_offset s) && (h_offset s - g_offset g <? g_filesz g)))
              || (alloc
                  && negb ((g_vaddr g <? h_addr s) && (h_addr s - g_vaddr g <? g_memsz g))))
  then false
  (* if this is an alloc section, check whether its VMA is in bounds *)
  else if alloc
          && negb ((g_vaddr g <=? h_addr s)
                   && (h_addr s - g_vaddr g + h_size s <=? g_memsz g)
                   && ((g_memsz g =? 0) || (h_addr s - g_vaddr g <=? g_memsz g - 1)))
  then false
  (* If we've come this far and it's a NOBITS section, it's in the segment *)
  else if is_name sectype "SHT_NOBITS" then true
  else (g_offset g <=? h_offset s)
       && (h_offset s - g_offset g + h_size s <=? g_filesz g)
       && ((g_filesz g =? 0) || (h_offset s - g_offset g <=? g_filesz g - 1)).
