(* Model/C06Table.v — transliteration of elftools/dwarf/callframe.py, part 2:
   instruction_name, RegisterRule, CFARule, DecodedCallFrameTable and
   CFIEntry._decode_CFI_table / get_decoded.  The opcode -> name dictionary is the generated
   gen_OPCODE_NAME_MAP.  No proofs here.

   A line of the decoded table is a Python dict with the keys 'pc', 'cfa' and one key per
   register number; here: a record with the two special keys and the insertion-ordered
   association list of the integer keys (d[k] = v overwrites in place or appends, pop removes). *)
From PV Require Export Model.C06Callframe.
Open Scope Z_scope.

(* def instruction_name(opcode):
       primary = opcode & _PRIMARY_MASK
       return _OPCODE_NAME_MAP[opcode] if primary == 0 else _OPCODE_NAME_MAP[primary] *)
Definition instruction_name (opcode : Z) : res string :=
  let primary := Z.land opcode PRIMARY_MASK in
  match assocZ (if primary =? 0 then opcode else primary) gen_OPCODE_NAME_MAP with
  | Some n => Ok n
  | None => Err (EPy "KeyError")
  end.

(* class CFARule: reg, offset, expr (each None unless given) *)
Record CFARule : Type := mkCFARule {
  cfa_reg : option Z;
  cfa_offset : option Z;
  cfa_expr : option (list Z)
}.

(* class RegisterRule: type is one of the class's string constants, arg an int, a block or None *)
Record RegisterRule : Type := mkRegisterRule { rr_type : string; rr_arg : option arg }.
Open Scope string_scope.
Definition UNDEFINED := "UNDEFINED".
Definition SAME_VALUE := "SAME_VALUE".
Definition OFFSET := "OFFSET".
Definition VAL_OFFSET := "VAL_OFFSET".
Definition REGISTER := "REGISTER".
Definition EXPRESSION := "EXPRESSION".
Definition VAL_EXPRESSION := "VAL_EXPRESSION".
Close Scope string_scope.

Definition regdict : Type := list (Z * RegisterRule).
Definition reg_get (d : regdict) (k : Z) : option RegisterRule := assocZ k d.
Fixpoint reg_set (d : regdict) (k : Z) (v : RegisterRule) : regdict :=
  match d with
  | [] => [(k, v)]
  | (k', v') :: r => if k =? k' then (k', v) :: r else (k', v') :: reg_set r k v
  end.
Fixpoint reg_pop (d : regdict) (k : Z) : regdict :=
  match d with
  | [] => []
  | (k', v') :: r => if k =? k' then r else (k', v') :: reg_pop r k
  end.

Record line : Type := mkline { pc : Z; cfa : CFARule; regs : regdict }.

Record DecodedCallFrameTable : Type := mkdecoded { table : list line; reg_order : list Z }.

(* the loop state of _decode_CFI_table *)
Record dstate : Type := mkdstate {
  cur_line : line;
  d_table : list line;
  line_stack : list line;
  d_reg_order : list Z
}.

(* def _add_to_order(regnum): if regnum not in reg_order: reg_order.append(regnum) *)
Definition add_to_order (regnum : Z) (reg_order : list Z) : list Z :=
  if existsb (Z.eqb regnum) reg_order then reg_order else reg_order ++ [regnum].

(* instr.args[i] used as an int / as the block it is *)
Definition argi (a : list arg) (i : nat) : res Z :=
  match nth_error a i with
  | Some (AInt z) => Ok z
  | Some (ABlock _) => Err (EPy "TypeError")
  | None => Err (EPy "IndexError")
  end.
Definition argv (a : list arg) (i : nat) : res arg :=
  match nth_error a i with
  | Some v => Ok v
  | None => Err (EPy "IndexError")
  end.

Definition set_cfa (s : dstate) (c : CFARule) : dstate :=
  mkdstate (mkline (pc (cur_line s)) c (regs (cur_line s))) (d_table s) (line_stack s)
           (d_reg_order s).
(* _add_to_order(instr.args[0]); cur_line[instr.args[0]] = rule *)
Definition set_reg (s : dstate) (r : Z) (rule : RegisterRule) : dstate :=
  mkdstate (mkline (pc (cur_line s)) (cfa (cur_line s)) (reg_set (regs (cur_line s)) r rule))
           (d_table s) (line_stack s) (add_to_order r (d_reg_order s)).
(* table.append(copy.copy(cur_line)); cur_line['pc'] = newpc *)
Definition push_line (s : dstate) (newpc : Z) : dstate :=
  mkdstate (mkline newpc (cfa (cur_line s)) (regs (cur_line s)))
           (d_table s ++ [cur_line s]) (line_stack s) (d_reg_order s).

Definition name_in (name : string) (l : list string) : bool := existsb (String.eqb name) l.

Open Scope string_scope.
(* one iteration of `for instr in self.instructions:`.
   is_FDE = isinstance(self, FDE); caf, daf = cie['code_alignment_factor'],
   cie['data_alignment_factor']; last_line_in_CIE = the register keys of that dict. *)
Definition decode_step (is_FDE : bool) (caf daf : Z) (last_line_in_CIE : regdict)
           (s : dstate) (instr : CallFrameInstruction) : res dstate :=
  let a := args instr in
  do name <- instruction_name (opcode instr);
  if name =? "DW_CFA_set_loc" then
    do a0 <- argi a 0; Ok (push_line s a0)
  else if name_in name ["DW_CFA_advance_loc1"; "DW_CFA_advance_loc2";
                        "DW_CFA_advance_loc4"; "DW_CFA_advance_loc"] then
    do a0 <- argi a 0; Ok (push_line s (pc (cur_line s) + a0 * caf))
  else if name =? "DW_CFA_def_cfa" then
    do a0 <- argi a 0; do a1 <- argi a 1;
    Ok (set_cfa s (mkCFARule (Some a0) (Some a1) None))
  else if name =? "DW_CFA_def_cfa_sf" then
    do a0 <- argi a 0; do a1 <- argi a 1;
    Ok (set_cfa s (mkCFARule (Some a0) (Some (a1 * daf)) None))
  else if name =? "DW_CFA_def_cfa_register" then
    do a0 <- argi a 0;
    Ok (set_cfa s (mkCFARule (Some a0) (cfa_offset (cfa (cur_line s))) None))
  else if name =? "DW_CFA_def_cfa_offset" then
    do a0 <- argi a 0;
    Ok (set_cfa s (mkCFARule (cfa_reg (cfa (cur_line s))) (Some a0) None))
  else if name =? "DW_CFA_def_cfa_offset_sf" then
    do a0 <- argi a 0;
    Ok (set_cfa s (mkCFARule (cfa_reg (cfa (cur_line s))) (Some (a0 * daf)) None))
  else if name =? "DW_CFA_def_cfa_expression" then
    do a0 <- argv a 0;
    Ok (set_cfa s (mkCFARule None None
                             (Some (match a0 with ABlock b => b | AInt z => [z] end))))
  else if name =? "DW_CFA_undefined" then
    do a0 <- argi a 0; Ok (set_reg s a0 (mkRegisterRule UNDEFINED None))
  else if name =? "DW_CFA_same_value" then
    do a0 <- argi a 0; Ok (set_reg s a0 (mkRegisterRule SAME_VALUE None))
  else if name_in name ["DW_CFA_offset"; "DW_CFA_offset_extended";
                        "DW_CFA_offset_extended_sf"] then
    do a0 <- argi a 0; do a1 <- argi a 1;
    Ok (set_reg s a0 (mkRegisterRule OFFSET (Some (AInt (a1 * daf)))))
  else if name_in name ["DW_CFA_val_offset"; "DW_CFA_val_offset_sf"] then
    do a0 <- argi a 0; do a1 <- argi a 1;
    Ok (set_reg s a0 (mkRegisterRule VAL_OFFSET (Some (AInt (a1 * daf)))))
  else if name =? "DW_CFA_register" then
    do a0 <- argi a 0; do a1 <- argv a 1;
    Ok (set_reg s a0 (mkRegisterRule REGISTER (Some a1)))
  else if name =? "DW_CFA_expression" then
    do a0 <- argi a 0; do a1 <- argv a 1;
    Ok (set_reg s a0 (mkRegisterRule EXPRESSION (Some a1)))
  else if name =? "DW_CFA_val_expression" then
    do a0 <- argi a 0; do a1 <- argv a 1;
    Ok (set_reg s a0 (mkRegisterRule VAL_EXPRESSION (Some a1)))
  else if name_in name ["DW_CFA_restore"; "DW_CFA_restore_extended"] then
    do a0 <- argi a 0;
    (* _add_to_order(...); dwarf_assert(isinstance(self, FDE), ...) *)
    if negb is_FDE then Err EDwarf
    else
      match reg_get last_line_in_CIE a0 with
      | Some rule => Ok (set_reg s a0 rule)
      | None =>
          (* cur_line.pop(instr.args[0], None) *)
          Ok (mkdstate (mkline (pc (cur_line s)) (cfa (cur_line s))
                               (reg_pop (regs (cur_line s)) a0))
                       (d_table s) (line_stack s) (add_to_order a0 (d_reg_order s)))
      end
  else if name =? "DW_CFA_remember_state" then
    (* line_stack.append(copy.deepcopy(cur_line))   -- the head of the Coq list is the top *)
    Ok (mkdstate (cur_line s) (d_table s) (cur_line s :: line_stack s) (d_reg_order s))
  else if name =? "DW_CFA_restore_state" then
    (* pc = cur_line['pc']; cur_line = line_stack.pop(); cur_line['pc'] = pc *)
    match line_stack s with
    | [] => Err (EPy "IndexError")
    | top :: below =>
        Ok (mkdstate (mkline (pc (cur_line s)) (cfa top) (regs top)) (d_table s) below
                     (d_reg_order s))
    end
  else Ok s.
Close Scope string_scope.

Fixpoint decode_loop (is_FDE : bool) (caf daf : Z) (last_line_in_CIE : regdict)
         (s : dstate) (instrs : list CallFrameInstruction) : res dstate :=
  match instrs with
  | [] => Ok s
  | i :: r =>
      do s' <- decode_step is_FDE caf daf last_line_in_CIE s i;
      decode_loop is_FDE caf daf last_line_in_CIE s' r
  end.

(* after the loop:
     if cur_line['cfa'].reg is not None or cur_line['cfa'].expr is not None or len(cur_line) > 2:
         table.append(cur_line)
   (len(cur_line) > 2: some key besides 'pc' and 'cfa', i.e. a register rule) *)
Definition line_is_kept (l : line) : bool :=
  match cfa_reg (cfa l), cfa_expr (cfa l) with
  | None, None => match regs l with [] => false | _ => true end
  | _, _ => true
  end.
Definition finish (s : dstate) : DecodedCallFrameTable :=
  mkdecoded (if line_is_kept (cur_line s) then d_table s ++ [cur_line s] else d_table s)
            (d_reg_order s).

(* the CIE branch: cur_line = dict(pc=0, cfa=CFARule(reg=None, offset=0)); reg_order = [] *)
Definition empty_cfa : CFARule := mkCFARule None (Some 0) None.
Definition decode_cie (caf daf : Z) (instrs : list CallFrameInstruction)
  : res DecodedCallFrameTable :=
  do s <- decode_loop false caf daf []
                      (mkdstate (mkline 0 empty_cfa []) [] [] []) instrs;
  Ok (finish s).

(* the FDE branch, given cie.get_decoded():
     if cie_decoded_table.table: last_line_in_CIE = copy(table[-1]); cur_line = copy(it)
     else: last_line_in_CIE = {}; cur_line = dict(cfa=CFARule(reg=None, offset=0))
     cur_line['pc'] = self['initial_location']; reg_order = copy(cie_decoded_table.reg_order) *)
Definition decode_fde_from (cie_decoded_table : DecodedCallFrameTable) (caf daf : Z)
           (initial_location : Z) (instrs : list CallFrameInstruction)
  : res DecodedCallFrameTable :=
  let '(start_cfa, last_line_in_CIE) :=
    match rev (table cie_decoded_table) with
    | last :: _ => (cfa last, regs last)
    | [] => (empty_cfa, [])
    end in
  do s <- decode_loop true caf daf last_line_in_CIE
                      (mkdstate (mkline initial_location start_cfa last_line_in_CIE) [] []
                                (reg_order cie_decoded_table)) instrs;
  Ok (finish s).

Definition decode_fde (caf daf : Z) (cie_instrs : list CallFrameInstruction)
           (initial_location : Z) (instrs : list CallFrameInstruction)
  : res DecodedCallFrameTable :=
  do ct <- decode_cie caf daf cie_instrs;
  decode_fde_from ct caf daf initial_location instrs.

(* cie['code_alignment_factor'], cie['data_alignment_factor'] for the entry used as `cie` *)
Definition entry_factors (e : entry) : res (Z * Z) :=
  match e with
  | CIE h _ _ _ _ _ => Ok (ch_code_alignment_factor h, ch_data_alignment_factor h)
  | FDE _ _ _ _ _ _ _ => Err (EPy "KeyError")
  | ZERO _ => Err (EPy "TypeError")
  end.

(* def get_decoded(self) / _decode_CFI_table(self) on an entry object (memoisation is not
   observable: the result is a function of the entry) *)
Fixpoint get_decoded (e : entry) : res DecodedCallFrameTable :=
  match e with
  | CIE h instrs _ _ _ _ =>
      decode_cie (ch_code_alignment_factor h) (ch_data_alignment_factor h) instrs
  | FDE h instrs _ _ cie _ _ =>
      do ct <- get_decoded cie;
      do (caf, daf) <- entry_factors cie;
      decode_fde_from ct caf daf (fh_initial_location h) instrs
  | ZERO _ => Err (EPy "AttributeError")
  end.
