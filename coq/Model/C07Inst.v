(* Model/C07Inst.v — the functions of Model/C07Lists.v instantiated with the data regenerated from
   the live modules (Gen/C07Tables.v): this is the model of the code as it is NOW. *)
From PV Require Import Model.C07Kinds Model.C07Lists Gen.C07Tables.

(* locationlists.py over structs.Dwarf_loclists_entries *)
Definition LLE_TABLES : entry_tables :=
  {| et_enum := gen_ENUM_DW_LLE; et_switch := gen_lle_switch; et_length := gen_lle_entry_length;
     et_terminators := gen_lle_terminators; et_translate := gen_lle_translate |}.

(* ranges.py over structs.Dwarf_rnglists_entries *)
Definition RLE_TABLES : entry_tables :=
  {| et_enum := gen_ENUM_DW_RLE; et_switch := gen_rle_switch; et_length := gen_rle_entry_length;
     et_terminators := gen_rle_terminators; et_translate := gen_rle_translate |}.
