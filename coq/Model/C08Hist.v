(* Model/C08Hist.v — relocation table OBJECTS of elftools/elf/relocation.py under a history of
   calls: the state a table object carries between calls and what each call does with it.
   * RelrRelocationTable: the field `_cached_relocations` (None until num_relocations() or
     get_relocation() memoise `list(self.iter_relocations())`) plus the generator objects handed
     out by iter_relocations() that are still suspended;
   * RelocationTable / RelocationSection (REL, RELA): no field changes after __init__; only
     the suspended generators.
   iter_relocations() is a generator function in both classes: the model keeps it LAZY (an
   item exists only once a next() asked for it; an error surfaces at the next() that reaches
   it, after the items before it were yielded).  Generator objects themselves are the language
   semantics of Spec/C08Hist.v ([gen], [gen_op]).  No proofs here. *)
From PV Require Import Base.Fmt Base.Outcome Gen.ElfLayouts Spec.C08Hist Model.C08Reloc.
Open Scope Z_scope.

(* ---------- RelrRelocationTable.iter_relocations as a lazy walk ---------- *)
(* a finished lazy walk: the items yielded in order, and how it ended (None = returned,
   Some e = raised e after yielding those items) *)
Definition lazy (A : Type) : Type := (list A * option err)%type.
Definition lcons {A} (x : A) (w : lazy A) : lazy A := (x :: fst w, snd w).
Definition lapp {A} (xs : list A) (w : lazy A) : lazy A := ((xs ++ fst w)%list, snd w).
(* list(walk): the whole list, or the exception *)
Definition collapse {A} (w : lazy A) : res (list A) :=
  match snd w with None => Ok (fst w) | Some e => Err e end.

(* the `while relr < limit` loop of iter_relocations, statement for statement as
   C08Reloc.relr_loop, but keeping what was yielded before an exception *)
Fixpoint relr_lazy_loop (le is64 : bool) (img : list Z) (cnt : nat) (relr : Z) (base : option Z) : lazy Z :=
  match cnt with
  | O => ([], None)
  | S k =>
      let L := gen_Elf_Relr le is64 in
      let entsz := sizeof L in
      match struct_parse_at L img relr with
      | Err e => ([], Some e)
      | Ok e =>
          match getf e "r_offset" with
          | Err x => ([], Some x)
          | Ok entry_offset =>
              if Z.land entry_offset 1 =? 0 then
                lcons entry_offset (relr_lazy_loop le is64 img k (relr + entsz) (Some (entry_offset + entsz)))
              else
                match base with
                | None => ([], Some EElf)       (* elf_assert(base is not None, ...) *)
                | Some b =>
                    match relr_bitmap (Z.to_nat (8 * entsz)) entry_offset b 0 entsz with
                    | Err x => ([], Some x)     (* fuel only: a decoded word has 8*entsz bits *)
                    | Ok here =>
                        lapp here (relr_lazy_loop le is64 img k (relr + entsz)
                                                  (Some (b + (8 * entsz - 1) * (if is64 then 8 else 4))))
                    end
                end
          end
      end
  end.

(* the generator body of an object that __init__ accepted (entry size asserted there):
   `if self._size == 0: return`, then the loop *)
Definition relr_source (le is64 : bool) (img : list Z) (off size : Z) : lazy Z :=
  let entsz := sizeof (gen_Elf_Relr le is64) in
  if size =? 0 then ([], None)
  else relr_lazy_loop le is64 img (Z.to_nat ((size + entsz - 1) / entsz)) off None.

(* the (i+1)-th resumption of a fresh generator over that body *)
Definition lazy_walk {A} (w : lazy A) (i : nat) : gstep A :=
  match nth_error (fst w) i with
  | Some a => GYield a
  | None => match snd w with Some e => GRaise e | None => GStop end
  end.

(* ---------- the RelrRelocationTable object ---------- *)
Record relr_obj := mkRelr {
  r_cache : option (list Z);     (* self._cached_relocations (r_offset of each Relocation) *)
  r_gens : list gen              (* generator objects created by iter_relocations() so far *)
}.
(* after __init__: self._cached_relocations = None *)
Definition relr_new : relr_obj := mkRelr None [].

(* `if self._cached_relocations is None: self._cached_relocations = list(self.iter_relocations())`
   -> (the list now in the field or the exception of the walk, the field afterwards) *)
Definition relr_fill (src : lazy Z) (c : option (list Z)) : res (list Z) * option (list Z) :=
  match c with
  | Some l => (Ok l, Some l)
  | None => match collapse src with
            | Ok l => (Ok l, Some l)
            | Err e => (Err e, None)      (* the assignment never happens *)
            end
  end.

(* Python list indexing: self._cached_relocations[n] *)
Definition py_index {A} (l : list A) (n : Z) : res A :=
  let i := if n <? 0 then n + zlen l else n in
  if (i <? 0) || (zlen l <=? i) then Err (EPy "IndexError")
  else match nth_error l (Z.to_nat i) with Some a => Ok a | None => Err (EPy "IndexError") end.

Definition relr_hstep (src : lazy Z) (st : relr_obj) (o : hop) : relr_obj * ans Z :=
  match o with
  | HNum =>        (* num_relocations: fill the memo, return len(self._cached_relocations) *)
      let (r, c) := relr_fill src (r_cache st) in
      (mkRelr c (r_gens st), match r with Ok l => AInt (zlen l) | Err e => AErr e end)
  | HGet n =>      (* get_relocation(n): fill the memo, return self._cached_relocations[n] *)
      let (r, c) := relr_fill src (r_cache st) in
      (mkRelr c (r_gens st),
       match r with
       | Ok l => match py_index l n with Ok a => AItem a | Err e => AErr e end
       | Err e => AErr e
       end)
  | HIter =>       (* list(self.iter_relocations()): a fresh walk run to its end; the memo is neither read nor written *)
      (st, match collapse src with Ok l => AList l | Err e => AErr e end)
  | _ =>           (* iter_relocations() / next / close: the generator reads _offset, _size and the stream only *)
      let (gs, a) := gen_op (lazy_walk src) (r_gens st) o in (mkRelr (r_cache st) gs, a)
  end.

Fixpoint relr_hrun (src : lazy Z) (st : relr_obj) (h : list hop) : list (ans Z) :=
  match h with
  | [] => []
  | o :: r => let (st', a) := relr_hstep src st o in a :: relr_hrun src st' r
  end.
(* a freshly constructed table object put through the history h; the constructor's
   elf_assert on the entry size comes first: no object, every call of the history is moot *)
Definition relr_hist (le is64 : bool) (img : list Z) (off size entrysize : Z) (h : list hop) : res (list (ans Z)) :=
  if negb (sizeof (gen_Elf_Relr le is64) =? entrysize) then Err EElf
  else Ok (relr_hrun (relr_source le is64 img off size) relr_new h).

(* ---------- the RelocationTable object (REL / RELA) ---------- *)
(* iter_relocations: `for i in range(self.num_relocations()): yield self.get_relocation(i)` *)
Definition rel_walk (L : layout) (img : list Z) (off size : Z) (i : nat) : gstep entry :=
  if Z.of_nat i <? num_relocations L size then
    match get_relocation L img off (Z.of_nat i) with Ok e => GYield e | Err x => GRaise x end
  else GStop.

(* no attribute is assigned after __init__: the object's state is its suspended generators *)
Definition rel_hstep (L : layout) (img : list Z) (off size : Z) (gs : list gen) (o : hop) : list gen * ans entry :=
  match o with
  | HNum => (gs, AInt (num_relocations L size))
  | HGet n => (gs, match get_relocation L img off n with Ok e => AItem e | Err x => AErr x end)
  | HIter => (gs, match iter_relocations L img off size with Ok l => AList l | Err x => AErr x end)
  | _ => gen_op (rel_walk L img off size) gs o
  end.

Fixpoint rel_hrun (L : layout) (img : list Z) (off size : Z) (gs : list gen) (h : list hop) : list (ans entry) :=
  match h with
  | [] => []
  | o :: r => let (gs', a) := rel_hstep L img off size gs o in a :: rel_hrun L img off size gs' r
  end.
Definition rel_hist (L : layout) (img : list Z) (off size : Z) (h : list hop) : list (ans entry) :=
  rel_hrun L img off size [] h.

(* ---------- the ELFFile object under repeated get_dwarf_info() calls ---------- *)
(* What an ELFFile keeps between calls, as far as the debug-section path reads it: the file
   stream.  _read_dwarf_section copies the section into a NEW BytesIO (`section_stream =
   BytesIO(); section_stream.write(section.data())`) and RelocationHandler writes into that
   copy only; nothing is assigned on self.  So a call returns the bytes of its own descriptor
   stream and leaves the object as it found it. *)
Record elf_obj := mkElfObj { eo_stream : list Z }.     (* contents of self.stream *)

(* one get_dwarf_info(relocate_dwarf_sections=flag), observed at debug_<x>_sec.stream of the
   returned DWARFInfo for the section [section] *)
Definition dwarf_call (le is64 : bool) (em : Z) (secs : list sec) (section : sec)
           (st : elf_obj) (flag : bool) : elf_obj * res (list Z) :=
  (st, read_dwarf_section le is64 em (eo_stream st) secs section flag).

Fixpoint dwarf_calls (le is64 : bool) (em : Z) (secs : list sec) (section : sec)
         (st : elf_obj) (flags : list bool) : list (res (list Z)) * elf_obj :=
  match flags with
  | [] => ([], st)
  | f :: r =>
      let (st1, a) := dwarf_call le is64 em secs section st f in
      let (rest, st2) := dwarf_calls le is64 em secs section st1 r in
      (a :: rest, st2)
  end.

(* ---------- get_dwarf_info through .gnu_debuglink ---------- *)
(* ELFFile.get_dwarf_info: `if debuglink_section and not self.has_dwarf_info(True) and follow_links
   and self.stream_loader:` the separate debug file is opened, its CRC32 compared with the link's
   (ELFError on mismatch) and `ext_elffile.get_dwarf_info(relocate_dwarf_sections=
   relocate_dwarf_sections, follow_links=True)` is returned: the caller's flag goes with it.
   Otherwise the file's own sections are loaded.  [linked] / [own] are what loading the section from
   the debug file / from this file gives for a flag (read_dwarf_section on the respective image). *)
Definition dwarf_via_debuglink (has_link has_own_debug_info crc_matches : bool)
           (linked own : bool -> res (list Z)) (relocate_dwarf_sections : bool) : res (list Z) :=
  if has_link && negb has_own_debug_info then
    (if crc_matches then linked relocate_dwarf_sections else Err EElf)
  else own relocate_dwarf_sections.
