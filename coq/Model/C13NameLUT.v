(* Model/C13NameLUT.v — transliteration of elftools/dwarf/namelut.py (class NameLUT).
   Names are byte strings (the library decodes them as UTF-8; the harness feeds valid
   UTF-8 and compares the encoded form).  The dict is Base/PyData's insertion-ordered
   association list.  No proofs here. *)
From PV Require Export Base.PyData Base.Prim Spec.C13Spec.
From Coq Require Import ZArith List Bool.
Import ListNotations.
Open Scope Z_scope.

Definition lut_entry := (Z * Z)%type.                    (* NameLUTEntry(cu_ofs, die_ofs) *)
Definition lut_dict := dict (list Z) lut_entry.

(* structs.Dwarf_nameLUT_header (32-bit structs): Dwarf_initial_length, Dwarf_uint16,
   Dwarf_offset (4), Dwarf_length (4) *)
Definition namelut_header_decode (le : bool) : dec name_header := fun bs =>
  match initial_length_decode le bs with
  | None => None
  | Some ((unit_length, _), r0) =>
  match uint_decode le 2 r0 with
  | None => None
  | Some (version, r1) =>
  match uint_decode le 4 r1 with
  | None => None
  | Some (info_off, r2) =>
  match uint_decode le 4 r2 with
  | None => None
  | Some (info_len, r3) => Some (mk_name_header unit_length version info_off info_len, r3)
  end end end end.

(* entry_struct = Struct(Dwarf_offset('die_ofs'), If(lambda ctx: ctx['die_ofs'], CString('name'))) *)
Definition name_entry_decode (le : bool) : dec (Z * list Z) := fun bs =>
  match uint_decode le 4 bs with
  | None => None
  | Some (die_ofs, r) =>
      if die_ofs =? 0 then Some ((0, []), r)
      else match cstring_decode r with
           | Some (name, t) => Some ((die_ofs, name), t)
           | None => None
           end
  end.

(* while True: entry = struct_parse(entry_struct, stream)
               if entry.die_ofs == 0: break
               entries[name] = NameLUTEntry(cu_ofs=hdr_cu_ofs, die_ofs=hdr_cu_ofs + entry.die_ofs) *)
Fixpoint names_loop (fuel : nat) (le : bool) (hdr_cu_ofs : Z) (entries : lut_dict) (bs : list Z)
  : res lut_dict :=
  match fuel with
  | O => Err EFuel
  | S f =>
      match name_entry_decode le bs with
      | None => Err EParse
      | Some ((die_ofs, name), r) =>
          if die_ofs =? 0 then Ok entries
          else names_loop f le hdr_cu_ofs
                 (dict_set bytes_eqb entries name (hdr_cu_ofs, hdr_cu_ofs + die_ofs)) r
      end
  end.

(* NameLUT._get_entries: one iteration of `while offset < self._size` per set *)
Fixpoint namelut_loop (fuel : nat) (le : bool) (stream : list Z) (size offset : Z)
         (entries : lut_dict) (cu_headers : list name_header)
  : res (lut_dict * list name_header) :=
  match fuel with
  | O => Err EFuel
  | S f =>
      if offset <? size then
        match namelut_header_decode le (skipn (Z.to_nat offset) stream) with
        | None => Err EParse
        | Some (h, after) =>
            do entries' <- names_loop (S (List.length after)) le (nh_info_offset h) entries after;
            namelut_loop f le stream size (offset + nh_unit_length h + 4) entries' (cu_headers ++ [h])
        end
      else Ok (entries, cu_headers)
  end.

Definition namelut_get_entries (le : bool) (stream : list Z) (size : Z)
  : res (lut_dict * list name_header) :=
  namelut_loop (S (Z.to_nat size)) le stream size 0 [] [].

(* the lazily filled pair (_entries, _cu_headers): every accessor starts with
   `if self._entries is None: self._entries, self._cu_headers = self._get_entries()` *)
Definition nl_state := option (lut_dict * list name_header).
Definition nl_force (le : bool) (stream : list Z) (size : Z) (st : nl_state)
  : res (nl_state * (lut_dict * list name_header)) :=
  match st with
  | Some p => Ok (st, p)
  | None => do p <- namelut_get_entries le stream size; Ok (Some p, p)
  end.

(* the Mapping interface over the parsed pair *)
Definition nl_len (p : lut_dict * list name_header) : Z := zlen (fst p).              (* __len__ *)
Definition nl_getitem (p : lut_dict * list name_header) (name : list Z) : res lut_entry :=
  match dict_get bytes_eqb (fst p) name with                                            (* __getitem__ *)
  | Some v => Ok v
  | None => Err (EPy "KeyError")
  end.
Definition nl_get (p : lut_dict * list name_header) (name : list Z) : option lut_entry :=
  dict_get bytes_eqb (fst p) name.                                                      (* get *)
Definition nl_iter (p : lut_dict * list name_header) : list (list Z) := dict_keys (fst p).  (* __iter__ *)
Definition nl_items (p : lut_dict * list name_header) : list (list Z * lut_entry) := fst p. (* items *)
Definition nl_cu_headers (p : lut_dict * list name_header) : list name_header := snd p.  (* get_cu_headers *)
