(* Model/C20Hist.v — the OBJECTS of elftools/elf/sections.py (AttributesSection,
   AttributesSubsection, AttributesSubsubsection) and of elftools/ehabi (EHABIInfo, EHABIEntry,
   EHABIBytecodeDecoder) under a history of calls: the state each object carries between calls
   and what each call does with it.

   Build attributes.  No attribute of any of the three classes is assigned after __init__; what
   lives between calls is
   * the objects handed out so far (each with the fields its __init__ computed from the file),
   * the generator objects of _make_subsections / _make_subsubsections / _make_attributes that
     are still suspended.  Each of the three generator functions keeps its position in a local
     variable `offset` of its own frame and positions the (shared) stream absolutely before
     every read, so the frame is (owner object, offset); one resumption = one iteration of the
     `while offset != end` loop, transliterated in [mstep].  Nothing reads the stream cursor
     without seeking first, hence the cursor is not part of the state and ODisturb changes
     nothing.
   The generators are kept LAZY: an item exists only once a next() asked for it; an error
   surfaces at the next() that reaches it.  The language semantics of generator objects and
   the vocabulary are those of Spec/C20Hist.v.

   EHABI.  EHABIInfo keeps the memo `_num_entry` (None until num_entry() ran, directly or
   through get_entry); an EHABIBytecodeDecoder keeps `_index` and `mnemonic_array`, rewritten
   by every _decode().  No proofs here: see Proofs/C20Hist.v. *)
From PV Require Import Base.Bytes Base.Outcome Base.Prim Model.C20Types Gen.C20Tables
  Model.C20Attr Model.C20Ehabi Spec.C20Hist.
Open Scope list_scope.
Open Scope Z_scope.

(* ================================================================== build attributes *)

(* what an object remembers from its __init__ *)
Inductive mobj : Type :=
| MSec (subsec_start : Z)
    (* AttributesSection: self.subsec_start (sh_offset, sh_size are in the section header) *)
| MSubsec (offset length : Z) (vendor : list Z) (subsubsec_start : Z)
    (* AttributesSubsection: self.offset, self.header (length, vendor_name), self.subsubsec_start *)
| MSubsub (offset : Z) (header : oattr) (attr_start : Z).
    (* AttributesSubsubsection: self.offset, self.header, self.attr_start *)

(* the file and the section header fields the walks read *)
Record actx := mkCtx { c_ai : attr_impl; c_le : bool; c_img : list Z; c_sh_offset : Z; c_sh_size : Z }.

(* AttributesSubsection.__init__(stream, structs, offset, header, subsubsection):
     self.header = struct_parse(header, self.stream, self.offset)      (Elf_word length, Elf_ntbs vendor_name)
     self.subsubsec_start = self.stream.tell() *)
Definition subsec_init (c : actx) (offset : Z) : res mobj :=
  do (length, r0) <- p_word (c_le c) (seek (c_img c) offset);
  do (vendor, r1) <- p_ntbs r0;
  Ok (MSubsec offset length vendor (tell (c_img c) r1)).
(* subsec['length'], subsubsec.header.value: what the walk adds to its offset *)
Definition obj_length (o : mobj) : res Z :=
  match o with
  | MSec _ => Err (EPy "TypeError")
  | MSubsec _ length _ _ => Ok length
  | MSubsub _ header _ => attr_int_value header
  end.
Definition obj_view (o : mobj) : view :=
  match o with
  | MSec _ => VSubsec 0 []
  | MSubsec _ length vendor _ => VSubsec length vendor
  | MSubsub _ header _ => VSubsub header
  end.

(* stream.seek(offset); AttributesSubsubsection.__init__(stream, structs, offset, attribute):
     self.header = self.attribute(self.structs, self.stream)
     self.attr_start = self.stream.tell() *)
Definition subsubsec_init (c : actx) (offset : Z) : res mobj :=
  do (header, rest) <- p_attr (c_ai c) (c_le c) (seek (c_img c) offset);
  Ok (MSubsub offset header (tell (c_img c) rest)).

(* where a fresh walk over the object starts: offset = self.subsec_start / self.subsubsec_start /
   self.attr_start *)
Definition mstart (o : mobj) : Z :=
  match o with
  | MSec start => start
  | MSubsec _ _ _ start => start
  | MSubsub _ _ start => start
  end.

(* one resumption of the unlimited walk of [owner] whose frame holds [offset]:
   the item yielded and the frame's offset afterwards.
   _make_subsections:
     end = self['sh_offset'] + self.data_size
     while offset != end:
         subsec = self.subsection(self.stream, self.structs, offset)
         offset += subsec['length'];  yield subsec
   _make_subsubsections:
     end = self.offset + self['length']
     while offset != end:
         self.stream.seek(offset)
         subsubsec = self.subsubsection(self.stream, self.structs, offset)
         offset += subsubsec.header.value;  yield subsubsec
   _make_attributes:
     end = self.offset + self.header.value
     while offset != end:
         self.stream.seek(offset)
         attribute = self.attribute(self.structs, self.stream)
         offset = self.stream.tell();  yield attribute *)
Definition mstep (c : actx) (owner : mobj) (offset : Z) : wstep (item mobj * Z) :=
  match owner with
  | MSec _ =>
      if offset =? c_sh_offset c + c_sh_size c then WStop
      else match (do subsec <- subsec_init c offset; do length <- obj_length subsec; Ok (subsec, length)) with
           | Err e => WRaise e
           | Ok (subsec, length) => WYield ((Some subsec, obj_view subsec), offset + length)
           end
  | MSubsec o length _ _ =>
      if offset =? o + length then WStop
      else match (do subsubsec <- subsubsec_init c offset; do size <- obj_length subsubsec; Ok (subsubsec, size)) with
           | Err e => WRaise e
           | Ok (subsubsec, size) => WYield ((Some subsubsec, obj_view subsubsec), offset + size)
           end
  | MSubsub o header _ =>
      match attr_int_value header with
      | Err e => WRaise e
      | Ok size =>
          if offset =? o + size then WStop
          else match p_attr (c_ai c) (c_le c) (seek (c_img c) offset) with
               | Err e => WRaise e
               | Ok (a, rest) => WYield ((None, VAttr a), tell (c_img c) rest)
               end
      end
  end.

(* iter_subsections(vendor_name) / iter_subsubsections(scope) / iter_attributes(tag):
     for x in self._make_...(): if f is None or key(x) == f: yield x
   one next(): resume the inner walk until an item passes.  The loop is the implementation's;
   the fuel only makes the function total (a walk over a file has at most one item per byte). *)
Fixpoint mnext (c : actx) (fuel : nat) (owner : mobj) (f : option (list Z)) (offset : Z) : wstep (item mobj * Z) :=
  match fuel with
  | O => WRaise EFuel
  | S k =>
      match mstep c owner offset with
      | WYield (it, off') => if fmatch f (snd it) then WYield (it, off') else mnext c k owner f off'
      | WStop => WStop
      | WRaise e => WRaise e
      end
  end.

(* list(self.iter_...(f)): a fresh walk run to its end (an exception discards what was collected) *)
Fixpoint mwalk (c : actx) (fuel : nat) (owner : mobj) (f : option (list Z)) (offset : Z) : res (list (item mobj)) :=
  match fuel with
  | O => Err EFuel
  | S k =>
      match mstep c owner offset with
      | WYield (it, off') =>
          do r <- mwalk c k owner f off';
          Ok (if fmatch f (snd it) then it :: r else r)
      | WStop => Ok []
      | WRaise e => Err e
      end
  end.
Definition walk_fuel (c : actx) : nat := S (List.length (c_img c)).

(* `attributes` is [self.header, *iter_attributes()], `num_attributes` counts the header too *)
Definition mhead (o : mobj) : list view :=
  match o with
  | MSubsub _ header _ => [VAttr header]
  | _ => []
  end.

(* a suspended generator: the frame of the _make_... generator inside the frame of iter_...(f) *)
Record mgen := mkMGen { mg_owner : mobj; mg_filter : option (list Z); mg_offset : Z; mg_done : bool }.
Record mstate := mkMState { m_objs : list mobj; m_gens : list mgen }.

Definition mhstep (c : actx) (st : mstate) (op : hop) : mstate * hans :=
  match op with
  | OStart o f =>       (* calling a generator function runs nothing yet; the first next() starts at mstart *)
      match nth_error (m_objs st) o with
      | None => (st, HBad)
      | Some ow => (mkMState (m_objs st) (m_gens st ++ [mkMGen ow f (mstart ow) false]), HUnit)
      end
  | ONext g =>
      match nth_error (m_gens st) g with
      | None => (st, HBad)
      | Some s =>
          if mg_done s then (st, HStop)
          else match mnext c (walk_fuel c) (mg_owner s) (mg_filter s) (mg_offset s) with
               | WYield ((ch, v), off') =>
                   (mkMState (reg (m_objs st) ch) (set_nth (m_gens st) g (mkMGen (mg_owner s) (mg_filter s) off' false)),
                    HItem (reg_id (m_objs st) ch) v)
               | WStop =>
                   (mkMState (m_objs st) (set_nth (m_gens st) g (mkMGen (mg_owner s) (mg_filter s) (mg_offset s) true)), HStop)
               | WRaise e =>
                   (mkMState (m_objs st) (set_nth (m_gens st) g (mkMGen (mg_owner s) (mg_filter s) (mg_offset s) true)), HErr e)
               end
      end
  | OClose g =>
      match nth_error (m_gens st) g with
      | None => (st, HBad)
      | Some s => (mkMState (m_objs st) (set_nth (m_gens st) g (mkMGen (mg_owner s) (mg_filter s) (mg_offset s) true)), HUnit)
      end
  | ONum o =>           (* sum(1 for _ in self.iter_...()) [+ 1] *)
      match nth_error (m_objs st) o with
      | None => (st, HBad)
      | Some ow =>
          match mwalk c (walk_fuel c) ow None (mstart ow) with
          | Ok its => (st, HInt (zlen (mhead ow) + zlen its))
          | Err e => (st, HErr e)
          end
      end
  | OList o =>          (* list(self.iter_...()) / [self.header, *self.iter_attributes()] *)
      match nth_error (m_objs st) o with
      | None => (st, HBad)
      | Some ow =>
          match mwalk c (walk_fuel c) ow None (mstart ow) with
          | Ok its => (mkMState (m_objs st ++ children its) (m_gens st),
                       HItems (List.length (m_objs st)) (mhead ow ++ map snd its))
          | Err e => (st, HErr e)
          end
      end
  | OIter o f =>
      match nth_error (m_objs st) o with
      | None => (st, HBad)
      | Some ow =>
          match mwalk c (walk_fuel c) ow f (mstart ow) with
          | Ok its => (mkMState (m_objs st ++ children its) (m_gens st), HItems (List.length (m_objs st)) (map snd its))
          | Err e => (st, HErr e)
          end
      end
  | ODisturb _ => (st, HUnit)       (* stream.seek(pos): every read of the three classes seeks first *)
  | OCopy o =>          (* the copy carries the same __init__ fields (and a copy of the same bytes) *)
      match nth_error (m_objs st) o with
      | None => (st, HBad)
      | Some _ => (st, HUnit)
      end
  end.

Fixpoint mrun (c : actx) (st : mstate) (h : list hop) : list hans :=
  match h with
  | [] => []
  | op :: r => let (st', a) := mhstep c st op in a :: mrun c st' r
  end.

(* AttributesSection.__init__ (format-version byte 'A' at sh_offset, subsec_start = tell()):
   the object is #0; if the constructor raises there is no object and the history is moot *)
Definition attr_hist (ai : attr_impl) (le : bool) (img : list Z) (sh_offset sh_size : Z) (h : list hop)
  : res (list hans) :=
  do (fv, rest) <- p_byte (seek img sh_offset);
  if negb (fv =? 65) then Err EElf
  else Ok (mrun (mkCtx ai le img sh_offset sh_size) (mkMState [MSec (tell img rest)] []) h).

(* ================================================================== ARM exception index *)

(* an EHABIBytecodeDecoder object: _bytecode_array, _index, mnemonic_array *)
Record dec_obj := mkDec { d_bytes : list Z; d_index : Z; d_items : mnitems }.

(* _decode(): self._index = 0; self.mnemonic_array = []; the loop of Model/C20Ehabi.bc_decode.
   An exception leaves the object as it was before the call as far as a client that sees the
   exception is concerned (the history ends its use of this decoder with the error answer). *)
Definition dec_decode (d : dec_obj) : res dec_obj :=
  do l <- bc_decode (d_bytes d);
  Ok (mkDec (d_bytes d) (zlen (d_bytes d)) l).

(* the EHABIInfo object (self._num_entry), the entries and decoders created so far *)
Record einfo := mkEInfo { ei_num : option Z; ei_entries : list eh_out; ei_decoders : list dec_obj }.

(* num_entry():
     if self._num_entry is None: self._num_entry = sh_size // EHABI_INDEX_ENTRY_SIZE
     return self._num_entry *)
Definition info_num (sh_size : Z) (memo : option Z) : Z * option Z :=
  match memo with
  | Some n => (n, Some n)
  | None => let n := sh_size / gen_ehabi_index_entry_size in (n, Some n)
  end.

(* get_entry(n) with the bound taken from the memo:
     if n >= self.num_entry(): raise IndexError
     ... (Model/C20Ehabi.get_entry from there on) *)
Definition info_get (img : list Z) (le : bool) (sh_offset : Z) (num n : Z) : res eh_out :=
  if num <=? n then Err (EPy "IndexError") else
  let eh_index_entry_offset := sh_offset + n * gen_ehabi_index_entry_size in
  do s0 <- seek_chk img eh_index_entry_offset;
  do (word0, s1) <- p_u32 le s0;
  do (word1, _) <- p_u32 le s1;
  decode_index_words img le (sh_offset + n * gen_ehabi_index_entry_size) word0 word1.

Definition estep (img : list Z) (le : bool) (sh_offset sh_size : Z) (st : einfo) (op : eop) : einfo * eans :=
  match op with
  | ENum =>
      let (n, memo) := info_num sh_size (ei_num st) in
      (mkEInfo memo (ei_entries st) (ei_decoders st), EAInt n)
  | EGet n =>
      let (num, memo) := info_num sh_size (ei_num st) in
      match info_get img le sh_offset num n with
      | Ok r => (mkEInfo memo (ei_entries st ++ [r]) (ei_decoders st), EAEntry r)
      | Err e => (mkEInfo memo (ei_entries st) (ei_decoders st), EAErr e)
      end
  | EFields e =>        (* plain attribute reads of an EHABIEntry *)
      match nth_error (ei_entries st) e with
      | Some r => (st, EAEntry r)
      | None => (st, EABad)
      end
  | EMnem e =>          (* mnmemonic_array(): a NEW decoder over self.bytecode_array every time *)
      match nth_error (ei_entries st) e with
      | Some r =>
          (st, match mnemonic_array r with
               | Ok m => EAMnem m
               | Err x => EAErr x
               end)
      | None => (st, EABad)
      end
  | EDecoder e =>       (* EHABIBytecodeDecoder(bytecode_array): __init__ stores the array and calls _decode() *)
      match nth_error (ei_entries st) e with
      | Some r =>
          match eo_bytecode r with
          | None => (st, EABad)
          | Some bc =>
              match dec_decode (mkDec bc 0 []) with
              | Ok d => (mkEInfo (ei_num st) (ei_entries st) (ei_decoders st ++ [d]), EAMnem (Some (d_items d)))
              | Err x => (st, EAErr x)
              end
          end
      | None => (st, EABad)
      end
  | ERedecode d =>      (* decoders[d]._decode() again, then .mnemonic_array *)
      match nth_error (ei_decoders st) d with
      | Some o =>
          match dec_decode o with
          | Ok o' => (mkEInfo (ei_num st) (ei_entries st) (set_nth (ei_decoders st) d o'), EAMnem (Some (d_items o')))
          | Err x => (st, EAErr x)
          end
      | None => (st, EABad)
      end
  | ERead d =>
      match nth_error (ei_decoders st) d with
      | Some o => (st, EAMnem (Some (d_items o)))
      | None => (st, EABad)
      end
  | ECopyInfo => (st, EAUnit)       (* __dict__ is copied: _num_entry travels with the object; EHABIStructs is rebuilt
                                       from the same little_endian *)
  | EReopen =>          (* EHABIInfo.__init__: self._num_entry = None; entries and decoders handed out stay alive *)
      (mkEInfo None (ei_entries st) (ei_decoders st), EAUnit)
  | EMutate e =>        (* the entry object belongs to the caller: get_entry builds a new one on every call *)
      match nth_error (ei_entries st) e with
      | Some r => (mkEInfo (ei_num st) (set_nth (ei_entries st) e (mutate_entry r)) (ei_decoders st), EAUnit)
      | None => (st, EABad)
      end
  end.

Fixpoint erun (img : list Z) (le : bool) (sh_offset sh_size : Z) (st : einfo) (h : list eop) : list eans :=
  match h with
  | [] => []
  | op :: r => let (st', a) := estep img le sh_offset sh_size st op in a :: erun img le sh_offset sh_size st' r
  end.
(* EHABIInfo.__init__: self._num_entry = None *)
Definition eh_hist (img : list Z) (le : bool) (sh_offset sh_size : Z) (h : list eop) : list eans :=
  erun img le sh_offset sh_size (mkEInfo None [] []) h.

(* ================================================================== the section header *)
(* The objects above are built over a Section whose header ELFFile decoded: a dict of the ten
   Elf_Shdr fields.  What the classes read of it:
     AttributesSection: self['sh_offset'], self.data_size (= self['sh_size'] unless sh_flags has
       SHF_COMPRESSED, in which case Section.__init__ reads a compression header: property C02);
     EHABIInfo: self._arm_idx_section['sh_offset'] (section_offset()), ['sh_size'] (num_entry()).
   Nothing else: in particular an index entry is EHABI_INDEX_ENTRY_SIZE = 8 bytes whatever
   sh_entsize records, and sh_addr / sh_link / sh_info / sh_addralign play no part. *)
Definition shdr : Type := list (string * Z).
Fixpoint hget (h : shdr) (k : string) : Z :=
  match h with
  | [] => 0
  | (n, v) :: r => if (n =? k)%string then v else hget r k
  end.
Definition SHF_COMPRESSED : Z := 0x800.

Definition get_entry_sec (img : list Z) (le : bool) (h : shdr) (n : Z) : res eh_out :=
  get_entry img le (hget h "sh_offset") (hget h "sh_size") n.
Definition eh_hist_sec (img : list Z) (le : bool) (h : shdr) (hist : list eop) : list eans :=
  eh_hist img le (hget h "sh_offset") (hget h "sh_size") hist.

Definition read_attr_section_sec (ai : attr_impl) (le : bool) (img : list Z) (h : shdr) : res (list osubsec) :=
  if negb (Z.land (hget h "sh_flags") SHF_COMPRESSED =? 0) then Err (EPy "compressed-section")
  else read_attr_section ai le img (hget h "sh_offset") (hget h "sh_size").
Definition attr_hist_sec (ai : attr_impl) (le : bool) (img : list Z) (h : shdr) (hist : list hop) : res (list hans) :=
  if negb (Z.land (hget h "sh_flags") SHF_COMPRESSED =? 0) then Err (EPy "compressed-section")
  else attr_hist ai le img (hget h "sh_offset") (hget h "sh_size") hist.
