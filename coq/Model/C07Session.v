(* Model/C07Session.v — the location/range list code of Model/C07Lists.v with the STATE it runs on made
   explicit (property C07): the stream cursors of the two v5 list sections and the per-unit DIE cache.

   Why: DWARFInfo.location_lists()/range_lists() hand out objects that share one stream per section
   with the DIE parser.  Several functions read RELATIVE to stream.tell():
     LocationLists.iter_location_lists (v5)  seeks to 0, THEN scans the DIEs of the units (which parses
                                             the DIEs not cached yet, and parsing a DW_FORM_loclistx /
                                             DW_FORM_rnglistx attribute reads the section's offset table
                                             through that same stream), then reads unit headers, view
                                             pairs and lists from wherever the stream is, across yields;
     RangeLists.iter_CU_range_lists_ex       seeks once, then parses list after list across yields;
     dwarf_util._iter_CUs_in_section         reads the offset array right after the header.
   The consumer runs between two yields of a generator.  Model/C07Lists.v writes these loops with the
   position as an explicit argument, i.e. it assumes nothing else moves the stream; here that
   assumption is part of the model: dwarf_util._resolve_via_offset_table is transliterated with its
   `with preserve_stream_pos(stream):`, every public entry point is a transformer of [sess], and the
   enumerations take the consumer's actions between yields ([hook]s).  Proofs/C07Session.v proves that
   DIE parsing never moves a cursor and that therefore every enumeration, started in ANY reachable
   state (fresh or warmed-up) and interleaved with any actions that do not read the enumerated stream,
   yields exactly what the position-passing functions of Model/C07Lists.v yield.

   Not tracked: the cursors of .debug_loc/.debug_ranges/.debug_addr/.debug_info (every read of those
   is preceded by an absolute seek inside the same call).  No proofs here. *)
From Coq Require Import String.
From PV Require Import Base.Bytes Base.Outcome Base.Prim Base.Enum Base.PyData Model.C07Kinds Model.C07Lists.
From Coq Require Import ZArith List Bool.
Import ListNotations.
Open Scope string_scope.
Open Scope list_scope.
Open Scope Z_scope.

(* ------------------------------------------------------------------ cursors
   (stream.tell() of dwarfinfo.debug_loclists_sec.stream, of dwarfinfo.debug_rnglists_sec.stream) *)
Definition cursors := (Z * Z)%type.

(* common/utils.py  @contextmanager preserve_stream_pos(stream):
       saved_pos = stream.tell(); yield; stream.seek(saved_pos) *)
Definition preserve_stream_pos {A} (body : Z -> res (A * Z)) (cur : Z) : res (A * Z) :=
  let saved_pos := cur in
  do (a, _) <- body cur;
  Ok (a, saved_pos).

(* struct_parse(cu.structs.the_Dwarf_offset, stream, stream_pos): seeks, then reads one offset *)
Definition parse_offset_at (le : bool) (offset_size : Z) (stream : list Z) (stream_pos : Z) (cur : Z)
  : res (Z * Z) :=
  match uint_decode le (Z.to_nat offset_size) (at_pos stream stream_pos) with
  | Some (v, _) => Ok (v, stream_pos + offset_size)
  | None => Err EParse
  end.

(* dwarf_util._resolve_via_offset_table(stream, cu, index, base_attribute_name) *)
Definition resolve_via_offset_table_cur (le : bool) (stream : list Z) (cu : cuinfo) (index : Z)
    (base : option Z) (cur : Z) : res (Z * Z) :=
  do base_offset <- get_base_offset base;
  let offset_size := if cu_is64 cu then 8 else 4 in
  do (v, cur') <- preserve_stream_pos
                    (parse_offset_at le offset_size stream (base_offset + index * offset_size)) cur;
  Ok (base_offset + v, cur').

(* die._translate_attr_value (and _translate_indirect_attributes for the top DIE) *)
Definition attr_value_cur (S : sections) (cv : cuview) (a : attr) (c : cursors) : res (aval * cursors) :=
  match a_raw a with
  | ABytes b => Ok (ABytes b, c)
  | AInt raw =>
      if String.eqb (a_form a) "DW_FORM_loclistx" then
        match s_loclists S with
        | None => Err (EPy "AttributeError")
        | Some st => do (v, ll) <- resolve_via_offset_table_cur (s_le S) st (cuinfo_of cv) raw
                                     (cu_loclists_base (cuinfo_of cv)) (fst c);
                     Ok (AInt v, (ll, snd c))
        end
      else if String.eqb (a_form a) "DW_FORM_rnglistx" then
        match s_rnglists S with
        | None => Err (EPy "AttributeError")
        | Some st => do (v, rl) <- resolve_via_offset_table_cur (s_le S) st (cuinfo_of cv) raw
                                     (cu_rnglists_base (cuinfo_of cv)) (snd c);
                     Ok (AInt v, (fst c, rl))
        end
      else Ok (AInt raw, c)
  end.

(* DIE.__init__ -> _parse_DIE: the attributes in order *)
Fixpoint translate_die_cur (S : sections) (cv : cuview) (die : list attr) (c : cursors)
  : res (vdie * cursors) :=
  match die with
  | [] => Ok ([], c)
  | a :: r =>
      do (v, c1) <- attr_value_cur S cv a c;
      do (vs, c2) <- translate_die_cur S cv r c1;
      Ok ((a_name a, a_form a, v) :: vs, c2)
  end.

Fixpoint parse_dies_cur (S : sections) (cv : cuview) (dies : list (list attr)) (c : cursors)
  : res (list vdie * cursors) :=
  match dies with
  | [] => Ok ([], c)
  | d :: r =>
      do (v, c1) <- translate_die_cur S cv d c;
      do (vs, c2) <- parse_dies_cur S cv r c1;
      Ok (v :: vs, c2)
  end.

(* cu.get_top_DIE() (n = 1) / the first n items of cu.iter_DIEs(): CompileUnit._get_cached_DIE parses
   a DIE only when it is not in cu._dielist yet.  cached = the DIEs parsed so far (a prefix: the units
   the property looks at are a unit DIE and its childless children). *)
Definition ensure_parsed (S : sections) (cv : cuview) (n : nat) (cached : list vdie) (c : cursors)
  : res (list vdie * cursors) :=
  do (new, c') <- parse_dies_cur S cv (skipn (length cached) (firstn n (cv_dies cv))) c;
  Ok (cached ++ new, c').

(* "for cu in dwarfinfo.iter_CUs(): [if want(cu):] for die in cu.iter_DIEs(): ..." — the effect on
   the caches and the cursors; caches runs parallel to cus *)
Fixpoint parse_units (S : sections) (want : cuview -> bool) (cus : list cuview)
    (caches : list (list vdie)) (c : cursors) : res (list (list vdie) * cursors) :=
  match cus with
  | [] => Ok ([], c)
  | cv :: r =>
      let cached := hd [] caches in
      do (dies, c1) <- (if want cv then ensure_parsed S cv (length (cv_dies cv)) cached c
                        else Ok (cached, c));
      do (more, c2) <- parse_units S want r (tl caches) c1;
      Ok (dies :: more, c2)
  end.

(* ------------------------------------------------------------------ sessions *)
Record sess : Type := {
  ss_cur : cursors;
  ss_dies : list (list vdie) }.      (* cu._dielist of every unit of dwarfinfo.iter_CUs() *)

Definition ss_ll (s : sess) : Z := fst (ss_cur s).
Definition ss_rl (s : sess) : Z := snd (ss_cur s).
Definition set_ll (p : Z) (s : sess) : sess := {| ss_cur := (p, snd (ss_cur s)); ss_dies := ss_dies s |}.
Definition set_rl (p : Z) (s : sess) : sess := {| ss_cur := (fst (ss_cur s), p); ss_dies := ss_dies s |}.

Fixpoint upd_nth {A} (k : nat) (x : A) (l : list A) : list A :=
  match l, k with
  | [], _ => []
  | _ :: r, O => x :: r
  | y :: r, S k' => y :: upd_nth k' x r
  end.

(* what a caller sees *)
Inductive ev : Type :=
| ETups (label : string) (l : list tup)           (* a list of LocationEntry/RangeEntry/... *)
| ERaw (label : string) (l : list container)      (* an untranslated v5 list *)
| EHdr (label : string) (c : container).          (* a unit-block header *)

(* the consumer's code between two yields of a generator *)
Definition hook := sess -> res (list ev * sess).
Definition no_hook : hook := fun s => Ok ([], s).
Definition next_hook (hooks : list hook) : hook := match hooks with h :: _ => h | [] => no_hook end.

Section Session.
  Variables (TL TR : entry_tables) (LL LR : hlayout) (lv : operands).
  Variable S : sections.
  Variable cus : list cuview.          (* the units of .debug_info, in order *)

  Definition fresh : sess := {| ss_cur := (0, 0); ss_dies := map (fun _ => []) cus |}.

  Definition loc_stream (version : Z) : list Z :=
    match (if 5 <=? version then s_loclists S else s_loc S) with Some s => s | None => [] end.
  Definition rng_stream (version : Z) : list Z :=
    match (if 5 <=? version then s_rnglists S else s_ranges S) with Some s => s | None => [] end.

  (* ---------------------------------------------------------------- by-offset fetches *)
  (* LocationLists.get_location_list_at_offset(offset, die) with cu = die.cu: seek(offset), parse;
     the stream is left after the terminator *)
  Definition get_loc_sess (version : Z) (offset : Z) (cu : option cuinfo) (s : sess)
    : res (list tup * sess) :=
    let stream := loc_stream version in
    if 5 <=? version then
      match cu with
      | None => Err EDwarf
      | Some _ =>
          let bs := at_pos stream offset in
          do (ts, rest) <- parse_list_v5 (s_le S) (s_asz S) TL (get_addr (s_le S) (s_addr S) cu) bs offset;
          Ok (ts, set_ll (offset + (zlen bs - zlen rest)) s)
      end
    else
      do ts <- parse_loc_v4 (Datatypes.S (length stream)) (s_le S) (s_asz S) (at_pos stream offset) offset;
      Ok (ts, s).

  (* RangeLists.get_range_list_at_offset(offset, cu) *)
  Definition get_rng_sess (version : Z) (offset : Z) (cu : option cuinfo) (s : sess)
    : res (list tup * sess) :=
    let stream := rng_stream version in
    if 5 <=? version then
      let bs := at_pos stream offset in
      do (ts, rest) <- parse_list_v5 (s_le S) (s_asz S) TR (get_addr (s_le S) (s_addr S) cu) bs offset;
      Ok (ts, set_rl (offset + (zlen bs - zlen rest)) s)
    else
      do ts <- parse_rng_v4 (Datatypes.S (length stream)) (s_le S) (s_asz S) (at_pos stream offset) offset;
      Ok (ts, s).

  (* RangeLists.get_range_list_at_offset_ex(offset): struct_parse(entries, stream, offset) *)
  Definition get_rng_ex_sess (offset : Z) (s : sess) : res (list container * sess) :=
    let stream := rng_stream 5 in
    let bs := at_pos stream offset in
    do (es, rest) <- parse_entries (Datatypes.S (length stream)) (s_le S) (s_asz S) TR bs offset;
    Ok (es, set_rl (offset + (zlen bs - zlen rest)) s).

  (* ---------------------------------------------------------------- simple actions *)
  Inductive act : Type :=
  | AParse (k n : nat)
      (* it = cus[k].iter_DIEs(); n times next(it)      (n = 1: cus[k].get_top_DIE()) *)
  | AFetch (k d : nat) (name : string)
      (* die = the d-th DIE of cus[k] (iter_DIEs up to it), attr = die.attributes[name];
         DW_AT_ranges: dwarfinfo.range_lists().get_range_list_at_offset(attr.value, cus[k]),
         otherwise LocationParser(dwarfinfo.location_lists()).parse_from_attribute(attr, version, die) *)
  | AGetRngEx (offset : Z).
      (* dwarfinfo.range_lists().get_range_list_at_offset_ex(offset) *)

  Definition act_parse (k n : nat) (s : sess) : res sess :=
    match nth_error cus k with
    | None => Err (EPy "IndexError")
    | Some cv =>
        do (dies, c) <- ensure_parsed S cv n (nth k (ss_dies s) []) (ss_cur s);
        Ok {| ss_cur := c; ss_dies := upd_nth k dies (ss_dies s) |}
    end.

  Definition has (o : option (list Z)) : bool := match o with Some _ => true | None => false end.

  (* which generation's section a ...Lists / ...ListsPair object reads for a unit *)
  Definition obj_version (obj : lists_obj) (cu : cuinfo) : res Z :=
    match obj with
    | LNone => Err (EPy "AttributeError")
    | LSingle v => Ok v
    | LPair => Ok (pair_version cu)
    end.

  Definition act_fetch (k d : nat) (name : string) (s : sess) : res (list ev * sess) :=
    do s1 <- act_parse k (Datatypes.S d) s;
    match nth_error cus k, nth_error (nth k (ss_dies s1) []) d with
    | Some cv, Some die =>
        match vdie_get die name with
        | None => Err (EPy "KeyError")
        | Some (form, v) =>
            do offset <- aval_int v;
            let cu := cuinfo_of cv in
            if String.eqb name "DW_AT_ranges" then
              do version <- obj_version (lists_object (has (s_ranges S)) (has (s_rnglists S))) cu;
              do (ts, s2) <- get_rng_sess version offset (Some cu) s1;
              Ok ([ETups "fetch" ts], s2)
            else if classify_attribute name form (cv_version cv) =? 2 then
              do version <- obj_version (lists_object (has (s_loc S)) (has (s_loclists S))) cu;
              do (ts, s2) <- get_loc_sess version offset (Some cu) s1;
              Ok ([ETups "fetch" ts], s2)
            else Err (EPy "ValueError")
        end
    | _, _ => Err (EPy "IndexError")
    end.

  Definition run_act (a : act) : hook :=
    fun s =>
      match a with
      | AParse k n => do s' <- act_parse k n s; Ok ([], s')
      | AFetch k d name => act_fetch k d name s
      | AGetRngEx offset =>
          do (es, s') <- get_rng_ex_sess offset s;
          Ok ([ERaw "get_range_list_at_offset_ex" es], s')
      end.

  Fixpoint run_acts (l : list act) : hook :=
    fun s =>
      match l with
      | [] => Ok ([], s)
      | a :: r =>
          do (e1, s1) <- run_act a s;
          do (e2, s2) <- run_acts r s1;
          Ok (e1 ++ e2, s2)
      end.

  (* ---------------------------------------------------------------- LocationLists.iter_location_lists
     (the object of generation [version]: stream = dwarfinfo.debug_loclists_sec.stream / debug_loc_sec.stream) *)
  (* the scan of the debugging entries: parses what is not cached, then reads die.attributes *)
  Definition scan_units (ver5 : bool) (caches : list (list vdie)) : res loc_scan :=
    fold_left (fun acc (x : cuview * list vdie) =>
                 do st <- acc;
                 if Bool.eqb (5 <=? cv_version (fst x)) ver5 then scan_dies (fst x) st (snd x) else Ok st)
              (combine cus caches)
              (Ok {| ls_offsets := []; ls_locviews := []; ls_cu_map := [] |}).

  (* the "if ver5:" loops, reading at stream.tell() = ss_ll; see Model/C07Lists.v loc5_loop *)
  Fixpoint loc5_sess (fuel : nat) (sc : loc_scan) (cu_end : option Z) (offs : list Z) (hooks : list hook)
      (s : sess) : res (list (list tup * list ev) * sess) :=
    match fuel with
    | O => Err EFuel
    | Datatypes.S f =>
        let stream := loc_stream 5 in
        let endpos := zlen stream in
        let pos := ss_ll s in
        match cu_end with
        | None =>
            if pos <? endpos then
              let bs := at_pos stream pos in
              do (h, rest) <- parse_hdr LL (s_le S) bs pos None;
              do ver <- cint h "version";
              if ver =? 5 then
                do oal <- cint h "offset_after_length";
                do ul <- cint h "unit_length";
                loc5_sess f sc (Some (oal + ul)) offs hooks (set_ll (pos + (zlen bs - zlen rest)) s)
              else Err (EPy "AssertionError")
            else Ok ([], s)
        | Some cu_end_offset =>
            if in_block pos cu_end_offset offs then
              let next_offset := match offs with o :: _ => o | [] => cu_end_offset end in
              if next_offset =? pos then
                let bs := at_pos stream pos in
                do (pairs, bs1) <- parse_locview_pairs S lv (ls_locviews sc) bs pos;
                let pos1 := pos + (zlen bs - zlen bs1) in
                match PyData.dict_get Z.eqb (ls_cu_map sc) pos1 with
                | None => Err (EPy "KeyError")
                | Some cv =>
                    do (entries, bs2) <- parse_list_v5 (s_le S) (s_asz S) TL
                                           (get_addr (s_le S) (s_addr S) (Some (cuinfo_of cv))) bs1 pos1;
                    let s1 := set_ll (pos1 + (zlen bs1 - zlen bs2)) s in
                    (* yield locview_pairs + entries *)
                    do (hev, s2) <- next_hook hooks s1;
                    do (more, s3) <- loc5_sess f sc (Some cu_end_offset) (tl offs) (tl hooks) s2;
                    Ok ((pairs ++ entries, hev) :: more, s3)
                end
              else
                let next_offset := if cu_end_offset <? next_offset then cu_end_offset else next_offset in
                loc5_sess f sc (Some cu_end_offset) offs hooks (set_ll next_offset s)
            else loc5_sess f sc None offs hooks s
        end
    end.

  (* the "else:" branch: every list is reached by an absolute seek on .debug_loc *)
  Fixpoint loc4_sess (sc : loc_scan) (offsets : list Z) (hooks : list hook) (s : sess)
    : res (list (list tup * list ev) * sess) :=
    match offsets with
    | [] => Ok ([], s)
    | offset :: r =>
        let stream := loc_stream 4 in
        let list_offset := match PyData.dict_get Z.eqb (ls_locviews sc) offset with Some l => l | None => offset end in
        match PyData.dict_get Z.eqb (ls_cu_map sc) list_offset with
        | None => Err (EPy "KeyError")
        | Some cv =>
            if cv_version cv <? 5 then
              let bs := at_pos stream offset in
              do (pairs, bs1) <- parse_locview_pairs S lv (ls_locviews sc) bs offset;
              do entries <- parse_loc_v4 (Datatypes.S (length stream)) (s_le S) (s_asz S) bs1
                                         (offset + (zlen bs - zlen bs1));
              do (hev, s1) <- next_hook hooks s;
              do (more, s2) <- loc4_sess sc r (tl hooks) s1;
              Ok ((pairs ++ entries, hev) :: more, s2)
            else loc4_sess sc r hooks s
        end
    end.

  Definition iter_location_lists_sess (version : Z) (hooks : list hook) (s : sess)
    : res (list (list tup * list ev) * sess) :=
    let ver5 := 5 <=? version in
    (* stream.seek(0, os.SEEK_END); endpos = stream.tell(); stream.seek(0, os.SEEK_SET) *)
    let s0 := if ver5 then set_ll 0 s else s in
    do (caches, c) <- parse_units S (fun cv => Bool.eqb (5 <=? cv_version cv) ver5) cus (ss_dies s0) (ss_cur s0);
    let s1 := {| ss_cur := c; ss_dies := caches |} in
    do sc <- scan_units ver5 caches;
    let all_offsets := sorted_by (fun x => x) (ls_offsets sc) in
    if ver5 then
      loc5_sess (Datatypes.S (2 * length all_offsets + 2 * length (loc_stream 5))) sc None all_offsets hooks s1
    else loc4_sess sc all_offsets hooks s1.

  (* ---------------------------------------------------------------- RangeLists.iter_range_lists *)
  Fixpoint range_lists_sess (version : Z) (cu_map : dict Z cuview) (offsets : list Z) (hooks : list hook)
      (s : sess) : res (list (list tup * list ev) * sess) :=
    match offsets with
    | [] => Ok ([], s)
    | offset :: r =>
        do (ts, s1) <- get_rng_sess version offset
                         (option_map cuinfo_of (PyData.dict_get Z.eqb cu_map offset)) s;
        do (hev, s2) <- next_hook hooks s1;
        do (more, s3) <- range_lists_sess version cu_map r (tl hooks) s2;
        Ok ((ts, hev) :: more, s3)
    end.

  Definition iter_range_lists_sess (version : Z) (hooks : list hook) (s : sess)
    : res (list (list tup * list ev) * sess) :=
    let ver5 := 5 <=? version in
    do (caches, c) <- parse_units S (fun _ => true) cus (ss_dies s) (ss_cur s);
    let s1 := {| ss_cur := c; ss_dies := caches |} in
    do refs <- mapM (fun x : cuview * list vdie => range_refs_of_dies ver5 (fst x) (snd x)) (combine cus caches);
    let cu_map := dict_of_list Z.eqb (concat refs) in
    let all_offsets := sorted_by (fun x => x) (dict_keys cu_map) in
    range_lists_sess version cu_map all_offsets hooks s1.

  (* ---------------------------------------------------------------- unit blocks *)
  (* dwarf_util._iter_CUs_in_section; setc = the cursor of the section iterated *)
  Fixpoint iter_CUs_sess (fuel : nat) (L : hlayout) (stream : list Z) (setc : Z -> sess -> sess)
      (offset : Z) (hooks : list hook) (s : sess) : res (list (container * list ev) * sess) :=
    match fuel with
    | O => Err EFuel
    | Datatypes.S f =>
        if offset <? zlen stream then
          let bs := at_pos stream offset in
          do (header, rest) <- parse_hdr L (s_le S) bs offset None;
          do offset_count <- cint header "offset_count";
          do (offsets, rest') <-
            (if 0 <? offset_count then
               do is64 <- cbool header "is64";
               match parse_uint_array (s_le S) (if is64 then 8 else 4)%nat (Z.to_nat offset_count) rest with
               | Some (vs, t) => Ok (FInts vs, t)
               | None => Err EParse
               end
             else Ok (FBool false, rest));
          let header' := header ++ [("offsets", offsets)] in
          let s1 := setc (offset + (zlen bs - zlen rest')) s in
          (* yield header *)
          do (hev, s2) <- next_hook hooks s1;
          do oal <- cint header "offset_after_length";
          do ul <- cint header "unit_length";
          do (more, s3) <- iter_CUs_sess f L stream setc (oal + ul) (tl hooks) s2;
          Ok ((header', hev) :: more, s3)
        else Ok ([], s)
    end.

  Definition iter_CUs_loc_sess (hooks : list hook) (s : sess) :=
    let stream := loc_stream 5 in
    iter_CUs_sess (Datatypes.S (length stream)) LL stream set_ll 0 hooks (set_ll 0 s).
  Definition iter_CUs_rng_sess (hooks : list hook) (s : sess) :=
    let stream := rng_stream 5 in
    iter_CUs_sess (Datatypes.S (length stream)) LR stream set_rl 0 hooks (set_rl 0 s).

  (* RangeLists.iter_CU_range_lists_ex(cu): reads at stream.tell() = ss_rl *)
  Fixpoint range_lists_ex_sess (fuel : nat) (end_pos : Z) (hooks : list hook) (s : sess)
    : res (list (list container * list ev) * sess) :=
    match fuel with
    | O => Err EFuel
    | Datatypes.S f =>
        let stream := rng_stream 5 in
        let pos := ss_rl s in
        if pos <? end_pos then
          let bs := at_pos stream pos in
          do (es, rest) <- parse_entries (Datatypes.S (length bs)) (s_le S) (s_asz S) TR bs pos;
          let s1 := set_rl (pos + (zlen bs - zlen rest)) s in
          (* yield the list *)
          do (hev, s2) <- next_hook hooks s1;
          do (more, s3) <- range_lists_ex_sess f end_pos (tl hooks) s2;
          Ok ((es, hev) :: more, s3)
        else Ok ([], s)
    end.

  Definition iter_CU_range_lists_ex_sess (cu : container) (hooks : list hook) (s : sess)
    : res (list (list container * list ev) * sess) :=
    do oto <- cint cu "offset_table_offset";
    do is64 <- cbool cu "is64";
    do cnt <- cint cu "offset_count";
    do oal <- cint cu "offset_after_length";
    do ul <- cint cu "unit_length";
    range_lists_ex_sess (Datatypes.S (length (rng_stream 5))) (oal + ul) hooks
                        (set_rl (oto + (if is64 then 8 else 4) * cnt) s).

  (* blocks = list(rl.iter_CUs()); rl.iter_CU_range_lists_ex(blocks[ui]) *)
  Definition iter_block_lists_sess (ui : nat) (hooks : list hook) (s : sess)
    : res (list (list container * list ev) * sess) :=
    do (blocks, s1) <- iter_CUs_rng_sess [] s;
    match nth_error blocks ui with
    | None => Err (EPy "IndexError")
    | Some b => iter_CU_range_lists_ex_sess (fst b) hooks s1
    end.

  (* ---------------------------------------------------------------- whole sessions *)
  Inductive op : Type :=
  | OAct (a : act)
  | OIterLoc (version : Z) (sched : list (list act))     (* LocationLists(gen).iter_location_lists() *)
  | OIterRng (version : Z) (sched : list (list act))     (* RangeLists(gen).iter_range_lists() *)
  | OIterCUsLoc (sched : list (list act))                (* LocationLists(5).iter_CUs() *)
  | OIterCUsRng (sched : list (list act))                (* RangeLists(5).iter_CUs() *)
  | OIterCUEx (ui : nat) (sched : list (list act)).
      (* RangeLists(5).iter_CU_range_lists_ex(list(RangeLists(5).iter_CUs())[ui]) *)

  Definition flat {Y} (mk : Y -> ev) (ys : list (Y * list ev)) : list ev :=
    flat_map (fun y => mk (fst y) :: snd y) ys.

  Definition run_op (o : op) (s : sess) : res (list ev * sess) :=
    match o with
    | OAct a => run_act a s
    | OIterLoc version sched =>
        do (ys, s') <- iter_location_lists_sess version (map run_acts sched) s;
        Ok (flat (ETups "iter_location_lists") ys, s')
    | OIterRng version sched =>
        do (ys, s') <- iter_range_lists_sess version (map run_acts sched) s;
        Ok (flat (ETups "iter_range_lists") ys, s')
    | OIterCUsLoc sched =>
        do (ys, s') <- iter_CUs_loc_sess (map run_acts sched) s;
        Ok (flat (EHdr "LocationLists.iter_CUs") ys, s')
    | OIterCUsRng sched =>
        do (ys, s') <- iter_CUs_rng_sess (map run_acts sched) s;
        Ok (flat (EHdr "RangeLists.iter_CUs") ys, s')
    | OIterCUEx ui sched =>
        do (ys, s') <- iter_block_lists_sess ui (map run_acts sched) s;
        Ok (flat (ERaw "iter_CU_range_lists_ex") ys, s')
    end.

  (* the events of the operations that completed, and the exception that ended the session if any *)
  Fixpoint run_ops (ops : list op) (s : sess) : list ev * option err :=
    match ops with
    | [] => ([], None)
    | o :: r =>
        match run_op o s with
        | Err e => ([], Some e)
        | Ok (evs, s') => let (t, e) := run_ops r s' in (evs ++ t, e)
        end
    end.

  (* ---------------------------------------------------------------- which actions read which stream *)
  (* the generation of the section a fetch through a DIE of unit k reads *)
  Definition fetch_is_v5 (obj : lists_obj) (k : nat) : bool :=
    match nth_error cus k with
    | Some cv => match obj_version obj (cuinfo_of cv) with Ok v => 5 <=? v | Err _ => false end
    | None => false
    end.
  (* may move the .debug_loclists cursor *)
  Definition act_moves_ll (a : act) : bool :=
    match a with
    | AFetch k _ name => negb (String.eqb name "DW_AT_ranges")
                         && fetch_is_v5 (lists_object (has (s_loc S)) (has (s_loclists S))) k
    | _ => false
    end.
  (* may move the .debug_rnglists cursor *)
  Definition act_moves_rl (a : act) : bool :=
    match a with
    | AFetch k _ name => String.eqb name "DW_AT_ranges"
                         && fetch_is_v5 (lists_object (has (s_ranges S)) (has (s_rnglists S))) k
    | AGetRngEx _ => true
    | AParse _ _ => false
    end.
  Definition sched_quiet (moves : act -> bool) (sched : list (list act)) : bool :=
    forallb (fun l => forallb (fun a => negb (moves a)) l) sched.

  (* the interleavings under which an enumeration is required to be exact *)
  Definition op_in_domain (o : op) : bool :=
    match o with
    | OIterLoc version sched => if 5 <=? version then sched_quiet act_moves_ll sched else true
    | OIterCUEx _ sched => sched_quiet act_moves_rl sched
    | _ => true
    end.
End Session.
