(* Model/C12Expr.v — transliteration of elftools/dwarf/dwarf_expr.py
   (DWARFExprParser.parse_expr, the operand parsers of _init_dispatch_table) and
   common/utils.py read_blob.  The DATA of the module (DW_OP_opcode2name and the
   dispatch table) is not modelled by hand: it is Gen/C12Tables.v, regenerated
   from the live module on every run.  No proofs here. *)
From PV Require Export Base.Outcome Base.Prim Spec.C12Kinds Gen.C12Tables.
Open Scope string_scope.
Open Scope Z_scope.

(* ---- dwarf/structs.py _create_structs: the primitive readers the table uses.
   struct_parse wraps every ConstructError into ELFParseError: Err EParse. *)
Definition target_addr_size (c : cfg) : nat :=       (* ULInt32 if address_size == 4 else ULInt64 *)
  if c_addr c =? 4 then 4%nat else 8%nat.
Definition offset_size (c : cfg) : nat :=            (* ULInt32 if dwarf_format == 32 else ULInt64 *)
  if c_fmt c =? 32 then 4%nat else 8%nat.

Definition read_atom (c : cfg) (k : opkind) : option (dec Z) :=
  let le := c_le c in
  match k with
  | U1 => Some (uint_decode le 1)            (* structs.the_Dwarf_uint8 *)
  | S1 => Some (sint_decode_n le 1)          (* structs.Dwarf_int8('') *)
  | U2 => Some (uint_decode le 2)            (* structs.the_Dwarf_uint16 *)
  | S2 => Some (sint_decode_n le 2)          (* structs.Dwarf_int16('') *)
  | U4 => Some (uint_decode le 4)            (* structs.the_Dwarf_uint32 *)
  | S4 => Some (sint_decode_n le 4)          (* structs.Dwarf_int32('') *)
  | U8 => Some (uint_decode le 8)            (* structs.Dwarf_uint64('') *)
  | S8 => Some (sint_decode_n le 8)          (* structs.Dwarf_int64('') *)
  | ULEB => Some uleb_decode                 (* structs.the_Dwarf_uleb128 *)
  | SLEB => Some sleb_decode                 (* structs.the_Dwarf_sleb128 *)
  | ADDR => Some (uint_decode le (target_addr_size c))   (* structs.the_Dwarf_target_addr *)
  | OFFSET => Some (uint_decode le (offset_size c))      (* structs.the_Dwarf_offset *)
  | _ => None
  end.

(* struct_parse(con, stream) *)
Definition struct_parse {A} (d : dec A) (bs : list Z) : res (A * list Z) := of_opt EParse (d bs).

(* common/utils.py read_blob(stream, length):
     [struct_parse(ULInt8(''), stream) for i in range(length)]
   a short stream fails on the first missing byte with ELFParseError *)
Definition read_blob (length : Z) (bs : list Z) : res (list Z * list Z) :=
  if zlen bs <? length then Err EParse        (* (compared in Z so that a huge length costs nothing) *)
  else of_opt EParse (take (Z.to_nat length) bs).

(* one operand kind = one of the closures of _init_dispatch_table, applied to the
   stream; returns the argument values it contributes and the rest of the stream.
   [self] is DWARFExprParser(structs).parse_expr (the recursive call). *)
Definition parse_kind (self : list Z -> res (list pval)) (c : cfg) (k : opkind) (bs : list Z)
  : res (list pval * list Z) :=
  match k with
  | BLOCK =>            (* parse_blob: [read_blob(stream, struct_parse(uleb128, stream))] *)
      do (size, r) <- struct_parse uleb_decode bs;
      do (blob, t) <- read_blob size r;
      Ok ([ABlob blob], t)
  | TYPEDBLOCK =>       (* parse_typedblob: [struct_parse(uleb128), read_blob(stream, struct_parse(uint8))] *)
      do (ty, r) <- struct_parse uleb_decode bs;
      do (n, r2) <- struct_parse (uint_decode (c_le c) 1) r;
      do (blob, t) <- read_blob n r2;
      Ok ([AInt ty; ABlob blob], t)
  | NESTED =>           (* parse_nestedexpr: size, read_blob, DWARFExprParser(structs).parse_expr(blob) *)
      do (size, r) <- struct_parse uleb_decode bs;
      do (blob, t) <- read_blob size r;
      do inner <- self blob;
      Ok ([AExpr inner], t)
  | WASM =>             (* parse_wasmloc *)
      do (op, r) <- struct_parse (uint_decode (c_le c) 1) bs;
      if (0 <=? op) && (op <=? 2) then
        do (v, t) <- struct_parse uleb_decode r; Ok ([AInt op; AInt v], t)
      else if op =? 3 then
        do (v, t) <- struct_parse (uint_decode (c_le c) 4) r; Ok ([AInt op; AInt v], t)
      else Err EDwarf   (* raise DWARFError("Unknown operation code in DW_OP_WASM_location") *)
  | _ =>                (* parse_arg_struct / parse_op_addr: [struct_parse(arg_struct, stream)] *)
      match read_atom c k with
      | Some d => do (v, t) <- struct_parse d bs; Ok ([AInt v], t)
      | None => Err EFuel
      end
  end.

(* parse_noargs / parse_arg_struct / parse_arg_struct2: the operands in order *)
Fixpoint parse_args (self : list Z -> res (list pval)) (c : cfg) (ks : list opkind) (bs : list Z)
  : res (list pval * list Z) :=
  match ks with
  | [] => Ok ([], bs)
  | k :: ks' =>
      do (a, r) <- parse_kind self c k bs;
      do (more, t) <- parse_args self c ks' r;
      Ok ((a ++ more)%list, t)
  end.

(* 'OP:0x%x' % op *)
Definition hexdigit (d : Z) : string :=
  String (Ascii.ascii_of_nat (Z.to_nat (if d <? 10 then 48 + d else 87 + d))) EmptyString.
Fixpoint hex_go (fuel : nat) (v : Z) (acc : string) : string :=
  match fuel with
  | O => acc
  | S f => let acc' := (hexdigit (v mod 16) ++ acc)%string in
           if v / 16 =? 0 then acc' else hex_go f (v / 16) acc'
  end.
Definition hex (v : Z) : string := hex_go 64 v "".

(* DW_OP_opcode2name.get(op, 'OP:0x%x' % op) *)
Definition opcode2name (op : Z) : string :=
  match zlookup gen_DW_OP_opcode2name op with
  | Some n => n
  | None => ("OP:0x" ++ hex op)%string
  end.

(* parse_expr: while True: offset = stream.tell(); byte = stream.read(1); if not byte: break;
   op = ord(byte); op_name = ...; arg_parser = self._dispatch_table[op] (KeyError when absent);
   args = arg_parser(stream); parsed.append(DWARFExprOp(op, op_name, args, offset)).
   [pos] is stream.tell() at the loop head.  Both the loop and the nested call act
   on strictly fewer bytes, so fuel = 1 + len(expr) is never exhausted. *)
Fixpoint parse_expr_fuel (fuel : nat) (c : cfg) (bs : list Z) (pos : Z) : res (list pval) :=
  match fuel with
  | O => Err EFuel
  | S f =>
      match bs with
      | [] => Ok []
      | op :: r =>
          let op_name := opcode2name op in
          match zlookup gen_dispatch op with
          | None => Err (EPy "KeyError")
          | Some ks =>
              match parse_args (fun blob => parse_expr_fuel f c blob 0) c ks r with
              | Err e => Err e
              | Ok (args, rest) =>
                  match parse_expr_fuel f c rest (pos + (zlen bs - zlen rest)) with
                  | Err e => Err e
                  | Ok tl => Ok (POp op op_name args pos :: tl)
                  end
              end
          end
      end
  end.

Definition parse_expr (c : cfg) (expr : list Z) : res (list pval) :=
  parse_expr_fuel (S (length expr)) c expr 0.
