(* Model/C20Ehabi.v — transliteration of elftools/ehabi/ehabiinfo.py (EHABIInfo.num_entry,
   get_entry, arm_expand_prel31) and elftools/ehabi/decoder.py (EHABIBytecodeDecoder._decode
   and its handlers).  The dispatch table [gen_ehabi_ring] comes from Gen/C20Tables.v;
   handlers are looked up by their Python function name.
   No proofs here: see Proofs/C20Ehabi.v. *)
From PV Require Export Base.Bytes Base.Outcome Base.Prim Model.C20Types Gen.C20Tables.
Open Scope string_scope.
Open Scope list_scope.
Open Scope Z_scope.
Infix "+++" := String.append (at level 60, right associativity).

(* ---------------- ehabiinfo.py ---------------- *)

(* arm_expand_prel31(address, place):
     location = address & 0x7fffffff
     if location & 0x40000000: location |= 0xffffffff80000000
     return location + place & 0xffffffffffffffff *)
Definition arm_expand_prel31 (address place : Z) : Z :=
  let location := Z.land address 0x7fffffff in
  let location :=
    if negb (Z.land location 0x40000000 =? 0) then Z.lor location 0xffffffff80000000 else location in
  Z.land (location + place) 0xffffffffffffffff.

(* struct_parse(EHABI_uint32, stream, stream_pos=off) / a relative read.  An offset that
   does not fit a C ssize_t makes BytesIO.seek raise OverflowError. *)
Definition p_u32 (le : bool) (bs : list Z) : res (Z * list Z) := of_opt EParse (uint_decode le 4 bs).
Definition seek_chk (img : list Z) (off : Z) : res (list Z) :=
  if 2 ^ 63 <=? off then Err (EPy "OverflowError") else Ok (seek img off).

(* for i in range(more_word): r = struct_parse(EH_table_struct, stream)['word0'];
   opcode += [(r >> 24) & 0xFF, (r >> 16) & 0xFF, (r >> 8) & 0xFF, (r >> 0) & 0xFF] *)
Fixpoint more_words (le : bool) (n : nat) (bs : list Z) : res (list Z) :=
  match n with
  | O => Ok []
  | S k =>
      do (r, rest) <- p_u32 le bs;
      do l <- more_words le k rest;
      Ok (Z.land (Z.shiftr r 24) 0xFF :: Z.land (Z.shiftr r 16) 0xFF
          :: Z.land (Z.shiftr r 8) 0xFF :: Z.land (Z.shiftr r 0) 0xFF :: l)
  end.

Definition mk_entry (fn : Z) (pers : option Z) (bc : option (list Z)) (tbl : option Z) : eh_out :=
  {| eo_function_offset := Some fn; eo_personality := pers; eo_bytecode := bc;
     eo_eh_table_offset := tbl; eo_unwindable := true; eo_corrupt := false |}.
Definition mk_corrupt : eh_out :=            (* CorruptEHABIEntry *)
  {| eo_function_offset := None; eo_personality := None; eo_bytecode := None;
     eo_eh_table_offset := None; eo_unwindable := true; eo_corrupt := true |}.
Definition mk_cantunwind (fn : Z) : eh_out := (* CannotUnwindEHABIEntry *)
  {| eo_function_offset := Some fn; eo_personality := None; eo_bytecode := None;
     eo_eh_table_offset := None; eo_unwindable := false; eo_corrupt := false |}.

(* EHABIInfo.num_entry: sh_size // EHABI_INDEX_ENTRY_SIZE *)
Definition num_entry (sh_size : Z) : Z := sh_size / gen_ehabi_index_entry_size.

(* EHABIInfo.get_entry(n), third part: the entry points into .ARM.extab
     eh_index_data = struct_parse(EH_table_struct, stream, eh_table_offset); word0 = ...['word0'] *)
Definition decode_table_entry (img : list Z) (le : bool) (function_offset eh_table_offset : Z)
  : res eh_out :=
  do t0 <- seek_chk img eh_table_offset;
  do (word0, _) <- p_u32 le t0;
  if Z.land word0 0x80000000 =? 0 then
    (* generic model *)
    Ok (mk_entry function_offset (Some (arm_expand_prel31 word0 eh_table_offset)) None None)
  else
    (* arm compact model; highest half must be 0b1000 *)
    if negb (Z.land word0 0x70000000 =? 0) then Ok mk_corrupt
    else
      let per_index := Z.land (Z.shiftr word0 24) 0x7f in
      if per_index =? 0 then
        let opcode := [Z.shiftr (Z.land word0 0xFF0000) 16; Z.shiftr (Z.land word0 0xFF00) 8;
                       Z.land word0 0xFF] in
        Ok (mk_entry function_offset (Some per_index) (Some opcode) None)
      else if (per_index =? 1) || (per_index =? 2) then
        let more_word := Z.land (Z.shiftr word0 16) 0xff in
        let opcode := [Z.land (Z.shiftr word0 8) 0xff; Z.land (Z.shiftr word0 0) 0xff] in
        (* self._arm_idx_section.stream.seek(eh_table_offset + 4) *)
        do t4 <- seek_chk img (eh_table_offset + 4);
        do more <- more_words le (Z.to_nat more_word) t4;
        Ok (mk_entry function_offset (Some per_index) (Some (opcode ++ more)) (Some eh_table_offset))
      else Ok mk_corrupt.

(* EHABIInfo.get_entry(n), second part: classification of (word0, word1) read at
   place = section_offset() + n * EHABI_INDEX_ENTRY_SIZE *)
Definition decode_index_words (img : list Z) (le : bool) (place word0 word1 : Z) : res eh_out :=
  if negb (Z.land word0 0x80000000 =? 0) then Ok mk_corrupt else
  let function_offset := arm_expand_prel31 word0 place in
  if word1 =? 1 then Ok (mk_cantunwind function_offset)       (* 0x1 means cannot unwind *)
  else if Z.land word1 0x80000000 =? 0 then
    (* highest bit is zero, point to .ARM.extab data *)
    let eh_table_offset := arm_expand_prel31 word1 (place + 4) in
    decode_table_entry img le function_offset eh_table_offset
  else
    (* highest bit is one, compact model must be 0 *)
    if negb (Z.land word1 0x7f000000 =? 0) then Ok mk_corrupt
    else
      let opcode := [Z.shiftr (Z.land word1 0xFF0000) 16; Z.shiftr (Z.land word1 0xFF00) 8;
                     Z.land word1 0xFF] in
      Ok (mk_entry function_offset (Some 0) (Some opcode) None).

(* EHABIInfo.get_entry(n), first part: bounds check and the two index words *)
Definition get_entry (img : list Z) (le : bool) (sh_offset sh_size n : Z) : res eh_out :=
  if num_entry sh_size <=? n then Err (EPy "IndexError") else
  let eh_index_entry_offset := sh_offset + n * gen_ehabi_index_entry_size in
  do s0 <- seek_chk img eh_index_entry_offset;
  do (word0, s1) <- p_u32 le s0;
  do (word1, _) <- p_u32 le s1;
  decode_index_words img le (sh_offset + n * gen_ehabi_index_entry_size) word0 word1.

(* ---------------- decoder.py ---------------- *)

(* for mask, value, handler in self.ring: if (byte & mask) == value: ... break *)
Fixpoint ring_find (ring : list (Z * Z * string)) (b : Z) : option string :=
  match ring with
  | [] => None
  | (mask, value, h) :: r => if Z.land b mask =? value then Some h else ring_find r b
  end.

Definition gpr_register_names : list string :=
  ["r0"; "r1"; "r2"; "r3"; "r4"; "r5"; "r6"; "r7"; "r8"; "r9"; "r10"; "fp"; "ip"; "sp"; "lr"; "pc"].
Definition range32 : list Z := map Z.of_nat (seq 0 32).
Definition braces_join (hits : list string) : string := "{" +++ join ", " hits +++ "}".

(* _calculate_range(start, count): ((1 << (count + 1)) - 1) << start *)
Definition calculate_range (start count : Z) : Z := Z.shiftl (Z.shiftl 1 (count + 1) - 1) start.
(* _printGPR(gpr_mask) *)
Definition printGPR (gpr_mask : Z) : string :=
  braces_join (map (fun i => nth (Z.to_nat i) gpr_register_names "")
                   (filter (fun i => negb (Z.land gpr_mask (Z.shiftl 1 i) =? 0)) range32)).
(* _print_registers(vfp_mask, prefix) *)
Definition print_registers (vfp_mask : Z) (prefix : string) : string :=
  braces_join (map (fun i => prefix +++ dec_string i)
                   (filter (fun i => negb (Z.land vfp_mask (Z.shiftl 1 i) =? 0)) range32)).

(* Every handler reads the opcode at _index, possibly one operand byte after it, and
   advances _index past what it read; the 0xb2 handler reads a uleb128.  A handler is
   modelled by how much it consumes and by the text it returns. *)
Inductive hshape : Type :=
| H1        (* self._index += 1 *)
| H2        (* self._index += 2, reads _bytecode_array[_index + 1] *)
| HUleb.    (* _decode_10110010_uleb128 *)

Definition handler_shape (h : string) : option hshape :=
  if mem_str h ["_decode_00xxxxxx"; "_decode_01xxxxxx"; "_decode_10011101"; "_decode_10011111";
                "_decode_1001nnnn"; "_decode_10100nnn"; "_decode_10101nnn"; "_decode_10110000";
                "_decode_101101nn"; "_decode_10111nnn"; "_decode_11001yyy"; "_decode_11000nnn";
                "_decode_11010nnn"; "_decode_11xxxyyy"] then Some H1
  else if mem_str h ["_decode_1000iiii_iiiiiiii"; "_decode_10110001_0000iiii";
                     "_decode_10110011_sssscccc"; "_decode_11000110_sssscccc";
                     "_decode_11000111_0000iiii"; "_decode_11001000_sssscccc";
                     "_decode_11001001_sssscccc"] then Some H2
  else if (h =? "_decode_10110010_uleb128")%string then Some HUleb
  else None.

(* the one-byte handlers: returned text as a function of opcode = _bytecode_array[_index] *)
Definition h1_text (h : string) (opcode : Z) : string :=
  if (h =? "_decode_00xxxxxx")%string then
    "vsp = vsp + " +++ dec_string (Z.shiftl (Z.land opcode 0x3f) 2 + 4)
  else if (h =? "_decode_01xxxxxx")%string then
    "vsp = vsp - " +++ dec_string (Z.shiftl (Z.land opcode 0x3f) 2 + 4)
  else if (h =? "_decode_10011101")%string then "reserved (ARM MOVrr)"
  else if (h =? "_decode_10011111")%string then "reserved (WiMMX MOVrr)"
  else if (h =? "_decode_1001nnnn")%string then "vsp = r" +++ dec_string (Z.land opcode 0x0f)
  else if (h =? "_decode_10100nnn")%string then
    "pop " +++ printGPR (calculate_range 4 (Z.land opcode 0x07))
  else if (h =? "_decode_10101nnn")%string then
    "pop " +++ printGPR (Z.lor (calculate_range 4 (Z.land opcode 0x07)) (Z.shiftl 1 14))
  else if (h =? "_decode_10110000")%string then "finish"
  else if (h =? "_decode_101101nn")%string then "spare"                   (* _spare() *)
  else if (h =? "_decode_10111nnn")%string then
    "pop " +++ print_registers (calculate_range 8 (Z.land opcode 0x07)) "d"
  else if (h =? "_decode_11001yyy")%string then "spare"
  else if (h =? "_decode_11000nnn")%string then
    "pop " +++ print_registers (calculate_range 10 (Z.land opcode 0x07)) "wR"
  else if (h =? "_decode_11010nnn")%string then                           (* = _decode_10111nnn *)
    "pop " +++ print_registers (calculate_range 8 (Z.land opcode 0x07)) "d"
  else "spare".                                                           (* _decode_11xxxyyy *)

(* the two-byte handlers: op0 = _bytecode_array[_index], op1 = _bytecode_array[_index + 1] *)
Definition h2_text (h : string) (op0 op1 : Z) : string :=
  if (h =? "_decode_1000iiii_iiiiiiii")%string then
    let gpr_mask := Z.lor (Z.shiftl op1 4) (Z.shiftl (Z.land op0 0x0f) 12) in
    if gpr_mask =? 0 then "refuse to unwind" else "pop " +++ printGPR gpr_mask
  else if (h =? "_decode_10110001_0000iiii")%string then
    if negb (Z.land op1 0xf0 =? 0) || (op1 =? 0x00) then "spare"
    else "pop " +++ printGPR (Z.land op1 0x0f)
  else if (h =? "_decode_11000110_sssscccc")%string then
    let start := Z.shiftr (Z.land op1 0xf0) 4 in
    let count := Z.shiftr (Z.land op1 0x0f) 0 in
    "pop " +++ print_registers (calculate_range start count) "wR"
  else if (h =? "_decode_11000111_0000iiii")%string then
    if negb (Z.land op1 0xf0 =? 0) || (op1 =? 0x00) then "spare"
    else "pop " +++ print_registers (Z.land op1 0x0f) "wCGR"
  else if (h =? "_decode_11001000_sssscccc")%string then
    let start := 16 + Z.shiftr (Z.land op1 0xf0) 4 in
    let count := Z.shiftr (Z.land op1 0x0f) 0 in
    "pop " +++ print_registers (calculate_range start count) "d"
  else                              (* _decode_11001001_sssscccc, _decode_10110011_sssscccc *)
    let start := Z.shiftr (Z.land op1 0xf0) 4 in
    let count := Z.shiftr (Z.land op1 0x0f) 0 in
    "pop " +++ print_registers (calculate_range start count) "d".

(* _decode_10110010_uleb128, after the constant byte:
     uleb_buffer = [arr[i]]; i += 1
     while uleb_buffer[-1] & 0x80 != 0: uleb_buffer.append(arr[i]); i += 1
   running off the array is an IndexError *)
Fixpoint collect_uleb (bs : list Z) : res (list Z * list Z) :=
  match bs with
  | [] => Err (EPy "IndexError")
  | b :: r =>
      if Z.land b 0x80 =? 0 then Ok ([b], r)
      else do (l, t) <- collect_uleb r; Ok (b :: l, t)
  end.
(*   value = 0
     for b in reversed(uleb_buffer): value = (value << 7) + (b & 0x7F)
     return 'vsp = vsp + %u' % (0x204 + (value << 2)) *)
Definition uleb_buffer_value (buf : list Z) : Z :=
  fold_left (fun value b => Z.shiftl value 7 + Z.land b 0x7F) (rev buf) 0.
Definition uleb_text (buf : list Z) : string :=
  "vsp = vsp + " +++ dec_string (0x204 + Z.shiftl (uleb_buffer_value buf) 2).

(* EHABIBytecodeDecoder._decode: [bs] is _bytecode_array[_index:]; one MnemonicItem
   (bytecode slice, mnemonic) per instruction.  If no ring entry matched, the Python
   loop would spin without advancing: reported as running out of fuel. *)
Fixpoint bc_decode_go (fuel : nat) (bs : list Z) : res (list (list Z * string)) :=
  match bs with
  | [] => Ok []
  | b :: rest =>
      match fuel with
      | O => Err EFuel
      | S f =>
          match ring_find gen_ehabi_ring b with
          | None => Err EFuel
          | Some h =>
              match handler_shape h with
              | None => Err (EPy "unmodelled-handler")
              | Some H1 =>
                  do l <- bc_decode_go f rest; Ok (([b], h1_text h b) :: l)
              | Some H2 =>
                  match rest with
                  | [] => Err (EPy "IndexError")
                  | op1 :: rest' =>
                      do l <- bc_decode_go f rest'; Ok (([b; op1], h2_text h b op1) :: l)
                  end
              | Some HUleb =>
                  do (buf, rest') <- collect_uleb rest;
                  do l <- bc_decode_go f rest'; Ok ((b :: buf, uleb_text buf) :: l)
              end
          end
      end
  end.
Definition bc_decode (bs : list Z) : res (list (list Z * string)) :=
  bc_decode_go (List.length bs) bs.

(* EHABIEntry.mnmemonic_array(): None when bytecode_array is None or empty *)
Definition mnemonic_array (r : eh_out) : res (option (list (list Z * string))) :=
  match eo_bytecode r with
  | None | Some [] => Ok None
  | Some bc => do l <- bc_decode bc; Ok (Some l)
  end.
