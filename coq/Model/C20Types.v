(* Model/C20Types.v — result shapes shared by the C20 model and specification, the
   model of a seekable stream, and Python's '%u' formatting.  No proofs here. *)
From PV Require Export Base.Bytes Base.Outcome.
From Coq Require Export String.
From Coq Require Import DecimalString DecimalN.

(* ---- what an Attribute object shows: (tag, value, extra) ----
   value : int | str | nested Attribute;   extra : None | [int] | str *)
Inductive oextra : Type :=
| XNone
| XNums (l : list Z)
| XStr (s : list Z).
Inductive oval : Type :=
| OInt (z : Z)
| OStr (s : list Z)
| ONest (name : string) (v : oval) (e : oextra).
Definition oattr : Type := (string * oval * oextra)%type.
(* a sub-subsection: its header attribute and its attributes *)
Definition osub : Type := (oattr * list oattr)%type.
(* a subsection: header['length'], header['vendor_name'], sub-subsections *)
Definition osubsec : Type := (Z * list Z * list osub)%type.

(* ---- what an EHABIEntry shows ---- *)
Record eh_out : Type := {
  eo_function_offset : option Z;
  eo_personality : option Z;
  eo_bytecode : option (list Z);
  eo_eh_table_offset : option Z;
  eo_unwindable : bool;
  eo_corrupt : bool }.

(* ---- stream.seek(off) followed by reads: the bytes from [off] on.  Offsets past
        the end read nothing (BytesIO).  The test against the length also keeps
        [Z.to_nat] away from huge numbers. ---- *)
Definition seek (img : list Z) (off : Z) : list Z :=
  if off <? 0 then [] else if zlen img <=? off then [] else skipn (Z.to_nat off) img.
(* stream.tell() after having read everything up to [rest] *)
Definition tell (img rest : list Z) : Z := zlen img - zlen rest.

(* ---- '%u' % n for n >= 0 ---- *)
Definition dec_string (n : Z) : string := NilZero.string_of_uint (N.to_uint (Z.to_N n)).

(* ', '.join(l) *)
Fixpoint join (sep : string) (l : list string) : string :=
  match l with
  | [] => EmptyString
  | [x] => x
  | x :: r => (x ++ sep ++ join sep r)%string
  end.

(* s in (a, b, c) for strings *)
Fixpoint mem_str (s : string) (l : list string) : bool :=
  match l with [] => false | x :: r => (s =? x)%string || mem_str s r end.

(* mapping a fallible function over a list, left to right *)
Fixpoint map_res {A B} (f : A -> res B) (l : list A) : res (list B) :=
  match l with
  | [] => Ok []
  | x :: r => do y <- f x; do ys <- map_res f r; Ok (y :: ys)
  end.
