(* Model/C11Dwarf.v — transliteration of the container logic property C11 is
   anchored in (no proofs here):
     elftools/elf/elffile.py   has_section, get_section_by_name, has_dwarf_info,
                               get_dwarf_info, has_dwarf_link, get_dwarf_link,
                               get_supplementary_dwarfinfo, _read_dwarf_section,
                               _decompress_dwarf_section, has_phantom_bytes
     elftools/elf/sections.py  Section.__init__ (compressed), data_size, data()
     elftools/elf/relocation.py RelocationHandler.find_relocations_for_section
     elftools/elf/structs.py   Gnu_debuglink
     elftools/dwarf/dwarf_util.py _file_crc32 (binascii.crc32)
     elftools/dwarf/dwarfinfo.py  parse_debugsupinfo (Dwarf_debugsup, Dwarf_debugaltlink)
   zlib is the Section variable [inflate]; the file system behind stream_loader
   is a function name -> option bytes; applying relocations is C08's subject and
   is recorded symbolically (the index of the relocation section that
   apply_section_relocations receives, together with the stream content at that
   moment, which the harness observes). *)
From PV Require Import Base.Outcome Base.Fmt Base.Prim Gen.ElfLayouts Spec.C11Container Model.C11Elf.
Open Scope Z_scope.

(* ---------- binascii.crc32, bit by bit (zlib's crc32 without its table) ---------- *)
Definition CRC_POLY_REFLECTED : Z := 0xEDB88320.
Definition crc_bit (c : Z) : Z :=
  if Z.odd c then Z.lxor (Z.shiftr c 1) CRC_POLY_REFLECTED else Z.shiftr c 1.
Definition crc_byte (c b : Z) : Z := Nat.iter 8 crc_bit (Z.lxor c b).
(* binascii.crc32(data, value): value is the running (already complemented) checksum *)
Definition crc32_update (value : Z) (data : list Z) : Z :=
  Z.lxor (fold_left crc_byte data (Z.lxor value 0xFFFFFFFF)) 0xFFFFFFFF.
Definition crc32_model (data : list Z) : Z := crc32_update 0 data.

(* _file_crc32: d = file.read(4096); while d: checksum = crc32(d, checksum) *)
Fixpoint file_crc32_go (fuel : nat) (rest : list Z) (checksum : Z) : Z :=
  match fuel with
  | O => checksum
  | S f =>
      let d := firstn 4096 rest in
      match d with
      | [] => checksum
      | _ => file_crc32_go f (skipn 4096 rest) (crc32_update checksum d)
      end
  end.
Definition file_crc32 (file : list Z) : Z := file_crc32_go (S (length file)) file 0.

(* Section.data checks `decomp.eof` since the C02 repair (commit d25be29); the
   unrepaired reading (false) is kept for the _refuted theorem of Props/C11.v. *)
Definition GABI_EOF_CHECK : bool := true.

Section Model.
Variable inflate : list Z -> Z -> option (list Z * bool).

(* ---------- Section objects ---------- *)
Record section := mkSection {
  sc_sec : sec;
  sc_compressed : bool;          (* header['sh_flags'] & SHF_COMPRESSED *)
  sc_ctype : Z;                  (* _compression_type (raw ch_type) *)
  sc_dsize : Z                   (* _decompressed_size = data_size *)
}.

(* Section.__init__ *)
Definition make_section (e : elf) (s : sec) : res section :=
  if negb (Z.land (s_flags s) SHF_COMPRESSED =? 0) then
    match decode_layout (gen_Elf_Chdr (e_le e) (e_is64 e)) (s_stream s) with
    | Some (h, _) => Ok (mkSection s true (rec_z h "ch_type") (rec_z h "ch_size"))
    | None => Err EParse
    end
  else Ok (mkSection s false 0 (s_size s)).

(* Section.data() *)
Definition section_data_gen (eofchk : bool) (e : elf) (sc : section) : res (list Z) :=
  let s := sc_sec sc in
  if s_type s =? SHT_NOBITS then Ok (repeat 0 (Z.to_nat (sc_dsize sc)))
  else if sc_compressed sc then
    if sc_ctype sc =? ELFCOMPRESS_ZLIB then
      let hdr_size := chdr_size (e_is64 e) in
      let compressed := py_read (s_size s - Z.of_nat hdr_size) (skipn hdr_size (s_stream s)) in
      (* max_length is a C ssize_t *)
      if 2 ^ 63 <=? sc_dsize sc then Err (EPy "OverflowError") else
      match inflate compressed (sc_dsize sc) with
      | None => Err (EPy "error")                       (* zlib.error *)
      | Some (result, eof) =>
          if eofchk && negb eof then Err ECompress
          else if negb (zlen result =? sc_dsize sc) then Err ECompress
          else Ok result
      end
    else Err ECompress
  else Ok (firstn (Z.to_nat (sc_dsize sc)) (s_stream s)).
Definition section_data := section_data_gen GABI_EOF_CHECK.

(* ---------- the name map ---------- *)
(* _make_section_name_map: every section is constructed; dict[name] = i *)
Fixpoint name_map_from (e : elf) (i : nat) (l : list sec) : res (list (list Z * nat)) :=
  match l with
  | [] => Ok []
  | s :: r =>
      do _ <- make_section e s;
      do m <- name_map_from e (S i) r;
      Ok ((s_name s, i) :: m)
  end.
Definition name_map (e : elf) : res (list (list Z * nat)) := name_map_from e 0 (e_secs e).

(* dict lookup: the last assignment for a key wins *)
Fixpoint map_get (m : list (list Z * nat)) (n : list Z) : option nat :=
  match m with
  | [] => None
  | (k, i) :: r =>
      match map_get r n with
      | Some j => Some j
      | None => if bytes_eqb k n then Some i else None
      end
  end.

Definition has_section (e : elf) (n : list Z) : res bool :=
  do m <- name_map e;
  Ok (match map_get m n with Some _ => true | None => false end).

Definition get_section_by_name (e : elf) (n : list Z) : res (option section) :=
  do m <- name_map e;
  match map_get m n with
  | None => Ok None
  | Some i =>
      match nth_error (e_secs e) i with
      | Some s => do sc <- make_section e s; Ok (Some sc)
      | None => Err (EPy "TypeError")
      end
  end.

(* has_dwarf_info(strict) *)
Definition has_dwarf_info (e : elf) (strict : bool) : res bool :=
  do a <- has_section e n_debug_info;
  if a then Ok true else
  do b <- has_section e n_zdebug_info;
  if b then Ok true else
  if negb strict then has_section e n_eh_frame else Ok false.

(* has_dwarf_link / get_dwarf_link *)
Definition has_dwarf_link (e : elf) : res bool := has_section e n_debuglink.

(* struct_parse(Gnu_debuglink, stream, sh_offset):
   CString, Padding(3 - len % 4, strict=True), Elf_word *)
Definition gnu_debuglink_parse (le : bool) (bs : list Z) : res (list Z * Z) :=
  match cstring_decode bs with
  | None => Err EParse
  | Some (filename, r) =>
      match take (3 - (length filename mod 4)) r with
      | None => Err EParse
      | Some (pad, r') =>
          if forallb (Z.eqb 0) pad then
            match uint_decode le 4 r' with
            | Some (checksum, _) => Ok (filename, checksum)
            | None => Err EParse
            end
          else Err EParse                                (* PaddingError *)
      end
  end.

Definition get_dwarf_link (e : elf) : res (option (list Z * Z)) :=
  do o <- get_section_by_name e n_debuglink;
  match o with
  | None => Ok None
  | Some sc => do l <- gnu_debuglink_parse (e_le e) (s_stream (sc_sec sc)); Ok (Some l)
  end.

(* ---------- DWARF section descriptors ---------- *)
Record descriptor := mkDescriptor {
  ds_name : list Z; ds_global_offset : Z;
  ds_stream : list Z; ds_size : Z; ds_address : Z;
  ds_reloc : option nat          (* the relocation section handed to apply_section_relocations *)
}.

(* _decompress_dwarf_section (the three checks raise ELFCompressionError since commit 30d0c52 —
   they were assert statements, void under python -O; struct.error and zlib.error are both
   classes called "error") *)
Definition decompress_dwarf_section (d : descriptor) : res descriptor :=
  if negb (12 <? ds_size d) then Err ECompress
  else
    let compression_type := firstn 4 (ds_stream d) in
    if negb (bytes_eqb compression_type ZLIB_MAGIC) then Err ECompress
    else
      let szb := firstn 8 (skipn 4 (ds_stream d)) in
      if negb (length szb =? 8)%nat then Err (EPy "error")
      else
        let uncompressed_size := be_decode szb in
        (* chunks of 4096 fed to one decompressobj, then flush(): the whole output *)
        match inflate (skipn 12 (ds_stream d)) 0 with
        | None => Err (EPy "error")
        | Some (out, _) =>
            let size := zlen out in
            if negb (uncompressed_size =? size) then Err ECompress
            else Ok (mkDescriptor (ds_name d) (ds_global_offset d) out size (ds_address d) (ds_reloc d))
        end.

(* RelocationHandler.find_relocations_for_section *)
Fixpoint find_relocations_from (i : nat) (name : list Z) (l : list sec) : option nat :=
  match l with
  | [] => None
  | s :: r =>
      if ((s_type s =? SHT_REL) || (s_type s =? SHT_RELA)) &&
         (bytes_eqb (s_name s) (p_rel ++ name) || bytes_eqb (s_name s) (p_rela ++ name))
      then Some i else find_relocations_from (S i) name r
  end.

(* has_phantom_bytes *)
Definition has_phantom_bytes (e : elf) : bool :=
  (e_machine e =? EM_DSPIC30F) && (Z.land (e_flags e) 0x80000000 =? 0).

(* _read_dwarf_section(section, relocate_dwarf_sections, zdebug) *)
Definition read_dwarf_section (e : elf) (sc : section) (relocate zdebug : bool) : res descriptor :=
  let phantom_bytes := has_phantom_bytes e in
  do section_data <- section_data e sc;
  let stream := if phantom_bytes then evens section_data else section_data in
  let s := sc_sec sc in
  let d0 := mkDescriptor (s_name s) (s_offset s) stream
              (if phantom_bytes then sc_dsize sc / 2 else sc_dsize sc) (s_addr s) None in
  do d1 <- (if zdebug then decompress_dwarf_section d0 else Ok d0);
  if relocate then
    match find_relocations_from 0 (s_name s) (e_secs e) with
    | Some k =>
        if phantom_bytes then Err EParse
        else Ok (mkDescriptor (ds_name d1) (ds_global_offset d1) (ds_stream d1) (ds_size d1)
                              (ds_address d1) (Some k))
    | None => Ok d1
    end
  else Ok d1.

(* the loop over section_names in get_dwarf_info *)
Fixpoint read_debug_sections (e : elf) (relocate : bool) (names : list (list Z))
  : res (list (option descriptor)) :=
  match names with
  | [] => Ok []
  | secname :: rest =>
      do section <- get_section_by_name e secname;
      do (section, zdebug) <-
         match section with
         | None =>
             if is_prefix p_debug secname then
               do z <- get_section_by_name e (zname secname); Ok (z, true)
             else Ok (None, false)
         | Some _ => Ok (section, false)
         end;
      do d <- match section with
              | None => Ok None
              | Some sc => do d <- read_dwarf_section e sc relocate zdebug; Ok (Some d)
              end;
      do ds <- read_debug_sections e relocate rest;
      Ok (d :: ds)
  end.

(* ---------- DWARFInfo as far as the container is concerned ---------- *)
Record dwarfinfo := mkDwarfinfo {
  di_config : config;
  di_sections : list (option descriptor);        (* in the order of section_names *)
  di_sup : option (config * list (option descriptor))
}.

Definition sec_stream (ds : list (option descriptor)) (i : nat) : option (list Z) :=
  match nth i ds None with Some d => Some (ds_stream d) | None => None end.

(* DWARFInfo.parse_debugsupinfo: .parse_stream is called directly, so construct's
   own exceptions come out (FieldError: short read; ArrayError: CString without NUL) *)
Definition parse_debugaltlink (bs : list Z) : res (list Z) :=
  match cstring_decode bs with
  | None => Err (EPy "ArrayError")
  | Some (name, r) =>
      match take 20 r with Some _ => Ok name | None => Err (EPy "FieldError") end
  end.
Definition parse_debugsupinfo (le : bool) (ds : list (option descriptor)) : res (option (list Z)) :=
  let alt := match sec_stream ds SLOT_ALTLINK with
             | Some bs => do n <- parse_debugaltlink bs; Ok (Some n)
             | None => Ok None
             end in
  match sec_stream ds SLOT_SUP with
  | Some bs =>
      match take 2 bs with
      | None => Err (EPy "FieldError")
      | Some (_, r) =>
          match take 1 r with
          | None => Err (EPy "FieldError")
          | Some (is_sup, r') =>
              match cstring_decode r' with
              | None => Err (EPy "ArrayError")
              | Some (name, _) => if nth 0 is_sup 0 =? 0 then Ok (Some name) else alt
              end
          end
      end
  | None => alt
  end.

Definition section_names : list (list Z) := slot_names.

(* get_dwarf_info past the debug-link branch, for a file opened WITHOUT links to follow
   (the supplementary file: ELFFile(stream).get_dwarf_info()) *)
Definition get_dwarf_info_nolinks (e : elf) : res (config * list (option descriptor)) :=
  do _ <- get_section_by_name e n_debuglink;
  do ds <- read_debug_sections e true section_names;
  do _ <- parse_debugsupinfo (e_le e) ds;           (* get_supplementary_dwarfinfo: loader is None *)
  Ok (config_of e, ds).

(* get_supplementary_dwarfinfo *)
Definition get_supplementary_dwarfinfo (loader : option (list Z -> option (list Z))) (e : elf)
           (ds : list (option descriptor)) : res (option (config * list (option descriptor))) :=
  do supfilepath <- parse_debugsupinfo (e_le e) ds;
  match supfilepath, loader with
  | Some path, Some load =>
      match load path with
      | None => Err (EPy "FileNotFoundError")
      | Some b =>
          do supelffile <- parse_image b;
          do r <- get_dwarf_info_nolinks supelffile;
          Ok (Some r)
      end
  | _, _ => Ok None
  end.

(* get_dwarf_info(relocate_dwarf_sections, follow_links); stream_loader = loader *)
Fixpoint get_dwarf_info (fuel : nat) (loader : option (list Z -> option (list Z))) (e : elf)
         (relocate follow : bool) : res dwarfinfo :=
  match fuel with
  | O => Err EFuel
  | S f =>
      do debuglink_section <- get_section_by_name e n_debuglink;
      do has_strict <- has_dwarf_info e true;
      match debuglink_section, loader with
      | Some dls, Some load =>
          if negb has_strict && follow then
            do (filename, checksum) <- gnu_debuglink_parse (e_le e) (s_stream (sc_sec dls));
            match load filename with
            | None => Err (EPy "FileNotFoundError")
            | Some ext_file =>
                if negb (file_crc32 ext_file =? checksum) then Err EElf
                else
                  do ext_elffile <- parse_image ext_file;
                  get_dwarf_info f loader ext_elffile relocate true
            end
          else
            do ds <- read_debug_sections e relocate section_names;
            do sup <- (if follow then get_supplementary_dwarfinfo loader e ds else Ok None);
            Ok (mkDwarfinfo (config_of e) ds sup)
      | _, _ =>
          do ds <- read_debug_sections e relocate section_names;
          do sup <- (if follow then get_supplementary_dwarfinfo loader e ds else Ok None);
          Ok (mkDwarfinfo (config_of e) ds sup)
      end
  end.

(* entry points on the bytes of a file *)
Definition img_has_dwarf_info (img : list Z) (strict : bool) : res bool :=
  do e <- parse_image img; has_dwarf_info e strict.
Definition img_get_dwarf_info (fuel : nat) (loader : option (list Z -> option (list Z)))
           (img : list Z) (relocate follow : bool) : res dwarfinfo :=
  do e <- parse_image img; get_dwarf_info fuel loader e relocate follow.

(* ---------- projection to the view of Spec/C11Container.v ---------- *)
Definition desc_of (d : descriptor) : desc :=
  mkDesc (ds_stream d) (ds_size d) (ds_address d) (ds_reloc d).
Definition slots_of (ds : list (option descriptor)) : slots := map (option_map desc_of) ds.
Definition view_of (di : dwarfinfo) : view :=
  mkView (di_config di) (slots_of (di_sections di))
         (option_map (fun '(c, ds) => (c, slots_of ds)) (di_sup di)).

(* every inflate query a file can cause (the harness answers them with zlib):
   (data, max_length) for SHF_COMPRESSED sections, (data, 0) for .zdebug_* ones *)
Definition oracle_queries (e : elf) : list (list Z * Z) :=
  flat_map (fun s =>
    (if negb (Z.land (s_flags s) SHF_COMPRESSED =? 0) then
       match decode_layout (gen_Elf_Chdr (e_le e) (e_is64 e)) (s_stream s) with
       | Some (h, _) =>
           [(py_read (s_size s - Z.of_nat (chdr_size (e_is64 e)))
                     (skipn (chdr_size (e_is64 e)) (s_stream s)), rec_z h "ch_size")]
       | None => []
       end
     else
       if is_prefix p_zdebug (s_name s) then
         let raw := firstn (Z.to_nat (s_size s)) (s_stream s) in
         let raw := if has_phantom_bytes e then evens raw else raw in
         [(skipn 12 raw, 0)]
       else [])) (e_secs e).

(* ---------- the ELFFile OBJECT ----------
   The only attribute of an ELFFile that get_dwarf_info / has_dwarf_info write is the cached
   _section_name_map (filled on first use by _make_section_name_map); every DWARFInfo is built
   afresh.  obj_state = that cache.  (An exception while the map is built cannot happen for a
   file ELFFile() accepted: every Section object was constructed once already.) *)
Definition obj_state := option (list (list Z * nat)).

(* _make_section_name_map on an object *)
Definition make_name_map_st (e : elf) (st : obj_state) : res (list (list Z * nat)) * obj_state :=
  match st with
  | Some m => (Ok m, st)
  | None => match name_map e with
            | Ok m => (Ok m, Some m)
            | Err x => (Err x, None)
            end
  end.

(* get_section_by_name reading a given (cached) map *)
Definition get_section_by_name_m (e : elf) (m : list (list Z * nat)) (n : list Z) : res (option section) :=
  match map_get m n with
  | None => Ok None
  | Some i =>
      match nth_error (e_secs e) i with
      | Some s => do sc <- make_section e s; Ok (Some sc)
      | None => Err (EPy "TypeError")
      end
  end.

(* one get_dwarf_info call on an object in state st *)
Definition obj_get_dwarf_info (fuel : nat) (loader : option (list Z -> option (list Z))) (e : elf)
           (st : obj_state) (relocate follow : bool) : res dwarfinfo * obj_state :=
  let '(rm, st') := make_name_map_st e st in
  (match rm with
   | Ok _ => get_dwarf_info fuel loader e relocate follow
   | Err x => Err x
   end, st').

(* a sequence of calls on one object *)
Fixpoint obj_run (fuel : nat) (loader : option (list Z -> option (list Z))) (e : elf)
         (st : obj_state) (calls : list (bool * bool)) : list (res dwarfinfo) :=
  match calls with
  | [] => []
  | (relocate, follow) :: cs =>
      let '(ans, st') := obj_get_dwarf_info fuel loader e st relocate follow in
      ans :: obj_run fuel loader e st' cs
  end.

End Model.
