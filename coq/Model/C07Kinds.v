(* Model/C07Kinds.v — the vocabulary in which tools/gen/gen_c07.py renders the DATA of
   dwarf/structs.py (_create_loclists_parsers, _create_rnglists_parsers), locationlists.py and
   ranges.py (entry_translate) into Gen/C07Tables.v.  No functions, no proofs. *)
From Coq Require Import ZArith List String.

(* operand parsers that occur inside the Switch cases of Dwarf_loclists_entries/Dwarf_rnglists_entries *)
Inductive opkind : Type :=
| OUleb        (* self.Dwarf_uleb128(name) *)
| OAddr        (* self.Dwarf_target_addr(name): address_size bytes, byte order of the structs *)
| OCounted.    (* PrefixedArray(self.Dwarf_uint8('loc_expr'), self.the_Dwarf_uleb128) *)

Definition operands := list (string * opkind).

(* fields of Dwarf_loclists_CU_header / Dwarf_rnglists_CU_header *)
Inductive hkind : Type :=
| HStreamOffset        (* StreamOffset(name) *)
| HInitialLength       (* self.Dwarf_initial_length(name); sets context.is64 *)
| HIs64                (* Value(name, lambda ctx: ctx.is64) *)
| HUInt (n : nat).     (* self.Dwarf_uint<8n>(name) *)

Definition hlayout := list (string * hkind).

(* the bodies of the entry_translate lambdas, obtained by running them on symbolic entries *)
Inductive texpr : Type :=
| TField (n : string)        (* e.<n> *)
| TAdd (a b : texpr)         (* a + b *)
| TSub (a b : texpr)         (* a - b *)
| TAddr (i : texpr)          (* cu.dwarfinfo.get_addr(cu, i) *)
| TInt (z : Z)               (* integer literal *)
| TBool (b : bool).          (* True / False *)

(* namedtuple class name and its positional arguments *)
Definition trule := (string * list texpr)%type.

(* ------------------------------------------------------------------ values the list code returns *)
Inductive fval : Type :=
| FInt (z : Z)
| FBytes (b : list Z)      (* a Python list of byte values (loc_expr) *)
| FStr (s : string)
| FBool (b : bool)
| FInts (l : list Z).      (* a Python list of ints (header['offsets']) *)

Definition container := list (string * fval).       (* construct Container, insertion order *)
Definition tup := (string * list fval)%type.        (* namedtuple: class name, positional values *)
