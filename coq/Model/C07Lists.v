(* Model/C07Lists.v — executable transliteration of the location/range list code (property C07):
     elftools/dwarf/locationlists.py   LocationLists, LocationListsPair, LocationParser
     elftools/dwarf/ranges.py          RangeLists, RangeListsPair
     elftools/dwarf/dwarf_util.py      _get_base_offset, _resolve_via_offset_table, _iter_CUs_in_section
     elftools/dwarf/dwarfinfo.py       get_addr, location_lists, range_lists
     elftools/dwarf/die.py             _translate_attr_value (loclistx / rnglistx only)
   The DATA of those modules (enum dicts, the Switch tables of the v5 entry structs, the unit-block
   header structs, the entry_translate tables) is not written here: every function takes it as an
   argument and the instances at the bottom pass the regenerated Gen/C07Tables.v terms.

   Conventions: a stream is the byte list of a section; stream.seek(p) followed by reads is
   [at_pos stream p]; stream.tell() is an explicit Z.  Containers and namedtuples are association
   lists / (class name, positional values).  ConstructError inside struct_parse = Err EParse.
   The position-passing style assumes that nothing else moves a stream between two reads of a
   generator; Model/C07Session.v models the cursors, the DIE caches and the consumer's calls between
   yields explicitly and Proofs/C07Session.v relates the two.
   The code modelled is the REPAIRED code (fix: commits recorded in known_findings.d/C07.json).
   No proofs here: Proofs/C07*.v. *)
From Coq Require Import String.
From PV Require Import Base.Bytes Base.Outcome Base.Prim Base.Enum Base.PyData Model.C07Kinds.
From Coq Require Import ZArith List Bool.
Import ListNotations.
Open Scope string_scope.
Open Scope list_scope.
Open Scope Z_scope.

Fixpoint assoc {A} (l : list (string * A)) (k : string) : option A :=
  match l with
  | [] => None
  | (k', v) :: r => if String.eqb k' k then Some v else assoc r k
  end.
Definition cget (c : container) (k : string) : option fval := assoc c k.

(* container.<k> where the code needs an int / a bool *)
Definition cint (c : container) (k : string) : res Z :=
  match cget c k with Some (FInt z) => Ok z | Some _ => Err (EPy "TypeError") | None => Err (EPy "AttributeError") end.
Definition cbool (c : container) (k : string) : res bool :=
  match cget c k with Some (FBool b) => Ok b | Some _ => Err (EPy "TypeError") | None => Err (EPy "AttributeError") end.

Definition at_pos (stream : list Z) (pos : Z) : list Z := skipn (Z.to_nat pos) stream.

Fixpoint mapM {A B} (f : A -> res B) (l : list A) : res (list B) :=
  match l with
  | [] => Ok []
  | x :: r => do y <- f x; do ys <- mapM f r; Ok (y :: ys)
  end.

(* ------------------------------------------------------------------ compile-unit context
   what the list code reads from a CU object: cu.header.version / cu['version'],
   cu.structs.dwarf_format, cu.header.address_size (= cu.structs.address_size), and the
   DW_AT_*_base attributes of its top DIE (None = attribute absent). *)
Record cuinfo : Type := {
  cu_version : Z;
  cu_is64 : bool;
  cu_asz : nat;
  cu_addr_base : option Z;
  cu_loclists_base : option Z;
  cu_rnglists_base : option Z }.

(* dwarf_util._get_base_offset: DWARFError when the top DIE lacks the attribute *)
Definition get_base_offset (base : option Z) : res Z :=
  match base with Some b => Ok b | None => Err EDwarf end.

(* dwarfinfo.get_addr(cu, addr_index) *)
Definition get_addr (le : bool) (addr_sec : option (list Z)) (cu : option cuinfo) (addr_index : Z) : res Z :=
  match cu with
  | None => Err (EPy "AttributeError")            (* cu.dwarfinfo with cu = None *)
  | Some cu =>
      match addr_sec with
      | None => Err EDwarf                        (* no .debug_addr section *)
      | Some s =>
          do cu_addr_base <- get_base_offset (cu_addr_base cu);
          match uint_decode le (cu_asz cu) (at_pos s (cu_addr_base + addr_index * Z.of_nat (cu_asz cu))) with
          | Some (v, _) => Ok v
          | None => Err EParse
          end
      end
  end.

(* dwarf_util._resolve_via_offset_table(stream, cu, index, base_attribute_name) *)
Definition resolve_via_offset_table (le : bool) (stream : list Z) (cu : cuinfo) (index : Z)
    (base : option Z) : res Z :=
  do base_offset <- get_base_offset base;
  let offset_size := if cu_is64 cu then 8 else 4 in
  match uint_decode le (Z.to_nat offset_size) (at_pos stream (base_offset + index * offset_size)) with
  | Some (v, _) => Ok (base_offset + v)
  | None => Err EParse
  end.

(* ------------------------------------------------------------------ v4 lists *)
Definition max_addr (asz : nat) : Z := 2 ^ (Z.of_nat asz * 8) - 1.

(* LocationLists._parse_location_list_from_stream *)
Fixpoint parse_loc_v4 (fuel : nat) (le : bool) (asz : nat) (bs : list Z) (pos : Z) : res (list tup) :=
  match fuel with
  | O => Err EFuel
  | S f =>
      let entry_offset := pos in
      match uint_decode le asz bs with
      | None => Err EParse
      | Some (begin_offset, bs1) =>
      match uint_decode le asz bs1 with
      | None => Err EParse
      | Some (end_offset, bs2) =>
          let pos2 := pos + 2 * Z.of_nat asz in
          if (begin_offset =? 0) && (end_offset =? 0) then Ok []
          else if begin_offset =? max_addr asz then
            let entry_length := pos2 - entry_offset in
            do rest <- parse_loc_v4 f le asz bs2 pos2;
            Ok (("BaseAddressEntry", [FInt entry_offset; FInt entry_length; FInt end_offset]) :: rest)
          else
            match uint_decode le 2 bs2 with
            | None => Err EParse
            | Some (expr_len, bs3) =>
            match take (Z.to_nat expr_len) bs3 with
            | None => Err EParse
            | Some (loc_expr, bs4) =>
                let pos4 := pos2 + 2 + expr_len in
                let entry_length := pos4 - entry_offset in
                do rest <- parse_loc_v4 f le asz bs4 pos4;
                Ok (("LocationEntry", [FInt entry_offset; FInt entry_length; FInt begin_offset;
                                       FInt end_offset; FBytes loc_expr; FBool false]) :: rest)
            end end
      end end
  end.

(* RangeLists._parse_range_list_from_stream, version < 5 branch *)
Fixpoint parse_rng_v4 (fuel : nat) (le : bool) (asz : nat) (bs : list Z) (pos : Z) : res (list tup) :=
  match fuel with
  | O => Err EFuel
  | S f =>
      let entry_offset := pos in
      match uint_decode le asz bs with
      | None => Err EParse
      | Some (begin_offset, bs1) =>
      match uint_decode le asz bs1 with
      | None => Err EParse
      | Some (end_offset, bs2) =>
          let pos2 := pos + 2 * Z.of_nat asz in
          if (begin_offset =? 0) && (end_offset =? 0) then Ok []
          else if begin_offset =? max_addr asz then
            do rest <- parse_rng_v4 f le asz bs2 pos2;
            Ok (("BaseAddressEntry", [FInt entry_offset; FInt end_offset]) :: rest)
          else
            do rest <- parse_rng_v4 f le asz bs2 pos2;
            Ok (("RangeEntry", [FInt entry_offset; FInt (pos2 - entry_offset); FInt begin_offset;
                                FInt end_offset; FBool false]) :: rest)
      end end
  end.

(* ------------------------------------------------------------------ v5 entry structs
   RepeatUntilExcluding(pred, Struct('entry', StreamOffset('entry_offset'),
     Enum(uint8('entry_type'), **ENUM), Embed(Switch('', ctx.entry_type, {...})),
     StreamOffset('entry_end_offset'), Value('entry_length', ...))) *)
Definition parse_operand (le : bool) (asz : nat) (k : opkind) (bs : list Z) : option (fval * list Z) :=
  match k with
  | OUleb => match uleb_decode bs with Some (v, r) => Some (FInt v, r) | None => None end
  | OAddr => match uint_decode le asz bs with Some (v, r) => Some (FInt v, r) | None => None end
  | OCounted => match block_decode uleb_decode bs with Some (b, r) => Some (FBytes b, r) | None => None end
  end.

Fixpoint parse_operands (le : bool) (asz : nat) (ops : operands) (bs : list Z) : option (container * list Z) :=
  match ops with
  | [] => Some ([], bs)
  | (n, k) :: r =>
      match parse_operand le asz k bs with
      | None => None
      | Some (v, bs1) =>
          match parse_operands le asz r bs1 with
          | None => None
          | Some (c, bs2) => Some ((n, v) :: c, bs2)
          end
      end
  end.

(* the bodies of Value(...) / entry_translate lambdas *)
Fixpoint eval_texpr (addr : Z -> res Z) (c : container) (t : texpr) : res fval :=
  match t with
  | TField n => match cget c n with Some v => Ok v | None => Err (EPy "AttributeError") end
  | TAdd a b =>
      do x <- eval_texpr addr c a; do y <- eval_texpr addr c b;
      match x, y with FInt p, FInt q => Ok (FInt (p + q)) | _, _ => Err (EPy "TypeError") end
  | TSub a b =>
      do x <- eval_texpr addr c a; do y <- eval_texpr addr c b;
      match x, y with FInt p, FInt q => Ok (FInt (p - q)) | _, _ => Err (EPy "TypeError") end
  | TAddr i =>
      do x <- eval_texpr addr c i;
      match x with FInt p => do a <- addr p; Ok (FInt a) | _ => Err (EPy "TypeError") end
  | TInt z => Ok (FInt z)
  | TBool b => Ok (FBool b)
  end.

Definition no_addr (i : Z) : res Z := Err (EPy "AttributeError").

Record entry_tables : Type := {
  et_enum : table;                          (* ENUM_DW_LLE / ENUM_DW_RLE *)
  et_switch : list (string * operands);     (* Switch cases *)
  et_length : texpr;                        (* Value('entry_length') *)
  et_terminators : list string;             (* RepeatUntilExcluding predicate *)
  et_translate : list (string * trule) }.   (* entry_translate *)

Definition parse_entry (le : bool) (asz : nat) (T : entry_tables) (bs : list Z) (pos : Z)
  : res (container * list Z) :=
  match uint_decode le 1 bs with
  | None => Err EParse
  | Some (code, bs1) =>
      match enum_decode (et_enum T) DefRaise code with
      | Name kind =>
          match assoc (et_switch T) kind with
          | None => Err EParse                        (* SwitchError *)
          | Some ops =>
              match parse_operands le asz ops bs1 with
              | None => Err EParse
              | Some (fields, bs2) =>
                  let end_pos := pos + (zlen bs - zlen bs2) in
                  let c := (("entry_offset", FInt pos) :: ("entry_type", FStr kind) :: fields)
                           ++ [("entry_end_offset", FInt end_pos)] in
                  do len <- eval_texpr no_addr c (et_length T);
                  Ok (c ++ [("entry_length", len)], bs2)
              end
          end
      | _ => Err EParse                               (* MappingError *)
      end
  end.

Definition is_terminator (T : entry_tables) (e : container) : bool :=
  match cget e "entry_type" with
  | Some (FStr k) => existsb (String.eqb k) (et_terminators T)
  | _ => false
  end.

(* struct_parse(structs.Dwarf_*lists_entries, stream) with the stream at pos; returns the raw
   entries and the bytes left after the terminator *)
Fixpoint parse_entries (fuel : nat) (le : bool) (asz : nat) (T : entry_tables) (bs : list Z) (pos : Z)
  : res (list container * list Z) :=
  match fuel with
  | O => Err EFuel
  | S f =>
      do (e, bs1) <- parse_entry le asz T bs pos;
      if is_terminator T e then Ok ([], bs1)
      else
        do (es, bs2) <- parse_entries f le asz T bs1 (pos + (zlen bs - zlen bs1));
        Ok (e :: es, bs2)
  end.

(* entry_translate[entry.entry_type](entry, cu) *)
Definition translate_entry (T : entry_tables) (addr : Z -> res Z) (e : container) : res tup :=
  match cget e "entry_type" with
  | Some (FStr k) =>
      match assoc (et_translate T) k with
      | Some (cls, args) => do vs <- mapM (eval_texpr addr e) args; Ok (cls, vs)
      | None => Err (EPy "KeyError")
      end
  | _ => Err (EPy "KeyError")
  end.

(* [entry_translate[e.entry_type](e, cu) for e in struct_parse(entries, stream)] *)
Definition parse_list_v5 (le : bool) (asz : nat) (T : entry_tables) (addr : Z -> res Z)
    (bs : list Z) (pos : Z) : res (list tup * list Z) :=
  do (es, rest) <- parse_entries (S (length bs)) le asz T bs pos;
  do ts <- mapM (translate_entry T addr) es;
  Ok (ts, rest).

(* ------------------------------------------------------------------ the sections a DWARFInfo holds *)
Record sections : Type := {
  s_le : bool;                 (* config.little_endian *)
  s_asz : nat;                 (* config.default_address_size: dwarfinfo.structs.address_size *)
  s_loc : option (list Z);
  s_ranges : option (list Z);
  s_loclists : option (list Z);
  s_rnglists : option (list Z);
  s_addr : option (list Z) }.

(* LocationLists.get_location_list_at_offset(offset, die); cu = die.cu, None = no die given *)
Definition get_location_list_at_offset (T : entry_tables) (S : sections) (version : Z) (stream : list Z)
    (offset : Z) (cu : option cuinfo) : res (list tup) :=
  if 5 <=? version then
    match cu with
    | None => Err EDwarf
    | Some _ =>
        do (ts, _) <- parse_list_v5 (s_le S) (s_asz S) T (get_addr (s_le S) (s_addr S) cu)
                                    (at_pos stream offset) offset;
        Ok ts
    end
  else parse_loc_v4 (Datatypes.S (length stream)) (s_le S) (s_asz S) (at_pos stream offset) offset.

(* RangeLists.get_range_list_at_offset(offset, cu) *)
Definition get_range_list_at_offset (T : entry_tables) (S : sections) (version : Z) (stream : list Z)
    (offset : Z) (cu : option cuinfo) : res (list tup) :=
  if 5 <=? version then
    do (ts, _) <- parse_list_v5 (s_le S) (s_asz S) T (get_addr (s_le S) (s_addr S) cu)
                                (at_pos stream offset) offset;
    Ok ts
  else parse_rng_v4 (Datatypes.S (length stream)) (s_le S) (s_asz S) (at_pos stream offset) offset.

(* RangeLists.get_range_list_at_offset_ex(offset) *)
Definition get_range_list_at_offset_ex (T : entry_tables) (S : sections) (stream : list Z) (offset : Z)
  : res (list container) :=
  do (es, _) <- parse_entries (Datatypes.S (length stream)) (s_le S) (s_asz S) T (at_pos stream offset) offset;
  Ok es.

(* ------------------------------------------------------------------ unit blocks *)
(* struct_parse(Dwarf_*lists_CU_header, stream, offset) *)
Fixpoint parse_hdr (L : hlayout) (le : bool) (bs : list Z) (pos : Z) (is64 : option bool)
  : res (container * list Z) :=
  match L with
  | [] => Ok ([], bs)
  | (n, k) :: r =>
      match k with
      | HStreamOffset =>
          do (c, t) <- parse_hdr r le bs pos is64; Ok ((n, FInt pos) :: c, t)
      | HInitialLength =>
          match initial_length_decode le bs with
          | None => Err EParse
          | Some ((len, b64), bs1) =>
              do (c, t) <- parse_hdr r le bs1 (pos + (if b64 then 12 else 4)) (Some b64);
              Ok ((n, FInt len) :: c, t)
          end
      | HIs64 =>
          match is64 with
          | None => Err (EPy "AttributeError")
          | Some b => do (c, t) <- parse_hdr r le bs pos is64; Ok ((n, FBool b) :: c, t)
          end
      | HUInt w =>
          match uint_decode le w bs with
          | None => Err EParse
          | Some (v, bs1) =>
              do (c, t) <- parse_hdr r le bs1 (pos + Z.of_nat w) is64; Ok ((n, FInt v) :: c, t)
          end
      end
  end.

(* Array(count, uintN('')) *)
Fixpoint parse_uint_array (le : bool) (w : nat) (n : nat) (bs : list Z) : option (list Z * list Z) :=
  match n with
  | O => Some ([], bs)
  | S m =>
      match uint_decode le w bs with
      | None => None
      | Some (v, r) =>
          match parse_uint_array le w m r with
          | None => None
          | Some (vs, t) => Some (v :: vs, t)
          end
      end
  end.

(* dwarf_util._iter_CUs_in_section(stream, structs, parser), collected into a list *)
Fixpoint iter_CUs_in_section (fuel : nat) (L : hlayout) (le : bool) (stream : list Z) (offset : Z)
  : res (list container) :=
  match fuel with
  | O => Err EFuel
  | S f =>
      if offset <? zlen stream then
        do (header, rest) <- parse_hdr L le (at_pos stream offset) offset None;
        do offset_count <- cint header "offset_count";
        do offsets <-
          (if 0 <? offset_count then
             do is64 <- cbool header "is64";
             match parse_uint_array le (if is64 then 8 else 4)%nat (Z.to_nat offset_count) rest with
             | Some (vs, _) => Ok (FInts vs)
             | None => Err EParse
             end
           else Ok (FBool false));
        let header' := header ++ [("offsets", offsets)] in
        do oal <- cint header "offset_after_length";
        do ul <- cint header "unit_length";
        do hs <- iter_CUs_in_section f L le stream (oal + ul);
        Ok (header' :: hs)
      else Ok []
  end.

(* LocationLists.iter_CUs / RangeLists.iter_CUs *)
Definition iter_CUs (L : hlayout) (le : bool) (version : Z) (stream : list Z) : res (list container) :=
  if version <? 5 then Err EDwarf
  else iter_CUs_in_section (S (length stream)) L le stream 0.

(* RangeLists.iter_CU_range_lists_ex(cu) — repaired: 8|4 bytes per offset entry *)
Fixpoint range_lists_ex_loop (fuel : nat) (T : entry_tables) (S : sections) (stream : list Z)
    (pos end_pos : Z) : res (list (list container)) :=
  match fuel with
  | O => Err EFuel
  | Datatypes.S f =>
      if pos <? end_pos then
        let bs := at_pos stream pos in
        do (es, rest) <- parse_entries (Datatypes.S (length bs)) (s_le S) (s_asz S) T bs pos;
        do more <- range_lists_ex_loop f T S stream (pos + (zlen bs - zlen rest)) end_pos;
        Ok (es :: more)
      else Ok []
  end.

Definition iter_CU_range_lists_ex (T : entry_tables) (S : sections) (stream : list Z) (cu : container)
  : res (list (list container)) :=
  do oto <- cint cu "offset_table_offset";
  do is64 <- cbool cu "is64";
  do cnt <- cint cu "offset_count";
  do oal <- cint cu "offset_after_length";
  do ul <- cint cu "unit_length";
  range_lists_ex_loop (Datatypes.S (length stream)) T S stream
                      (oto + (if is64 then 8 else 4) * cnt) (oal + ul).

(* ------------------------------------------------------------------ LocationParser *)
Definition in_strs (s : string) (l : list string) : bool := existsb (String.eqb s) l.

Definition DATA_FORMS : list string :=
  ["DW_FORM_data1"; "DW_FORM_data2"; "DW_FORM_data4"; "DW_FORM_data8"]%string.

(* LocationParser._attribute_is_loclistptr_class *)
Definition attribute_is_loclistptr_class (name : string) : bool :=
  in_strs name
    ["DW_AT_location"; "DW_AT_string_length"; "DW_AT_const_value"; "DW_AT_return_addr";
     "DW_AT_data_member_location"; "DW_AT_frame_base"; "DW_AT_segment"; "DW_AT_static_link";
     "DW_AT_use_location"; "DW_AT_vtable_elem_location"; "DW_AT_call_value";
     "DW_AT_GNU_call_site_value"; "DW_AT_GNU_call_site_target"; "DW_AT_GNU_call_site_data_value";
     "DW_AT_call_target"; "DW_AT_call_target_clobbered"; "DW_AT_call_data_location";
     "DW_AT_call_data_value"; "DW_AT_upper_bound"; "DW_AT_count"]%string.

(* LocationParser._attribute_has_loc_expr *)
Definition attribute_has_loc_expr (name form : string) (v : Z) : bool :=
  ((v <? 4) && String.prefix "DW_FORM_block" form && negb (String.eqb name "DW_AT_const_value"))
  || String.eqb form "DW_FORM_exprloc".

(* LocationParser._attribute_is_constant *)
Definition attribute_is_constant (name form : string) (v : Z) : bool :=
  (((3 <=? v) && String.eqb name "DW_AT_data_member_location")
   || in_strs name ["DW_AT_upper_bound"; "DW_AT_count"]%string)
  && in_strs form (DATA_FORMS ++ ["DW_FORM_sdata"; "DW_FORM_udata"]%string).

(* LocationParser._attribute_has_loc_list *)
Definition attribute_has_loc_list (name form : string) (v : Z) : bool :=
  (((v <? 4) && in_strs form DATA_FORMS && negb (String.eqb name "DW_AT_const_value"))
   || in_strs form ["DW_FORM_sec_offset"; "DW_FORM_loclistx"]%string)
  && negb (attribute_is_constant name form v).

(* LocationParser.attribute_has_location *)
Definition attribute_has_location (name form : string) (v : Z) : bool :=
  attribute_is_loclistptr_class name
  && (attribute_has_loc_expr name form v || attribute_has_loc_list name form v).

(* what parse_from_attribute does: 1 = LocationExpr(attr.value), 2 = the list at attr.value,
   0 = ValueError *)
Definition classify_attribute (name form : string) (v : Z) : Z :=
  if attribute_has_location name form v then
    if attribute_has_loc_expr name form v then 1
    else if attribute_has_loc_list name form v then 2 else 3
  else 0.

(* ------------------------------------------------------------------ DIE attribute view *)
Inductive aval : Type := AInt (z : Z) | ABytes (b : list Z).

Record attr : Type := { a_name : string; a_form : string; a_raw : aval }.

(* a unit of .debug_info as the list code sees it; the first DIE is the top DIE *)
Record cuview : Type := {
  cv_version : Z; cv_is64 : bool; cv_asz : nat;
  cv_dies : list (list attr) }.

(* die.attributes is a dict keyed by name: a later duplicate overwrites *)
Definition die_attr (die : list attr) (name : string) : option attr :=
  find (fun a => String.eqb (a_name a) name) (rev die).

Definition top_attr_int (cv : cuview) (name : string) : option Z :=
  match cv_dies cv with
  | [] => None
  | top :: _ => match die_attr top name with
                | Some a => match a_raw a with AInt z => Some z | ABytes _ => None end
                | None => None
                end
  end.

Definition cuinfo_of (cv : cuview) : cuinfo :=
  {| cu_version := cv_version cv; cu_is64 := cv_is64 cv; cu_asz := cv_asz cv;
     cu_addr_base := top_attr_int cv "DW_AT_addr_base";
     cu_loclists_base := top_attr_int cv "DW_AT_loclists_base";
     cu_rnglists_base := top_attr_int cv "DW_AT_rnglists_base" |}.

(* die._translate_attr_value for the two list-index forms (and the deferred translation of the
   top DIE): attr.value *)
Definition attr_value (S : sections) (cv : cuview) (a : attr) : res aval :=
  match a_raw a with
  | ABytes b => Ok (ABytes b)
  | AInt raw =>
      if String.eqb (a_form a) "DW_FORM_loclistx" then
        match s_loclists S with
        | None => Err (EPy "AttributeError")
        | Some st => do v <- resolve_via_offset_table (s_le S) st (cuinfo_of cv) raw
                                                      (cu_loclists_base (cuinfo_of cv)); Ok (AInt v)
        end
      else if String.eqb (a_form a) "DW_FORM_rnglistx" then
        match s_rnglists S with
        | None => Err (EPy "AttributeError")
        | Some st => do v <- resolve_via_offset_table (s_le S) st (cuinfo_of cv) raw
                                                      (cu_rnglists_base (cuinfo_of cv)); Ok (AInt v)
        end
      else Ok (AInt raw)
  end.

Definition aval_int (v : aval) : res Z :=
  match v with AInt z => Ok z | ABytes _ => Err (EPy "TypeError") end.

(* a DIE with its attribute values translated: [(name, form, value)] in attribute order *)
Definition vdie := list (string * string * aval).
Definition translate_die (S : sections) (cv : cuview) (die : list attr) : res vdie :=
  mapM (fun a => do v <- attr_value S cv a; Ok (a_name a, a_form a, v)) die.

Definition vdie_get (d : vdie) (name : string) : option (string * aval) :=
  match find (fun x => String.eqb (fst (fst x)) name) (rev d) with
  | Some (_, f, v) => Some (f, v)
  | None => None
  end.

(* ------------------------------------------------------------------ RangeLists.iter_range_lists *)
(* cu_map = {die.attributes['DW_AT_ranges'].value: cu for cu in iter_CUs() for die in cu.iter_DIEs()
             if 'DW_AT_ranges' in die.attributes and (cu['version'] >= 5) == ver5} *)
(* the part of the comprehension that follows "for die in cu.iter_DIEs()", over the parsed DIEs *)
Definition range_refs_of_dies (ver5 : bool) (cv : cuview) (dies : list vdie) : res (list (Z * cuview)) :=
  if Bool.eqb (5 <=? cv_version cv) ver5 then
    mapM (fun d => do o <- aval_int (snd d); Ok (o, cv))
         (flat_map (fun d => match vdie_get d "DW_AT_ranges" with Some fv => [fv] | None => [] end) dies)
  else Ok [].

Definition range_refs_of_cu (S : sections) (ver5 : bool) (cv : cuview) : res (list (Z * cuview)) :=
  do dies <- mapM (translate_die S cv) (cv_dies cv);
  range_refs_of_dies ver5 cv dies.

(* the (key, value) pairs of the comprehension, in iteration order *)
Definition range_refs (S : sections) (ver5 : bool) (cus : list cuview) : res (list (Z * cuview)) :=
  do refs <- mapM (range_refs_of_cu S ver5) cus;
  Ok (concat refs).

Definition range_cu_map (S : sections) (ver5 : bool) (cus : list cuview) : res (dict Z cuview) :=
  do refs <- range_refs S ver5 cus;
  Ok (dict_of_list Z.eqb refs).

Definition iter_range_lists (T : entry_tables) (S : sections) (version : Z) (stream : list Z)
    (cus : list cuview) : res (list (list tup)) :=
  let ver5 := 5 <=? version in
  do cu_map <- range_cu_map S ver5 cus;
  let all_offsets := sorted_by (fun x => x) (dict_keys cu_map) in
  mapM (fun offset =>
          get_range_list_at_offset T S version stream offset
            (option_map cuinfo_of (PyData.dict_get Z.eqb cu_map offset)))
       all_offsets.

(* ------------------------------------------------------------------ LocationLists.iter_location_lists *)
Record loc_scan : Type := {
  ls_offsets : list Z;           (* all_offsets (a set: insertion order is not observable) *)
  ls_locviews : dict Z Z;        (* locviews *)
  ls_cu_map : dict Z cuview }.   (* cu_map *)

Definition set_add (x : Z) (l : list Z) : list Z := if memb Z.eqb x l then l else l ++ [x].

(* the body of "for die in cu.iter_DIEs()" *)
Definition scan_die (cv : cuview) (st : loc_scan) (d : vdie) : res loc_scan :=
  let cu_ver := cv_version cv in
  let has_views := match vdie_get d "DW_AT_GNU_locviews" with Some _ => true | None => false end in
  do st1 <-
    (match vdie_get d "DW_AT_GNU_locviews" with
     | Some (_, vv) =>
         match vdie_get d "DW_AT_location" with
         | Some (lform, lv) =>
             if attribute_has_loc_list "DW_AT_location" lform cu_ver then
               do views_offset <- aval_int vv;
               do list_offset <- aval_int lv;
               Ok {| ls_offsets := set_add views_offset (ls_offsets st);
                     ls_locviews := dict_set Z.eqb (ls_locviews st) views_offset list_offset;
                     ls_cu_map := dict_set Z.eqb (ls_cu_map st) list_offset cv |}
             else Err (EPy "AssertionError")
         | None => Err (EPy "AssertionError")
         end
     | None => Ok st
     end);
  (* "for key in die.attributes": dict keys, i.e. each name once, in first-insertion order *)
  fold_left
    (fun acc key =>
       do s <- acc;
       match vdie_get d key with
       | None => Ok s
       | Some (form, v) =>
           if (negb (String.eqb key "DW_AT_location") || negb has_views)
              && attribute_has_location key form cu_ver && attribute_has_loc_list key form cu_ver then
             do list_offset <- aval_int v;
             Ok {| ls_offsets := set_add list_offset (ls_offsets s);
                   ls_locviews := ls_locviews s;
                   ls_cu_map := dict_set Z.eqb (ls_cu_map s) list_offset cv |}
           else Ok s
       end)
    (dedup String.eqb (map (fun x => fst (fst x)) d)) (Ok st1).

(* "for die in cu.iter_DIEs(): ..." over the parsed DIEs of one unit *)
Definition scan_dies (cv : cuview) (st : loc_scan) (dies : list vdie) : res loc_scan :=
  fold_left (fun a d => do s <- a; scan_die cv s d) dies (Ok st).

Definition scan_cu (S : sections) (ver5 : bool) (acc : res loc_scan) (cv : cuview) : res loc_scan :=
  do st <- acc;
  if Bool.eqb (5 <=? cv_version cv) ver5 then
    do dies <- mapM (translate_die S cv) (cv_dies cv);
    scan_dies cv st dies
  else Ok st.

Definition scan_locs (S : sections) (ver5 : bool) (cus : list cuview) : res loc_scan :=
  fold_left (scan_cu S ver5) cus
            (Ok {| ls_offsets := []; ls_locviews := []; ls_cu_map := [] |}).

(* LocationLists._parse_locview_pairs: the "while stream.tell() < list_offset" loop *)
Fixpoint locview_loop (fuel : nat) (S : sections) (lv : operands) (bs : list Z) (pos list_offset : Z)
  : res (list tup * list Z) :=
  match fuel with
  | O => Err EFuel
  | Datatypes.S f =>
      if pos <? list_offset then
        match parse_operands (s_le S) (s_asz S) lv bs with
        | None => Err EParse
        | Some (c, bs1) =>
            do b <- match cget c "begin" with Some v => Ok v | None => Err (EPy "AttributeError") end;
            do e <- match cget c "end" with Some v => Ok v | None => Err (EPy "AttributeError") end;
            do (ps, rest) <- locview_loop f S lv bs1 (pos + (zlen bs - zlen bs1)) list_offset;
            Ok (("LocationViewPair", [FInt pos; b; e]) :: ps, rest)
        end
      else if pos =? list_offset then Ok ([], bs)
      else Err (EPy "AssertionError")
  end.

Definition parse_locview_pairs (S : sections) (lv : operands) (locviews : dict Z Z) (bs : list Z) (pos : Z)
  : res (list tup * list Z) :=
  match PyData.dict_get Z.eqb locviews pos with
  | None => Ok ([], bs)
  | Some list_offset => locview_loop (Datatypes.S (length bs)) S lv bs pos list_offset
  end.

(* the test of the inner "while" (repaired): the stream is inside the block, or a referenced list that
   starts before the block's end (inside an object already consumed: shared tail) is still pending
     stream.tell() < cu_end_offset or
     (offset_index < len(all_offsets) and all_offsets[offset_index] < cu_end_offset) *)
Definition in_block (pos cu_end_offset : Z) (offs : list Z) : bool :=
  (pos <? cu_end_offset) || match offs with o :: _ => o <? cu_end_offset | [] => false end.

(* the "if ver5:" branch; cu_end = None is the outer "while stream.tell() < endpos" test,
   Some e the inner "while stream.tell() < cu_end_offset".  offs = all_offsets[offset_index:]. *)
Fixpoint loc5_loop (fuel : nat) (T : entry_tables) (L : hlayout) (lv : operands) (S : sections)
    (stream : list Z) (sc : loc_scan) (pos : Z) (cu_end : option Z) (offs : list Z)
  : res (list (list tup)) :=
  match fuel with
  | O => Err EFuel
  | Datatypes.S f =>
      let endpos := zlen stream in
      match cu_end with
      | None =>
          if pos <? endpos then
            let bs := at_pos stream pos in
            do (h, rest) <- parse_hdr L (s_le S) bs pos None;
            do ver <- cint h "version";
            if ver =? 5 then
              do oal <- cint h "offset_after_length";
              do ul <- cint h "unit_length";
              loc5_loop f T L lv S stream sc (pos + (zlen bs - zlen rest)) (Some (oal + ul)) offs
            else Err (EPy "AssertionError")
          else Ok []
      | Some cu_end_offset =>
          if in_block pos cu_end_offset offs then
            (* repaired: past the last referenced offset the rest of the unit is a gap *)
            let next_offset := match offs with o :: _ => o | [] => cu_end_offset end in
            if next_offset =? pos then
              let bs := at_pos stream pos in
              do (pairs, bs1) <- parse_locview_pairs S lv (ls_locviews sc) bs pos;
              let pos1 := pos + (zlen bs - zlen bs1) in
              match PyData.dict_get Z.eqb (ls_cu_map sc) pos1 with
              | None => Err (EPy "KeyError")
              | Some cv =>
                  do (entries, bs2) <- parse_list_v5 (s_le S) (s_asz S) T
                                         (get_addr (s_le S) (s_addr S) (Some (cuinfo_of cv))) bs1 pos1;
                  do more <- loc5_loop f T L lv S stream sc (pos1 + (zlen bs1 - zlen bs2))
                                       (Some cu_end_offset) (tl offs);
                  Ok ((pairs ++ entries) :: more)
              end
            else
              let next_offset := if cu_end_offset <? next_offset then cu_end_offset else next_offset in
              loc5_loop f T L lv S stream sc next_offset (Some cu_end_offset) offs
          else loc5_loop f T L lv S stream sc pos None offs
      end
  end.

(* the walk BEFORE the repair of known_findings.d/C07.json loclists-tail-at-unit-end (kept for
   C07_loclists_tail_at_unit_end_refuted): the inner loop ran "while stream.tell() < cu_end_offset" only.
   cu_end = None is the outer "while stream.tell() < endpos" test,
   Some e the inner "while stream.tell() < cu_end_offset".  offs = all_offsets[offset_index:]. *)
Fixpoint loc5_loop_unfixed (fuel : nat) (T : entry_tables) (L : hlayout) (lv : operands) (S : sections)
    (stream : list Z) (sc : loc_scan) (pos : Z) (cu_end : option Z) (offs : list Z)
  : res (list (list tup)) :=
  match fuel with
  | O => Err EFuel
  | Datatypes.S f =>
      let endpos := zlen stream in
      match cu_end with
      | None =>
          if pos <? endpos then
            let bs := at_pos stream pos in
            do (h, rest) <- parse_hdr L (s_le S) bs pos None;
            do ver <- cint h "version";
            if ver =? 5 then
              do oal <- cint h "offset_after_length";
              do ul <- cint h "unit_length";
              loc5_loop_unfixed f T L lv S stream sc (pos + (zlen bs - zlen rest)) (Some (oal + ul)) offs
            else Err (EPy "AssertionError")
          else Ok []
      | Some cu_end_offset =>
          if pos <? cu_end_offset then
            let next_offset := match offs with o :: _ => o | [] => cu_end_offset end in
            if next_offset =? pos then
              let bs := at_pos stream pos in
              do (pairs, bs1) <- parse_locview_pairs S lv (ls_locviews sc) bs pos;
              let pos1 := pos + (zlen bs - zlen bs1) in
              match PyData.dict_get Z.eqb (ls_cu_map sc) pos1 with
              | None => Err (EPy "KeyError")
              | Some cv =>
                  do (entries, bs2) <- parse_list_v5 (s_le S) (s_asz S) T
                                         (get_addr (s_le S) (s_addr S) (Some (cuinfo_of cv))) bs1 pos1;
                  do more <- loc5_loop_unfixed f T L lv S stream sc (pos1 + (zlen bs1 - zlen bs2))
                                       (Some cu_end_offset) (tl offs);
                  Ok ((pairs ++ entries) :: more)
              end
            else
              let next_offset := if cu_end_offset <? next_offset then cu_end_offset else next_offset in
              loc5_loop_unfixed f T L lv S stream sc next_offset (Some cu_end_offset) offs
          else loc5_loop_unfixed f T L lv S stream sc pos None offs
      end
  end.

(* the "else:" branch (pre-v5 .debug_loc) *)
Definition loc4_lists (S : sections) (lv : operands) (stream : list Z) (sc : loc_scan) (offsets : list Z)
  : res (list (list tup)) :=
  do ls <- mapM (fun offset =>
      let list_offset := match PyData.dict_get Z.eqb (ls_locviews sc) offset with Some l => l | None => offset end in
      match PyData.dict_get Z.eqb (ls_cu_map sc) list_offset with
      | None => Err (EPy "KeyError")
      | Some cv =>
          if cv_version cv <? 5 then
            let bs := at_pos stream offset in
            do (pairs, bs1) <- parse_locview_pairs S lv (ls_locviews sc) bs offset;
            do entries <- parse_loc_v4 (Datatypes.S (length stream)) (s_le S) (s_asz S) bs1
                                       (offset + (zlen bs - zlen bs1));
            Ok [pairs ++ entries]
          else Ok []
      end) offsets;
  Ok (concat ls).

(* the part of iter_location_lists that follows the scan of the debugging entries *)
Definition loc_lists_of_scan (T : entry_tables) (L : hlayout) (lv : operands) (S : sections)
    (ver5 : bool) (stream : list Z) (sc : loc_scan) : res (list (list tup)) :=
  let all_offsets := sorted_by (fun x => x) (ls_offsets sc) in
  if ver5 then
    loc5_loop (Datatypes.S (2 * length all_offsets + 2 * length stream)) T L lv S stream sc 0 None all_offsets
  else loc4_lists S lv stream sc all_offsets.

Definition iter_location_lists_unfixed (T : entry_tables) (L : hlayout) (lv : operands) (S : sections)
    (version : Z) (stream : list Z) (cus : list cuview) : res (list (list tup)) :=
  let ver5 := 5 <=? version in
  do sc <- scan_locs S ver5 cus;
  let all_offsets := sorted_by (fun x => x) (ls_offsets sc) in
  if ver5 then
    loc5_loop_unfixed (Datatypes.S (2 * length all_offsets + 2 * length stream)) T L lv S stream sc 0 None all_offsets
  else loc4_lists S lv stream sc all_offsets.

Definition iter_location_lists (T : entry_tables) (L : hlayout) (lv : operands) (S : sections)
    (version : Z) (stream : list Z) (cus : list cuview) : res (list (list tup)) :=
  let ver5 := 5 <=? version in
  do sc <- scan_locs S ver5 cus;
  loc_lists_of_scan T L lv S ver5 stream sc.

(* ------------------------------------------------------------------ DWARFInfo.location_lists / range_lists,
   LocationListsPair / RangeListsPair dispatch *)
Inductive lists_obj : Type :=
| LNone                 (* None *)
| LSingle (version : Z) (* LocationLists / RangeLists over the one section present *)
| LPair.                (* ...Pair over both *)

Definition lists_object (has_v4 has_v5 : bool) : lists_obj :=
  if has_v5 && negb has_v4 then LSingle 5
  else if has_v4 && negb has_v5 then LSingle 4
  else if has_v4 && has_v5 then LPair
  else LNone.

(* Pair.get_*_list_at_offset: the section is chosen by the unit's version *)
Definition pair_version (cu : cuinfo) : Z := if 5 <=? cu_version cu then 5 else 4.
