(* Model/C19Base.v — the step-counting stream monad shared by the C19 models.

   A computation threads three counters and may fail with a library or Python
   exception; the counters survive the failure (they are what the harness measures
   with a counting BytesIO and a wrapped Construct.parse_stream):

     c_parses  number of Construct.parse_stream calls on the file stream
               (= struct_parse calls whose seek succeeded)
     c_bytes   number of bytes returned by stream.read on the file stream
     c_strs    number of parse_cstring_from_stream calls (chunked string reads)

   Primitives mirror
     common/utils.py  struct_parse(struct, stream, stream_pos)   -> struct_parse_at
     stream.seek(pos); stream.read(n)                            -> raw_read
     common/utils.py  parse_cstring_from_stream(stream, pos)     -> cstring_at
   over io.BytesIO semantics: seek(pos) raises ValueError for pos < 0 and
   OverflowError for pos > sys.maxsize = 2^63-1; seeking beyond EOF is allowed and
   reads there return b''.  No proofs in this file. *)
From Coq Require Import String.
From PV Require Import Base.Bytes Base.Outcome Base.Fmt Base.Prim Base.Enum.
From PV Require Import Gen.ElfLayouts Gen.Tables.
Open Scope Z_scope.

Record cnt : Type := mkcnt { c_parses : Z; c_bytes : Z; c_strs : Z }.
Definition cnt0 : cnt := mkcnt 0 0 0.

Definition M (A : Type) : Type := cnt -> res A * cnt.
Definition ret {A} (a : A) : M A := fun c => (Ok a, c).
Definition fail {A} (e : err) : M A := fun c => (Err e, c).
Definition mbind {A B} (m : M A) (f : A -> M B) : M B :=
  fun c => match m c with
           | (Ok a, c1) => f a c1
           | (Err e, c1) => (Err e, c1)
           end.
Notation "'dom' x <- m ; k" := (mbind m (fun x => k))
  (at level 200, x pattern, m at level 100, k at level 200, right associativity).

Definition run {A} (m : M A) : res A * cnt := m cnt0.

Definition tick_parse (c : cnt) (n : Z) : cnt := mkcnt (c_parses c + 1) (c_bytes c + n) (c_strs c).
Definition tick_bytes (c : cnt) (n : Z) : cnt := mkcnt (c_parses c) (c_bytes c + n) (c_strs c).
Definition tick_str (c : cnt) (n : Z) : cnt := mkcnt (c_parses c) (c_bytes c + n) (c_strs c + 1).

Definition record : Type := list (string * fval).

(* sys.maxsize on the 64-bit CPython the library runs on *)
Definition MAX_SSIZE : Z := 2 ^ 63 - 1.

(* Lists of up to a few hundred thousand bytes are walked with Z counters (never
   Z.to_nat of an offset read from the file, never a unary length). *)
Fixpoint blen_go (l : list Z) (acc : Z) : Z :=
  match l with [] => acc | _ :: r => blen_go r (acc + 1) end.
Definition blen (l : list Z) : Z := blen_go l 0.          (* = zlen l *)

(* the bytes from absolute position pos on (b'' beyond EOF) *)
(* dropping p elements by recursion on the BINARY position: no arithmetic per element, at most
   min(p, |l|) + log p steps, so an offset of 2^63 taken from a corrupt header costs nothing *)
Fixpoint skip_pos (p : positive) (l : list Z) {struct p} : list Z :=
  match l with
  | [] => []
  | _ :: r =>
      match p with
      | xH => r
      | xO q => skip_pos q (skip_pos q l)
      | xI q => skip_pos q (skip_pos q r)
      end
  end.
Definition skipz (bs : list Z) (pos : Z) : list Z :=
  match pos with Zpos p => skip_pos p bs | _ => bs end.
Definition rest_at (bs : list Z) (pos : Z) : list Z := skipz bs pos.

(* stream.read(n) on what is left: at most n bytes *)
Fixpoint takez (rest : list Z) (n : Z) : list Z :=
  if n <=? 0 then [] else match rest with [] => [] | b :: r => b :: takez r (n - 1) end.
Definition read_n (rest : list Z) (n : Z) : list Z := takez rest n.

(* stream.seek(pos) of io.BytesIO *)
Definition seek_error (pos : Z) : option string :=
  if pos <? 0 then Some "ValueError"%string
  else if MAX_SSIZE <? pos then Some "OverflowError"%string
  else None.

(* stream.seek(pos); stream.read(n) — a direct read, not through construct *)
Definition raw_read (bs : list Z) (pos n : Z) : M (list Z) := fun c =>
  match seek_error pos with
  | Some t => (Err (EPy t), c)
  | None => let d := read_n (rest_at bs pos) n in (Ok d, tick_bytes c (blen d))
  end.

(* ---- enum bindings of a struct: (field, table id, strict).  A strict Enum (no
        _default_) raises MappingError (a ConstructError) on an unmapped value. *)
Fixpoint gen_table (tid : string) (ts : list (string * list (Z * string))) : list (Z * string) :=
  match ts with
  | [] => []
  | (k, t) :: r => if String.eqb k tid then t else gen_table tid r
  end.

Definition strict_ok (binds : list (string * string * bool)) (r : record) : bool :=
  forallb (fun b => match b with
                    | (f, tid, strict) =>
                        negb strict ||
                        match dict_get (gen_table tid gen_enum_tables) (rec_z r f) with
                        | Some _ => true | None => false end
                    end) binds.

(* the decoded value of an Enum field: the mapped name, or None when the raw
   integer is passed through (_default_ = Pass) *)
Definition enum_name (tid : string) (v : Z) : option string :=
  dict_get (gen_table tid gen_enum_tables) v.

(* ---- common/utils.py struct_parse(struct, stream, stream_pos=pos)
        try:    stream.seek(pos); return struct.parse_stream(stream)
        except ConstructError as e:  raise ELFParseError(str(e))
        a seek the stream refuses (OverflowError / ValueError / OSError) -> ELFParseError   <- repaired code only
   [legacy = true] is the code before the repairs 2fec52a / (file streams) the later one: the
   exception of seek escapes.
   Bytes read: construct reads field by field with stream.read(field size); a short
   field raises FieldError after consuming what was left, so a failing parse has
   read everything from pos to EOF, a successful one exactly its encoding. *)
Definition struct_parse_at (legacy : bool) (L : layout) (binds : list (string * string * bool))
    (bs : list Z) (pos : Z) : M record := fun c =>
  match seek_error pos with
  | Some t =>
      if negb legacy then (Err EParse, c) else (Err (EPy t), c)
  | None =>
      (* a static layout reads at most its size; one with file-sized arrays whatever is there *)
      let rest := rest_at bs pos in
      let win := match layout_size L with Some n => read_n rest (Z.of_nat n) | None => rest end in
      match decode_layout L win with
      | Some (r, t) =>
          let c' := tick_parse c (blen win - blen t) in
          if strict_ok binds r then (Ok r, c') else (Err EParse, c')
      | None => (Err EParse, tick_parse c (blen win))
      end
  end.

(* ---- common/utils.py parse_cstring_from_stream(stream, pos): 64-byte chunks until a
        chunk contains NUL or is short.  Returns (Some s | None, bytes read). *)
Fixpoint cstr_scan (fuel : nat) (bs : list Z) (acc : Z) : option (list Z) * Z :=
  match fuel with
  | O => (None, acc)
  | S f =>
      let chunk := firstn CHUNK bs in
      let acc' := acc + blen chunk in
      match find0 chunk with
      | Some i => (Some (firstn i chunk), acc')
      | None =>
          if (length chunk <? CHUNK)%nat then (None, acc')
          else match cstr_scan f (skipn CHUNK bs) acc' with
               | (Some s, a) => (Some (chunk ++ s)%list, a)
               | (None, a) => (None, a)
               end
      end
  end.

(* [fuel] bounds the number of chunks: any fuel > |bs| / 64 is enough; callers pass the |bs| + 1
   they keep around (computing a length here would cost |bs| steps per string) *)
Definition cstring_at (fuel : nat) (bs : list Z) (pos : Z) : M (option (list Z)) := fun c =>
  match seek_error pos with
  | Some t => (Err (EPy t), tick_str c 0)      (* the call is counted, its seek raised *)
  | None =>
      let rest := rest_at bs pos in
      let '(s, n) := cstr_scan fuel rest 0 in
      (Ok s, tick_str c n)
  end.

(* ---- small helpers ---- *)
Fixpoint zlist_eqb (a b : list Z) : bool :=
  match a, b with
  | [], [] => true
  | x :: a', y :: b' => (x =? y) && zlist_eqb a' b'
  | _, _ => false
  end.

Definition const_of (T : list (string * Z)) (n : string) (dflt : Z) : Z :=
  match tfind T n with Some v => v | None => dflt end.

(* elf/constants.py, read from the live module through Gen/Tables.v *)
Definition SHN_XINDEX : Z := const_of tbl_SHN_INDICES "SHN_XINDEX" 0xffff.
Definition SHF_COMPRESSED : Z := const_of tbl_SH_FLAGS "SHF_COMPRESSED" 0x800.

Definition lsize (L : layout) : Z :=
  match layout_size L with Some n => Z.of_nat n | None => 0 end.

Definition sx_cnt (c : cnt) : sx := SL [SI (c_parses c); SI (c_bytes c); SI (c_strs c)].
