(* Model/C09Dynamic.v — transliteration of
     elftools/elf/dynamic.py   _DynamicStringTable, DynamicTag, Dynamic, DynamicSection, DynamicSegment
     elftools/elf/hash.py      ELFHashTable / GNUHashTable: __init__, get_number_of_symbols
     elftools/elf/elffile.py   _identify_file, _parse_elf_header, num_sections, _get_section_header,
                               num_segments, _get_segment_header, iter_segments, address_offsets,
                               get_section_by_name (as used by Dynamic._get_stringtable)
     elftools/elf/sections.py  StringTableSection.get_string, SymbolTableSection (num_symbols,
                               get_symbol, iter_symbols) — the section view of the dynamic symbols
     elftools/elf/relocation.py RelocationTable / RelrRelocationTable as built by
                               Dynamic.get_relocation_tables
     elftools/elf/structs.py   _create_dyn / _create_phdr / _create_shdr: which decoding dict a
                               machine / OS ABI selects (tabulated by Gen/ElfLayouts.v)

   Conventions.  Loops over a record count n run clampn img n = min(n, len+1) times: a longer
   run has failed on a short read before (it keeps astronomic counts from garbage executable).
   A stream is the byte list; every read of this code is absolute
   (stream_pos=...), except the GNU chain walk, which seeks first.  Header tables are
   read eagerly (Python creates the objects lazily, one get_segment/get_section at a time;
   the two differ only when a later header cannot be parsed).  Enum members are decoded
   to a name or a raw integer with the very dict construct consults; the code's string
   comparisons ('DT_NULL', 'PT_LOAD', 'SHT_DYNAMIC' ...) are string comparisons here.
   Objects are fresh: the caches _num_tags/_stringtable/_num_symbols start empty
   (their history dependence is property C10).  Section constructors other than
   DynamicSection/StringTableSection/SymbolTableSection are assumed to succeed.
   No proofs here: see Proofs/C09*.v. *)
From Coq Require Export String.
From PV Require Export Base.Bytes Base.Outcome Base.Fmt Base.Prim Spec.C09Dyn Gen.ElfLayouts.
From PV Require Import Base.Enum Gen.Tables Gen.C09Hash.
Open Scope string_scope.
Open Scope list_scope.
Open Scope Z_scope.

(* ---------- construct: Enum(..., _default_=Pass) over a decoding dict ---------- *)
Inductive ename := EN (n : string) | ER (v : Z).
Definition dec_enum (T : list (Z * string)) (v : Z) : ename :=
  match dict_get T v with Some n => EN n | None => ER v end.
(* Python  tag == 'NAME'  (an int never equals a str) *)
Definition is_name (e : ename) (s : string) : bool :=
  match e with EN n => (n =? s)%string | ER _ => false end.

Fixpoint assoc_s {A} (l : list (string * A)) (k : string) : option A :=
  match l with
  | [] => None
  | (k', v) :: r => if (k' =? k)%string then Some v else assoc_s r k
  end.

(* ---------- struct_parse(L, stream, stream_pos=off) ---------- *)
Definition parse_at (L : layout) (img : list Z) (off : Z) : res (list (string * fval)) :=
  match decode_layout L (seekz img off) with
  | Some (r, _) => Ok r
  | None => Err EParse
  end.
(* the same for the hash headers, whose arrays are counted by 32-bit words of the header
   (decode_counted is decode_layout, see Spec/C09Dyn.v) *)
Definition parse_counted_at (L : layout) (le : bool) (counts : list nat) (img : list Z) (off : Z)
  : res (list (string * fval)) :=
  match decode_counted L le counts (seekz img off) with
  | Some (r, _) => Ok r
  | None => Err EParse
  end.

(* n records at off, off+stride, ... *)
Fixpoint parse_table (L : layout) (img : list Z) (off stride : Z) (n : nat)
  : res (list (list (string * fval))) :=
  match n with
  | O => Ok []
  | S k =>
      do r <- parse_at L img off;
      do rs <- parse_table L img (off + stride) stride k;
      Ok (r :: rs)
  end.

(* ---------- ELFFile ---------- *)
Record elf := mkElf {
  f_img : list Z;                  (* stream *)
  f_le : bool;                     (* little_endian *)
  f_is64 : bool;                   (* elfclass == 64 *)
  f_eh : ehdr;                     (* header *)
  f_ptab : list (Z * string);      (* structs.Elf_Phdr p_type decoding dict *)
  f_stab : list (Z * string);      (* structs.Elf_Shdr sh_type decoding dict *)
  f_dtab : list (Z * string)       (* structs.Elf_Dyn d_tag decoding dict *)
}.

Definition machine_key (v : Z) : string :=
  match dict_get E005_e_machine v with Some n => n | None => "<raw>" end.
Definition osabi_key (v : Z) : string :=
  match dict_get E003_EI_OSABI v with Some n => n | None => "<raw>" end.

(* ELFStructs._create_dyn:
     d_tag_dict = dict(ENUM_D_TAG_COMMON)
     if self.e_machine in ENUMMAP_EXTRA_D_TAG_MACHINE: d_tag_dict.update(...)
     elif self.e_ident_osabi == 'ELFOSABI_SOLARIS':    d_tag_dict.update(ENUM_D_TAG_SOLARIS)
   its outcome for every machine is tabulated by the translator *)
Definition dtab_id (machine osabi : Z) : option string :=
  if (osabi_key osabi =? "ELFOSABI_SOLARIS")%string
  then assoc_s gen_d_tag_table_of_machine_solaris (machine_key machine)
  else assoc_s gen_d_tag_table_of_machine (machine_key machine).
Definition table_of_id (o : option string) : res (list (Z * string)) :=
  match o with
  | Some id => of_opt (EPy "KeyError") (assoc_s gen_enum_tables id)
  | None => Err (EPy "KeyError")
  end.

(* ELFFile.__init__: _identify_file, create_basic_structs, _parse_elf_header,
   create_advanced_structs(e_type, e_machine, EI_OSABI) *)
Definition elf_open (img : list Z) : res elf :=
  match img with
  | m0 :: m1 :: m2 :: m3 :: c :: d :: _ =>
      (* elf_assert(magic == b'\x7fELF') *)
      if negb ((m0 =? 127) && (m1 =? 69) && (m2 =? 76) && (m3 =? 70)) then Err EElf
      else if negb ((c =? 1) || (c =? 2)) then Err EElf          (* Invalid EI_CLASS *)
      else if negb ((d =? 1) || (d =? 2)) then Err EElf          (* Invalid EI_DATA *)
      else
        let is64 := c =? 2 in let le := d =? 1 in
        do r <- parse_at (gen_Elf_Ehdr le is64) img 0;
        let h := ehdr_of r in
        do pt <- table_of_id (assoc_s gen_p_type_table_of_machine (machine_key (e_machine h)));
        do st <- table_of_id (assoc_s gen_sh_type_table_of_machine (machine_key (e_machine h)));
        do dt <- table_of_id (dtab_id (e_machine h) (e_osabi h));
        Ok (mkElf img le is64 h pt st dt)
  | _ => Err EElf
  end.

Definition stream_len (f : elf) : Z := zlen (f_img f).
Definition Phdr_sizeof (f : elf) : Z := phdr_size (f_is64 f).   (* structs.Elf_Phdr.sizeof() *)
Definition Shdr_sizeof (f : elf) : Z := shdr_size (f_is64 f).
Definition Dyn_sizeof (f : elf) : Z := dyn_size (f_is64 f).
Definition Sym_sizeof (f : elf) : Z := sym_size (f_is64 f).

Definition pt_is (f : elf) (p : phdr) (s : string) : bool := is_name (dec_enum (f_ptab f) (p_type p)) s.
Definition sht_is (f : elf) (s : shdr) (n : string) : bool := is_name (dec_enum (f_stab f) (sh_type s)) n.

(* _section_offset + _get_section_header:
     if e_shoff > 0 and shentsize < Elf_Shdr.sizeof(): raise ELFError
     stream_pos = e_shoff + n * shentsize;  if stream_pos > stream_len: return None *)
Definition section_header (f : elf) (n : Z) : res shdr :=
  let h := f_eh f in
  if (0 <? e_shoff h) && (e_shentsize h <? Shdr_sizeof f) then Err EElf
  else
    let pos := e_shoff h + n * e_shentsize h in
    if stream_len f <? pos then Err (EPy "TypeError")      (* a None header is subscripted *)
    else do r <- parse_at (gen_Elf_Shdr (f_le f) (f_is64 f)) (f_img f) pos; Ok (shdr_of r).

(* num_sections *)
Definition num_sections (f : elf) : res Z :=
  let h := f_eh f in
  if e_shoff h =? 0 then Ok 0
  else if e_shnum h =? 0 then do s0 <- section_header f 0; Ok (sh_size s0)
  else Ok (e_shnum h).

Fixpoint section_headers_go (f : elf) (i : Z) (n : nat) : res (list shdr) :=
  match n with
  | O => Ok []
  | S k => do s <- section_header f i; do r <- section_headers_go f (i + 1) k; Ok (s :: r)
  end.
(* the headers iter_sections walks *)
Definition section_headers (f : elf) : res (list shdr) :=
  do n <- num_sections f; section_headers_go f 0 (clampn (f_img f) n).

(* num_segments / _segment_offset / _get_segment_header *)
Definition segment_header (f : elf) (n : Z) : res phdr :=
  let h := f_eh f in
  if (0 <? e_phoff h) && (e_phentsize h <? Phdr_sizeof f) then Err EElf
  else do r <- parse_at (gen_Elf_Phdr (f_le f) (f_is64 f)) (f_img f) (e_phoff h + n * e_phentsize h);
       Ok (phdr_of r).
Fixpoint segment_headers_go (f : elf) (i : Z) (n : nat) : res (list phdr) :=
  match n with
  | O => Ok []
  | S k => do p <- segment_header f i; do r <- segment_headers_go f (i + 1) k; Ok (p :: r)
  end.
Definition segment_headers (f : elf) : res (list phdr) :=
  if e_phnum (f_eh f) <? 0xffff then segment_headers_go f 0 (Z.to_nat (e_phnum (f_eh f)))
  else Err (EPy "Unmodelled")      (* PN_XNUM: count taken from section 0 *)
  .

(* ---------- string tables ---------- *)
(* the object a Dynamic holds in _stringtable *)
Inductive strtab :=
| StSection (off : Z) (is_strtab : bool)   (* a Section; only StringTableSection has get_string *)
| StDynamic (off : Z).                     (* _DynamicStringTable(stream, table_offset) *)

(* get_string(offset):  s = parse_cstring_from_stream(stream, table_offset + offset)
                        return s.decode('utf-8') if s else '' *)
Definition cstring_or_empty (img : list Z) (pos : Z) : list Z :=
  match cstr_chunks (S (length img)) (seekz img pos) with Some s => s | None => [] end.
Definition get_string (img : list Z) (st : strtab) (offset : Z) : res (list Z) :=
  match st with
  | StSection off true => Ok (cstring_or_empty img (off + offset))
  | StSection off false => Err (EPy "AttributeError")
  | StDynamic off => Ok (cstring_or_empty img (off + offset))
  end.

(* ---------- Dynamic ---------- *)
Record dynobj := mkDyn {
  dy_off : Z;                     (* _offset *)
  dy_empty : bool;                (* _empty *)
  dy_str : option strtab          (* _stringtable as given to the constructor *)
}.
Definition rawtag := (ename * Z)%type.     (* entry.d_tag, entry.d_val (= d_ptr) *)

(* _get_tag(n) on a fresh object:  struct_parse(Elf_Dyn, stream, stream_pos=_offset + n*_tagsize) *)
Definition get_tag_raw (f : elf) (dy : dynobj) (n : Z) : res rawtag :=
  if dy_empty dy then Err (EPy "IndexError")      (* _num_tags == 0 *)
  else
    do r <- parse_at (gen_Elf_Dyn (f_le f) (f_is64 f)) (f_img f) (dy_off dy + n * Dyn_sizeof f);
    Ok (dec_enum (f_dtab f) (rec_z r "d_tag"), rec_z r "d_val").

(* _iter_tags():  for n in itertools.count(): tag = _get_tag(n); yield tag;
                  if tag['d_tag'] == 'DT_NULL': break *)
Fixpoint raw_tags_go (fuel : nat) (f : elf) (dy : dynobj) (n : Z) : res (list rawtag) :=
  match fuel with
  | O => Err EFuel
  | S k =>
      do t <- get_tag_raw f dy n;
      if is_name (fst t) "DT_NULL" then Ok [t]
      else do r <- raw_tags_go k f dy (n + 1); Ok (t :: r)
  end.
Definition raw_tags (f : elf) (dy : dynobj) : res (list rawtag) :=
  if dy_empty dy then Ok [] else raw_tags_go (S (length (f_img f))) f dy 0.

(* _iter_tags(type=name) *)
Definition tags_of_type (ts : list rawtag) (name : string) : list rawtag :=
  filter (fun t => is_name (fst t) name) ts.

(* ELFFile.address_offsets(start, size=1): the offsets of the PT_LOAD segments with
   start >= p_vaddr and start + size <= p_vaddr + p_filesz *)
Definition address_offsets (f : elf) (ps : list phdr) (start size : Z) : list Z :=
  map (fun p => start - p_vaddr p + p_offset p)
      (filter (fun p => pt_is f p "PT_LOAD" && (p_vaddr p <=? start) &&
                        (start + size <=? p_vaddr p + p_filesz p)) ps).

(* get_table_offset(tag_name):
     ptr = None;  for tag in _iter_tags(type=tag_name): ptr = tag['d_ptr']; break
     offset = None;  if ptr: offset = next(elffile.address_offsets(ptr), None)
     return ptr, offset *)
Definition get_table_offset (f : elf) (ps : list phdr) (ts : list rawtag) (name : string)
  : option Z * option Z :=
  match tags_of_type ts name with
  | [] => (None, None)
  | t :: _ =>
      let ptr := snd t in
      (Some ptr, if ptr =? 0 then None else hd_error (address_offsets f ps ptr 1))
  end.

(* _section_name_map / get_section_by_name(name): the LAST section carrying the name;
   names come from the section-header string table (e_shstrndx) *)
Definition section_name (f : elf) (shstr : shdr) (s : shdr) : list Z :=
  cstring_or_empty (f_img f) (sh_offset shstr + sh_name s).
Definition bytes_of_string (s : string) : list Z :=
  map (fun a => Z.of_nat (Ascii.nat_of_ascii a)) (list_ascii_of_string s).
Definition list_eqb (a b : list Z) : bool :=
  (length a =? length b)%nat && forallb (fun p => fst p =? snd p) (combine a b).
Definition get_section_by_name (f : elf) (name : string) : res (option shdr) :=
  do ss <- section_headers f;
  match ss with
  | [] => Ok None
  | _ =>
      if e_shstrndx (f_eh f) =? 0xffff then Err (EPy "Unmodelled")
      else
        do shstr <- section_header f (e_shstrndx (f_eh f));
        Ok (hd_error (rev (filter (fun s => list_eqb (section_name f shstr s) (bytes_of_string name)) ss)))
  end.

(* _get_stringtable():
     if self._stringtable: return it
     _, table_offset = get_table_offset('DT_STRTAB')
     if table_offset is not None: return _DynamicStringTable(stream, table_offset)
     return elffile.get_section_by_name('.dynstr') *)
Definition get_stringtable (f : elf) (ps : list phdr) (ts : list rawtag) (dy : dynobj)
  : res (option strtab) :=
  match dy_str dy with
  | Some st => Ok (Some st)
  | None =>
      match snd (get_table_offset f ps ts "DT_STRTAB") with
      | Some off => Ok (Some (StDynamic off))
      | None =>
          do o <- get_section_by_name f ".dynstr";
          Ok (match o with
              | Some s => Some (StSection (sh_offset s) (sht_is f s "SHT_STRTAB"))
              | None => None
              end)
      end
  end.

(* DynamicTag(entry, stringtable):
     if stringtable is None: raise ELFError
     if entry.d_tag in _HANDLED_TAGS: setattr(self, entry.d_tag[3:].lower(), stringtable.get_string(d_val)) *)
Definition handled_tag (t : ename) : bool :=
  is_name t "DT_NEEDED" || is_name t "DT_RPATH" || is_name t "DT_RUNPATH" || is_name t "DT_SONAME" ||
  is_name t "DT_SUNW_FILTER".
Definition dyntag := (rawtag * option (list Z))%type.     (* entry, string attribute when handled *)
Definition dynamic_tag (f : elf) (st : option strtab) (t : rawtag) : res dyntag :=
  match st with
  | None => Err EElf
  | Some s =>
      if handled_tag (fst t) then do str <- get_string (f_img f) s (snd t); Ok (t, Some str)
      else Ok (t, None)
  end.

Fixpoint dynamic_tags (f : elf) (st : res (option strtab)) (ts : list rawtag) : res (list dyntag) :=
  match ts with
  | [] => Ok []
  | t :: r =>
      do s <- st;
      do d <- dynamic_tag f s t;
      do ds <- dynamic_tags f st r;
      Ok (d :: ds)
  end.

(* iter_tags(type=None):  for tag in _iter_tags(type): yield DynamicTag(tag, _get_stringtable()) *)
Definition iter_tags_typed (f : elf) (ps : list phdr) (ts : list rawtag) (dy : dynobj) (name : string)
  : res (list dyntag) :=
  dynamic_tags f (get_stringtable f ps ts dy) (tags_of_type ts name).
Definition iter_tags_all (f : elf) (ps : list phdr) (ts : list rawtag) (dy : dynobj) : res (list dyntag) :=
  dynamic_tags f (get_stringtable f ps ts dy) ts.

(* ---------- relocation tables ---------- *)
Inductive reltab :=
| RelTable (kind : string) (off : option Z) (size : Z) (is_rela : bool)   (* RelocationTable *)
| RelrTable (off : option Z) (size : Z) (entsize : Z).                    (* RelrRelocationTable *)

(* next(self.iter_tags(name))['d_val'] *)
Definition next_val (f : elf) (ps : list phdr) (ts : list rawtag) (dy : dynobj) (name : string) : res Z :=
  do l <- iter_tags_typed f ps ts dy name;
  match l with
  | d :: _ => Ok (snd (fst d))
  | [] => Err (EPy "StopIteration")
  end.

Definition Rel_sizeof (f : elf) (is_rela : bool) : Z :=
  if is_rela then (if f_is64 f then 24 else 12) else (if f_is64 f then 16 else 8).
Definition Relr_sizeof (f : elf) : Z := if f_is64 f then 8 else 4.

(* get_relocation_tables() *)
Definition get_relocation_tables (f : elf) (ps : list phdr) (ts : list rawtag) (dy : dynobj)
  : res (list reltab) :=
  let present := fun name => do l <- iter_tags_typed f ps ts dy name;
                             Ok (match l with [] => false | _ => true end) in
  do has_rel <- present "DT_REL";
  do r1 <- (if has_rel then
              do sz <- next_val f ps ts dy "DT_RELSZ";
              do ent <- next_val f ps ts dy "DT_RELENT";
              if Rel_sizeof f false =? ent
              then Ok [RelTable "REL" (snd (get_table_offset f ps ts "DT_REL")) sz false]
              else Err EElf
            else Ok []);
  do has_rela <- present "DT_RELA";
  do r2 <- (if has_rela then
              do sz <- next_val f ps ts dy "DT_RELASZ";
              do ent <- next_val f ps ts dy "DT_RELAENT";
              if Rel_sizeof f true =? ent
              then Ok [RelTable "RELA" (snd (get_table_offset f ps ts "DT_RELA")) sz true]
              else Err EElf
            else Ok []);
  do has_relr <- present "DT_RELR";
  do r3 <- (if has_relr then
              do sz <- next_val f ps ts dy "DT_RELRSZ";
              do ent <- next_val f ps ts dy "DT_RELRENT";
              if Relr_sizeof f =? ent
              then Ok [RelrTable (snd (get_table_offset f ps ts "DT_RELR")) sz ent]
              else Err EElf
            else Ok []);
  do has_jmp <- present "DT_JMPREL";
  do r4 <- (if has_jmp then
              do sz <- next_val f ps ts dy "DT_PLTRELSZ";
              do pr <- next_val f ps ts dy "DT_PLTREL";
              do rela <- of_opt (EPy "KeyError") (tfind tbl_ENUM_D_TAG "DT_RELA");
              Ok [RelTable "JMPREL" (snd (get_table_offset f ps ts "DT_JMPREL")) sz (pr =? rela)]
            else Ok []);
  Ok (r1 ++ r2 ++ r3 ++ r4).

(* RelocationTable.iter_relocations: num = _size // entry_size; entry n at _offset + n*entry_size *)
Definition rel_layout (f : elf) (is_rela : bool) : layout :=
  (* structs._create_rel: 64-bit MIPS splits r_info into r_sym/r_ssym/r_type3/r_type2/r_type *)
  if f_is64 f && existsb (String.eqb (machine_key (e_machine (f_eh f)))) gen_rel_mips64_machines then
    (if is_rela then gen_Elf_Rela_mips64 (f_le f) else gen_Elf_Rel_mips64 (f_le f))
  else if is_rela then gen_Elf_Rela (f_le f) (f_is64 f) else gen_Elf_Rel (f_le f) (f_is64 f).
Definition relent := (Z * Z * option Z)%type.      (* r_offset, r_info, r_addend *)
Definition relent_of (is_rela : bool) (r : list (string * fval)) : relent :=
  (rec_z r "r_offset", rec_z r "r_info", if is_rela then Some (rec_z r "r_addend") else None).

(* RelrRelocationTable.iter_relocations *)
Fixpoint relr_bits (fuel : nat) (entry_offset base i entsize : Z) : list Z :=
  match fuel with
  | O => []
  | S k =>
      let eo := Z.shiftr entry_offset 1 in
      if eo =? 0 then []
      else (if negb (Z.land eo 1 =? 0) then [base + i * entsize] else []) ++
           relr_bits k eo base (i + 1) entsize
  end.
Fixpoint relr_go (fuel : nat) (f : elf) (relr limit : Z) (base : option Z) (entsize : Z)
  : res (list relent) :=
  match fuel with
  | O => Err EFuel
  | S k =>
      if relr <? limit then
        do r <- parse_at (gen_Elf_Relr (f_le f) (f_is64 f)) (f_img f) relr;
        let eo := rec_z r "r_offset" in
        if Z.land eo 1 =? 0 then
          do rest <- relr_go k f (relr + entsize) limit (Some (eo + entsize)) entsize;
          Ok ((eo, 0, None) :: rest)
        else
          match base with
          | None => Err EElf
          | Some b =>
              let here := map (fun o => (o, 0, None)) (relr_bits 65 eo b 0 entsize) in
              do rest <- relr_go k f (relr + entsize) limit
                                 (Some (b + (8 * entsize - 1) * (if f_is64 f then 8 else 4))) entsize;
              Ok (here ++ rest)
          end
      else Ok []
  end.

Definition reltab_entries (f : elf) (t : reltab) : res (list relent) :=
  match t with
  | RelTable _ off size is_rela =>
      let es := Rel_sizeof f is_rela in
      if size / es <=? 0 then Ok []                       (* range(num_relocations()) is empty *)
      else match off with
           | None => Err (EPy "TypeError")                (* None + n * entry_size *)
           | Some o =>
               do rs <- parse_table (rel_layout f is_rela) (f_img f) o es (clampn (f_img f) (size / es));
               Ok (map (relent_of is_rela) rs)
           end
  | RelrTable off size entsize =>
      if size =? 0 then Ok []
      else match off with
           | None => Err (EPy "TypeError")
           | Some o => relr_go (S (length (f_img f))) f o (o + size) None (Relr_sizeof f)
           end
  end.

(* ---------- DynamicSection / DynamicSegment constructors ---------- *)
(* DynamicSection.__init__:
     stringtable = elffile.get_section(header['sh_link'], ('SHT_STRTAB', 'SHT_NOBITS'))
     Dynamic.__init__(..., stringtable, self['sh_offset'], self['sh_type'] == 'SHT_NOBITS') *)
Definition dynamic_section_init (f : elf) (h : shdr) : res dynobj :=
  do st <- section_header f (sh_link h);
  if sht_is f st "SHT_STRTAB" || sht_is f st "SHT_NOBITS" then
    Ok (mkDyn (sh_offset h) (sht_is f h "SHT_NOBITS") (Some (StSection (sh_offset st) (sht_is f st "SHT_STRTAB"))))
  else Err EElf.

(* DynamicSegment.__init__:
     stringtable = None
     for section in elffile.iter_sections():       (every DynamicSection on the way is constructed)
         if isinstance(section, DynamicSection) and section['sh_offset'] == header['p_offset']:
             stringtable = elffile.get_section(section['sh_link']); break
     Dynamic.__init__(..., stringtable, self['p_offset'], self['p_filesz'] == 0) *)
Fixpoint find_dynsec_strtab (f : elf) (p : phdr) (ss : list shdr) : res (option strtab) :=
  match ss with
  | [] => Ok None
  | s :: r =>
      if sht_is f s "SHT_DYNAMIC" then
        do _ <- dynamic_section_init f s;
        if sh_offset s =? p_offset p then
          do st <- section_header f (sh_link s);
          Ok (Some (StSection (sh_offset st) (sht_is f st "SHT_STRTAB")))
        else find_dynsec_strtab f p r
      else find_dynsec_strtab f p r
  end.
Definition dynamic_segment_init (f : elf) (p : phdr) : res dynobj :=
  do ss <- section_headers f;
  do st <- find_dynsec_strtab f p ss;
  Ok (mkDyn (p_offset p) (p_filesz p =? 0) st).

(* iter_segments(): _make_segment builds a DynamicSegment for every PT_DYNAMIC header *)
Fixpoint make_segments (f : elf) (ps : list phdr) : res unit :=
  match ps with
  | [] => Ok tt
  | p :: r =>
      do _ <- (if pt_is f p "PT_DYNAMIC" then do _ <- dynamic_segment_init f p; Ok tt else Ok tt);
      make_segments f r
  end.
Definition iter_segments (f : elf) : res (list phdr) :=
  do ps <- segment_headers f; do _ <- make_segments f ps; Ok ps.

(* ---------- hash tables: the symbol count ---------- *)
(* structs._create_elf_hash: which (machine, class) pairs get 64-bit hash words is tabulated by the
   translator (Gen/C09Hash.v), as is that layout *)
Definition hash_wide (f : elf) : bool :=
  existsb (fun p => (fst p =? machine_key (e_machine (f_eh f)))%string && Bool.eqb (snd p) (f_is64 f)) gen_hash_wide.
Definition Elf_Hash_layout (f : elf) : layout :=
  if hash_wide f then gen_Elf_Hash_wide (f_le f) else gen_Elf_Hash (f_le f) (f_is64 f).
(* ELFHashTable.__init__ + get_number_of_symbols: params['nchains'] *)
Definition sysv_num_symbols (f : elf) (off : Z) : res Z :=
  match decode_counted_w (hash_wb (hash_wide f)) (Elf_Hash_layout f) (f_le f) [0; 1]%nat (seekz (f_img f) off) with
  | Some (r, _) => Ok (rec_z r "nchains")
  | None => Err EParse
  end.

(* the chain walk: stream.seek(pos); while True: cur = unpack(stream.read(4)); if cur & 1: return idx+1; idx += 1 *)
Fixpoint gnu_walk (fuel : nat) (f : elf) (pos idx : Z) : res Z :=
  match fuel with
  | O => Err EFuel
  | S k =>
      match take 4 (seekz (f_img f) pos) with
      | None => Err (EPy "error")                      (* struct.error on a short read *)
      | Some (w, _) =>
          if negb (Z.land (int_decode (f_le f) w) 1 =? 0) then Ok (idx + 1)
          else gnu_walk k f (pos + 4) (idx + 1)
      end
  end.
Definition list_max (l : list Z) : Z := fold_right Z.max 0 l.
(* GNUHashTable.__init__ + get_number_of_symbols *)
Definition gnu_num_symbols (f : elf) (off : Z) : res Z :=
  do r <- parse_counted_at (gen_Gnu_Hash (f_le f) (f_is64 f)) (f_le f) [0; 2]%nat (f_img f) off;
  let wordsize := 4 in let xwordsize := if f_is64 f then 8 else 4 in
  let chain_pos := off + 4 * wordsize + rec_z r "bloom_size" * xwordsize + rec_z r "nbuckets" * wordsize in
  match rec_get r "buckets" with
  | Some (VL (b :: bk)) =>
      let max_idx := list_max (b :: bk) in
      if max_idx <? rec_z r "symoffset" then Ok (rec_z r "symoffset")
      else gnu_walk (S (length (f_img f))) f (chain_pos + (max_idx - rec_z r "symoffset") * wordsize) max_idx
  | _ => Err (EPy "ValueError")                        (* max() of an empty sequence *)
  end.

(* ---------- DynamicSegment symbols ---------- *)
(* the nearest-pointer heuristic of num_symbols *)
Definition nearest_ptr (tab_ptr : Z) (ts : list rawtag) : option Z :=
  fold_left (fun nearest t =>
               let tag_ptr := snd t in
               if (tab_ptr <? tag_ptr) &&
                  match nearest with None => true | Some n => tag_ptr <? n end
               then Some tag_ptr else nearest) ts None.
Definition segment_end_ptr (ps : list phdr) (tab_ptr : Z) : option Z :=
  fold_left (fun nearest p =>
               if (p_vaddr p <=? tab_ptr) && (tab_ptr <=? p_vaddr p + p_filesz p)
               then Some (p_vaddr p + p_filesz p) else nearest) ps None.

(* num_symbols() *)
Definition num_symbols (f : elf) (ps : list phdr) (ts : list rawtag) (dy : dynobj) : res Z :=
  do n1 <- match snd (get_table_offset f ps ts "DT_GNU_HASH") with
           | Some off => do n <- gnu_num_symbols f off; Ok (Some n)
           | None => Ok None
           end;
  do n2 <- match n1 with
           | Some n => Ok (Some n)
           | None => match snd (get_table_offset f ps ts "DT_HASH") with
                     | Some off => do n <- sysv_num_symbols f off; Ok (Some n)
                     | None => Ok None
                     end
           end;
  match n2 with
  | Some n => Ok n
  | None =>
      match get_table_offset f ps ts "DT_SYMTAB" with
      | (Some tab_ptr, Some _) =>
          do tags <- iter_tags_all f ps ts dy;
          if existsb (fun t => is_name (fst t) "DT_SYMENT" && negb (Sym_sizeof f =? snd t)) ts
          then Err EElf
          else
            match (match nearest_ptr tab_ptr ts with
                   | Some n => Some n
                   | None => segment_end_ptr ps tab_ptr
                   end) with
            | Some end_ptr => Ok ((end_ptr - tab_ptr) / Sym_sizeof f)
            | None => Err (EPy "TypeError")
            end
      | _ => Err EElf          (* Segment does not contain DT_SYMTAB *)
      end
  end.

Definition symbol := (list (string * fval) * list Z)%type.     (* entry, name *)

(* get_symbol(index) *)
Definition get_symbol (f : elf) (ps : list phdr) (ts : list rawtag) (dy : dynobj) (index : Z) : res symbol :=
  match get_table_offset f ps ts "DT_SYMTAB" with
  | (Some _, Some tab_offset) =>
      do r <- parse_at (gen_Elf_Sym (f_le f) (f_is64 f)) (f_img f) (tab_offset + index * Sym_sizeof f);
      do st <- get_stringtable f ps ts dy;
      match st with
      | None => Err (EPy "AttributeError")
      | Some s => do nm <- get_string (f_img f) s (rec_z r "st_name"); Ok (r, nm)
      end
  | _ => Err EElf
  end.

Fixpoint symbols_go (f : elf) (ps : list phdr) (ts : list rawtag) (dy : dynobj) (i : Z) (n : nat)
  : res (list symbol) :=
  match n with
  | O => Ok []
  | S k => do s <- get_symbol f ps ts dy i; do r <- symbols_go f ps ts dy (i + 1) k; Ok (s :: r)
  end.
(* iter_symbols() *)
Definition iter_symbols (f : elf) (ps : list phdr) (ts : list rawtag) (dy : dynobj) : res (list symbol) :=
  do n <- num_symbols f ps ts dy; symbols_go f ps ts dy 0 (clampn (f_img f) n).

(* get_symbol_by_name(name): the symbols whose name equals name, None when there is none *)
Definition get_symbol_by_name (syms : list symbol) (name : list Z) : option (list symbol) :=
  match filter (fun s => list_eqb (snd s) name) syms with
  | [] => None
  | l => Some l
  end.

(* ---------- SymbolTableSection (the section view of the dynamic symbols) ---------- *)
(* _make_symbol_table_section + SymbolTableSection.__init__/num_symbols/get_symbol/iter_symbols *)
Fixpoint section_symbols_go (f : elf) (h str : shdr) (i : Z) (n : nat) : res (list symbol) :=
  match n with
  | O => Ok []
  | S k =>
      do r <- parse_at (gen_Elf_Sym (f_le f) (f_is64 f)) (f_img f) (sh_offset h + i * sh_entsize h);
      let nm := cstring_or_empty (f_img f) (sh_offset str + rec_z r "st_name") in
      do rest <- section_symbols_go f h str (i + 1) k;
      Ok ((r, nm) :: rest)
  end.
Definition section_symbols (f : elf) (h : shdr) : res (list symbol) :=
  do str <- section_header f (sh_link h);
  if negb (sht_is f str "SHT_STRTAB") then Err EElf
  else if negb (0 <? sh_entsize h) then Err EElf
  else if negb (sh_size h mod sh_entsize h =? 0) then Err EElf
  else section_symbols_go f h str 0 (clampn (f_img f) (sh_size h / sh_entsize h)).

(* ---------- the two views ---------- *)
Definition first_res {A} (l : list A) (e : err) : res A :=
  match l with x :: _ => Ok x | [] => Err e end.

(* for section in elffile.iter_sections(): if isinstance(section, DynamicSection): ... *)
Definition the_dynamic_section (f : elf) : res dynobj :=
  do ss <- section_headers f;
  do s <- first_res (filter (fun s => sht_is f s "SHT_DYNAMIC") ss) (EPy "NoDynamicSection");
  dynamic_section_init f s.
(* for segment in elffile.iter_segments(): if isinstance(segment, DynamicSegment): ... *)
Definition the_dynamic_segment (f : elf) : res dynobj :=
  do ps <- iter_segments f;
  do p <- first_res (filter (fun p => pt_is f p "PT_DYNAMIC") ps) (EPy "NoDynamicSegment");
  dynamic_segment_init f p.

Definition view_tags (f : elf) (dy : dynobj) : res (list dyntag) :=
  do ts <- raw_tags f dy;
  match dy_str dy with
  | Some _ => iter_tags_all f [] ts dy            (* the program headers are not consulted *)
  | None => do ps <- iter_segments f; iter_tags_all f ps ts dy
  end.
Definition view_relocs (f : elf) (dy : dynobj) : res (list (reltab * res (list relent))) :=
  do ts <- raw_tags f dy; do ps <- iter_segments f;
  do l <- get_relocation_tables f ps ts dy;
  Ok (map (fun t => (t, reltab_entries f t)) l).
Definition view_symbols (f : elf) (dy : dynobj) : res (list symbol) :=
  do ts <- raw_tags f dy; do ps <- iter_segments f; iter_symbols f ps ts dy.

Definition section_tags (img : list Z) := do f <- elf_open img; do dy <- the_dynamic_section f; view_tags f dy.
Definition segment_tags (img : list Z) := do f <- elf_open img; do dy <- the_dynamic_segment f; view_tags f dy.
Definition section_relocs (img : list Z) := do f <- elf_open img; do dy <- the_dynamic_section f; view_relocs f dy.
Definition segment_relocs (img : list Z) := do f <- elf_open img; do dy <- the_dynamic_segment f; view_relocs f dy.
Definition segment_symbols (img : list Z) := do f <- elf_open img; do dy <- the_dynamic_segment f; view_symbols f dy.
Definition section_symbols_view (img : list Z) :=
  do f <- elf_open img;
  do ss <- section_headers f;
  do s <- first_res (filter (fun s => sht_is f s "SHT_DYNSYM") ss) (EPy "NoDynsym");
  section_symbols f s.

(* num_tags() / get_tag(n) for n below num_tags() *)
Definition num_tags (f : elf) (dy : dynobj) : res Z :=
  do l <- view_tags f dy; Ok (zlen l).
Definition get_tag (f : elf) (dy : dynobj) (n : Z) : res dyntag :=
  do t <- get_tag_raw f dy n;
  do ts <- raw_tags f dy; do ps <- iter_segments f;
  do st <- get_stringtable f ps ts dy;
  dynamic_tag f st t.

(* ---------- one Dynamic object under a history of calls ----------
   State of the object as far as tags go: the _num_tags cache (None = -1) and the suspended
   _iter_tags() generators (type filter, next index n, finished).  _stringtable / _num_symbols /
   _symbol_name_map are caches of values proved to be functions of the image (not modelled here). *)
Record walk := mkWalk { w_type : option string; w_next : Z; w_done : bool }.
Record dstate := mkDst { ds_num : option Z; ds_walks : list walk }.
(* Dynamic.__init__:  self._num_tags = -1 if not empty else 0 *)
Definition dst_init (dy : dynobj) : dstate := mkDst (if dy_empty dy then Some 0 else None) [].

(* _get_tag(n):  if self._num_tags != -1 and n >= self._num_tags: raise IndexError(n) *)
Definition get_tag_st (f : elf) (dy : dynobj) (c : option Z) (n : Z) : res rawtag :=
  match c with
  | Some k => if k <=? n then Err (EPy "IndexError") else get_tag_raw f dy n
  | None => get_tag_raw f dy n
  end.

Definition tmatch (ty : option string) (t : rawtag) : bool :=
  match ty with None => true | Some s => is_name (fst t) s end.

(* next(generator) of _iter_tags(type): run the loop body up to the next yield *)
Fixpoint walk_next (fuel : nat) (f : elf) (dy : dynobj) (c : option Z) (w : walk) : res (option rawtag * walk) :=
  if w_done w || dy_empty dy then Ok (None, mkWalk (w_type w) (w_next w) true)      (* StopIteration *)
  else
    match fuel with
    | O => Err EFuel
    | S k =>
        do t <- get_tag_st f dy c (w_next w);
        let stop := is_name (fst t) "DT_NULL" in
        if tmatch (w_type w) t then Ok (Some t, mkWalk (w_type w) (w_next w + 1) stop)
        else if stop then Ok (None, mkWalk (w_type w) (w_next w + 1) true)
        else walk_next k f dy c (mkWalk (w_type w) (w_next w + 1) false)
    end.

(* num_tags():  if self._num_tags != -1: return it;  else walk to DT_NULL and remember n + 1 *)
Definition num_tags_st (f : elf) (dy : dynobj) (c : option Z) : res (Z * option Z) :=
  match c with
  | Some k => Ok (k, c)
  | None => do ts <- raw_tags f dy; Ok (zlen ts, Some (zlen ts))
  end.

Definition hstep (f : elf) (dy : dynobj) (st : dstate) (op : hop) : dstate * hans rawtag :=
  match op with
  | HStart ty => (mkDst (ds_num st) (ds_walks st ++ [mkWalk ty 0 false]), AStarted)
  | HNext i =>
      match nth_error (ds_walks st) i with
      | None => (st, ANoWalk)
      | Some w =>
          match walk_next (S (length (f_img f))) f dy (ds_num st) w with
          | Ok (Some t, w') => (mkDst (ds_num st) (set_nth (ds_walks st) i w'), ATag t)
          | Ok (None, w') => (mkDst (ds_num st) (set_nth (ds_walks st) i w'), AStop)
          | Err e => (mkDst (ds_num st) (set_nth (ds_walks st) i (mkWalk (w_type w) (w_next w) true)), AErr e)
          end
      end
  | HNumTags =>
      match num_tags_st f dy (ds_num st) with
      | Ok (k, c') => (mkDst c' (ds_walks st), ANum k)
      | Err e => (st, AErr e)
      end
  | HGetTag n =>       (* get_tag(n):  if n >= self.num_tags(): raise IndexError(n);  self._get_tag(n) *)
      match num_tags_st f dy (ds_num st) with
      | Ok (k, c') =>
          let st' := mkDst c' (ds_walks st) in
          if k <=? n then (st', AErr (EPy "IndexError"))
          else match get_tag_st f dy c' n with Ok t => (st', ATag t) | Err e => (st', AErr e) end
      | Err e => (st, AErr e)
      end
  end.
Fixpoint hrun (f : elf) (dy : dynobj) (st : dstate) (ops : list hop) : list (hans rawtag) :=
  match ops with
  | [] => []
  | op :: r => let (st', a) := hstep f dy st op in a :: hrun f dy st' r
  end.
