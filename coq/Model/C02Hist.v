(* Model/C02Hist.v — the OBJECTS of C02 under orders and histories of calls.

   elftools/elf/sections.py  Section: every attribute (_compressed, _compression_type,
     _decompressed_size, _decompressed_align) is assigned in __init__ and never again; the
     observers compressed / data_size / data_alignment / data() only read them (and the stream,
     by absolute seeks).  A session = __init__, then any list of observers on that one object.
   elftools/elf/elffile.py   ELFFile.iter_segments / address_offsets are generator functions:
         def iter_segments(self, type=None):
             for i in range(self.num_segments()):
                 segment = self.get_segment(i)
                 if type is None or segment['p_type'] == type:
                     yield segment
         def address_offsets(self, start, size=1):
             end = start + size
             for seg in self.iter_segments(type='PT_LOAD'):
                 if (start >= seg['p_vaddr'] and end <= seg['p_vaddr'] + seg['p_filesz']):
                     yield start - seg['p_vaddr'] + seg['p_offset']
     Neither assigns an attribute of the ELFFile: what the object carries between calls, as far
     as these walks go, is the set of generator objects still suspended, each with its own loop
     variable i.  The model keeps the walks LAZY (a program header is read only when a next()
     reaches it; an error surfaces at that next(), after the items before it were yielded).
   A change that makes a walk depend on what another walk did (a cache filled while a
   generator is consumed, a shared cursor) has no counterpart here: the correspondence runs
   [elf_hist] against the real object under the same history.
   No proofs here. *)
From Coq Require Import String.
From PV Require Import Base.Bytes Base.Outcome Base.Prim Base.Fmt Base.Enum Gen.ElfLayouts
     Spec.C02Spec Spec.C02Hist Model.C02Contents.
Open Scope string_scope.
Open Scope list_scope.
Open Scope Z_scope.

(* ================================================================== one Section object *)
Section zlib.
Variable inflate : list Z -> Z -> option (list Z * bool).

(* one observer on a constructed object *)
Definition sec_observe (stream : list Z) (le is64 : bool) (s : section) (o : sobs) : sans :=
  match o with
  | OCompressed => SBool (negb (compressed s =? 0))      (* bool(section.compressed) *)
  | OSize => SInt (data_size s)
  | OAlign => SInt (data_alignment s)
  | OData => SData (section_data inflate stream le is64 s)
  end.

(* Section(header, name, elffile) followed by the observers in the given order; the object is the
   same [s] throughout because no observer assigns to it *)
Definition sec_session (stream : list Z) (le is64 : bool) (h : sheader) (obs : list sobs) : res (list sans) :=
  do s <- section_init stream le is64 h;
  Ok (map (sec_observe stream le is64 s) obs).

(* the same for section number n of the file, reached by any entry point: the header is read at
   e_shoff + n * e_shentsize *)
Definition sec_session_at (stream : list Z) (le is64 : bool) (T : list (Z * string))
           (shoff shentsize n : Z) (obs : list sobs) : res (list sans) :=
  do h <- section_header_at stream le is64 T shoff shentsize n;
  sec_session stream le is64 h obs.
End zlib.

(* ================================================================== one ELFFile object *)
(* the numeric fields of a parsed program header, in gABI (ELF64) order without p_type *)
Definition seg_item (seg : list (string * fval)) : item :=
  [rec_z seg "p_flags"; rec_z seg "p_offset"; rec_z seg "p_vaddr"; rec_z seg "p_paddr";
   rec_z seg "p_filesz"; rec_z seg "p_memsz"; rec_z seg "p_align"].

(* what the body of the loop(s) does with the segment just read: Some item = yield it *)
Definition model_select (T : list (Z * string)) (k : gkind) (seg : list (string * fval)) : option item :=
  let is_load := is_name (dec_enum T (rec_z seg "p_type")) "PT_LOAD" in
  match k with
  | KAddr start size =>
      let end_ := start + size in
      if is_load then                                     (* iter_segments(type='PT_LOAD') passes it on *)
        if (rec_z seg "p_vaddr" <=? start) && (end_ <=? rec_z seg "p_vaddr" + rec_z seg "p_filesz")
        then Some [start - rec_z seg "p_vaddr" + rec_z seg "p_offset"]
        else None
      else None
  | KSegs => Some (seg_item seg)                          (* type is None *)
  | KLoads => if is_load then Some (seg_item seg) else None
  end.

(* what one resumption of a walk does *)
Inductive gstep : Type := GYield (a : item) | GStop | GRaise (e : err).

(* resume a walk whose loop variable is i, with [todo] = num_segments - i headers left:
   read headers until the body yields; returns the step and the loop variable afterwards *)
Fixpoint seg_scan (stream : list Z) (le is64 : bool) (T : list (Z * string)) (phoff phentsize : Z)
         (k : gkind) (todo : nat) (i : Z) : gstep * Z :=
  match todo with
  | O => (GStop, i)
  | S n =>
      match struct_parse_at (gen_Elf_Phdr le is64) stream (phoff + i * phentsize) with
      | Err e => (GRaise e, i)
      | Ok seg =>
          match model_select T k seg with
          | Some a => (GYield a, i + 1)
          | None => seg_scan stream le is64 T phoff phentsize k n (i + 1)
          end
      end
  end.

(* list(walk): a fresh walk run to its end *)
Fixpoint seg_scan_all (stream : list Z) (le is64 : bool) (T : list (Z * string)) (phoff phentsize : Z)
         (k : gkind) (todo : nat) (i : Z) : res (list item) :=
  match todo with
  | O => Ok []
  | S n =>
      do seg <- struct_parse_at (gen_Elf_Phdr le is64) stream (phoff + i * phentsize);
      do rest <- seg_scan_all stream le is64 T phoff phentsize k n (i + 1);
      match model_select T k seg with
      | Some a => Ok (a :: rest)
      | None => Ok rest
      end
  end.

(* a generator object: its arguments, its loop variable, finished (returned, raised or closed)? *)
Record mgen := mkMgen { mg_kind : gkind; mg_next : Z; mg_done : bool }.

(* the file as the ELFFile sees it: stream, byte order, class, p_type decoding table,
   e_phoff, e_phentsize, num_segments() *)
Record efile := mkEfile {
  ef_stream : list Z; ef_le : bool; ef_is64 : bool; ef_T : list (Z * string);
  ef_phoff : Z; ef_phentsize : Z; ef_phnum : Z }.

Definition ef_scan (f : efile) (k : gkind) (i : Z) : gstep * Z :=
  seg_scan (ef_stream f) (ef_le f) (ef_is64 f) (ef_T f) (ef_phoff f) (ef_phentsize f) k
           (Z.to_nat (ef_phnum f - i)) i.
Definition ef_all (f : efile) (k : gkind) : res (list item) :=
  seg_scan_all (ef_stream f) (ef_le f) (ef_is64 f) (ef_T f) (ef_phoff f) (ef_phentsize f) k
               (Z.to_nat (ef_phnum f)) 0.

(* one call on the ELFFile; the state is the list of generator objects handed out so far *)
Definition elf_estep (f : efile) (gs : list mgen) (o : eop) : list mgen * eans :=
  match o with
  | EStart k => (gs ++ [mkMgen k 0 false], AUnit)          (* calling a generator function runs none of its body *)
  | ENext g =>
      match nth_error gs g with
      | None => (gs, ANoGen)
      | Some s =>
          if mg_done s then (gs, AStop)
          else match ef_scan f (mg_kind s) (mg_next s) with
               | (GYield a, i) => (set_nth gs g (mkMgen (mg_kind s) i false), AItem a)
               | (GStop, i) => (set_nth gs g (mkMgen (mg_kind s) i true), AStop)
               | (GRaise e, i) => (set_nth gs g (mkMgen (mg_kind s) i true), AErr e)
               end
      end
  | EClose g =>
      match nth_error gs g with
      | None => (gs, ANoGen)
      | Some s => (set_nth gs g (mkMgen (mg_kind s) (mg_next s) true), AUnit)
      end
  | EAll k => (gs, match ef_all f k with Ok l => AList l | Err e => AErr e end)
  | ENoise _ => (gs, AUnit)                                 (* nothing these calls assign is read by the walks *)
  end.

Fixpoint elf_erun (f : efile) (gs : list mgen) (h : list eop) : list eans :=
  match h with
  | [] => []
  | o :: r => let (gs', a) := elf_estep f gs o in a :: elf_erun f gs' r
  end.
(* a freshly opened ELFFile put through the history h *)
Definition elf_hist (f : efile) (h : list eop) : list eans := elf_erun f [] h.

(* the state after a history, as a fold (for the invariant theorem) *)
Definition elf_state_after (f : efile) (h : list eop) : list mgen :=
  fold_left (fun gs o => fst (elf_estep f gs o)) h [].
