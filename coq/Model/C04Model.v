(* Model/C04Model.v — executable transliteration of the debugging-information-entry
   reader of pyelftools: dwarf/dwarfinfo.py (_parse_CU_at_offset, _parse_TU_at_offset,
   _parse_CUs_iter, _parse_TUs_iter, get_abbrev_table, get_CU_containing,
   get_DIE_from_refaddr, get_DIE_by_sig8, get_addr, get_string_from_table),
   dwarf/abbrevtable.py, dwarf/die.py, dwarf/compileunit.py and dwarf/typeunit.py
   (identical method bodies), dwarf/dwarf_util.py.
   Data (form table, enum dicts, header layouts) comes from Gen/C04Forms.v, i.e. from
   the live objects.  A stream is the section's byte list plus an explicit position.
   The DIE/CU caches (_dielist/_diemap, _cu_cache, _abbrevtable_cache, _terminator,
   _parent) are memoisation of pure functions of the offset and are modelled by
   recomputation; their transparency is property C10's subject.
   No supplementary DWARF object (dwarfinfo.supplementary_dwarfinfo is None).
   No proofs in this file. *)
From Coq Require Import String.
From PV Require Import Base.Outcome Base.Prim Spec.C04Desc Gen.C04Forms.
From Coq Require Import ZArith List Bool.
Import ListNotations.
Open Scope string_scope.
Open Scope list_scope.
Open Scope Z_scope.

(* stream.seek(off) followed by reads: the bytes from off on (nothing when off is at or past the end).
   Equal to skipn (Z.to_nat off) l; written so that a huge offset is never converted to unary. *)
Definition zskipn (off : Z) (l : list Z) : list Z :=
  if zlen l <=? off then [] else skipn (Z.to_nat off) l.

(* ------------------------------------------------------------------ construct objects *)
(* the integer-valued parsers *)
Definition parse_int (d : fdesc) : option (dec Z) :=
  match d with
  | DInt le n false => Some (uint_decode le n)
  | DInt le n true => Some (sint_decode_n le n)
  | DU24 le => Some (u24_decode le)
  | DUleb => Some uleb_decode
  | DSleb => Some sleb_decode
  | _ => None
  end.

(* Array(n, elem)._parse *)
Fixpoint arr_decode (n : nat) (d : dec Z) (bs : list Z) : option (list Z * list Z) :=
  match n with
  | O => Some ([], bs)
  | S k => match d bs with
           | None => None
           | Some (x, r) => match arr_decode k d r with
                            | Some (xs, t) => Some (x :: xs, t)
                            | None => None
                            end
           end
  end.

(* PrefixedArray(UBInt8 elem, length_field)._parse: Prim.block_decode, with the length compared to the
   remaining bytes before it is converted (a huge length is a short read, not a long computation) *)
Definition block_decode_g (len : dec Z) : dec (list Z) := fun bs =>
  match len bs with
  | Some (n, r) => if zlen r <? n then None else take (Z.to_nat n) r
  | None => None
  end.

(* struct_parse(Dwarf_dw_form[form], stream) / .parse_stream(stream): ConstructError -> ELFParseError *)
Definition parse_desc (d : fdesc) (bs : list Z) : res (rawval * list Z) :=
  match d with
  | DNone => Err (EPy "AttributeError")            (* None.parse_stream *)
  | DCStr => match cstring_decode bs with
             | Some (s, t) => Ok (RBytes s, t) | None => Err EParse end
  | DStatic n => match take n bs with
                 | Some (a, t) => Ok (RBytes a, t) | None => Err EParse end
  | DBlock len =>
      match parse_int len with
      | Some dl => match block_decode_g dl bs with
                   | Some (p, t) => Ok (RList p, t) | None => Err EParse end
      | None => Err (EPy "unsupported-length-field")
      end
  | DArr n e =>
      match parse_int e with
      | Some de => match arr_decode n de bs with
                   | Some (p, t) => Ok (RList p, t) | None => Err EParse end
      | None => Err (EPy "unsupported-array-element")
      end
  | _ => match parse_int d with
         | Some di => match di bs with
                      | Some (v, t) => Ok (RInt v, t) | None => Err EParse end
         | None => Err (EPy "unsupported")
         end
  end.

(* Struct of integer fields *)
Fixpoint parse_fields (fs : list (string * fdesc)) (bs : list Z) : option (list (string * Z) * list Z) :=
  match fs with
  | [] => Some ([], bs)
  | (n, d) :: r =>
      match parse_int d with
      | None => None
      | Some di =>
          match di bs with
          | None => None
          | Some (v, t) => match parse_fields r t with
                           | Some (vs, t') => Some ((n, v) :: vs, t')
                           | None => None
                           end
          end
      end
  end.

Fixpoint fget (r : list (string * Z)) (n : string) : Z :=
  match r with
  | [] => 0
  | (m, v) :: t => if String.eqb m n then v else fget t n
  end.

(* MappingAdapter._decode: dict hit, else Pass (the integer) or MappingError *)
Definition enum_dec (tbl : list (Z * string)) (pass : bool) (v : Z) : option ename :=
  match zfind tbl v with
  | Some n => Some (EName n)
  | None => if pass then Some (ERaw v) else None
  end.

(* ------------------------------------------------------------------ unit headers *)
Record uctx : Type := mkuctx {
  uc_le : bool; uc_is64 : bool; uc_asz : Z; uc_ver : Z;       (* parameters of cu.structs *)
  uc_off : Z;                                                 (* cu_offset / tu_offset *)
  uc_die_off : Z;                                             (* cu_die_offset *)
  uc_len : Z;                                                 (* header['unit_length'] *)
  uc_unit_type : option ename;                                (* header['unit_type'] (v5) *)
  uc_fields : list (string * Z)                               (* the other header fields *)
}.

Definition initial_length_field_size (is64 : bool) : Z := if is64 then 12 else 4.
Definition uc_size (U : uctx) : Z := uc_len U + initial_length_field_size (uc_is64 U).   (* CompileUnit.size *)
Definition uc_forms (U : uctx) : list (string * fdesc) :=
  gen_dw_form (uc_le U) (uc_is64 U) (uc_asz U =? 8) (uc_ver U).

Definition pos_after (pos : Z) (before after : list Z) : Z := pos + (zlen before - zlen after).

(* the tail of _parse_CU_at_offset/_parse_TU_at_offset: DWARFStructs(...) asserts the address size,
   then the version is checked *)
Definition finish_unit (le is64 : bool) (off die_off len ver : Z) (ut : option ename)
           (fs : list (string * Z)) : res uctx :=
  let asz := fget fs "address_size" in
  if negb ((asz =? 4) || (asz =? 8)) then Err (EPy "AssertionError")
  else if negb ((2 <=? ver) && (ver <=? 5)) then Err EDwarf
  else Ok (mkuctx le is64 asz ver off die_off len ut fs).

(* DWARFInfo._parse_CU_at_offset *)
Definition parse_cu_at (le : bool) (sec : list Z) (off : Z) : res uctx :=
  let bs := zskipn off sec in
  (* peek: initial_length = struct_parse(the_Dwarf_uint32, stream, offset) *)
  match uint_decode le 4 bs with
  | None => Err EParse
  | Some (first, _) =>
      let dwarf_format64 := first =? 0xFFFFFFFF in
      (* struct_parse(cu_structs.Dwarf_CU_header, stream, offset) *)
      match initial_length_decode le bs with
      | None => Err EParse
      | Some ((len, is64), r1) =>
          match uint_decode le 2 r1 with
          | None => Err EParse
          | Some (ver, r2) =>
              if gen_cu_v5_from <=? ver then
                match uint_decode true 1 r2 with
                | None => Err EParse
                | Some (utv, r3) =>
                    match enum_dec gen_dec_ut gen_dec_ut_pass utv with
                    | None => Err EParse                       (* MappingError *)
                    | Some ut =>
                        match ut with
                        | ERaw _ => Err EParse
                        | EName utn =>
                            match sfind (gen_cu_header_ge5 le dwarf_format64) utn with
                            | None => Err EParse               (* SwitchError *)
                            | Some layout =>
                                match parse_fields layout r3 with
                                | None => Err EParse
                                | Some (fs, r4) =>
                                    finish_unit le dwarf_format64 off (pos_after off bs r4) len ver (Some ut) fs
                                end
                            end
                        end
                    end
                end
              else
                match parse_fields (gen_cu_header_lt5 le dwarf_format64) r2 with
                | None => Err EParse
                | Some (fs, r3) => finish_unit le dwarf_format64 off (pos_after off bs r3) len ver None fs
                end
          end
      end
  end.

(* DWARFInfo._parse_TU_at_offset *)
Definition parse_tu_at (le : bool) (sec : list Z) (off : Z) : res uctx :=
  let bs := zskipn off sec in
  match uint_decode le 4 bs with
  | None => Err EParse
  | Some (first, _) =>
      let dwarf_format64 := first =? 0xFFFFFFFF in
      match initial_length_decode le bs with
      | None => Err EParse
      | Some ((len, is64), r1) =>
          match parse_fields (gen_tu_header le dwarf_format64) r1 with
          | None => Err EParse
          | Some (fs, r2) =>
              finish_unit le dwarf_format64 off (pos_after off bs r2) len (fget fs "version") None fs
          end
      end
  end.

(* DWARFInfo._parse_CUs_iter / _parse_TUs_iter: while offset < section size *)
Fixpoint units_loop (parse : Z -> res uctx) (fuel : nat) (size off : Z) : res (list uctx) :=
  match fuel with
  | O => Err EFuel
  | S f =>
      if off <? size then
        match parse off with
        | Err e => Err e
        | Ok U =>
            match units_loop parse f size (off + uc_len U + initial_length_field_size (uc_is64 U)) with
            | Ok r => Ok (U :: r)
            | Err e => Err e
            end
        end
      else Ok []
  end.
Definition iter_CUs (le : bool) (info : list Z) : res (list uctx) :=
  units_loop (parse_cu_at le info) (S (length info)) (zlen info) 0.
Definition iter_TUs (le : bool) (types : list Z) : res (list uctx) :=
  units_loop (parse_tu_at le types) (S (length types)) (zlen types) 0.

(* ------------------------------------------------------------------ abbreviation tables *)
Record mspec : Type := mkmspec { ms_name : ename; ms_form : ename; ms_value : option Z }.
Record mdecl : Type := mkmdecl { md_tag : ename; md_kids : bool; md_specs : list mspec }.

Definition is_name (e : ename) (s : string) : bool :=
  match e with EName n => String.eqb n s | ERaw _ => false end.

(* Struct('attr_spec', Enum(uleb name), Enum(uleb form), If(form == implicit_const, sleb value)) *)
Definition parse_attr_spec : dec mspec := fun bs =>
  match parse_int gen_abbrev_at_field with
  | None => None
  | Some dn =>
  match dn bs with
  | None => None
  | Some (nv, r1) =>
      match enum_dec gen_dec_at gen_dec_at_pass nv with
      | None => None
      | Some nm =>
          match parse_int gen_abbrev_form_field with
          | None => None
          | Some df =>
          match df r1 with
          | None => None
          | Some (fv, r2) =>
              match enum_dec gen_dec_form gen_dec_form_pass fv with
              | None => None
              | Some fm =>
                  if existsb (is_name fm) gen_abbrev_value_forms then
                    match parse_int gen_abbrev_value_field with
                    | None => None
                    | Some dv => match dv r2 with
                                 | Some (v, r3) => Some (mkmspec nm fm (Some v), r3)
                                 | None => None
                                 end
                    end
                  else Some (mkmspec nm fm None, r2)
              end
          end
          end
      end
  end
  end.

Definition spec_stop (s : mspec) : bool :=
  is_name (ms_name s) (fst gen_abbrev_stop) && is_name (ms_form s) (snd gen_abbrev_stop).

(* struct_parse(Dwarf_abbrev_declaration, stream) *)
Definition parse_abbrev_decl : dec mdecl := fun bs =>
  match parse_int gen_abbrev_tag_field with
  | None => None
  | Some dt =>
  match dt bs with
  | None => None
  | Some (tv, r1) =>
      match enum_dec gen_dec_tag gen_dec_tag_pass tv with
      | None => None
      | Some tag =>
          match parse_int gen_abbrev_children_field with
          | None => None
          | Some dc =>
          match dc r1 with
          | None => None
          | Some (cv, r2) =>
              match enum_dec gen_dec_children gen_dec_children_pass cv with
              | None => None
              | Some ch =>
                  match repeat_until (S (length r2)) parse_attr_spec spec_stop r2 with
                  | None => None
                  | Some (specs, r3) =>
                      (* AbbrevDecl._has_children = decl['children_flag'] == 'DW_CHILDREN_yes' *)
                      Some (mkmdecl tag (is_name ch "DW_CHILDREN_yes") specs, r3)
                  end
              end
          end
          end
      end
  end
  end.

(* AbbrevTable._parse_abbrev_table: map[decl_code] = AbbrevDecl(...) until code 0.
   The dict is kept newest-first; only lookups are observable. *)
Fixpoint abbrev_loop (fuel : nat) (bs : list Z) (map : list (Z * mdecl)) : res (list (Z * mdecl)) :=
  match fuel with
  | O => Err EFuel
  | S f =>
      match uleb_decode bs with
      | None => Err EParse
      | Some (code, r1) =>
          if code =? 0 then Ok map
          else match parse_abbrev_decl r1 with
               | None => Err EParse
               | Some (d, r2) => abbrev_loop f r2 ((code, d) :: map)
               end
      end
  end.

(* DWARFInfo.get_abbrev_table(offset) *)
Definition get_abbrev_table (abbrev_sec : list Z) (off : Z) : res (list (Z * mdecl)) :=
  if off <? zlen abbrev_sec then
    let bs := zskipn off abbrev_sec in
    abbrev_loop (S (length bs)) bs []
  else Err EDwarf.

(* ------------------------------------------------------------------ DIE._parse_DIE *)
(* self.attributes[name] = ...: dict assignment, overwrite keeps the position *)
Fixpoint attrs_set (attrs : list xattr) (a : xattr) : list xattr :=
  match attrs with
  | [] => [a]
  | b :: r => if ename_eqb (xa_name b) (xa_name a) then a :: r else b :: attrs_set r a
  end.

Definition form_parser (forms : list (string * fdesc)) (form : ename) : res fdesc :=
  match form with
  | EName n => match sfind forms n with Some d => Ok d | None => Err (EPy "KeyError") end
  | ERaw _ => Err (EPy "KeyError")
  end.

(* DIE._resolve_indirect: the loop after the first form code has been read *)
Fixpoint indirect_loop (forms : list (string * fdesc)) (fuel : nat) (code : Z) (length : Z) (bs : list Z)
  : res (ename * rawval * Z * list Z) :=
  match fuel with
  | O => Err EFuel
  | S f =>
      match zfind gen_form_raw2name code with
      | None => Err EDwarf                       (* unknown real form *)
      | Some real_form =>
          match form_parser forms (EName real_form) with
          | Err e => Err e
          | Ok d =>
              match parse_desc d bs with
              | Err e => Err e
              | Ok (raw, r) =>
                  if negb (String.eqb real_form "DW_FORM_indirect") then Ok (EName real_form, raw, length, r)
                  else match raw with
                       | RInt v => indirect_loop forms f v (length + 1) r
                       | _ => Err (EPy "TypeError")
                       end
              end
          end
      end
  end.
Definition resolve_indirect (forms : list (string * fdesc)) (bs : list Z) : res (ename * rawval * Z * list Z) :=
  match uleb_decode bs with
  | None => Err EParse
  | Some (code, r) => indirect_loop forms (S (length r)) code 1 r
  end.

(* for spec in abbrev_decl['attr_spec']: ... *)
Fixpoint parse_attrs (forms : list (string * fdesc)) (specs : list mspec) (bs : list Z) (pos : Z)
         (attrs : list xattr) : res (list xattr * Z) :=
  match specs with
  | [] => Ok (attrs, pos)
  | s :: sr =>
      let name := ms_name s in
      let form := ms_form s in
      (* attr_offset = stream.tell() = pos *)
      if is_name form "DW_FORM_implicit_const" then
        let raw := match ms_value s with Some v => RInt v | None => RInt 0 end in
        parse_attrs forms sr bs pos (attrs_set attrs (mkxattr name form raw pos 0))
      else if is_name form "DW_FORM_indirect" then
        match resolve_indirect forms bs with
        | Err e => Err e
        | Ok (rform, raw, len, r) =>
            parse_attrs forms sr r (pos_after pos bs r) (attrs_set attrs (mkxattr name rform raw pos len))
        end
      else
        match form_parser forms form with
        | Err e => Err e
        | Ok d =>
            match parse_desc d bs with
            | Err e => Err e
            | Ok (raw, r) =>
                parse_attrs forms sr r (pos_after pos bs r) (attrs_set attrs (mkxattr name form raw pos 0))
            end
        end
  end.

Definition parse_die (forms : list (string * fdesc)) (abbrevs : list (Z * mdecl)) (sec : list Z) (off : Z)
  : res xdie :=
  let bs := zskipn off sec in
  match uleb_decode bs with
  | None => Err EParse
  | Some (code, r1) =>
      let p1 := pos_after off bs r1 in
      if code =? 0 then Ok (mkxdie off (p1 - off) 0 None None [])
      else match zfind abbrevs code with
           | None => Err (EPy "KeyError")
           | Some d =>
               match parse_attrs forms (md_specs d) r1 p1 [] with
               | Err e => Err e
               | Ok (attrs, pend) =>
                   Ok (mkxdie off (pend - off) code (Some (md_tag d)) (Some (md_kids d)) attrs)
               end
           end
  end.

(* ------------------------------------------------------------------ a unit ready for DIE access *)
Record munit : Type := mkmunit {
  mu_ctx : uctx;
  mu_sec : list Z;                   (* the stream the unit lives in (.debug_info or .debug_types) *)
  mu_abbrevs : list (Z * mdecl)      (* cu.get_abbrev_table() *)
}.

(* cu._get_cached_DIE(offset) without the cache *)
Definition get_die (M : munit) (off : Z) : res xdie :=
  parse_die (uc_forms (mu_ctx M)) (mu_abbrevs M) (mu_sec M) off.
Definition get_top_DIE (M : munit) : res xdie := get_die M (uc_die_off (mu_ctx M)).

Definition open_unit (abbrev_sec : list Z) (sec : list Z) (U : uctx) : res munit :=
  match get_abbrev_table abbrev_sec (fget (uc_fields U) "debug_abbrev_offset") with
  | Err e => Err e
  | Ok t => Ok (mkmunit U sec t)
  end.

Fixpoint find_attr (attrs : list xattr) (n : string) : option xattr :=
  match attrs with
  | [] => None
  | a :: r => if is_name (xa_name a) n then Some a else find_attr r n
  end.

Definition has_children (d : xdie) : bool := match x_kids d with Some b => b | None => false end.

(* `form in ('DW_FORM_ref1', ..., 'DW_FORM_ref_udata')`: the tuple written in DIE.get_DIE_from_attribute,
   CompileUnit.iter_DIE_children and TypeUnit.iter_DIE_children (three copies, extracted from the source by the
   generator; Proofs/C04Forms.v shows they are the same tuple) *)
Definition is_unit_ref_form (f : ename) : bool := existsb (is_name f) gen_die_ref_unit_forms.

(* CompileUnit.iter_DIE_children / TypeUnit.iter_DIE_children: the while loop.
   Returns the yielded children and the terminator that gets stored in die._terminator. *)
Fixpoint children_loop (M : munit) (fuel : nat) (cur : Z) (acc : list xdie) : res (list xdie * xdie) :=
  match fuel with
  | O => Err EFuel
  | S f =>
      match get_die M cur with
      | Err e => Err e
      | Ok child =>
          if x_is_null child then Ok (rev acc, child)
          else
            let next :=
              if negb (has_children child) then Ok (cur + x_size child)
              else match find_attr (x_attrs child) "DW_AT_sibling" with
                   | Some sib =>
                       match xa_raw sib with
                       | RInt v =>
                           if is_unit_ref_form (xa_form sib) then Ok (v + uc_off (mu_ctx M))
                           else if is_name (xa_form sib) "DW_FORM_ref_addr" then Ok v
                           else Err (EPy "NotImplementedError")
                       | _ => Err (EPy "NotImplementedError")
                       end
                   | None =>
                       (* for _ in self.iter_DIE_children(child): pass; then child._terminator *)
                       match children_loop M f (x_off child + x_size child) [] with
                       | Err e => Err e
                       | Ok (_, term) => Ok (x_off term + x_size term)
                       end
                   end in
            match next with
            | Err e => Err e
            | Ok n => children_loop M f n (child :: acc)
            end
      end
  end.

Definition unit_fuel (M : munit) : nat := S (S (length (mu_sec M))).

Definition iter_children (M : munit) (fuel : nat) (d : xdie) : res (list xdie * option xdie) :=
  if negb (has_children d) then Ok ([], None)
  else match children_loop M fuel (x_off d + x_size d) [] with
       | Err e => Err e
       | Ok (cs, t) => Ok (cs, Some t)
       end.

Fixpoint res_flat_map {A B} (f : A -> res (list B)) (l : list A) : res (list B) :=
  match l with
  | [] => Ok []
  | x :: r => match f x with
              | Err e => Err e
              | Ok a => match res_flat_map f r with
                        | Err e => Err e
                        | Ok b => Ok (a ++ b)
                        end
              end
  end.

(* _iter_DIE_subtree (no supplementary file: the imported-unit replacement never fires) *)
Fixpoint iter_subtree (M : munit) (fuel : nat) (d : xdie) : res (list xdie) :=
  match fuel with
  | O => Err EFuel
  | S f =>
      if has_children d then
        match children_loop M (unit_fuel M) (x_off d + x_size d) [] with
        | Err e => Err e
        | Ok (cs, term) =>
            match res_flat_map (iter_subtree M f) cs with
            | Err e => Err e
            | Ok sub => Ok (d :: sub ++ [term])
            end
        end
      else Ok [d]
  end.

(* cu.iter_DIEs() *)
Definition iter_DIEs (M : munit) : res (list xdie) :=
  match get_top_DIE M with
  | Err e => Err e
  | Ok top => iter_subtree M (unit_fuel M) top
  end.

(* DIE.get_parent -> _search_ancestor_offspring; answer: the parent's offset or None *)
Fixpoint last_le (cs : list xdie) (target : Z) (prev : xdie) : xdie :=
  match cs with
  | [] => prev
  | c :: r => last_le r target (if x_off c <=? target then c else prev)
  end.
Fixpoint search_parent (M : munit) (fuel : nat) (search : xdie) (target : Z) (found : option Z) : res (option Z) :=
  match fuel with
  | O => Err EFuel
  | S f =>
      if x_off search <? target then
        match iter_children M (unit_fuel M) search with
        | Err e => Err e
        | Ok (cs, term) =>
            let prev := last_le cs target search in
            let all := cs ++ match term with Some t => [t] | None => [] end in
            let found' := if existsb (fun c => x_off c =? target) all then Some (x_off search) else found in
            let prev' := match term with
                         | Some t => if x_off t <=? target then t else prev
                         | None => prev
                         end in
            if x_off prev' =? x_off search then Err (EPy "ValueError")
            else search_parent M f prev' target found'
        end
      else Ok found
  end.
Definition get_parent (M : munit) (d : xdie) : res (option Z) :=
  match get_top_DIE M with
  | Err e => Err e
  | Ok top => search_parent M (unit_fuel M) top (x_off d) None
  end.

(* ------------------------------------------------------------------ reference resolution *)
(* cu.get_DIE_from_refaddr(refaddr) *)
Definition unit_die_from_refaddr (M : munit) (refaddr : Z) : res xdie :=
  let U := mu_ctx M in
  if (uc_die_off U <=? refaddr) && (refaddr <? uc_off U + uc_size U) then get_die M refaddr
  else Err EDwarf.

Record dsections : Type := mkdsections {
  s_le : bool;
  s_info : list Z; s_abbrev : list Z; s_types : list Z;
  s_str : list Z; s_line_str : list Z; s_str_offsets : list Z; s_addr : list Z;
  s_loclists : list Z; s_rnglists : list Z
}.

(* DWARFInfo.get_CU_containing(refaddr) *)
Fixpoint find_unit (us : list uctx) (refaddr : Z) : option uctx :=
  match us with
  | [] => None
  | U :: r => if (uc_off U <=? refaddr) && (refaddr <? uc_off U + uc_size U) then Some U else find_unit r refaddr
  end.
(* the generator stops at the first hit: units after it are never parsed *)
Fixpoint cu_containing_loop (S : dsections) (fuel : nat) (off refaddr : Z) : res uctx :=
  match fuel with
  | O => Err EFuel
  | S f =>
      if off <? zlen (s_info S) then
        match parse_cu_at (s_le S) (s_info S) off with
        | Err e => Err e
        | Ok U =>
            if (uc_off U <=? refaddr) && (refaddr <? uc_off U + uc_size U) then Ok U
            else cu_containing_loop S f (off + uc_len U + initial_length_field_size (uc_is64 U)) refaddr
        end
      else Err (EPy "ValueError")
  end.
Definition get_CU_containing (S : dsections) (refaddr : Z) : res uctx :=
  if (0 <=? refaddr) && (refaddr <? zlen (s_info S)) then
    cu_containing_loop S (Datatypes.S (length (s_info S))) 0 refaddr
  else Err EDwarf.

(* DWARFInfo._parse_debug_types: dict signature -> unit, filled first from every unit of .debug_types
   (tu['signature']), then from the .debug_info units whose unit_type is DW_UT_type / DW_UT_split_type
   (cu['type_signature']); a later unit with the same signature overwrites an earlier one *)
Fixpoint find_sig (field : string) (us : list uctx) (sig : Z) (found : option uctx) : option uctx :=
  match us with
  | [] => found
  | U :: r => find_sig field r sig (if fget (uc_fields U) field =? sig then Some U else found)
  end.
Definition is_type_unit (U : uctx) : bool :=
  match uc_unit_type U with
  | Some t => is_name t "DW_UT_type" || is_name t "DW_UT_split_type"
  | None => false
  end.

Inductive where_ : Type := InInfo | InTypes.

(* DIE.get_DIE_from_attribute(name) for an attribute of an entry of unit M.
   Answer: the section and unit offset of the unit that holds the entry, and the entry. *)
Definition die_from_attribute (S : dsections) (w : where_) (M : munit) (a : xattr) : res (where_ * Z * xdie) :=
  let form := xa_form a in
  match xa_raw a with
  | RInt raw =>
      if is_unit_ref_form form then
        match unit_die_from_refaddr M (uc_off (mu_ctx M) + raw) with
        | Ok d => Ok (w, uc_off (mu_ctx M), d) | Err e => Err e end
      else if is_name form "DW_FORM_ref_addr" then
        match get_CU_containing S raw with
        | Err e => Err e
        | Ok U => match open_unit (s_abbrev S) (s_info S) U with
                  | Err e => Err e
                  | Ok M' => match unit_die_from_refaddr M' raw with
                             | Ok d => Ok (InInfo, uc_off U, d) | Err e => Err e end
                  end
        end
      else if is_name form "DW_FORM_ref_sig8" then
        (* dwarfinfo.get_DIE_by_sig8(raw): tu._get_cached_DIE(tu.cu_offset + tu['type_offset']) *)
        match iter_TUs (s_le S) (s_types S) with
        | Err e => Err e
        | Ok tus =>
            match iter_CUs (s_le S) (s_info S) with
            | Err e => Err e
            | Ok cus =>
                match find_sig "type_signature" (filter is_type_unit cus) raw None with
                | Some U =>
                    match open_unit (s_abbrev S) (s_info S) U with
                    | Err e => Err e
                    | Ok M' => match get_die M' (uc_off U + fget (uc_fields U) "type_offset") with
                               | Ok d => Ok (InInfo, uc_off U, d) | Err e => Err e end
                    end
                | None =>
                    match find_sig "signature" tus raw None with
                    | None => Err (EPy "KeyError")
                    | Some U =>
                        match open_unit (s_abbrev S) (s_types S) U with
                        | Err e => Err e
                        | Ok M' => match get_die M' (uc_off U + fget (uc_fields U) "type_offset") with
                                   | Ok d => Ok (InTypes, uc_off U, d) | Err e => Err e end
                        end
                    end
                end
            end
        end
      else if is_name form "DW_FORM_ref_sup4" || is_name form "DW_FORM_ref_sup8" ||
              is_name form "DW_FORM_GNU_ref_alt" then Err (EPy "NotImplementedError")
      else Err EDwarf
  | _ => Err EDwarf
  end.

(* ------------------------------------------------------------------ DIE._translate_attr_value *)
(* struct_parse(parser, stream, pos) for an n-byte unsigned field *)
Definition read_uint_at (le : bool) (n : nat) (sec : list Z) (pos : Z) : res Z :=
  if pos <? 0 then Err (EPy "ValueError")
  else match uint_decode le n (zskipn pos sec) with
       | Some (v, _) => Ok v
       | None => Err EParse
       end.
(* parse_cstring_from_stream(stream, offset) *)
Definition string_at (sec : list Z) (off : Z) : res value :=
  if off <? 0 then Err (EPy "ValueError")
  else if zlen sec <=? off then Ok VNone            (* nothing to read: no terminator found *)
  else match parse_cstring_at sec (Z.to_nat off) with
       | Some s => Ok (VBytes s)
       | None => Ok VNone
       end.

(* dwarf_util._get_base_offset(cu, name): the .value of that attribute of the top DIE *)
Definition get_base_offset (top_attrs : list xattr) (name : string) : res Z :=
  match find_attr top_attrs name with
  | None => Err EDwarf
  | Some a => match xa_raw a with
              | RInt v => Ok v
              | _ => Err (EPy "TypeError")
              end
  end.

(* `form in ('DW_FORM_addrx', ...)` / `form in ('DW_FORM_strx', ...)`: the tuples written in _translate_attr_value *)
Definition is_addrx (f : ename) : bool := existsb (is_name f) gen_translate_addrx_forms.
Definition is_strx (f : ename) : bool := existsb (is_name f) gen_translate_strx_forms.

Definition offset_size (is64 : bool) : nat := if is64 then 8%nat else 4%nat.

(* value of one attribute, the top DIE of the unit being available (translate_indirect = True) *)
Definition translate_attr_value (S : dsections) (U : uctx) (top_attrs : list xattr) (form : ename) (raw : rawval)
  : res value :=
  match raw with
  | RInt rv =>
      if is_name form "DW_FORM_strp" then string_at (s_str S) rv
      else if is_name form "DW_FORM_line_strp" then string_at (s_line_str S) rv
      else if is_name form "DW_FORM_flag" then Ok (VBool (negb (rv =? 0)))
      else if is_addrx form then
        (* DWARFInfo.get_addr(cu, raw_value) *)
        match get_base_offset top_attrs "DW_AT_addr_base" with
        | Err e => Err e
        | Ok base => match read_uint_at (uc_le U) (Z.to_nat (uc_asz U)) (s_addr S)
                                        (base + rv * fget (uc_fields U) "address_size") with
                     | Ok v => Ok (VInt v) | Err e => Err e end
        end
      else if is_strx form then
        match get_base_offset top_attrs "DW_AT_str_offsets_base" with
        | Err e => Err e
        | Ok base =>
            let osz := offset_size (uc_is64 U) in
            match read_uint_at (uc_le U) osz (s_str_offsets S) (base + rv * Z.of_nat osz) with
            | Err e => Err e
            | Ok str_offset => string_at (s_str S) str_offset
            end
        end
      else if is_name form "DW_FORM_loclistx" then
        (* _resolve_via_offset_table(loclists stream, cu, raw_value, 'DW_AT_loclists_base') *)
        match get_base_offset top_attrs "DW_AT_loclists_base" with
        | Err e => Err e
        | Ok base =>
            let osz := offset_size (uc_is64 U) in
            match read_uint_at (uc_le U) osz (s_loclists S) (base + rv * Z.of_nat osz) with
            | Ok v => Ok (VInt (base + v)) | Err e => Err e end
        end
      else if is_name form "DW_FORM_rnglistx" then
        match get_base_offset top_attrs "DW_AT_rnglists_base" with
        | Err e => Err e
        | Ok base =>
            let osz := offset_size (uc_is64 U) in
            match read_uint_at (uc_le U) osz (s_rnglists S) (base + rv * Z.of_nat osz) with
            | Ok v => Ok (VInt (base + v)) | Err e => Err e end
        end
      else Ok (VInt rv)
  | _ =>
      if is_name form "DW_FORM_flag_present" then Ok (VBool true)
      else Ok (value_of_raw raw)
  end.

Fixpoint res_map {A B} (f : A -> res B) (l : list A) : res (list B) :=
  match l with
  | [] => Ok []
  | x :: r => match f x with
              | Err e => Err e
              | Ok y => match res_map f r with Ok ys => Ok (y :: ys) | Err e => Err e end
              end
  end.

(* the .value of every attribute of an entry, in order *)
Definition die_values (S : dsections) (U : uctx) (top_attrs : list xattr) (d : xdie) : res (list value) :=
  res_map (fun a => translate_attr_value S U top_attrs (xa_form a) (xa_raw a)) (x_attrs d).
