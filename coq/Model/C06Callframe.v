(* Model/C06Callframe.v — transliteration of elftools/dwarf/callframe.py, part 1:
   class CallFrameInfo (entry scan, CIE/FDE discrimination, augmentation handling, pointer
   encodings, instruction splitting) and the pieces of dwarf/structs.py it uses
   (Dwarf_CIE_header, Dwarf_FDE_header, the field constructors).
   Every function names the Python function it mirrors.  The numeric constants and the
   _eh_encoding_to_field mapping come from Gen/C06Tables.v (regenerated from the live module).
   No proofs here.

   Stream model: the section is a byte list; a position is an absolute Z.
   struct_parse(struct, stream, stream_pos=p) is [run_at struct stream p] and returns the value
   and stream.tell() afterwards; struct_parse without stream_pos is run_at at the position the
   previous call returned.  A short read is Err EParse (ConstructError -> ELFParseError). *)
From PV Require Export Base.Outcome Base.Prim Gen.C06Tables.
Open Scope Z_scope.

(* ---------------------------------------------------------------- parsers *)
Definition parser (A : Type) : Type := list Z -> res (A * list Z).
Definition pret {A} (a : A) : parser A := fun bs => Ok (a, bs).
Definition pbind {A B} (p : parser A) (f : A -> parser B) : parser B :=
  fun bs => match p bs with Ok (a, r) => f a r | Err e => Err e end.
Definition pfail {A} (e : err) : parser A := fun _ => Err e.
Definition of_dec {A} (d : dec A) : parser A :=
  fun bs => match d bs with Some x => Ok x | None => Err EParse end.
Notation "'let*' x := p 'in' k" := (pbind p (fun x => k))
  (at level 200, x pattern, p at level 100, k at level 200, right associativity).

(* stream.seek(pos); value = struct.parse_stream(stream); stream.tell() *)
Definition run_at {A} (p : parser A) (stream : list Z) (pos : Z) : res (A * Z) :=
  if pos <? 0 then Err (EPy "ValueError")                 (* BytesIO.seek(negative) *)
  else if 2 ^ 63 <=? pos then Err EParse     (* seek beyond ssize_t: OverflowError, which
                                                struct_parse reports as ELFParseError *)
  else
    (* seeking past the end is allowed; nothing can be read there *)
    let rest := if zlen stream <? pos then [] else skipn (Z.to_nat pos) stream in
    match p rest with
    | Ok (v, rest') => Ok (v, pos + (zlen rest - zlen rest'))
    | Err e => Err e
    end.

(* stream.read(n): never fails, returns what is there *)
Definition read_n (n : Z) : parser (list Z) :=
  fun bs => let k := Z.to_nat (Z.min n (zlen bs)) in Ok (firstn k bs, skipn k bs).

(* ---------------------------------------------------------------- dwarf/structs.py *)
Record structs : Type := mkstructs {
  little_endian : bool;
  dwarf_format : Z;        (* 32 or 64 *)
  address_size : Z         (* 4 or 8 *)
}.

Section Structs.
  Variable St : structs.
  Let le := little_endian St.
  Definition Dwarf_uint8 : parser Z := of_dec (uint_decode le 1).
  Definition Dwarf_uint16 : parser Z := of_dec (uint_decode le 2).
  Definition Dwarf_uint32 : parser Z := of_dec (uint_decode le 4).
  Definition Dwarf_uint64 : parser Z := of_dec (uint_decode le 8).
  (* Dwarf_offset = U?Int32 if dwarf_format == 32 else U?Int64 *)
  Definition Dwarf_offset : parser Z :=
    of_dec (uint_decode le (if dwarf_format St =? 32 then 4 else 8)).
  (* Dwarf_target_addr = U?Int32 if address_size == 4 else U?Int64 *)
  Definition Dwarf_target_addr : parser Z :=
    of_dec (uint_decode le (if address_size St =? 4 then 4 else 8)).
  Definition Dwarf_uleb128 : parser Z := of_dec uleb_decode.
  Definition Dwarf_sleb128 : parser Z := of_dec sleb_decode.
  (* _InitialLengthAdapter(Struct(first, If(first == 0xFFFFFFFF, second))) *)
  Definition Dwarf_initial_length : parser Z :=
    of_dec (fun bs => match initial_length_decode le bs with
                      | Some ((v, _), r) => Some (v, r)
                      | None => None
                      end).
  (* def initial_length_field_size(self): return 4 if self.dwarf_format == 32 else 12 *)
  Definition initial_length_field_size : Z := if dwarf_format St =? 32 then 4 else 12.
  (* Dwarf_dw_form['DW_FORM_block'] = PrefixedArray(Dwarf_uint8('elem'), Dwarf_uleb128('')) *)
  Definition DW_FORM_block : parser (list Z) :=
    fun bs => match uleb_decode bs with
              | None => Err EParse
              | Some (n, r) =>
                  if zlen r <? n then Err EParse            (* ArrayError: fewer than n elements *)
                  else Ok (firstn (Z.to_nat n) r, skipn (Z.to_nat n) r)
              end.
  Definition CString : parser (list Z) := of_dec cstring_decode.
End Structs.

(* Struct('Dwarf_CIE_header', ...) of _create_callframe_entry_headers; EH_CIE_header is the same *)
Record cie_header : Type := mkcie_header {
  ch_length : Z;
  ch_CIE_id : Z;
  ch_version : Z;
  ch_augmentation : list Z;
  ch_address_size : option Z;       (* If(version >= 4, uint8) else None *)
  ch_segment_size : option Z;
  ch_code_alignment_factor : Z;
  ch_data_alignment_factor : Z;
  ch_return_address_register : Z
}.

Definition Dwarf_CIE_header (St : structs) : parser cie_header :=
  let* length := Dwarf_initial_length St in
  let* CIE_id := Dwarf_offset St in
  let* version := Dwarf_uint8 St in
  let* augmentation := CString in
  let* address_size :=
    (if 4 <=? version then let* v := Dwarf_uint8 St in pret (Some v) else pret None) in
  let* segment_size :=
    (if 4 <=? version then let* v := Dwarf_uint8 St in pret (Some v) else pret None) in
  let* caf := Dwarf_uleb128 in
  let* daf := Dwarf_sleb128 in
  (* IfThenElse('return_address_register', version > 1, uleb128, uint8) *)
  let* rar := (if 1 <? version then Dwarf_uleb128 else Dwarf_uint8 St) in
  pret (mkcie_header length CIE_id version augmentation address_size segment_size caf daf rar).

Record fde_header : Type := mkfde_header {
  fh_length : Z;
  fh_CIE_pointer : Z;
  fh_initial_location : Z;
  fh_address_range : Z
}.

Definition Dwarf_FDE_header (St : structs) : parser fde_header :=
  let* length := Dwarf_initial_length St in
  let* CIE_pointer := Dwarf_offset St in
  let* initial_location := Dwarf_target_addr St in
  let* address_range := Dwarf_target_addr St in
  pret (mkfde_header length CIE_pointer initial_location address_range).

(* ---------------------------------------------------------------- instructions *)
(* an element of CallFrameInstruction.args: an int, or the int list of a DW_FORM_block *)
Inductive arg : Type := AInt (z : Z) | ABlock (b : list Z).
Record CallFrameInstruction : Type := mkinstr { opcode : Z; args : list arg }.

(* the if/elif chain of _parse_instructions, after the opcode byte has been read *)
Definition parse_args (St : structs) (opcode : Z) : parser (list arg) :=
  let primary := Z.land opcode PRIMARY_MASK in
  let primary_arg := Z.land opcode PRIMARY_ARG_MASK in
  if primary =? DW_CFA_advance_loc then pret [AInt primary_arg]
  else if primary =? DW_CFA_offset then
    let* a := Dwarf_uleb128 in pret [AInt primary_arg; AInt a]
  else if primary =? DW_CFA_restore then pret [AInt primary_arg]
  else if (opcode =? DW_CFA_nop) || (opcode =? DW_CFA_remember_state) ||
          (opcode =? DW_CFA_restore_state) || (opcode =? DW_CFA_AARCH64_negate_ra_state) then
    pret []
  else if opcode =? DW_CFA_set_loc then
    let* a := Dwarf_target_addr St in pret [AInt a]
  else if opcode =? DW_CFA_advance_loc1 then let* a := Dwarf_uint8 St in pret [AInt a]
  else if opcode =? DW_CFA_advance_loc2 then let* a := Dwarf_uint16 St in pret [AInt a]
  else if opcode =? DW_CFA_advance_loc4 then let* a := Dwarf_uint32 St in pret [AInt a]
  else if (opcode =? DW_CFA_offset_extended) || (opcode =? DW_CFA_register) ||
          (opcode =? DW_CFA_def_cfa) || (opcode =? DW_CFA_val_offset) then
    let* a := Dwarf_uleb128 in let* b := Dwarf_uleb128 in pret [AInt a; AInt b]
  else if (opcode =? DW_CFA_restore_extended) || (opcode =? DW_CFA_undefined) ||
          (opcode =? DW_CFA_same_value) || (opcode =? DW_CFA_def_cfa_register) ||
          (opcode =? DW_CFA_def_cfa_offset) then
    let* a := Dwarf_uleb128 in pret [AInt a]
  else if opcode =? DW_CFA_def_cfa_offset_sf then
    let* a := Dwarf_sleb128 in pret [AInt a]
  else if opcode =? DW_CFA_def_cfa_expression then
    let* e := DW_FORM_block in pret [ABlock e]
  else if (opcode =? DW_CFA_expression) || (opcode =? DW_CFA_val_expression) then
    let* a := Dwarf_uleb128 in let* e := DW_FORM_block in pret [AInt a; ABlock e]
  else if (opcode =? DW_CFA_offset_extended_sf) || (opcode =? DW_CFA_def_cfa_sf) ||
          (opcode =? DW_CFA_val_offset_sf) then
    let* a := Dwarf_uleb128 in let* b := Dwarf_sleb128 in pret [AInt a; AInt b]
  else if opcode =? DW_CFA_GNU_args_size then
    let* a := Dwarf_uleb128 in pret [AInt a]
  else pfail EDwarf.                 (* dwarf_assert(False, 'Unknown CFI opcode') *)

(* def _parse_instructions(self, structs, offset, end_offset):
       while offset < end_offset: opcode = struct_parse(uint8, stream, offset); ...;
                                  offset = self.stream.tell()
   Returns the list and the final stream position.  The only caller passes
   offset = self.stream.tell(), so after the loop stream.tell() = offset in every case.
   Every iteration consumes at least the opcode byte: fuel = bytes of the stream + 1. *)
Fixpoint parse_instructions (fuel : nat) (St : structs) (stream : list Z)
         (offset end_offset : Z) : res (list CallFrameInstruction * Z) :=
  match fuel with
  | O => Err EFuel
  | Datatypes.S f =>
      if offset <? end_offset then
        do (opc, p1) <- run_at (Dwarf_uint8 St) stream offset;
        do (a, p2) <- run_at (parse_args St opc) stream p1;
        do (rest, p3) <- parse_instructions f St stream p2 end_offset;
        Ok (mkinstr opc a :: rest, p3)
      else Ok ([], offset)
  end.

(* ---------------------------------------------------------------- entries *)
(* the value of the 'personality' Struct *)
Record personality : Type := mkpers { pe_encoding : Z; pe_function : Z }.
(* augmentation_dict: the keys the code can create.  'S' is recorded as aug_dict[True] = True
   (available_fields[b'S'] is True and the code does aug_dict[fld] = True). *)
Record augdict : Type := mkaugdict {
  ad_length : option Z;
  ad_LSDA_encoding : option Z;
  ad_FDE_encoding : option Z;
  ad_personality : option personality;
  ad_True : bool
}.
Definition empty_augdict : augdict := mkaugdict None None None None false.

Inductive entry : Type :=
| CIE (header : cie_header) (instructions : list CallFrameInstruction) (offset : Z)
      (augmentation_dict : augdict) (augmentation_bytes : list Z) (st : structs)
| FDE (header : fde_header) (instructions : list CallFrameInstruction) (offset : Z)
      (st : structs) (cie : entry) (augmentation_bytes : list Z) (lsda_pointer : option Z)
| ZERO (offset : Z).

Definition entry_offset (e : entry) : Z :=
  match e with CIE _ _ o _ _ _ => o | FDE _ _ o _ _ _ _ => o | ZERO o => o end.

(* entry.header.length + entry.structs.initial_length_field_size()   (cache hit) *)
Definition entry_extent (e : entry) : res Z :=
  match e with
  | CIE h _ _ _ _ St => Ok (ch_length h + initial_length_field_size St)
  | FDE h _ _ St _ _ _ => Ok (fh_length h + initial_length_field_size St)
  | ZERO _ => Err (EPy "AttributeError")
  end.

(* cie.augmentation_dict: CFIEntry.__init__ stores `augmentation_dict or {}` *)
Definition entry_augdict (e : entry) : res augdict :=
  match e with
  | CIE _ _ _ d _ _ => Ok d
  | FDE _ _ _ _ _ _ _ => Ok empty_augdict
  | ZERO _ => Err (EPy "AttributeError")
  end.

(* cie['augmentation'] *)
Definition entry_augmentation (e : entry) : res (list Z) :=
  match e with
  | CIE h _ _ _ _ _ => Ok (ch_augmentation h)
  | FDE _ _ _ _ _ _ _ => Err (EPy "KeyError")
  | ZERO _ => Err (EPy "TypeError")
  end.

(* self._entry_cache: dict offset -> entry *)
Definition cache : Type := list (Z * entry).
Fixpoint cache_get (c : cache) (k : Z) : option entry :=
  match c with
  | [] => None
  | (k', e) :: r => if k =? k' then Some e else cache_get r k
  end.
Definition cache_set (c : cache) (k : Z) (e : entry) : cache := (k, e) :: c.

Record CallFrameInfo : Type := mkcfi {
  stream : list Z;
  size : Z;
  address : Z;
  base_structs : structs;
  for_eh_frame : bool
}.

(* ASCII codes of the augmentation characters *)
Definition ch_z : Z := 122.
Definition ch_L : Z := 76.
Definition ch_R : Z := 82.
Definition ch_S : Z := 83.
Definition ch_P : Z := 80.
Definition armcc : list Z := [97; 114; 109; 99; 99].

Fixpoint startswith (s pre : list Z) : bool :=
  match pre, s with
  | [], _ => true
  | p :: pr, c :: sr => (c =? p) && startswith sr pr
  | _ :: _, [] => false
  end.

Fixpoint assocZ {A} (k : Z) (l : list (Z * A)) : option A :=
  match l with
  | [] => None
  | (k', v) :: r => if k =? k' then Some v else assocZ k r
  end.

(* _eh_encoding_to_field(entry_structs)[basic]: the field constructor, from the generated
   (signed, width) table; width 0 = LEB128, -1 = Dwarf_target_addr *)
Definition field_of_kind (St : structs) (k : bool * Z) : parser Z :=
  let '(signed, w) := k in
  if w =? 0 then (if signed then Dwarf_sleb128 else Dwarf_uleb128)
  else if w =? -1 then Dwarf_target_addr St
  else of_dec ((if signed then sint_decode_n else uint_decode) (little_endian St) (Z.to_nat w)).
Definition eh_encoding_to_field (St : structs) (basic : Z) : option (parser Z) :=
  match assocZ basic gen_eh_encoding_to_field with
  | Some k => Some (field_of_kind St k)
  | None => None
  end.

(* the fields of available_fields that are constructs *)
Inductive augfield : Type := FLength | FLSDA | FFDE | FPersonality.

(* for b in iterbytes(augmentation): try: fld = available_fields[b] except KeyError: break
       if fld is True: aug_dict[fld] = True  else: fields.append(fld)
   Returns (fields, whether aug_dict[True] was set). *)
Fixpoint aug_fields (augmentation : list Z) : list augfield * bool :=
  match augmentation with
  | [] => ([], false)
  | b :: r =>
      if b =? ch_z then let '(f, s) := aug_fields r in (FLength :: f, s)
      else if b =? ch_L then let '(f, s) := aug_fields r in (FLSDA :: f, s)
      else if b =? ch_R then let '(f, s) := aug_fields r in (FFDE :: f, s)
      else if b =? ch_S then let '(f, _) := aug_fields r in (f, true)
      else if b =? ch_P then let '(f, s) := aug_fields r in (FPersonality :: f, s)
      else ([], false)
  end.

(* Struct('Augmentation_Data', *fields) parsed into aug_dict (aug_dict.update(...)) *)
Fixpoint parse_aug_fields (St : structs) (fs : list augfield) (d : augdict) : parser augdict :=
  match fs with
  | [] => pret d
  | FLength :: r =>
      let* v := Dwarf_uleb128 in
      parse_aug_fields St r (mkaugdict (Some v) (ad_LSDA_encoding d) (ad_FDE_encoding d)
                                      (ad_personality d) (ad_True d))
  | FLSDA :: r =>
      let* v := Dwarf_uint8 St in
      parse_aug_fields St r (mkaugdict (ad_length d) (Some v) (ad_FDE_encoding d)
                                      (ad_personality d) (ad_True d))
  | FFDE :: r =>
      let* v := Dwarf_uint8 St in
      parse_aug_fields St r (mkaugdict (ad_length d) (ad_LSDA_encoding d) (Some v)
                                      (ad_personality d) (ad_True d))
  | FPersonality :: r =>
      (* Struct('personality', uint8 'encoding', Switch('function', encoding & 0x0f, {...})) *)
      let* enc := Dwarf_uint8 St in
      match eh_encoding_to_field St (Z.land enc 15) with
      | None => pfail EParse          (* SwitchError, a ConstructError *)
      | Some fld =>
          let* fn := fld in
          parse_aug_fields St r (mkaugdict (ad_length d) (ad_LSDA_encoding d) (ad_FDE_encoding d)
                                          (Some (mkpers enc fn)) (ad_True d))
      end
  end.

Section Info.
  Variable self : CallFrameInfo.

  (* def _read_augmentation_data(self, entry_structs), stream at pos *)
  Definition read_augmentation_data (pos : Z) : res (list Z * Z) :=
    if negb (for_eh_frame self) then Ok ([], pos)
    else
      do (len, p1) <- run_at Dwarf_uleb128 (stream self) pos;
      run_at (read_n len) (stream self) p1.

  (* def _parse_cie_augmentation(self, header, entry_structs), stream at pos.
     Returns (aug_bytes, aug_dict) and the stream position. *)
  Definition parse_cie_augmentation (header : cie_header) (St : structs) (pos : Z)
    : res (list Z * augdict * Z) :=
    let augmentation := ch_augmentation header in
    match augmentation with
    | [] => Ok ([], empty_augdict, pos)
    | _ =>
        if startswith augmentation armcc then Ok ([], empty_augdict, pos)
        else if negb (startswith augmentation [ch_z]) then Err (EPy "AssertionError")
        else
          let '(fields, s) := aug_fields augmentation in
          let aug_dict := mkaugdict None None None None s in
          let offset := pos in                                   (* offset = self.stream.tell() *)
          do (d, _) <- run_at (parse_aug_fields St fields aug_dict) (stream self) offset;
          (* self.stream.seek(offset) *)
          do (aug_bytes, p) <- read_augmentation_data offset;
          Ok (aug_bytes, d, p)
    end.

  (* def _parse_lsda_pointer(self, structs, stream_offset, encoding).
     Returns the pointer and the stream position after the pointer. *)
  Definition parse_lsda_pointer (St : structs) (stream_offset encoding : Z) : res (Z * Z) :=
    if encoding =? DW_EH_PE_omit then Err (EPy "AssertionError")
    else
      let basic_encoding := Z.land encoding 15 in
      let modifier := Z.land encoding 240 in
      match eh_encoding_to_field St basic_encoding with
      | None => Err (EPy "KeyError")
      | Some fld =>
          do (ptr, p) <- run_at fld (stream self) stream_offset;
          if modifier =? DW_EH_PE_absptr then Ok (ptr, p)
          else if modifier =? DW_EH_PE_pcrel then Ok (ptr + (address self + stream_offset), p)
          else Err (EPy "AssertionError")
      end.

  (* The mutually recursive part: _parse_entry_at calls _parse_fde_header and
     _parse_cie_for_fde, which call _parse_entry_at.  [rec cache pos offset] is the recursive
     call with the current cache and stream position; it returns the entry, the cache and the
     new stream position. *)
  Section Rec.
    Variable rec : cache -> Z -> Z -> res (entry * cache * Z).

    (* def _parse_cie_for_fde(self, fde_offset, fde_header, entry_structs):
           with preserve_stream_pos(self.stream): return self._parse_entry_at(cie_offset) *)
    Definition parse_cie_for_fde (c : cache) (pos : Z) (fde_offset CIE_pointer : Z) (St : structs)
      : res (entry * cache) :=
      let cie_offset :=
        if for_eh_frame self then fde_offset + dwarf_format St / 8 - CIE_pointer
        else CIE_pointer in
      do (e, c', _) <- rec c pos cie_offset;
      Ok (e, c').

    (* def _parse_fde_header(self, entry_structs, offset).  Returns header, cache, position. *)
    Definition parse_fde_header (c : cache) (St : structs) (offset : Z)
      : res (fde_header * cache * Z) :=
      if negb (for_eh_frame self) then
        do (h, p) <- run_at (Dwarf_FDE_header St) (stream self) offset;
        Ok (h, c, p)
      else
        let minimal := (let* length := Dwarf_initial_length St in
                        let* CIE_pointer := Dwarf_offset St in
                        pret (length, CIE_pointer)) in
        do ((length, CIE_pointer), p1) <- run_at minimal (stream self) offset;
        do (cie, c1) <- parse_cie_for_fde c p1 offset CIE_pointer St;
        let initial_location_offset := p1 in                    (* self.stream.tell() *)
        do d <- entry_augdict cie;
        (* encoding = cie.augmentation_dict.get('FDE_encoding', DW_EH_PE_absptr) *)
        let encoding := match ad_FDE_encoding d with Some v => v | None => DW_EH_PE_absptr end in
        if encoding =? DW_EH_PE_omit then Err (EPy "AssertionError")
        else
          let basic_encoding := Z.land encoding 15 in
          let encoding_modifier := Z.land encoding 240 in
          match eh_encoding_to_field St basic_encoding with
          | None => Err (EPy "KeyError")
          | Some fld =>
              let full := (let* length := Dwarf_initial_length St in
                           let* CIE_pointer := Dwarf_offset St in
                           let* initial_location := fld in
                           let* address_range := fld in
                           pret (mkfde_header length CIE_pointer initial_location address_range)) in
              do (result, p2) <- run_at full (stream self) offset;
              if encoding_modifier =? 0 then Ok (result, c1, p2)
              else if encoding_modifier =? DW_EH_PE_pcrel then
                Ok (mkfde_header (fh_length result) (fh_CIE_pointer result)
                                 (fh_initial_location result
                                  + (address self + initial_location_offset))
                                 (fh_address_range result), c1, p2)
              else Err (EPy "AssertionError")
          end.

    (* def _parse_entry_at(self, offset), with the stream at [pos] on entry *)
    Definition parse_entry_at_body (c : cache) (pos offset : Z) : res (entry * cache * Z) :=
      match cache_get c offset with
      | Some e =>
          (* self.stream.seek(offset + entry.header.length + ilfs): right after the entry *)
          do n <- entry_extent e;
          Ok (e, c, offset + n)
      | None =>
          let base := base_structs self in
          do (entry_length, p1) <- run_at (Dwarf_uint32 base) (stream self) offset;
          if for_eh_frame self && (entry_length =? 0) then Ok (ZERO offset, c, p1)
          else
            let dwarf_format := if entry_length =? 0xFFFFFFFF then 64 else 32 in
            let entry_structs := mkstructs (little_endian base) dwarf_format (address_size base) in
            (* CIE_id = struct_parse(the_Dwarf_offset, stream, offset + ilfs) *)
            do (CIE_id, _) <- run_at (Dwarf_offset entry_structs) (stream self)
                                      (offset + initial_length_field_size entry_structs);
            let is_CIE :=
              if for_eh_frame self then CIE_id =? 0
              else ((dwarf_format =? 32) && (CIE_id =? 0xFFFFFFFF))
                   || (CIE_id =? 0xFFFFFFFFFFFFFFFF) in
            if is_CIE then
              do (header, p3) <- run_at (Dwarf_CIE_header entry_structs) (stream self) offset;
              do (aug_bytes, aug_dict, p4) <- parse_cie_augmentation header entry_structs p3;
              let end_offset := offset + ch_length header
                                + initial_length_field_size entry_structs in
              do (instructions, p5) <-
                 parse_instructions (Datatypes.S (length (stream self))) entry_structs
                                    (stream self) p4 end_offset;
              let e := CIE header instructions offset aug_dict aug_bytes entry_structs in
              Ok (e, cache_set c offset e, p5)
            else
              do (header, c1, p3) <- parse_fde_header c entry_structs offset;
              do (cie, c2) <- parse_cie_for_fde c1 p3 offset (fh_CIE_pointer header) entry_structs;
              (* the augmentation length exists only if the CIE's augmentation starts with 'z' *)
              do aug <- entry_augmentation cie;
              do (aug_bytes, p4) <-
                 (if startswith aug [ch_z] then read_augmentation_data p3 else Ok ([], p3));
              do d <- entry_augdict cie;
              let lsda_encoding :=
                match ad_LSDA_encoding d with Some v => v | None => DW_EH_PE_omit end in
              do (lsda_pointer, p5) <-
                 (if negb (lsda_encoding =? DW_EH_PE_omit) then
                    do (ptr, p) <- parse_lsda_pointer entry_structs (p4 - zlen aug_bytes)
                                                       lsda_encoding;
                    Ok (Some ptr, p)
                  else Ok (None, p4));
              let end_offset := offset + fh_length header
                                + initial_length_field_size entry_structs in
              do (instructions, p6) <-
                 parse_instructions (Datatypes.S (length (stream self))) entry_structs
                                    (stream self) p5 end_offset;
              do (cie', c3) <- parse_cie_for_fde c2 p6 offset (fh_CIE_pointer header)
                                                  entry_structs;
              let e := FDE header instructions offset entry_structs cie' aug_bytes lsda_pointer in
              Ok (e, cache_set c3 offset e, p6)
      end.
  End Rec.

  (* the recursion of _parse_entry_at through _parse_cie_for_fde: Python's recursion limit is
     the fuel; a well-formed section needs depth 2 (FDE -> its CIE) *)
  Fixpoint parse_entry_at (fuel : nat) (c : cache) (pos offset : Z) : res (entry * cache * Z) :=
    match fuel with
    | O => Err (EPy "RecursionError")
    | Datatypes.S f => parse_entry_at_body (parse_entry_at f) c pos offset
    end.

  (* def _parse_entries(self):
         entries = []; offset = 0
         while offset < self.size:
             entries.append(self._parse_entry_at(offset)); offset = self.stream.tell()
     Every entry consumes at least 4 bytes: fuel = size + 1 iterations. *)
  Fixpoint parse_entries_loop (fuel : nat) (c : cache) (offset : Z) : res (list entry) :=
    match fuel with
    | O => Err EFuel
    | Datatypes.S f =>
        if offset <? size self then
          do (e, c', p) <- parse_entry_at 1000 c offset offset;
          do rest <- parse_entries_loop f c' p;
          Ok (e :: rest)
        else Ok []
    end.

  (* def get_entries(self) on a fresh object *)
  Definition get_entries : res (list entry) :=
    parse_entries_loop (Datatypes.S (Z.to_nat (size self))) [] 0.
End Info.
