(* Model/C06Dwarfinfo.v — transliteration of the call frame entry points of
   elftools/dwarf/dwarfinfo.py: DebugSectionDescriptor, the part of DWARFInfo.__init__ they use,
   has_CFI / CFI_entries / has_EH_CFI / EH_CFI_entries.  No proofs here.

   DebugSectionDescriptor = namedtuple('stream name global_offset size address'); the module
   says: 'name' and 'global_offset' are for descriptional purposes only.  They are fields of the
   model so that the theorems can say that the answers do not depend on them.
   Every call builds a fresh CallFrameInfo over the descriptor's stream and reads it at absolute
   positions only, so a DWARFInfo has no call-frame state: a history of calls is the list of the
   answers of the single calls ([cfi_calls]). *)
From PV Require Export Model.C06Callframe.
Open Scope Z_scope.

Record DebugSectionDescriptor : Type := mkdsd {
  d_stream : list Z;
  d_name : option (list Z);          (* None or the section name in the container *)
  d_global_offset : Z;
  d_size : Z;
  d_address : Z
}.

Record DWARFInfo : Type := mkdwarfinfo {
  debug_frame_sec : option DebugSectionDescriptor;
  eh_frame_sec : option DebugSectionDescriptor;
  (* self.structs = DWARFStructs(little_endian=config.little_endian, dwarf_format=32,
                                 address_size=config.default_address_size) *)
  di_structs : structs
}.

(* def has_CFI(self): return self.debug_frame_sec is not None *)
Definition has_CFI (self : DWARFInfo) : bool :=
  match debug_frame_sec self with Some _ => true | None => false end.
(* def has_EH_CFI(self): return self.eh_frame_sec is not None *)
Definition has_EH_CFI (self : DWARFInfo) : bool :=
  match eh_frame_sec self with Some _ => true | None => false end.

(* def CFI_entries(self):
       cfi = CallFrameInfo(stream=self.debug_frame_sec.stream, size=self.debug_frame_sec.size,
                           address=self.debug_frame_sec.address, base_structs=self.structs)
       return cfi.get_entries() *)
Definition CFI_entries (self : DWARFInfo) : res (list entry) :=
  match debug_frame_sec self with
  | None => Err (EPy "AttributeError")                 (* None.stream *)
  | Some sec =>
      get_entries (mkcfi (d_stream sec) (d_size sec) (d_address sec) (di_structs self) false)
  end.

(* def EH_CFI_entries(self): the same on self.eh_frame_sec with for_eh_frame=True *)
Definition EH_CFI_entries (self : DWARFInfo) : res (list entry) :=
  match eh_frame_sec self with
  | None => Err (EPy "AttributeError")
  | Some sec =>
      get_entries (mkcfi (d_stream sec) (d_size sec) (d_address sec) (di_structs self) true)
  end.

(* a history of calls on one object: true = EH_CFI_entries(), false = CFI_entries() *)
Definition cfi_calls (self : DWARFInfo) (calls : list bool) : list (res (list entry)) :=
  map (fun eh : bool => if eh then EH_CFI_entries self else CFI_entries self) calls.
