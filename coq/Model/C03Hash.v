(* Model/C03Hash.v — transliteration of elftools/elf/hash.py: ELFHashTable
   (elf_hash, get_number_of_symbols, get_symbol) and GNUHashTable (gnu_hash,
   _matches_bloom, get_symbol, get_number_of_symbols), as REPAIRED by the two
   "fix:" commits of property C03:
     * elf_hash keeps its value on 32 bits (h &= 0x0FFFFFFF instead of h &= ~x
       on an unbounded Python int);
     * GNUHashTable.get_symbol reads every chain word at its absolute offset
       instead of from the stream cursor that self._symboltable.get_symbol moves.
   The hash classes take any object with a get_symbol method as symbol table; the
   model takes the function [getsym].  The stream is the file image [img].
   No proofs here. *)
From PV Require Import Base.Fmt Base.Outcome Base.Prim Base.Enum Gen.ElfLayouts Gen.C09Hash Model.C03Sections.
Local Open Scope list_scope.
Local Open Scope Z_scope.

(* list[i] for the non-negative indices the tables produce; IndexError beyond the end *)
Definition list_index (l : list Z) (i : Z) : res Z :=
  if (0 <=? i) && (i <? zlen l) then Ok (nth (Z.to_nat i) l 0) else Err (EPy "IndexError"%string).

Definition rec_list (r : list (string * fval)) (n : string) : list Z :=
  match rec_get r n with Some (VL zs) => zs | _ => [] end.

(* ------------------------------------------------------------------ ELFHashTable *)
(* elf_hash:  for c in bytearray(name):
                  h = (h << 4) + c
                  x = h & 0xF0000000
                  if x != 0: h ^= (x >> 24)
                  h &= 0x0FFFFFFF                                                  *)
Definition elf_hash_step (h c : Z) : Z :=
  let h := Z.shiftl h 4 + c in
  let x := Z.land h 0xF0000000 in
  let h := if negb (x =? 0) then Z.lxor h (Z.shiftr x 24) else h in
  Z.land h 0x0FFFFFFF.
Definition elf_hash (name : list Z) : Z := fold_left elf_hash_step name 0.

(* the same function before the repair (h &= ~x on an unbounded integer); kept only to
   state what was wrong *)
Definition elf_hash_step_unrepaired (h c : Z) : Z :=
  let h := Z.shiftl h 4 + c in
  let x := Z.land h 0xF0000000 in
  let h := if negb (x =? 0) then Z.lxor h (Z.shiftr x 24) else h in
  Z.land h (Z.lnot x).
Definition elf_hash_unrepaired (name : list Z) : Z := fold_left elf_hash_step_unrepaired name 0.

Record elf_hash_params := mkEHP {
  eh_nbuckets : Z; eh_nchains : Z; eh_buckets : list Z; eh_chains : list Z }.

(* structs.py _create_elf_hash (regenerated: Gen/C09Hash.v holds the machines and the wide layout):
     if self.elfclass == 64 and self.e_machine in ('EM_ALPHA', 'EM_S390'): hash_word = self.Elf_word64
     else: hash_word = self.Elf_word
   self.e_machine is the NAME the header's e_machine decodes to (or the raw number) *)
Definition machine_key (v : Z) : string :=
  match dict_get E005_e_machine v with Some n => n | None => "<raw>"%string end.
Definition hash_wide (is64 : bool) (machine : Z) : bool :=
  existsb (fun p => (fst p =? machine_key machine)%string && Bool.eqb (snd p) is64) gen_hash_wide.
Definition Elf_Hash_layout (wide le is64 : bool) : layout :=
  if wide then gen_Elf_Hash_wide le else gen_Elf_Hash le is64.

(* ELFHashTable.__init__: self.params = struct_parse(self.elffile.structs.Elf_Hash, stream, start_offset) *)
Definition elf_hash_init_w (wide le is64 : bool) (img : list Z) (start_offset : Z) : res elf_hash_params :=
  do p <- struct_parse_at (Elf_Hash_layout wide le is64) img start_offset;
  Ok (mkEHP (rec_z p "nbuckets"%string) (rec_z p "nchains"%string) (rec_list p "buckets"%string) (rec_list p "chains"%string)).
Definition elf_hash_init (le is64 : bool) (img : list Z) (start_offset : Z) : res elf_hash_params :=
  do p <- struct_parse_at (gen_Elf_Hash le is64) img start_offset;
  Ok (mkEHP (rec_z p "nbuckets"%string) (rec_z p "nchains"%string) (rec_list p "buckets"%string) (rec_list p "chains"%string)).

(* ELFHashTable.get_number_of_symbols: return self.params['nchains'] *)
Definition elf_hash_number_of_symbols (P : elf_hash_params) : Z := eh_nchains P.

(*   while symndx != 0:
         sym = self._symboltable.get_symbol(symndx)
         if sym.name == name: return sym
         symndx = self.params['chains'][symndx]
     return None
   The loop has no bound in Python (a cyclic chain never ends): fuel. *)
Fixpoint elf_hash_walk (getsym : Z -> res symbol) (chains : list Z) (name : list Z)
                       (fuel : nat) (symndx : Z) : res (option symbol) :=
  match fuel with
  | O => Err EFuel
  | S f =>
      if symndx =? 0 then Ok None
      else
        do sym <- getsym symndx;
        if bytes_eq (fst sym) name then Ok (Some sym)
        else do nxt <- list_index chains symndx;
             elf_hash_walk getsym chains name f nxt
  end.

(* ELFHashTable.get_symbol(name):
     if self.params['nbuckets'] == 0: return None
     hval = self.elf_hash(name) % self.params['nbuckets']
     symndx = self.params['buckets'][hval]
     (walk)                                                                         *)
Definition elf_hash_get_symbol (getsym : Z -> res symbol) (P : elf_hash_params) (name : list Z)
  : res (option symbol) :=
  if eh_nbuckets P =? 0 then Ok None
  else
    let hval := elf_hash name mod eh_nbuckets P in
    do symndx <- list_index (eh_buckets P) hval;
    elf_hash_walk getsym (eh_chains P) name (S (length (eh_chains P))) symndx.

(* ------------------------------------------------------------------ GNUHashTable *)
(* gnu_hash: h = 5381; for c in bytearray(key): h = h * 33 + c; return h & 0xFFFFFFFF *)
Definition gnu_hash_m (key : list Z) : Z :=
  Z.land (fold_left (fun h c => h * 33 + c) key 5381) 0xFFFFFFFF.

Record gnu_hash_params := mkGHP {
  gh_nbuckets : Z; gh_symoffset : Z; gh_bloom_size : Z; gh_bloom_shift : Z;
  gh_bloom : list Z; gh_buckets : list Z;
  gh_chain_pos : Z }.

(* GNUHashTable.__init__:
     self.params = struct_parse(self.elffile.structs.Gnu_Hash, stream, start_offset)
     self._wordsize = Elf_word('').sizeof(); self._xwordsize = Elf_xword('').sizeof()
     self._chain_pos = start_offset + 4 * self._wordsize +
         self.params['bloom_size'] * self._xwordsize + self.params['nbuckets'] * self._wordsize *)
Definition gnu_wordsize : Z := 4.
Definition gnu_xwordsize (is64 : bool) : Z := if is64 then 8 else 4.
Definition gnu_hash_init (le is64 : bool) (img : list Z) (start_offset : Z) : res gnu_hash_params :=
  do p <- struct_parse_at (gen_Gnu_Hash le is64) img start_offset;
  let chain_pos := start_offset + 4 * gnu_wordsize + rec_z p "bloom_size"%string * gnu_xwordsize is64
                   + rec_z p "nbuckets"%string * gnu_wordsize in
  Ok (mkGHP (rec_z p "nbuckets"%string) (rec_z p "symoffset"%string) (rec_z p "bloom_size"%string) (rec_z p "bloom_shift"%string)
            (rec_list p "bloom"%string) (rec_list p "buckets"%string) chain_pos).

(* struct.unpack(hash_format, stream.read(self._wordsize))[0] with the stream at the chain word
   of symbol [symidx]:  self._chain_pos + (symidx - self.params['symoffset']) * self._wordsize.
   A short read makes struct.unpack raise struct.error. *)
Definition read_chain_word (le : bool) (img : list Z) (P : gnu_hash_params) (symidx : Z) : res Z :=
  match read_uint le 4 img (gh_chain_pos P + (symidx - gh_symoffset P) * gnu_wordsize) with
  | Some v => Ok v
  | None => Err (EPy "error"%string)
  end.

(* max(list): ValueError on an empty list *)
Definition py_max (l : list Z) : res Z :=
  match l with
  | [] => Err (EPy "ValueError"%string)
  | x :: r => Ok (fold_left Z.max r x)
  end.

(*   while True:
         cur_hash = (chain word of max_idx)
         if cur_hash & 1: return max_idx + 1
         max_idx += 1
   The reads are sequential from seek(max_chain_pos), i.e. the chain words of max_idx,
   max_idx + 1, ...; the loop ends at a set bit 0 or at end of file (struct.error). *)
Fixpoint gnu_count_walk (read_chain : Z -> res Z) (fuel : nat) (max_idx : Z) : res Z :=
  match fuel with
  | O => Err EFuel
  | S f =>
      do cur_hash <- read_chain max_idx;
      if negb (Z.land cur_hash 1 =? 0) then Ok (max_idx + 1)
      else gnu_count_walk read_chain f (max_idx + 1)
  end.

(* GNUHashTable.get_number_of_symbols:
     max_idx = max(self.params['buckets'])
     if max_idx < self.params['symoffset']: return self.params['symoffset']
     (seek to the chain word of max_idx and walk)                                  *)
Definition gnu_hash_number_of_symbols (read_chain : Z -> res Z) (fuel : nat) (P : gnu_hash_params) : res Z :=
  do max_idx <- py_max (gh_buckets P);
  if max_idx <? gh_symoffset P then Ok (gh_symoffset P)
  else gnu_count_walk read_chain fuel max_idx.

(* GNUHashTable._matches_bloom(H1):
     arch_bits = self.elffile.elfclass
     H2 = H1 >> self.params['bloom_shift']
     word_idx = int(H1 / arch_bits) % self.params['bloom_size']      (exact: H1 < 2**32)
     BITMASK = (1 << (H1 % arch_bits)) | (1 << (H2 % arch_bits))
     return (self.params['bloom'][word_idx] & BITMASK) == BITMASK                  *)
Definition matches_bloom (is64 : bool) (P : gnu_hash_params) (H1 : Z) : res bool :=
  let arch_bits := if is64 then 64 else 32 in
  let H2 := Z.shiftr H1 (gh_bloom_shift P) in
  if gh_bloom_size P =? 0 then Err (EPy "ZeroDivisionError"%string)
  else
    let word_idx := (H1 / arch_bits) mod gh_bloom_size P in
    let BITMASK := Z.lor (Z.shiftl 1 (H1 mod arch_bits)) (Z.shiftl 1 (H2 mod arch_bits)) in
    do w <- list_index (gh_bloom P) word_idx;
    Ok (Z.land w BITMASK =? BITMASK).

(*   while True:
         cur_hash = (chain word of symidx, read at its absolute offset)
         if cur_hash | 1 == namehash | 1:
             symbol = self._symboltable.get_symbol(symidx)
             if name == symbol.name: return symbol
         if cur_hash & 1: break
         symidx += 1
     return None                                                                    *)
Fixpoint gnu_hash_walk (read_chain : Z -> res Z) (getsym : Z -> res symbol) (name : list Z)
                       (namehash : Z) (fuel : nat) (symidx : Z) : res (option symbol) :=
  match fuel with
  | O => Err EFuel
  | S f =>
      do cur_hash <- read_chain symidx;
      do hit <- (if Z.lor cur_hash 1 =? Z.lor namehash 1 then
                   do symbol <- getsym symidx;
                   if bytes_eq name (fst symbol) then Ok (Some symbol) else Ok None
                 else Ok None);
      match hit with
      | Some symbol => Ok (Some symbol)
      | None =>
          if negb (Z.land cur_hash 1 =? 0) then Ok None
          else gnu_hash_walk read_chain getsym name namehash f (symidx + 1)
      end
  end.

(* GNUHashTable.get_symbol(name):
     namehash = self.gnu_hash(name)
     if not self._matches_bloom(namehash): return None
     symidx = self.params['buckets'][namehash % self.params['nbuckets']]
     if symidx < self.params['symoffset']: return None
     (walk)                                                                         *)
Definition gnu_hash_get_symbol (is64 : bool) (read_chain : Z -> res Z) (getsym : Z -> res symbol)
                               (fuel : nat) (P : gnu_hash_params) (name : list Z) : res (option symbol) :=
  let namehash := gnu_hash_m name in
  do m <- matches_bloom is64 P namehash;
  if negb m then Ok None
  else if gh_nbuckets P =? 0 then Err (EPy "ZeroDivisionError"%string)
  else
    do symidx <- list_index (gh_buckets P) (namehash mod gh_nbuckets P);
    if symidx <? gh_symoffset P then Ok None
    else gnu_hash_walk read_chain getsym name namehash fuel symidx.

(* ------------------------------------------------------------------ the section classes:
   ELFHashSection / GNUHashSection over a file image and the linked symbol table section *)
Definition elf_hash_section_get_symbol (img : list Z) (c : symcfg) (hash_off : Z) (name : list Z)
  : res (option symbol) :=
  do P <- elf_hash_init (c_le c) (c_is64 c) img hash_off;
  elf_hash_get_symbol (get_symbol img c) P name.
Definition elf_hash_section_number_of_symbols (img : list Z) (c : symcfg) (hash_off : Z) : res Z :=
  do P <- elf_hash_init (c_le c) (c_is64 c) img hash_off;
  Ok (elf_hash_number_of_symbols P).

(* every iteration of either GNU loop reads 4 bytes at a strictly larger offset, so the
   number of iterations is below the number of words in the file *)
Definition gnu_fuel (img : list Z) : nat := S (length img).

Definition gnu_hash_section_get_symbol (img : list Z) (c : symcfg) (hash_off : Z) (name : list Z)
  : res (option symbol) :=
  do P <- gnu_hash_init (c_le c) (c_is64 c) img hash_off;
  gnu_hash_get_symbol (c_is64 c) (read_chain_word (c_le c) img P) (get_symbol img c) (gnu_fuel img) P name.
Definition gnu_hash_section_number_of_symbols (img : list Z) (c : symcfg) (hash_off : Z) : res Z :=
  do P <- gnu_hash_init (c_le c) (c_is64 c) img hash_off;
  gnu_hash_number_of_symbols (read_chain_word (c_le c) img P) (gnu_fuel img) P.

(* ------------------------------------------------------------------ the stream cursor in the GNU count walk.
   get_number_of_symbols as the code runs it: ONE seek to the chain word of max_idx, then 4-byte
   reads at the cursor.  It is a plain method (no yield), so nothing can move the stream between
   its reads; [cur] is the cursor inside the loop. *)
Fixpoint gnu_count_walk_cur (le : bool) (img : list Z) (fuel : nat) (cur : Z) (max_idx : Z) : res Z :=
  match fuel with
  | O => Err EFuel
  | S f =>
      match read_uint le 4 img cur with
      | None => Err (EPy "error"%string)
      | Some cur_hash =>
          if negb (Z.land cur_hash 1 =? 0) then Ok (max_idx + 1)
          else gnu_count_walk_cur le img f (cur + gnu_wordsize) (max_idx + 1)
      end
  end.
Definition gnu_hash_number_of_symbols_cur (le : bool) (img : list Z) (fuel : nat) (P : gnu_hash_params) : res Z :=
  do max_idx <- py_max (gh_buckets P);
  if max_idx <? gh_symoffset P then Ok (gh_symoffset P)
  else gnu_count_walk_cur le img fuel (gh_chain_pos P + (max_idx - gh_symoffset P) * gnu_wordsize) max_idx.

(* ------------------------------------------------------------------ the section classes of a file whose
   header says e_machine = [machine]: only the SysV table's entry width depends on it; GNUHashTable
   reads 32-bit words (Elf_word) on every machine *)
Definition elf_hash_section_get_symbol_m (machine : Z) (img : list Z) (c : symcfg) (hash_off : Z) (name : list Z)
  : res (option symbol) :=
  do P <- elf_hash_init_w (hash_wide (c_is64 c) machine) (c_le c) (c_is64 c) img hash_off;
  elf_hash_get_symbol (get_symbol img c) P name.
Definition elf_hash_section_number_of_symbols_m (machine : Z) (img : list Z) (c : symcfg) (hash_off : Z) : res Z :=
  do P <- elf_hash_init_w (hash_wide (c_is64 c) machine) (c_le c) (c_is64 c) img hash_off;
  Ok (elf_hash_number_of_symbols P).
